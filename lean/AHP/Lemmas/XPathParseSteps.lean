/-
  Helper lemmas for the C14 round trip, step level: the bracket scanner (`BRACKETED_SUBSET_RE`) on the
  canonical text of a predicate, `NEXT_TAG_OPERATION_RE` on the head of a rendered step, and the two
  loops of `parseXPathStrIntoOperations`.
-/
import AHP.Lemmas.XPathParseBody
namespace AHP.XPath

variable {N : Type}
set_option linter.unusedSimpArgs false

/-! ### The bracket scanner -/

/-- not `]`, not a quote -/
def plainB (c : Char) : Bool := c != ']' && c != '"' && c != '\''

/-- Texts the bracket scanner walks through item by item: ordinary characters and closed strings. -/
inductive BSafe : Str → Prop
  | nil : BSafe []
  | plain (c : Char) (s : Str) : plainB c = true → BSafe s → BSafe (c :: s)
  | quoted (q : Char) (body s : Str) : (q = '"' ∨ q = '\'') → body.contains q = false → endsBs false body = false →
      BSafe s → BSafe (q :: (body ++ q :: s))

theorem BSafe.append {a b : Str} (ha : BSafe a) (hb : BSafe b) : BSafe (a ++ b) := by
  induction ha with
  | nil => exact hb
  | plain c s hc _ ih => exact .plain c _ hc ih
  | quoted q body s hq h1 h2 _ ih =>
    rw [List.cons_append, List.append_assoc, List.cons_append]
    exact .quoted q body _ hq h1 h2 ih

theorem BSafe.of_all {s : Str} (h : s.all plainB = true) : BSafe s := by
  induction s with
  | nil => exact .nil
  | cons c r ih =>
    simp only [List.all_cons, Bool.and_eq_true] at h
    exact .plain c r h.1 (ih h.2)

theorem scanQ_body (q : Char) (body rest : Str) (bs : Bool) (i r : Str) (hq : body.contains q = false)
    (he : endsBs bs body = false) (hs : scanB rest = some (i, r)) :
    scanQ q bs (body ++ q :: rest) = some (body ++ q :: i, r) := by
  induction body generalizing bs with
  | nil =>
    simp only [endsBs] at he
    simp [scanQ, he, hs, consFst]
  | cons c t ih =>
    simp only [List.contains_cons, Bool.or_eq_false_iff] at hq
    have hc : c ≠ q := by
      intro h; subst h; simp at hq
    simp only [List.cons_append, scanQ, hc, if_false]
    rw [ih _ (by simpa using hq.2) (by simpa [endsBs] using he)]
    rfl

theorem scanB_safe {s : Str} (h : BSafe s) (t i r : Str) (ht : scanB t = some (i, r)) :
    scanB (s ++ t) = some (s ++ i, r) := by
  induction h with
  | nil => simpa using ht
  | plain c s hc _ ih =>
    have hc' : c ≠ ']' ∧ c ≠ '"' ∧ c ≠ '\'' := by simpa [plainB, and_assoc] using hc
    simp [scanB, hc'.1, hc'.2.1, hc'.2.2, ih, consFst]
  | quoted q body s hq h1 h2 _ ih =>
    have hq' : q ≠ ']' := by rcases hq with rfl | rfl <;> decide
    have hqq : (q = '"' || q = '\'') = true := by rcases hq with rfl | rfl <;> decide
    have := scanQ_body q body (s ++ t) false _ _ h1 h2 ih
    simp only [List.cons_append, List.append_assoc]
    rw [scanB]
    simp only [hq', if_false]
    simp only [Bool.or_eq_true, decide_eq_true_eq] at hqq
    simp [hqq, this]

theorem bracket_safe {s : Str} (h : BSafe s) (rest : Str) :
    bracket ('[' :: (s ++ ']' :: rest)) = some (s, skipSp rest) := by
  have := scanB_safe h (']' :: rest) [] rest (by simp [scanB])
  simp [bracket, skipSp, isSpTab, List.dropWhile, this]

theorem plainB_digitChar : ∀ d : Fin 10, plainB (digitChar d) = true := by decide

theorem plainB_of_attrChar {c : Char} (h : isAttrChar c = true) : plainB c = true := by
  cases hp : plainB c with
  | true => rfl
  | false =>
    have : c = ']' ∨ c = '"' ∨ c = '\'' := by
      simp only [plainB, Bool.and_eq_false_iff, bne_eq_false_iff_eq] at hp
      rcases hp with (hp | hp) | hp
      · exact .inl hp
      · exact .inr (.inl hp)
      · exact .inr (.inr hp)
    rcases this with rfl | rfl | rfl <;> revert h <;> decide

theorem numLit_bsafe (l : NumLit) : BSafe l.text := by
  apply BSafe.of_all
  obtain ⟨neg, ip, fp⟩ := l
  simp only [NumLit.text, List.all_append, Bool.and_eq_true]
  refine ⟨⟨?_, ?_⟩, ?_⟩
  · cases neg <;> simp [plainB]
  · simp only [List.all_map, List.all_eq_true]
    intro d _
    exact plainB_digitChar d
  · cases fp with
    | none => rfl
    | some f =>
      simp only [List.all_cons, Bool.and_eq_true, List.all_map, List.all_eq_true]
      exact ⟨by decide, fun d _ => plainB_digitChar d⟩

theorem opText_bsafe (o : Op) : BSafe (opText o) := by
  apply BSafe.of_all
  rcases o with (_ | _ | _ | _ | _ | _) | (_ | _ | _ | _ | _ | _) | (_ | _) <;> decide

mutual
theorem render_bsafe (nm : Num N) : ∀ (p : S N), S.wf nm p → BSafe (renderS p)
  | .num l _, _ => numLit_bsafe l
  | .str s, h => by
    simp only [S.wf] at h
    obtain ⟨h1, _, h3⟩ := strOk_facts h
    simp only [renderS]
    exact .quoted _ s [] (quoteOf_cases s) h1 h3 .nil
  | .attr n, h => by
    simp only [S.wf] at h
    simp only [renderS]
    refine .plain '@' n (by decide) (BSafe.of_all ?_)
    cases n with
    | nil => simp [attrNameOk] at h
    | cons c r =>
      simp only [attrNameOk, Bool.or_eq_true, Bool.and_eq_true, decide_eq_true_eq, List.isEmpty_iff] at h
      rcases h with ⟨rfl, rfl⟩ | ⟨h1, h2⟩
      · decide
      · simp only [List.all_cons, Bool.and_eq_true, List.all_eq_true]
        refine ⟨plainB_of_attrChar (isAttrChar_of_nameChar (isNameChar_of_nameStart h1)), ?_⟩
        intro x hx
        exact plainB_of_attrChar (List.all_eq_true.1 h2 x hx)
  | .text, _ => BSafe.of_all (by simp [renderS, plainB])
  | .last, _ => BSafe.of_all (by simp [renderS, plainB])
  | .position, _ => BSafe.of_all (by simp [renderS, plainB])
  | .nspace0, _ => BSafe.of_all (by simp [renderS, plainB])
  | .group p, h => by
    have hp := render_bsafe nm p (by simpa [S.wf] using h)
    simp only [renderS]
    exact .plain '(' _ (by decide) (hp.append (BSafe.of_all (by decide)))
  | .nspace1 a, h => by
    have hp := render_bsafe nm a (by simpa [S.wf] using h)
    simp only [renderS]
    exact (BSafe.of_all (by decide)).append (hp.append (BSafe.of_all (by decide)))
  | .contains a b, h => by
    have hab : S.wf nm a ∧ S.wf nm b := by simpa [S.wf] using h
    have ha := render_bsafe nm a hab.1
    have hb := render_bsafe nm b hab.2
    simp only [renderS]
    exact (BSafe.of_all (by decide)).append (ha.append (.plain ',' _ (by decide) (.plain ' ' _ (by decide)
      (hb.append (BSafe.of_all (by decide))))))
  | .concat args, h => by
    have hargs : 2 ≤ args.length ∧ S.wfs nm args := by simpa [S.wf] using h
    have ha := renderArgs_bsafe nm args hargs.2
    simp only [renderS]
    exact (BSafe.of_all (by decide)).append (ha.append (BSafe.of_all (by decide)))
  | .bin o l r, h => by
    have hlr : S.wf nm l ∧ S.wf nm r := by simpa [S.wf] using h
    have hl := render_bsafe nm l hlr.1
    have hr := render_bsafe nm r hlr.2
    simp only [renderS]
    exact hl.append (.plain ' ' _ (by decide) ((opText_bsafe o).append (.plain ' ' _ (by decide) hr)))
theorem renderArgs_bsafe (nm : Num N) : ∀ (ps : List (S N)), S.wfs nm ps → BSafe (renderArgs ps)
  | [], _ => .nil
  | p :: ps, h => by
    have hh : S.wf nm p ∧ S.wfs nm ps := by simpa [S.wfs] using h
    have hp := render_bsafe nm p hh.1
    have hps := renderArgs_bsafe nm ps hh.2
    simp only [renderArgs]
    apply hp.append
    split
    · exact .nil
    · exact .plain ',' _ (by decide) (.plain ' ' _ (by decide) hps)
end

/-! ### `NEXT_TAG_OPERATION_RE` on the head of a rendered step -/

/-- What follows the tag name of a rendered step: nothing, a predicate or the next step. -/
def StepRest (rest : Str) : Prop := (rest = [] ∨ ∃ c r, rest = c :: r ∧ (c = '[' ∨ c = '/')) ∧ EndsTight rest

theorem stepRest_head {rest : Str} (h : StepRest rest) (p : Char → Bool) (h1 : p '[' = false) (h2 : p '/' = false) :
    ∀ c r, rest = c :: r → p c = false := by
  intro c r hr
  rcases h.1 with h0 | ⟨c', r', hr', hc⟩
  · rw [h0] at hr; cases hr
  · rw [hr'] at hr
    obtain ⟨rfl, _⟩ := List.cons.inj hr
    rcases hc with rfl | rfl <;> assumption

theorem tagName_render (name rest : Str) (hn : tagNameOk name = true) (hr : StepRest rest) :
    tagName (name ++ rest) = some (name, rest) := by
  cases name with
  | nil => simp [tagNameOk] at hn
  | cons c r =>
    simp only [tagNameOk, Bool.or_eq_true, Bool.and_eq_true, decide_eq_true_eq, List.isEmpty_iff] at hn
    rcases hn with ⟨rfl, rfl⟩ | ⟨h1, h2⟩
    · simp [tagName]
    · have hc : c ≠ '*' := by
        intro h; subst h; revert h1; decide
      have hstop := stepRest_head hr isNameChar (by decide) (by decide)
      simp [tagName, hc, h1, takeWhile_append_stop h2 hstop, dropWhile_append_stop h2 hstop]

theorem suffix_render {rest : Str} (hr : StepRest rest) : suffix rest = (false, rest) := by
  rcases hr.1 with rfl | ⟨c, r, rfl, hc⟩
  · simp [suffix]
  · rcases hc with rfl | rfl <;> simp [suffix]

/-- a word of letters and dashes matched against a tag name never stops in front of a colon -/
theorem wordCI_name (w : Str) (hw : ∀ x ∈ w, x ≠ '[' ∧ x ≠ '/') : ∀ (name rest : Str), (∀ c ∈ name, c ≠ ':') → StepRest rest →
    ∀ r', wordCI w (name ++ rest) = some r' → ∀ c t, r' = c :: t → c ≠ ':' := by
  induction w with
  | nil =>
    intro name rest hn hr r' h c t hct
    simp only [wordCI, Option.some.injEq] at h
    subst h
    cases name with
    | cons d ds =>
      obtain ⟨rfl, _⟩ := List.cons.inj hct
      exact hn _ (by simp)
    | nil =>
      have := stepRest_head hr (· = ':') (by decide) (by decide) c t hct
      simpa using this
  | cons x ws ih =>
    intro name rest hn hr r' h c t hct
    have hws : ∀ y ∈ ws, y ≠ '[' ∧ y ≠ '/' := fun y hy => hw y (List.mem_cons_of_mem _ hy)
    cases name with
    | cons d ds =>
      simp only [List.cons_append, wordCI] at h
      split at h
      · exact ih hws ds rest (fun c hc => hn c (List.mem_cons_of_mem _ hc)) hr r' h c t hct
      · cases h
    | nil =>
      rcases hr.1 with rfl | ⟨d, r, rfl, hd⟩
      · simp [wordCI] at h
      · simp only [List.nil_append, wordCI] at h
        have hx := hw x (by simp)
        split at h
        · next heq =>
          rcases hd with rfl | rfl
          · exact absurd heq.symm (by simpa [lowerChar] using hx.1)
          · exact absurd heq.symm (by simpa [lowerChar] using hx.2)
        · cases h

theorem axisWord_plain : ∀ a : AxisTok, ∀ x ∈ a.word, x ≠ '[' ∧ x ≠ '/' := by
  intro a
  cases a <;> decide

theorem axisName_none (u : Str) (as : List AxisTok)
    (h : ∀ a ∈ as, ∀ r', wordCI a.word u = some r' → ∀ c t, r' = c :: t → c ≠ ':') : axisName u as = none := by
  induction as with
  | nil => rfl
  | cons a as ih =>
    unfold axisName
    split
    · next r heq => exact absurd rfl (h a (by simp) _ heq ':' _ rfl)
    · exact ih (fun b hb => h b (List.mem_cons_of_mem _ hb))

theorem tagNameOk_no_colon {name : Str} (h : tagNameOk name = true) : ∀ c ∈ name, c ≠ ':' := by
  cases name with
  | nil => simp [tagNameOk] at h
  | cons c r =>
    simp only [tagNameOk, Bool.or_eq_true, Bool.and_eq_true, decide_eq_true_eq, List.isEmpty_iff] at h
    rcases h with ⟨rfl, rfl⟩ | ⟨h1, h2⟩
    · intro c hc; simp at hc; subst hc; decide
    · intro x hx
      have : isNameChar x = true := by
        rcases List.mem_cons.1 hx with rfl | hx
        · exact isNameChar_of_nameStart h1
        · exact List.all_eq_true.1 h2 x hx
      intro e; subst e; revert this; decide

theorem tagNameOk_head {name : Str} (h : tagNameOk name = true) :
    ∃ c r, name = c :: r ∧ isSpTab c = false ∧ c ≠ '/' ∧ isWs c = false := by
  cases name with
  | nil => simp [tagNameOk] at h
  | cons c r =>
    refine ⟨c, r, rfl, ?_⟩
    simp only [tagNameOk, Bool.or_eq_true, Bool.and_eq_true, decide_eq_true_eq, List.isEmpty_iff] at h
    rcases h with ⟨rfl, rfl⟩ | ⟨h1, _⟩
    · decide
    · have hw := isWs_of_attrChar (isAttrChar_of_nameChar (isNameChar_of_nameStart h1))
      refine ⟨isWs_isSpTab hw, ?_, hw⟩
      intro e; subst e; revert h1; decide

theorem axisName_render (a : Axis) (name rest : Str) (hn : tagNameOk name = true) (hr : StepRest rest) :
    axisName (axisText a ++ (name ++ rest)) AxisTok.all = some (AxisTok.ofAxis a, name, rest) := by
  have ht := tagName_render name rest hn hr
  cases a <;> simp [axisName, AxisTok.all, AxisTok.word, axisText, wordCI, lowerChar, ht, AxisTok.ofAxis]

/-- `NEXT_TAG_OPERATION_RE` and the name handling on `/axis::name…` or `//name…`. -/
theorem tagOp_render (dbl : Bool) (axis : Option Axis) (name rest : Str) (hn : tagNameOk name = true) (hr : StepRest rest) :
    tagOp ((if dbl then ['/', '/'] else ['/']) ++ (axisPrefix axis ++ (name ++ rest)))
      = some (dbl, axis.map AxisTok.ofAxis, lower name, rest) := by
  obtain ⟨c, r, hcr, hsp, hsl, _⟩ := tagNameOk_head hn
  have hcore : ∃ c' r', (axisPrefix axis ++ (name ++ rest)) = c' :: r' ∧ isSpTab c' = false ∧ c' ≠ '/' := by
    cases axis with
    | none => exact ⟨c, r ++ rest, by simp [hcr, axisPrefix], hsp, hsl⟩
    | some a => cases a <;> exact ⟨_, _, rfl, by decide, by decide⟩
  obtain ⟨c', r', hcr', hsp', hsl'⟩ := hcore
  have hax : tagCore (c' :: r') = some (axis.map AxisTok.ofAxis, name, rest) := by
    rw [← hcr']
    cases axis with
    | some a => simp [tagCore, axisPrefix, axisName_render a name rest hn hr]
    | none =>
      have hnone : axisName (name ++ rest) AxisTok.all = none :=
        axisName_none _ _ (fun a _ r' h => wordCI_name a.word (axisWord_plain a) name rest (tagNameOk_no_colon hn) hr r' h)
      simp [tagCore, axisPrefix, hnone, tagName_render name rest hn hr]
  rw [hcr']
  have hlead : leadIn ((if dbl then ['/', '/'] else ['/']) ++ c' :: r') = some (dbl, c' :: r') := by
    cases dbl with
    | true => simp [leadIn, skipSp, isSpTab, List.dropWhile]
    | false =>
      simp only [Bool.false_eq_true, if_false, List.cons_append, List.nil_append, leadIn,
        skipSp_cons_of_not (show isSpTab '/' = false by decide)]
      split
      · next r heq => exact absurd (List.cons.inj heq).1 hsl'
      · rfl
  simp [tagOp, hlead, skipSp_cons_of_not hsp', hax, suffix_render hr, finalName]

/-! ### The loops of `parseXPathStrIntoOperations` -/

theorem bracket_none_of_stepRest {rest : Str} (h : rest = [] ∨ ∃ r, rest = '/' :: r) : bracket rest = none := by
  rcases h with rfl | ⟨r, rfl⟩
  · rfl
  · simp [bracket, skipSp, isSpTab, List.dropWhile]

/-- What follows a whole step: nothing or the next step. -/
def ExprRest (rest : Str) : Prop := (rest = [] ∨ ∃ r, rest = '/' :: r) ∧ EndsTight rest

theorem ExprRest.stepRest {rest : Str} (h : ExprRest rest) : StepRest rest := by
  refine ⟨?_, h.2⟩
  rcases h.1 with h0 | ⟨r, hr⟩
  · exact .inl h0
  · exact .inr ⟨'/', r, hr, .inr rfl⟩

theorem renderPreds_endsTight (ps : List (S N)) {rest : Str} (h : EndsTight rest) : EndsTight (renderPreds ps ++ rest) := by
  induction ps with
  | nil => simpa [renderPreds] using h
  | cons p ps ih =>
    simp only [renderPreds, List.cons_append, List.append_assoc]
    rw [show '[' :: (renderS p ++ ']' :: (renderPreds ps ++ rest)) = ('[' :: renderS p) ++ ']' :: (renderPreds ps ++ rest) from rfl,
      endsTight_append_cons]
    cases hq : renderPreds ps ++ rest with
    | nil => exact endsTight_single (by decide)
    | cons d t => rw [hq] at ih; exact endsTight_cons_of ih (by simp)

theorem renderPreds_stepRest (ps : List (S N)) {rest : Str} (h : ExprRest rest) : StepRest (renderPreds ps ++ rest) := by
  refine ⟨?_, renderPreds_endsTight ps h.2⟩
  cases ps with
  | nil => exact h.stepRest.1
  | cons p ps => exact .inr ⟨'[', _, rfl, .inl rfl⟩

theorem strip_stepRest {s : Str} (h : StepRest s) : strip s = s := by
  rcases h.1 with rfl | ⟨c, r, rfl, hc⟩
  · rfl
  · exact strip_tight (by rcases hc with rfl | rfl <;> decide) h.2

theorem renderPreds_length (ps : List (S N)) : ps.length ≤ (renderPreds ps).length := by
  induction ps with
  | nil => simp
  | cons p ps ih => simp only [renderPreds, List.length_cons, List.length_append]; omega

/-- the flat forms of the predicates of a step -/
def flatPreds (ps : List (S N)) : List (List (BE N)) := (S.toPs ps).map flatten

theorem parsePreds_render (nm : Num N) : ∀ (ps : List (S N)) (fuel : Nat) (rest : Str), S.wfs nm ps → ExprRest rest →
    ps.length < fuel → parsePreds nm fuel (renderPreds ps ++ rest) = some (flatPreds ps, rest)
  | [], fuel, rest, _, hr, hf => by
    obtain ⟨k, rfl⟩ : ∃ k, fuel = k + 1 := ⟨fuel - 1, by omega⟩
    simp [renderPreds, parsePreds, bracket_none_of_stepRest hr.1, flatPreds, S.toPs]
  | p :: ps, fuel, rest, hw, hr, hf => by
    have hh : S.wf nm p ∧ S.wfs nm ps := by simpa [S.wfs] using hw
    obtain ⟨k, rfl⟩ : ∃ k, fuel = k + 1 := ⟨fuel - 1, by omega⟩
    have hok := renderOK nm p hh.1
    have ih := parsePreds_render nm ps k rest hh.2 hr (by simp only [List.length_cons] at hf; omega)
    have hb := bracket_safe (render_bsafe nm p hh.1) (renderPreds ps ++ rest)
    have hsr := renderPreds_stepRest ps hr
    have hsk : skipSp (renderPreds ps ++ rest) = renderPreds ps ++ rest := by
      rcases hsr.1 with h0 | ⟨c, r, hcr, hc⟩
      · rw [h0]; rfl
      · rw [hcr]; exact skipSp_cons_of_not (by rcases hc with rfl | rfl <;> decide)
    obtain ⟨c, r, hcr, hcs⟩ := hok.head
    have hst : strip (renderS p) = renderS p := by
      have hE := hok.last
      rw [hcr] at hE ⊢
      exact strip_tight (startOk_facts hcs).1 hE
    have hne : (renderS p).isEmpty = false := by rw [hcr]; rfl
    simp only [renderPreds, List.cons_append, List.append_assoc, parsePreds, hb, hsk, hst, hne, strip_stepRest hsr,
      parseBody_render nm p hh.1, ih]
    simp [flatPreds, S.toPs]

theorem renderStep_shape (s : SurfStep N) : ∃ r, renderStep s = '/' :: r := by
  unfold renderStep
  cases s.dbl <;> exact ⟨_, rfl⟩

theorem renderExpr_exprRest (nm : Num N) : ∀ (ss : List (SurfStep N)), (∀ s ∈ ss, s.wf nm) → ExprRest (renderExpr ss)
  | [], _ => ⟨.inl rfl, by intro c hc; simp [renderExpr] at hc⟩
  | s :: ss, h => by
    have ih := renderExpr_exprRest nm ss (fun x hx => h x (List.mem_cons_of_mem _ hx))
    have hs := h s (by simp)
    obtain ⟨r, hr⟩ := renderStep_shape s
    refine ⟨.inr ⟨r ++ renderExpr ss, by simp [renderExpr, hr]⟩, ?_⟩
    simp only [renderExpr, renderStep, List.append_assoc]
    obtain ⟨c, t, hct, _, _, hws⟩ := tagNameOk_head hs.1
    have hpe := renderPreds_endsTight s.preds ih.2
    -- the text ends with the predicates and the following steps when there are any, else with the name
    have hname : EndsTight (s.name ++ (renderPreds s.preds ++ renderExpr ss)) := by
      cases hq : renderPreds s.preds ++ renderExpr ss with
      | cons d u => rw [hq] at hpe; exact (endsTight_append_cons _ d u).2 hpe
      | nil =>
        simp only [List.append_nil]
        intro x hx
        have hmem := List.mem_of_getLast? hx
        have hno := hs.1
        rw [hct] at hno hmem
        simp only [tagNameOk, Bool.or_eq_true, Bool.and_eq_true, decide_eq_true_eq, List.isEmpty_iff] at hno
        rcases hno with ⟨rfl, rfl⟩ | ⟨h1, h2⟩
        · simp at hmem; subst hmem; decide
        · rcases List.mem_cons.1 hmem with rfl | hm
          · exact hws
          · exact isWs_of_attrChar (isAttrChar_of_nameChar (List.all_eq_true.1 h2 x hm))
    rw [hct] at hname
    rw [hct]
    simp only [List.cons_append] at hname ⊢
    rw [← List.append_assoc, endsTight_append_cons]
    exact hname

theorem renderStep_length (s : SurfStep N) : 1 ≤ (renderStep s).length := by
  obtain ⟨r, hr⟩ := renderStep_shape s
  rw [hr]; simp

/-- the flat, uncompiled form of a surface expression, in the tokenizer's types -/
def flatSurf (ss : List (SurfStep N)) : List (PStep N) :=
  (flattenSteps (ss.map SurfStep.toSStep)).map PStep.ofStep

theorem flatSurf_cons (s : SurfStep N) (ss : List (SurfStep N)) :
    flatSurf (s :: ss) = { dbl := s.dbl, axis := s.axis.map AxisTok.ofAxis, name := lower s.name, preds := flatPreds s.preds }
      :: flatSurf ss := by
  simp [flatSurf, flattenSteps, SurfStep.toSStep, PStep.ofStep, flatPreds]

theorem parseSteps_render (nm : Num N) : ∀ (ss : List (SurfStep N)) (fuel : Nat), ss ≠ [] → (∀ s ∈ ss, s.wf nm) →
    ss.length < fuel → parseSteps nm fuel (renderExpr ss) = some (flatSurf ss)
  | [], _, h, _, _ => absurd rfl h
  | s :: ss, fuel, _, hw, hf => by
    obtain ⟨k, rfl⟩ : ∃ k, fuel = k + 1 := ⟨fuel - 1, by omega⟩
    have hs := hw s (by simp)
    have hrest := renderExpr_exprRest nm ss (fun x hx => hw x (List.mem_cons_of_mem _ hx))
    have hsr := renderPreds_stepRest s.preds hrest
    have htag := tagOp_render s.dbl s.axis s.name (renderPreds s.preds ++ renderExpr ss) hs.1 hsr
    have hpl := renderPreds_length s.preds
    have hpp := parsePreds_render nm s.preds ((renderPreds s.preds ++ renderExpr ss).length + 1) (renderExpr ss) hs.2 hrest
      (by simp only [List.length_append]; omega)
    have htext : renderExpr (s :: ss) = (if s.dbl then ['/', '/'] else ['/']) ++ (axisPrefix s.axis ++ (s.name ++ (renderPreds s.preds ++ renderExpr ss))) := by
      simp [renderExpr, renderStep, List.append_assoc]
    rw [htext]
    simp only [parseSteps, htag, strip_stepRest hsr, hpp]
    rw [flatSurf_cons]
    cases ss with
    | nil => simp [renderExpr, flatSurf, flattenSteps]
    | cons s2 ss2 =>
      obtain ⟨r, hr⟩ := renderStep_shape s2
      have hne : (renderExpr (s2 :: ss2)).isEmpty = false := by simp [renderExpr, hr]
      have ih := parseSteps_render nm (s2 :: ss2) k (by simp) (fun x hx => hw x (List.mem_cons_of_mem _ hx))
        (by simp only [List.length_cons] at hf ⊢; omega)
      simp [hne, ih]

theorem renderExpr_length (ss : List (SurfStep N)) : ss.length ≤ (renderExpr ss).length := by
  induction ss with
  | nil => simp
  | cons s ss ih =>
    have := renderStep_length s
    simp only [renderExpr, List.length_cons, List.length_append]; omega

/-- The whole tokenizer on the canonical text of a well-formed expression. -/
theorem parseExpr_render (nm : Num N) (ss : List (SurfStep N)) (hw : ∀ s ∈ ss, s.wf nm) :
    parseExpr nm (renderExpr ss) = some (flatSurf ss) := by
  have hrest := renderExpr_exprRest nm ss hw
  have hst := strip_stepRest hrest.stepRest
  unfold parseExpr
  rw [hst]
  cases ss with
  | nil => simp [renderExpr, flatSurf, flattenSteps]
  | cons s ss =>
    obtain ⟨r, hr⟩ := renderStep_shape s
    have hne : (renderExpr (s :: ss)).isEmpty = false := by simp [renderExpr, hr]
    have hlen := renderExpr_length (s :: ss)
    simp only [hne]
    exact parseSteps_render nm (s :: ss) _ (by simp) hw (by omega)

theorem toSteps_ofStep : ∀ (l : List (Step N)), toSteps (l.map PStep.ofStep) = some l
  | [] => rfl
  | s :: l => by
    have h1 : (PStep.ofStep s).toStep = some s := by
      obtain ⟨dbl, axis, name, preds⟩ := s
      cases axis with
      | none => rfl
      | some a => cases a <;> rfl
    simp [toSteps, h1, toSteps_ofStep l]

theorem toPs_eq_map : ∀ (ps : List (S N)), S.toPs ps = ps.map S.toP
  | [] => rfl
  | p :: ps => by simp [S.toPs, toPs_eq_map ps]

mutual
theorem toP_noNull : ∀ (p : S N), P.noNull p.toP = true
  | .num _ _ => rfl
  | .str _ => rfl
  | .attr _ => rfl
  | .text => rfl
  | .last => rfl
  | .position => rfl
  | .nspace0 => rfl
  | .concat args => by simp only [S.toP, P.noNull]; exact toPs_noNull args
  | .contains a b => by simp [S.toP, P.noNull, toP_noNull a, toP_noNull b]
  | .nspace1 a => by simp [S.toP, P.noNull, toP_noNull a]
  | .group p => by simp [S.toP, P.noNull, toP_noNull p]
  | .bin _ l r => by simp [S.toP, P.noNull, toP_noNull l, toP_noNull r]
theorem toPs_noNull : ∀ (ps : List (S N)), P.noNullList (S.toPs ps) = true
  | [] => rfl
  | p :: ps => by simp [S.toPs, P.noNullList, toP_noNull p, toPs_noNull ps]
end

/-- `XPathExpression(text)` on the canonical text = the compile step on the flat form of the syntax. -/
theorem compileText_render (nm : Num N) (ss : List (SurfStep N)) (hw : ∀ s ∈ ss, s.wf nm) :
    compileText nm (renderExpr ss) = compileSteps nm (flattenSteps (ss.map SurfStep.toSStep)) := by
  unfold compileText
  rw [parseExpr_render nm ss hw]
  simp [flatSurf, toSteps_ofStep]

end AHP.XPath
