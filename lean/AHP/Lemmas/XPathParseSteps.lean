/-
  Helper lemmas for the C14 round trip, step level: the bracket scanner (`BRACKETED_SUBSET_RE`) on the
  canonical text of a predicate, `NEXT_TAG_OPERATION_RE` on the head of a rendered step, and the two
  loops of `parseXPathStrIntoOperations`.
-/
import AHP.Lemmas.XPathParseBody
namespace AHP.XPath

variable {N : Type}
set_option linter.unusedSimpArgs false

/-! ### The bracket scanner -/

/-- not `]`, not a quote -/
def plainB (c : Char) : Bool := c != ']' && c != '"' && c != '\''

/-- Texts the bracket scanner walks through item by item: ordinary characters and closed strings. -/
inductive BSafe : Str → Prop
  | nil : BSafe []
  | plain (c : Char) (s : Str) : plainB c = true → BSafe s → BSafe (c :: s)
  | quoted (q : Char) (body s : Str) : (q = '"' ∨ q = '\'') → body.contains q = false → endsBs false body = false →
      BSafe s → BSafe (q :: (body ++ q :: s))

theorem BSafe.append {a b : Str} (ha : BSafe a) (hb : BSafe b) : BSafe (a ++ b) := by
  induction ha with
  | nil => exact hb
  | plain c s hc _ ih => exact .plain c _ hc ih
  | quoted q body s hq h1 h2 _ ih =>
    rw [List.cons_append, List.append_assoc, List.cons_append]
    exact .quoted q body _ hq h1 h2 ih

theorem BSafe.of_all {s : Str} (h : s.all plainB = true) : BSafe s := by
  induction s with
  | nil => exact .nil
  | cons c r ih =>
    simp only [List.all_cons, Bool.and_eq_true] at h
    exact .plain c r h.1 (ih h.2)

theorem scanQ_body (q : Char) (body rest : Str) (bs : Bool) (i r : Str) (hq : body.contains q = false)
    (he : endsBs bs body = false) (hs : scanB rest = some (i, r)) :
    scanQ q bs (body ++ q :: rest) = some (body ++ q :: i, r) := by
  induction body generalizing bs with
  | nil =>
    simp only [endsBs] at he
    simp [scanQ, he, hs, consFst]
  | cons c t ih =>
    simp only [List.contains_cons, Bool.or_eq_false_iff] at hq
    have hc : c ≠ q := by
      intro h; subst h; simp at hq
    simp only [List.cons_append, scanQ, hc, if_false]
    rw [ih _ (by simpa using hq.2) (by simpa [endsBs] using he)]
    rfl

theorem scanB_safe {s : Str} (h : BSafe s) (t i r : Str) (ht : scanB t = some (i, r)) :
    scanB (s ++ t) = some (s ++ i, r) := by
  induction h with
  | nil => simpa using ht
  | plain c s hc _ ih =>
    have hc' : c ≠ ']' ∧ c ≠ '"' ∧ c ≠ '\'' := by simpa [plainB, and_assoc] using hc
    simp [scanB, hc'.1, hc'.2.1, hc'.2.2, ih, consFst]
  | quoted q body s hq h1 h2 _ ih =>
    have hq' : q ≠ ']' := by rcases hq with rfl | rfl <;> decide
    have hqq : (q = '"' || q = '\'') = true := by rcases hq with rfl | rfl <;> decide
    have := scanQ_body q body (s ++ t) false _ _ h1 h2 ih
    simp only [List.cons_append, List.append_assoc]
    rw [scanB]
    simp only [hq', if_false]
    simp only [Bool.or_eq_true, decide_eq_true_eq] at hqq
    simp [hqq, this]

theorem bracket_safe {s : Str} (h : BSafe s) (rest : Str) :
    bracket ('[' :: (s ++ ']' :: rest)) = some (s, skipSp rest) := by
  have := scanB_safe h (']' :: rest) [] rest (by simp [scanB])
  simp [bracket, skipSp, isSpTab, List.dropWhile, this]

theorem plainB_digitChar : ∀ d : Fin 10, plainB (digitChar d) = true := by decide

theorem plainB_of_attrChar {c : Char} (h : isAttrChar c = true) : plainB c = true := by
  cases hp : plainB c with
  | true => rfl
  | false =>
    have : c = ']' ∨ c = '"' ∨ c = '\'' := by
      simp only [plainB, Bool.and_eq_false_iff, bne_eq_false_iff_eq] at hp
      rcases hp with (hp | hp) | hp
      · exact .inl hp
      · exact .inr (.inl hp)
      · exact .inr (.inr hp)
    rcases this with rfl | rfl | rfl <;> revert h <;> decide

theorem numLit_bsafe (l : NumLit) : BSafe l.text := by
  apply BSafe.of_all
  obtain ⟨neg, ip, fp⟩ := l
  simp only [NumLit.text, List.all_append, Bool.and_eq_true]
  refine ⟨⟨?_, ?_⟩, ?_⟩
  · cases neg <;> simp [plainB]
  · simp only [List.all_map, List.all_eq_true]
    intro d _
    exact plainB_digitChar d
  · cases fp with
    | none => rfl
    | some f =>
      simp only [List.all_cons, Bool.and_eq_true, List.all_map, List.all_eq_true]
      exact ⟨by decide, fun d _ => plainB_digitChar d⟩

theorem ws_bsafe {w : Str} (h : w.all isSpTab = true) : BSafe w := by
  apply BSafe.of_all
  apply List.all_eq_true.2
  intro c hc
  rcases ws_mem h hc with rfl | rfl <;> decide

/-- a spelling of a word without `]` and quotes has none either -/
theorem spelled_bsafe {w v : Str} (hv : v.map lowerChar = w) (hw : w.all plainB = true) : BSafe v := by
  apply BSafe.of_all
  apply List.all_eq_true.2
  intro c hc
  cases hp : plainB c with
  | true => rfl
  | false =>
    exfalso
    have : c = ']' ∨ c = '"' ∨ c = '\'' := by
      simp only [plainB, Bool.and_eq_false_iff, bne_eq_false_iff_eq] at hp
      rcases hp with (hp | hp) | hp
      · exact .inl hp
      · exact .inr (.inl hp)
      · exact .inr (.inr hp)
    have hm : c ∈ w := by
      rcases this with rfl | rfl | rfl <;> exact spelled_mem hv (by decide) hc
    have := List.all_eq_true.1 hw c hm
    rw [hp] at this
    cases this

theorem spellOp_bsafe (st : Style) (π : List Nat) (o : Op) : BSafe (st.spellOp π o) := by
  have h := spellOp_spelled st π o
  unfold OpSpelled at h
  split at h
  · apply spelled_bsafe h
    rcases o with (_ | _ | _ | _ | _ | _) | (_ | _ | _ | _ | _ | _) | (_ | _) <;> decide
  · rw [h]
    apply BSafe.of_all
    rcases o with (_ | _ | _ | _ | _ | _) | (_ | _ | _ | _ | _ | _) | (_ | _) <;> decide

/-- a call-shaped text is safe when its inner text is -/
theorem callText_bsafe {w v w1 w2 inner w3 : Str} (hv : v.map lowerChar = w) (hw : w.all plainB = true)
    (h1 : w1.all isSpTab = true) (h2 : w2.all isSpTab = true) (h3 : w3.all isSpTab = true) (hi : BSafe inner) :
    BSafe (v ++ (w1 ++ ('(' :: (w2 ++ (inner ++ (w3 ++ [')'])))))) :=
  (spelled_bsafe hv hw).append ((ws_bsafe h1).append (.plain '(' _ (by decide) ((ws_bsafe h2).append (hi.append
    ((ws_bsafe h3).append (BSafe.of_all (by decide)))))))

mutual
theorem render_bsafe (nm : Num N) (st : Style) : ∀ (π : List Nat) (p : S N), S.wf nm p → BSafe (renderS st π p)
  | _, .num l _, _ => numLit_bsafe l
  | π, .str s, h => by
    simp only [S.wf] at h
    obtain ⟨h1, _, h3⟩ := strOk_facts (st.single π) h
    simp only [renderS]
    exact .quoted _ s [] (quoteWith_cases _ s) h1 h3 .nil
  | _, .attr n, h => by
    simp only [S.wf] at h
    simp only [renderS]
    refine .plain '@' n (by decide) (BSafe.of_all ?_)
    cases n with
    | nil => simp [attrNameOk] at h
    | cons c r =>
      simp only [attrNameOk, Bool.or_eq_true, Bool.and_eq_true, decide_eq_true_eq, List.isEmpty_iff] at h
      rcases h with ⟨rfl, rfl⟩ | ⟨h1, h2⟩
      · decide
      · simp only [List.all_cons, Bool.and_eq_true, List.all_eq_true]
        refine ⟨plainB_of_attrChar (isAttrChar_of_nameChar (isNameChar_of_nameStart h1)), ?_⟩
        intro x hx
        exact plainB_of_attrChar (List.all_eq_true.1 h2 x hx)
  | π, .text, _ => callText_bsafe (inner := []) (w3 := []) (spell_map st π wordOK_text.1) (by decide) (sp_all st _ _) (sp_all st _ _) rfl .nil
  | π, .last, _ => callText_bsafe (inner := []) (w3 := []) (spell_map st π wordOK_last.1) (by decide) (sp_all st _ _) (sp_all st _ _) rfl .nil
  | π, .position, _ =>
    callText_bsafe (inner := []) (w3 := []) (spell_map st π wordOK_position.1) (by decide) (sp_all st _ _) (sp_all st _ _) rfl .nil
  | π, .nspace0, _ =>
    callText_bsafe (inner := []) (w3 := []) (spell_map st π wordOK_nspace.1) (by decide) (sp_all st _ _) (sp_all st _ _) rfl .nil
  | π, .group p, h => by
    have hp := render_bsafe nm st (0 :: π) p (by simpa [S.wf] using h)
    simp only [renderS]
    exact .plain '(' _ (by decide) ((ws_bsafe (sp_all st _ _)).append (hp.append ((ws_bsafe (sp_all st _ _)).append
      (BSafe.of_all (by decide)))))
  | π, .nspace1 a, h => by
    have hp := render_bsafe nm st (0 :: π) a (by simpa [S.wf] using h)
    exact callText_bsafe (spell_map st π wordOK_nspace.1) (by decide) (sp_all st _ _) (sp_all st _ _) (sp_all st .close π) hp
  | π, .contains a b, h => by
    have hab : S.wf nm a ∧ S.wf nm b := by simpa [S.wf] using h
    have ha := render_bsafe nm st (0 :: π) a hab.1
    have hb := render_bsafe nm st (1 :: π) b hab.2
    exact callText_bsafe (spell_map st π wordOK_contains.1) (by decide) (sp_all st _ _) (sp_all st _ _) (sp_all st .close π)
      (ha.append ((ws_bsafe (sp_all st _ _)).append (.plain ',' _ (by decide) ((ws_bsafe (sp_all st _ _)).append hb))))
  | π, .concat args, h => by
    have hargs : 2 ≤ args.length ∧ S.wfs nm args := by simpa [S.wf] using h
    have ha := renderArgs_bsafe nm st π 0 args hargs.2
    exact callText_bsafe (spell_map st π wordOK_concat.1) (by decide) (sp_all st _ _) (sp_all st _ _) (sp_all st .close π) ha
  | π, .bin o l r, h => by
    have hlr : S.wf nm l ∧ S.wf nm r := by simpa [S.wf] using h
    have hl := render_bsafe nm st (0 :: π) l hlr.1
    have hr := render_bsafe nm st (1 :: π) r hlr.2
    simp only [renderS]
    exact hl.append ((ws_bsafe (sepOf_all (sp_all st _ _))).append ((spellOp_bsafe st π o).append
      ((ws_bsafe (sepOf_all (sp_all st _ _))).append hr)))
theorem renderArgs_bsafe (nm : Num N) (st : Style) (π : List Nat) : ∀ (k : Nat) (ps : List (S N)), S.wfs nm ps →
    BSafe (renderArgs st π k ps)
  | _, [], _ => .nil
  | k, p :: ps, h => by
    have hh : S.wf nm p ∧ S.wfs nm ps := by simpa [S.wfs] using h
    have hp := render_bsafe nm st (k :: π) p hh.1
    have hps := renderArgs_bsafe nm st π (k + 1) ps hh.2
    simp only [renderArgs]
    apply hp.append
    split
    · exact .nil
    · exact (ws_bsafe (sp_all st _ _)).append (.plain ',' _ (by decide) ((ws_bsafe (sp_all st _ _)).append hps))
end

/-! ### `NEXT_TAG_OPERATION_RE` on the head of a rendered step -/

/-- What may follow the tag name of a rendered step: `[`, the next lead-in, or white space before one of them. -/
def stepFollowChars : List Char := ['[', '/', ' ', '\t']

def StepRest (rest : Str) : Prop := rest = [] ∨ ∃ c r, rest = c :: r ∧ c ∈ stepFollowChars

theorem stepRest_head {rest : Str} (h : StepRest rest) (p : Char → Bool) (hp : ∀ c ∈ stepFollowChars, p c = false) :
    ∀ c r, rest = c :: r → p c = false := by
  intro c r hr
  rcases h with h0 | ⟨c', r', hr', hc⟩
  · rw [h0] at hr; cases hr
  · rw [hr'] at hr
    obtain ⟨rfl, _⟩ := List.cons.inj hr
    exact hp _ hc

theorem tagName_render (name rest : Str) (hn : tagNameOk name = true) (hr : StepRest rest) :
    tagName (name ++ rest) = some (name, rest) := by
  cases name with
  | nil => simp [tagNameOk] at hn
  | cons c r =>
    simp only [tagNameOk, Bool.or_eq_true, Bool.and_eq_true, decide_eq_true_eq, List.isEmpty_iff] at hn
    rcases hn with ⟨rfl, rfl⟩ | ⟨h1, h2⟩
    · simp [tagName]
    · have hc : c ≠ '*' := by
        intro h; subst h; revert h1; decide
      have hstop := stepRest_head hr isNameChar (by decide)
      simp [tagName, hc, h1, takeWhile_append_stop h2 hstop, dropWhile_append_stop h2 hstop]

theorem suffix_render {rest : Str} (hr : StepRest rest) : suffix rest = (false, rest) := by
  rcases hr with rfl | ⟨c, r, rfl, hc⟩
  · simp [suffix]
  · have : c ≠ ':' := by intro e; subst e; revert hc; decide
    simp [suffix, this]

/-- a word of letters and dashes matched against a tag name never stops in front of a colon -/
theorem wordCI_name (w : Str) (hw : ∀ x ∈ w, x ∉ stepFollowChars) : ∀ (name rest : Str), (∀ c ∈ name, c ≠ ':') → StepRest rest →
    ∀ r', wordCI w (name ++ rest) = some r' → ∀ c t, r' = c :: t → c ≠ ':' := by
  induction w with
  | nil =>
    intro name rest hn hr r' h c t hct
    simp only [wordCI, Option.some.injEq] at h
    subst h
    cases name with
    | cons d ds =>
      obtain ⟨rfl, _⟩ := List.cons.inj hct
      exact hn _ (by simp)
    | nil =>
      have := stepRest_head hr (· = ':') (by decide) c t hct
      simpa using this
  | cons x ws ih =>
    intro name rest hn hr r' h c t hct
    have hws : ∀ y ∈ ws, y ∉ stepFollowChars := fun y hy => hw y (List.mem_cons_of_mem _ hy)
    cases name with
    | cons d ds =>
      simp only [List.cons_append, wordCI] at h
      split at h
      · exact ih hws ds rest (fun c hc => hn c (List.mem_cons_of_mem _ hc)) hr r' h c t hct
      · cases h
    | nil =>
      rcases hr with rfl | ⟨d, r, rfl, hd⟩
      · simp [wordCI] at h
      · simp only [List.nil_append, wordCI] at h
        have hx := hw x (by simp)
        split at h
        · next heq =>
          exfalso
          have hdl : lowerChar d = d := by
            have : ∀ e ∈ stepFollowChars, lowerChar e = e := by decide
            exact this d hd
          rw [hdl] at heq
          rw [heq] at hd
          exact hx hd
        · cases h

theorem axisWord_plain : ∀ a : AxisTok, ∀ x ∈ a.word, x ∉ stepFollowChars := by
  intro a
  cases a <;> decide

theorem axisName_cons_skip {u : Str} {a : AxisTok} {as : List AxisTok}
    (h : ∀ r', wordCI a.word u = some r' → ∀ c t, r' = c :: t → c ≠ ':') : axisName u (a :: as) = axisName u as := by
  conv => lhs; unfold axisName
  split
  · next r heq => exact absurd rfl (h _ heq ':' _ rfl)
  · rfl

theorem axisName_cons_hit {u : Str} {a : AxisTok} {as : List AxisTok} {r n rest : Str}
    (h : wordCI a.word u = some (':' :: ':' :: r)) (ht : tagName r = some (n, rest)) :
    axisName u (a :: as) = some (a, n, rest) := by
  simp [axisName, h, ht]

theorem axisName_none (u : Str) (as : List AxisTok)
    (h : ∀ a ∈ as, ∀ r', wordCI a.word u = some r' → ∀ c t, r' = c :: t → c ≠ ':') : axisName u as = none := by
  induction as with
  | nil => rfl
  | cons a as ih =>
    rw [axisName_cons_skip (h a (by simp))]
    exact ih (fun b hb => h b (List.mem_cons_of_mem _ hb))

/-- skipping an alternative whose first letter is another one -/
theorem skip_head {c : Char} {r : Str} {a : AxisTok} {as : List AxisTok} {x : Char} {t : Str} (ha : a.word = x :: t)
    (h : lowerChar c ≠ x) : axisName (c :: r) (a :: as) = axisName (c :: r) as := by
  apply axisName_cons_skip
  intro r' hr'
  rw [ha, wordCI_head h] at hr'
  cases hr'

/-- a word that is a proper prefix of the spelled word stops in front of the next letter of that word -/
theorem wordCI_prefix_head (w w2 v rest : Str) (x : Char) (hv : v.map lowerChar = w ++ x :: w2) (hx : x ≠ ':') :
    ∀ r', wordCI w (v ++ rest) = some r' → ∀ c t, r' = c :: t → c ≠ ':' := by
  intro r' h c t hct
  have h1 : (v.take w.length).map lowerChar = w := by
    rw [List.map_take, hv, List.take_left']
    rfl
  have h2 : (v.drop w.length).map lowerChar = x :: w2 := by
    rw [List.map_drop, hv, List.drop_left']
    rfl
  have hsplit : v ++ rest = v.take w.length ++ (v.drop w.length ++ rest) := by
    rw [← List.append_assoc, List.take_append_drop]
  rw [hsplit, wordCI_spelled w _ _ h1] at h
  simp only [Option.some.injEq] at h
  obtain ⟨c', r'', hcr, hc', _⟩ := spelled_head rfl h2
  rw [hcr] at h
  rw [← h] at hct
  obtain ⟨rfl, _⟩ := List.cons.inj hct
  exact ne_of_lowerChar hc' (by rw [show lowerChar ':' = ':' by decide]; exact Ne.symm hx)

theorem tagNameOk_no_colon {name : Str} (h : tagNameOk name = true) : ∀ c ∈ name, c ≠ ':' := by
  cases name with
  | nil => simp [tagNameOk] at h
  | cons c r =>
    simp only [tagNameOk, Bool.or_eq_true, Bool.and_eq_true, decide_eq_true_eq, List.isEmpty_iff] at h
    rcases h with ⟨rfl, rfl⟩ | ⟨h1, h2⟩
    · intro c hc; simp at hc; subst hc; decide
    · intro x hx
      have : isNameChar x = true := by
        rcases List.mem_cons.1 hx with rfl | hx
        · exact isNameChar_of_nameStart h1
        · exact List.all_eq_true.1 h2 x hx
      intro e; subst e; revert this; decide

theorem tagNameOk_head {name : Str} (h : tagNameOk name = true) :
    ∃ c r, name = c :: r ∧ isSpTab c = false ∧ c ≠ '/' ∧ isWs c = false := by
  cases name with
  | nil => simp [tagNameOk] at h
  | cons c r =>
    refine ⟨c, r, rfl, ?_⟩
    simp only [tagNameOk, Bool.or_eq_true, Bool.and_eq_true, decide_eq_true_eq, List.isEmpty_iff] at h
    rcases h with ⟨rfl, rfl⟩ | ⟨h1, _⟩
    · decide
    · have hw := isWs_of_attrChar (isAttrChar_of_nameChar (isNameChar_of_nameStart h1))
      refine ⟨isWs_isSpTab hw, ?_, hw⟩
      intro e; subst e; revert h1; decide

theorem tagNameOk_endsTight {name : Str} (h : tagNameOk name = true) : EndsTight name := by
  intro x hx
  have hmem := List.mem_of_getLast? hx
  cases name with
  | nil => simp at hmem
  | cons c r =>
    simp only [tagNameOk, Bool.or_eq_true, Bool.and_eq_true, decide_eq_true_eq, List.isEmpty_iff] at h
    rcases h with ⟨rfl, rfl⟩ | ⟨h1, h2⟩
    · simp at hmem; subst hmem; decide
    · rcases List.mem_cons.1 hmem with rfl | hm
      · exact isWs_of_attrChar (isAttrChar_of_nameChar (isNameChar_of_nameStart h1))
      · exact isWs_of_attrChar (isAttrChar_of_nameChar (List.all_eq_true.1 h2 x hm))

theorem axisWord_lower : ∀ a : Axis, (axisWord a).map lowerChar = axisWord a := by
  intro a; cases a <;> decide

/-- an axis in any spelling, `::` and the tag name -/
theorem axisName_render (a : Axis) (v name rest : Str) (hv : v.map lowerChar = axisWord a)
    (hn : tagNameOk name = true) (hr : StepRest rest) :
    axisName (v ++ (':' :: ':' :: (name ++ rest))) AxisTok.all = some (AxisTok.ofAxis a, name, rest) := by
  have ht := tagName_render name rest hn hr
  have hhit := wordCI_spelled (axisWord a) v (':' :: ':' :: (name ++ rest)) hv
  cases a
  -- child
  · obtain ⟨c, r, rfl, hc, _⟩ := spelled_head (x := 'c') rfl hv
    simp only [List.cons_append] at hhit ⊢
    simp only [AxisTok.all]
    rw [skip_head (x := 'p') rfl (by rw [hc]; decide), skip_head (x := 'a') rfl (by rw [hc]; decide),
      skip_head (x := 'a') rfl (by rw [hc]; decide), skip_head (x := 'd') rfl (by rw [hc]; decide),
      skip_head (x := 'd') rfl (by rw [hc]; decide)]
    exact axisName_cons_hit hhit ht
  -- descendant
  · obtain ⟨c, r, rfl, hc, _⟩ := spelled_head (x := 'd') rfl hv
    simp only [List.cons_append] at hhit ⊢
    simp only [AxisTok.all]
    rw [skip_head (x := 'p') rfl (by rw [hc]; decide), skip_head (x := 'a') rfl (by rw [hc]; decide),
      skip_head (x := 'a') rfl (by rw [hc]; decide)]
    exact axisName_cons_hit hhit ht
  -- descendant-or-self
  · have hpre := wordCI_prefix_head (axisWord .descendant) ['o', 'r', '-', 's', 'e', 'l', 'f'] v
      (':' :: ':' :: (name ++ rest)) '-' hv (by decide)
    obtain ⟨c, r, rfl, hc, _⟩ := spelled_head (x := 'd') rfl hv
    simp only [List.cons_append] at hhit hpre ⊢
    simp only [AxisTok.all]
    rw [skip_head (x := 'p') rfl (by rw [hc]; decide), skip_head (x := 'a') rfl (by rw [hc]; decide),
      skip_head (x := 'a') rfl (by rw [hc]; decide), axisName_cons_skip (a := .descendant) hpre]
    exact axisName_cons_hit hhit ht
  -- parent
  · obtain ⟨c, r, rfl, hc, _⟩ := spelled_head (x := 'p') rfl hv
    simp only [List.cons_append] at hhit ⊢
    exact axisName_cons_hit hhit ht
  -- ancestor
  · obtain ⟨c, r, rfl, hc, _⟩ := spelled_head (x := 'a') rfl hv
    simp only [List.cons_append] at hhit ⊢
    simp only [AxisTok.all]
    rw [skip_head (x := 'p') rfl (by rw [hc]; decide)]
    exact axisName_cons_hit hhit ht
  -- ancestor-or-self
  · have hpre := wordCI_prefix_head (axisWord .ancestor) ['o', 'r', '-', 's', 'e', 'l', 'f'] v
      (':' :: ':' :: (name ++ rest)) '-' hv (by decide)
    obtain ⟨c, r, rfl, hc, _⟩ := spelled_head (x := 'a') rfl hv
    simp only [List.cons_append] at hhit hpre ⊢
    simp only [AxisTok.all]
    rw [skip_head (x := 'p') rfl (by rw [hc]; decide), axisName_cons_skip (a := .ancestor) hpre]
    exact axisName_cons_hit hhit ht

theorem leadIn_render (dbl : Bool) {w : Str} (hw : w.all isSpTab = true) {c : Char} {r : Str} (hsl : c ≠ '/') :
    leadIn ((if dbl then ['/', '/'] else ['/']) ++ (w ++ c :: r)) = some (dbl, w ++ c :: r) := by
  cases dbl with
  | true => simp [leadIn, skipSp, isSpTab, List.dropWhile]
  | false =>
    simp only [Bool.false_eq_true, if_false, List.cons_append, List.nil_append, leadIn,
      skipSp_cons_of_not (show isSpTab '/' = false by decide)]
    split
    · next r' heq =>
      exfalso
      cases w with
      | nil => exact hsl (List.cons.inj heq).1
      | cons d t =>
        have hd : d = '/' := (List.cons.inj heq).1
        rcases ws_mem hw (c := d) (by simp) with e | e <;> rw [e] at hd <;> exact absurd hd (by decide)
    · rfl

/-- `NEXT_TAG_OPERATION_RE` and the name handling on `/ axis::name…` or `//name…`, any layout. -/
theorem tagOp_render (st : Style) (π : List Nat) (dbl : Bool) (axis : Option Axis) (name rest : Str)
    (hn : tagNameOk name = true) (hr : StepRest rest) :
    tagOp ((if dbl then ['/', '/'] else ['/']) ++ (st.sp .lead π ++ (axisPrefix st π axis ++ (name ++ rest))))
      = some (dbl, axis.map AxisTok.ofAxis, lower name, rest) := by
  obtain ⟨c, r, hcr, hsp, hsl, _⟩ := tagNameOk_head hn
  have hcore : ∃ c' r', (axisPrefix st π axis ++ (name ++ rest)) = c' :: r' ∧ isSpTab c' = false ∧ c' ≠ '/' := by
    cases axis with
    | none => exact ⟨c, r ++ rest, by simp [hcr, axisPrefix], hsp, hsl⟩
    | some a =>
      have hv := spell_map st π (axisWord_lower a)
      have hx : ∃ x t, axisWord a = x :: t ∧ isWs x = false ∧ x ≠ '/' := by cases a <;> exact ⟨_, _, rfl, by decide, by decide⟩
      obtain ⟨x, t, hxt, hx1, hx2⟩ := hx
      obtain ⟨c', r', hcr', hc', _⟩ := spelled_head hxt hv
      have hlx : lowerChar x = x := by
        have := axisWord_lower a
        rw [hxt] at this
        simp only [List.map_cons, List.cons.injEq] at this
        exact this.1
      refine ⟨c', r' ++ ([':', ':'] ++ (name ++ rest)), by simp [axisPrefix, hcr'], isWs_isSpTab (isWs_of_lowerChar hc' hx1), ?_⟩
      exact ne_of_lowerChar hc' (by rw [show lowerChar '/' = '/' by decide]; exact Ne.symm hx2)
  obtain ⟨c', r', hcr', hsp', hsl'⟩ := hcore
  have hax : tagCore (c' :: r') = some (axis.map AxisTok.ofAxis, name, rest) := by
    rw [← hcr']
    cases axis with
    | some a =>
      have := axisName_render a _ name rest (spell_map st π (axisWord_lower a)) hn hr
      simp only [axisPrefix, List.append_assoc, List.cons_append, List.nil_append]
      simp [tagCore, this]
    | none =>
      have hnone : axisName (name ++ rest) AxisTok.all = none :=
        axisName_none _ _ (fun a _ r' h => wordCI_name a.word (axisWord_plain a) name rest (tagNameOk_no_colon hn) hr r' h)
      simp [tagCore, axisPrefix, hnone, tagName_render name rest hn hr]
  rw [hcr']
  simp [tagOp, leadIn_render dbl (sp_all st .lead π) hsl', skipSp_ws_cons (sp_all st .lead π) hsp', hax, suffix_render hr, finalName]

/-! ### The loops of `parseXPathStrIntoOperations` -/

theorem dropWhile_append_all {p : Char → Bool} {a : Str} (h : a.all p = true) (b : Str) : (a ++ b).dropWhile p = b.dropWhile p := by
  induction a with
  | nil => rfl
  | cons c r ih =>
    simp only [List.all_cons, Bool.and_eq_true] at h
    simp [List.dropWhile, h.1, ih h.2]

theorem isWs_of_isSpTab {w : Str} (h : w.all isSpTab = true) : w.all isWs = true := by
  apply List.all_eq_true.2
  intro c hc
  rcases ws_mem h hc with rfl | rfl <;> decide

theorem rstrip_ws {w : Str} (hw : w.all isSpTab = true) (s : Str) : rstrip (s ++ w) = rstrip s := by
  unfold rstrip
  rw [List.reverse_append, dropWhile_append_all (by simpa using isWs_of_isSpTab hw)]

/-- `strip` of a tight text with `[ \t]*` on both sides -/
theorem strip_ws_both {w1 w2 : Str} (h1 : w1.all isSpTab = true) (h2 : w2.all isSpTab = true) {c : Char} {r : Str}
    (hc : isWs c = false) (hE : EndsTight (c :: r)) : strip (w1 ++ ((c :: r) ++ w2)) = c :: r := by
  unfold strip
  rw [lstrip_ws h1, List.cons_append, lstrip_tight hc, ← List.cons_append, rstrip_ws h2, rstrip_tight hE]

theorem strip_all_ws {w : Str} (h : w.all isSpTab = true) : strip w = [] := by
  have := lstrip_ws h []
  simp only [List.append_nil] at this
  unfold strip
  rw [this]
  rfl

/-- the text after the predicates of a step: nothing, or (after white space) the next lead-in -/
def TailOK (rest : Str) : Prop :=
  rest = [] ∨ ∃ w r, rest = w ++ '/' :: r ∧ w.all isSpTab = true ∧ EndsTight ('/' :: r)

/-- the text after a tag name: as `TailOK`, or (after white space) a predicate -/
def Tailed (R : Str) : Prop :=
  R = [] ∨ ∃ w c r, R = w ++ c :: r ∧ w.all isSpTab = true ∧ (c = '[' ∨ c = '/') ∧ EndsTight (c :: r)

theorem TailOK.tailed {rest : Str} (h : TailOK rest) : Tailed rest := by
  rcases h with h | ⟨w, r, h1, h2, h3⟩
  · exact .inl h
  · exact .inr ⟨w, '/', r, h1, h2, .inr rfl, h3⟩

theorem Tailed.skipSp_cases {R : Str} (h : Tailed R) : skipSp R = [] ∨ ∃ c r, skipSp R = c :: r ∧ (c = '[' ∨ c = '/') ∧ EndsTight (c :: r) := by
  rcases h with rfl | ⟨w, c, r, rfl, hw, hc, hE⟩
  · exact .inl rfl
  · refine .inr ⟨c, r, skipSp_ws_cons hw (by rcases hc with rfl | rfl <;> decide) r, hc, hE⟩

theorem Tailed.strip_eq {R : Str} (h : Tailed R) : AHP.strip R = AHP.XPath.skipSp R := by
  rcases h with rfl | ⟨w, c, r, rfl, hw, hc, hE⟩
  · rfl
  · rw [skipSp_ws_cons hw (by rcases hc with rfl | rfl <;> decide)]
    exact strip_ws_tight hw (by rcases hc with rfl | rfl <;> decide) hE

theorem Tailed.strip_skipSp {R : Str} (h : Tailed R) : AHP.strip (AHP.XPath.skipSp R) = AHP.XPath.skipSp R := by
  rcases h.skipSp_cases with h0 | ⟨c, r, h1, hc, hE⟩
  · rw [h0]; rfl
  · rw [h1]; exact strip_tight (by rcases hc with rfl | rfl <;> decide) hE

theorem Tailed.stepRest {R : Str} (h : Tailed R) : StepRest R := by
  rcases h with rfl | ⟨w, c, r, rfl, hw, hc, _⟩
  · exact .inl rfl
  · cases w with
    | nil => exact .inr ⟨c, r, rfl, by rcases hc with rfl | rfl <;> decide⟩
    | cons d t =>
      refine .inr ⟨d, _, rfl, ?_⟩
      rcases ws_mem hw (c := d) (by simp) with rfl | rfl <;> decide

theorem Tailed.endsTight {R : Str} (h : Tailed R) : EndsTight R := by
  rcases h with rfl | ⟨w, c, r, rfl, _, _, hE⟩
  · intro c hc; simp at hc
  · exact (endsTight_append_cons w c r).2 hE

theorem TailOK.bracket_none {rest : Str} (h : TailOK rest) : bracket (skipSp rest) = none := by
  rcases h with rfl | ⟨w, r, rfl, hw, _⟩
  · rfl
  · rw [skipSp_ws_cons hw (by decide)]
    simp [bracket, skipSp, isSpTab, List.dropWhile]

/-- the flat forms of the predicates of a step -/
def flatPreds (ps : List (S N)) : List (List (BE N)) := (S.toPs ps).map flatten

theorem renderPreds_tailed (st : Style) (i : Nat) : ∀ (ps : List (S N)) (j : Nat) {rest : Str}, TailOK rest →
    Tailed (renderPreds st i j ps ++ rest)
  | [], _, _, h => by simpa [renderPreds] using h.tailed
  | p :: ps, j, rest, h => by
    have ih := renderPreds_tailed st i ps (j + 1) h
    refine .inr ⟨st.sp .brL [j, i], '[', (st.sp .brIn [j, i] ++ (renderS st [j, i] p ++ (st.sp .brOut [j, i] ++
      ']' :: renderPreds st i (j + 1) ps)) ++ rest), by simp only [renderPreds, List.append_assoc, List.cons_append],
      sp_all st _ _, .inl rfl, ?_⟩
    rw [show '[' :: (st.sp .brIn [j, i] ++ (renderS st [j, i] p ++ (st.sp .brOut [j, i] ++ ']' :: renderPreds st i (j + 1) ps)) ++ rest)
        = ('[' :: (st.sp .brIn [j, i] ++ (renderS st [j, i] p ++ st.sp .brOut [j, i]))) ++ ']' :: (renderPreds st i (j + 1) ps ++ rest) by simp,
      endsTight_append_cons]
    cases hq : renderPreds st i (j + 1) ps ++ rest with
    | nil => exact endsTight_single (by decide)
    | cons d t => rw [hq] at ih; exact endsTight_cons_of ih.endsTight (by simp)

theorem renderPreds_length (st : Style) (i : Nat) : ∀ (ps : List (S N)) (j : Nat), ps.length ≤ (renderPreds st i j ps).length
  | [], _ => by simp
  | p :: ps, j => by
    have := renderPreds_length st i ps (j + 1)
    simp only [renderPreds, List.length_cons, List.length_append]; omega

theorem parsePreds_render (nm : Num N) (st : Style) (i : Nat) : ∀ (ps : List (S N)) (j fuel : Nat) (rest : Str), S.wfs nm ps →
    TailOK rest → ps.length < fuel →
    parsePreds nm fuel (skipSp (renderPreds st i j ps ++ rest)) = some (flatPreds ps, skipSp rest)
  | [], j, fuel, rest, _, hr, hf => by
    obtain ⟨k, rfl⟩ : ∃ k, fuel = k + 1 := ⟨fuel - 1, by omega⟩
    simp [renderPreds, parsePreds, hr.bracket_none, flatPreds, S.toPs]
  | p :: ps, j, fuel, rest, hw, hr, hf => by
    have hh : S.wf nm p ∧ S.wfs nm ps := by simpa [S.wfs] using hw
    obtain ⟨k, rfl⟩ : ∃ k, fuel = k + 1 := ⟨fuel - 1, by omega⟩
    have hok := renderOK nm st [j, i] p hh.1
    have ih := parsePreds_render nm st i ps (j + 1) k rest hh.2 hr (by simp only [List.length_cons] at hf; omega)
    have hsafe : BSafe (st.sp .brIn [j, i] ++ (renderS st [j, i] p ++ st.sp .brOut [j, i])) :=
      (ws_bsafe (sp_all st _ _)).append ((render_bsafe nm st [j, i] p hh.1).append (ws_bsafe (sp_all st _ _)))
    have hb := bracket_safe hsafe (renderPreds st i (j + 1) ps ++ rest)
    have htl := renderPreds_tailed st i ps (j + 1) hr
    obtain ⟨c, r, hcr, hcs⟩ := hok.head
    have hst : strip (st.sp .brIn [j, i] ++ (renderS st [j, i] p ++ st.sp .brOut [j, i])) = renderS st [j, i] p := by
      have hE := hok.last
      rw [hcr] at hE ⊢
      exact strip_ws_both (sp_all st _ _) (sp_all st _ _) (startOk_facts hcs).1 hE
    have hne : (renderS st [j, i] p).isEmpty = false := by rw [hcr]; rfl
    have htext : skipSp (renderPreds st i j (p :: ps) ++ rest)
        = '[' :: ((st.sp .brIn [j, i] ++ (renderS st [j, i] p ++ st.sp .brOut [j, i])) ++ ']' :: (renderPreds st i (j + 1) ps ++ rest)) := by
      simp only [renderPreds, List.append_assoc, List.cons_append]
      exact skipSp_ws_cons (sp_all st _ _) (by decide) _
    rw [htext]
    simp only [parsePreds, hb, hst, hne, htl.strip_skipSp, parseBody_render nm st [j, i] p hh.1, ih]
    simp [flatPreds, S.toPs]

theorem renderStep_shape (st : Style) (i : Nat) (s : SurfStep N) : ∃ r, renderStep st i s = '/' :: r := by
  unfold renderStep
  cases s.dbl <;> exact ⟨_, rfl⟩

theorem renderSteps_shape (st : Style) (i : Nat) (s : SurfStep N) (ss : List (SurfStep N)) :
    ∃ r, renderSteps st i (s :: ss) = '/' :: r := by
  obtain ⟨r, hr⟩ := renderStep_shape st i s
  exact ⟨r ++ (if ss.isEmpty then [] else st.sp .stepEnd [i] ++ renderSteps st (i + 1) ss),
    by simp only [renderSteps, hr, List.cons_append]⟩

/-- the text after step `i` when more steps follow -/
def stepTail (st : Style) (i : Nat) (ss : List (SurfStep N)) : Str :=
  if ss.isEmpty then [] else st.sp .stepEnd [i] ++ renderSteps st (i + 1) ss

theorem renderStep_endsTight (nm : Num N) (st : Style) (i : Nat) (s : SurfStep N) (hs : s.wf nm) {tail : Str} (ht : TailOK tail) :
    EndsTight (renderStep st i s ++ tail) := by
  have hpt := renderPreds_tailed st i s.preds 0 ht
  have hname : EndsTight (s.name ++ (renderPreds st i 0 s.preds ++ tail)) := by
    cases hq : renderPreds st i 0 s.preds ++ tail with
    | cons d u => rw [hq] at hpt; exact (endsTight_append_cons _ d u).2 hpt.endsTight
    | nil => simpa using tagNameOk_endsTight hs.1
  obtain ⟨c, t, hct, _⟩ := tagNameOk_head hs.1
  simp only [renderStep, List.append_assoc]
  rw [hct] at hname ⊢
  simp only [List.cons_append] at hname ⊢
  rw [← List.append_assoc, ← List.append_assoc, endsTight_append_cons]
  exact hname

theorem renderSteps_endsTight (nm : Num N) (st : Style) : ∀ (ss : List (SurfStep N)) (i : Nat), ss ≠ [] → (∀ s ∈ ss, s.wf nm) →
    EndsTight (renderSteps st i ss)
  | [], _, h, _ => absurd rfl h
  | [s], i, _, hw => by
    have := renderStep_endsTight nm st i s (hw s (by simp)) (tail := []) (.inl rfl)
    simpa [renderSteps] using this
  | s :: s2 :: ss, i, _, hw => by
    have ih := renderSteps_endsTight nm st (s2 :: ss) (i + 1) (by simp) (fun x hx => hw x (List.mem_cons_of_mem _ hx))
    obtain ⟨r, hr⟩ := renderSteps_shape st (i + 1) s2 ss
    have ht : TailOK (st.sp .stepEnd [i] ++ renderSteps st (i + 1) (s2 :: ss)) :=
      .inr ⟨_, r, by rw [hr], sp_all st _ _, by rw [← hr]; exact ih⟩
    have := renderStep_endsTight nm st i s (hw s (by simp)) ht
    simpa [renderSteps] using this

theorem stepTail_ok (nm : Num N) (st : Style) (i : Nat) (ss : List (SurfStep N)) (hw : ∀ s ∈ ss, s.wf nm) :
    TailOK (stepTail st i ss) := by
  unfold stepTail
  cases ss with
  | nil => exact .inl rfl
  | cons s2 ss2 =>
    obtain ⟨r, hr⟩ := renderSteps_shape st (i + 1) s2 ss2
    have ih := renderSteps_endsTight nm st (s2 :: ss2) (i + 1) (by simp) hw
    exact .inr ⟨st.sp .stepEnd [i], r, by simp [hr], sp_all st _ _, by rw [← hr]; exact ih⟩

/-- the flat, uncompiled form of a surface expression, in the tokenizer's types -/
def flatSurf (ss : List (SurfStep N)) : List (PStep N) :=
  (flattenSteps (ss.map SurfStep.toSStep)).map PStep.ofStep

theorem flatSurf_cons (s : SurfStep N) (ss : List (SurfStep N)) :
    flatSurf (s :: ss) = { dbl := s.dbl, axis := s.axis.map AxisTok.ofAxis, name := lower s.name, preds := flatPreds s.preds }
      :: flatSurf ss := by
  simp [flatSurf, flattenSteps, SurfStep.toSStep, PStep.ofStep, flatPreds]

theorem parseSteps_render (nm : Num N) (st : Style) : ∀ (ss : List (SurfStep N)) (i fuel : Nat), ss ≠ [] → (∀ s ∈ ss, s.wf nm) →
    ss.length < fuel → parseSteps nm fuel (renderSteps st i ss) = some (flatSurf ss)
  | [], _, _, h, _, _ => absurd rfl h
  | s :: ss, i, fuel, _, hw, hf => by
    obtain ⟨k, rfl⟩ : ∃ k, fuel = k + 1 := ⟨fuel - 1, by omega⟩
    have hs := hw s (by simp)
    have htail := stepTail_ok nm st i ss (fun x hx => hw x (List.mem_cons_of_mem _ hx))
    have htl := renderPreds_tailed st i s.preds 0 htail
    have htag := tagOp_render st [i] s.dbl s.axis s.name (renderPreds st i 0 s.preds ++ stepTail st i ss) hs.1 htl.stepRest
    have hpl := renderPreds_length st i s.preds 0
    have hpp := parsePreds_render nm st i s.preds 0 ((renderPreds st i 0 s.preds ++ stepTail st i ss).length + 1) (stepTail st i ss)
      hs.2 htail (by simp only [List.length_append]; omega)
    have htext : renderSteps st i (s :: ss) = (if s.dbl then ['/', '/'] else ['/']) ++ (st.sp .lead [i] ++
        (axisPrefix st [i] s.axis ++ (s.name ++ (renderPreds st i 0 s.preds ++ stepTail st i ss)))) := by
      simp [renderSteps, renderStep, stepTail, List.append_assoc]
    rw [htext]
    simp only [parseSteps, htag, htl.strip_eq, hpp]
    rw [flatSurf_cons]
    cases ss with
    | nil => simp [stepTail, skipSp, flatSurf, flattenSteps]
    | cons s2 ss2 =>
      obtain ⟨r, hr⟩ := renderSteps_shape st (i + 1) s2 ss2
      have hsk : skipSp (stepTail st i (s2 :: ss2)) = renderSteps st (i + 1) (s2 :: ss2) := by
        simp only [stepTail, List.isEmpty_cons, Bool.false_eq_true, if_false, hr]
        exact skipSp_ws_cons (sp_all st _ _) (by decide) _
      have hne : (renderSteps st (i + 1) (s2 :: ss2)).isEmpty = false := by rw [hr]; rfl
      have ih := parseSteps_render nm st (s2 :: ss2) (i + 1) k (by simp) (fun x hx => hw x (List.mem_cons_of_mem _ hx))
        (by simp only [List.length_cons] at hf ⊢; omega)
      simp [hsk, hne, ih]

theorem renderSteps_length (st : Style) : ∀ (ss : List (SurfStep N)) (i : Nat), ss.length ≤ (renderSteps st i ss).length
  | [], _ => by simp
  | s :: ss, i => by
    have ih := renderSteps_length st ss (i + 1)
    obtain ⟨r, hr⟩ := renderStep_shape st i s
    simp only [renderSteps, hr, List.length_cons, List.length_append]
    split
    · next h => simp at h; subst h; simp
    · simp only [List.length_append]; omega

/-- The whole tokenizer on the text of a well-formed expression, in any layout. -/
theorem parseExpr_render (nm : Num N) (st : Style) (ss : List (SurfStep N)) (hw : ∀ s ∈ ss, s.wf nm) :
    parseExpr nm (renderExpr st ss) = some (flatSurf ss) := by
  unfold parseExpr renderExpr
  cases ss with
  | nil =>
    have : (st.sp .start [] ++ (renderSteps st 0 ([] : List (SurfStep N)) ++ st.sp .stop [])).all isSpTab = true := by
      simp [renderSteps, List.all_append, sp_all]
    simp [strip_all_ws this, flatSurf, flattenSteps]
  | cons s ss =>
    obtain ⟨r, hr⟩ := renderSteps_shape st 0 s ss
    have hE := renderSteps_endsTight nm st (s :: ss) 0 (by simp) hw
    have hst : strip (st.sp .start [] ++ (renderSteps st 0 (s :: ss) ++ st.sp .stop [])) = renderSteps st 0 (s :: ss) := by
      rw [hr] at hE ⊢
      exact strip_ws_both (sp_all st _ _) (sp_all st _ _) (by decide) hE
    have hne : (renderSteps st 0 (s :: ss)).isEmpty = false := by rw [hr]; rfl
    have hlen := renderSteps_length st (s :: ss) 0
    rw [hst]
    simp only [hne]
    exact parseSteps_render nm st (s :: ss) 0 _ (by simp) hw (by simp only [List.length_append]; omega)

theorem toSteps_ofStep : ∀ (l : List (Step N)), toSteps (l.map PStep.ofStep) = some l
  | [] => rfl
  | s :: l => by
    have h1 : (PStep.ofStep s).toStep = some s := by
      obtain ⟨dbl, axis, name, preds⟩ := s
      cases axis with
      | none => rfl
      | some a => cases a <;> rfl
    simp [toSteps, h1, toSteps_ofStep l]

theorem toPs_eq_map : ∀ (ps : List (S N)), S.toPs ps = ps.map S.toP
  | [] => rfl
  | p :: ps => by simp [S.toPs, toPs_eq_map ps]

mutual
theorem toP_noNull : ∀ (p : S N), P.noNull p.toP = true
  | .num _ _ => rfl
  | .str _ => rfl
  | .attr _ => rfl
  | .text => rfl
  | .last => rfl
  | .position => rfl
  | .nspace0 => rfl
  | .concat args => by simp only [S.toP, P.noNull]; exact toPs_noNull args
  | .contains a b => by simp [S.toP, P.noNull, toP_noNull a, toP_noNull b]
  | .nspace1 a => by simp [S.toP, P.noNull, toP_noNull a]
  | .group p => by simp [S.toP, P.noNull, toP_noNull p]
  | .bin _ l r => by simp [S.toP, P.noNull, toP_noNull l, toP_noNull r]
theorem toPs_noNull : ∀ (ps : List (S N)), P.noNullList (S.toPs ps) = true
  | [] => rfl
  | p :: ps => by simp [S.toPs, P.noNullList, toP_noNull p, toPs_noNull ps]
end

/-- `XPathExpression(text)` on the text in any layout = the compile step on the flat form of the syntax. -/
theorem compileText_render (nm : Num N) (st : Style) (ss : List (SurfStep N)) (hw : ∀ s ∈ ss, s.wf nm) :
    compileText nm (renderExpr st ss) = compileSteps nm (flattenSteps (ss.map SurfStep.toSStep)) := by
  unfold compileText
  rw [parseExpr_render nm st ss hw]
  simp [flatSurf, toSteps_ofStep]

end AHP.XPath
