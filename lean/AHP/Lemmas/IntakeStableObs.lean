/-
  `Spec.build` (tree shape independent, stores by `intake`) shown through the API is `Spec.buildO` (no `intake`, no
  `stepD`): `obs_items`, `obs_single`, `obs_build`.
-/
import AHP.Lemmas.IntakeStableSpec
import AHP.Lemmas.ParserObjDoctype
import AHP.Lemmas.Builder
namespace AHP
open Spec

mutual
def Node.toO : Node → OTree
  | .text s => .text s
  | .elem n a sc kids => .elem n a.view sc (toOL kids)
def toOL : List Node → List OTree
  | [] => []
  | k :: ks => k.toO :: toOL ks
end

theorem view_eq_elemAttrs (a : List Attr) : (intake a AttrState.empty).view = Spec.elemAttrs a :=
  intake_view_eq_spec a

theorem obs_items (k : Nat) : ∀ (open_ : List Str) (ts : List Token),
    toOL (items k open_ ts).1 = (itemsO k open_ ts).1 ∧ (items k open_ ts).2 = (itemsO k open_ ts).2 := by
  induction k with
  | zero => intro _ ts; simp [items, itemsO, toOL]
  | succ k ih =>
    intro open_ ts
    cases ts with
    | nil => simp [items, itemsO, toOL]
    | cons t ts =>
      have hg := ih open_ ts
      cases t with
      | end_ n =>
        simp only [items, itemsO]
        split
        · simp [toOL]
        · exact hg
      | start n a =>
        simp only [items, itemsO]
        split
        · simp only [toOL, Node.toO, view_eq_elemAttrs, hg.1, hg.2, and_self]
        · have hc := ih (lower n :: open_) ts
          rw [← hc.2]
          have hs := ih open_ (afterContent (lower n) (items k (lower n :: open_) ts).2)
          simp only [toOL, Node.toO, view_eq_elemAttrs, hc.1, hs.1, hs.2, and_self]
      | startend n a =>
        simp only [items, itemsO, toOL, Node.toO, view_eq_elemAttrs, hg.1, hg.2, and_self]
      | decl d => simp only [items, itemsO, textOf]; exact hg
      | unknownDecl d => simp only [items, itemsO, textOf]; exact hg
      | pi d => simp only [items, itemsO, textOf]; exact hg
      | comment d => simp only [items, itemsO, textOf, toOL, Node.toO, hg.1, hg.2, and_self]
      | entity d => simp only [items, itemsO, textOf, toOL, Node.toO, hg.1, hg.2, and_self]
      | charref d => simp only [items, itemsO, textOf, toOL, Node.toO, hg.1, hg.2, and_self]
      | data d =>
        by_cases hd : d.isEmpty = true
        · simp only [items, itemsO, textOf, hd, if_true]; exact hg
        · simp only [items, itemsO, textOf, hd, if_false, Bool.false_eq_true, toOL, Node.toO, hg.1, hg.2, and_self]

theorem obs_single (k : Nat) : ∀ ts : List Token, (single k ts).map (·.map Node.toO) = singleO k ts := by
  induction k with
  | zero => intro ts; simp [single, singleO]
  | succ k ih =>
    intro ts
    cases ts with
    | nil => simp [single, singleO]
    | cons t ts =>
      cases t with
      | start n a =>
        simp only [single, singleO]
        split
        · split <;> simp [Node.toO, toOL, view_eq_elemAttrs]
        · have hc := obs_items k [lower n] ts
          rw [← hc.2]
          split <;> simp [Node.toO, view_eq_elemAttrs, hc.1]
      | startend n a =>
        simp only [single, singleO]
        split <;> simp [Node.toO, toOL, view_eq_elemAttrs]
      | end_ n => simp only [single, singleO, isOuter, if_true]; exact ih ts
      | decl d => simp only [single, singleO, isOuter, if_true]; exact ih ts
      | unknownDecl d => simp only [single, singleO, isOuter, if_true]; exact ih ts
      | pi d => simp only [single, singleO, isOuter, if_true]; exact ih ts
      | comment d => simp [single, singleO, isOuter]
      | entity d => simp [single, singleO, isOuter]
      | charref d => simp [single, singleO, isOuter]
      | data d =>
        by_cases hb : (d.isEmpty || isBlank d) = true
        · simp only [single, singleO, isOuter, hb, if_true]; exact ih ts
        · simp [single, singleO, isOuter, hb]

theorem doctypeOf_eq_read (toks : List Token) : Spec.doctypeOf toks = Spec.doctypeRead toks := by
  unfold Spec.doctypeOf; rw [← stepD_eq_spec]; exact doctype_fold_eq_read toks

/-- the specification's document, shown through the API, is the `intake`-free, `stepD`-free `buildO` -/
theorem obs_build (toks : List Token) :
    (((Spec.build toks).1.doctype, (Spec.build toks).1.root.map Node.toO), (Spec.build toks).2) = Spec.buildO toks := by
  unfold Spec.build Spec.buildO
  rw [← obs_single]
  cases hs : single (toks.length + 1) toks with
  | some r => simp [doctypeOf_eq_read]
  | none =>
    have hi := obs_items (toks.length + 1) [] (topTokens toks)
    have hv : AttrState.empty.view = [] := by decide
    simp [doctypeOf_eq_read, Node.toO, hi.1, hv]

end AHP
