/-
  C03 — the parser object across calls (`_reset`, `feed` on a used object, `parseStr`), and when `getHTML` is defined.
-/
import AHP.Lemmas.TotalBuilder
namespace AHP
open Spec

/-! ### `runS` against `run` -/

theorem Outcome.err_map {σ τ : Type} (f : σ → τ) (o : Outcome σ) : (o.map f).err = o.err := by
  cases o <;> rfl

theorem runS_err (ts : List Token) : ∀ s : BState, (runS s ts).2 = (run s ts).err := by
  induction ts with
  | nil => intro s; rfl
  | cons t ts ih =>
    intro s
    simp only [runS, run]
    cases h : step s t <;> simp [Outcome.err, ih]

theorem runS_ok (ts : List Token) : ∀ s s' : BState, run s ts = .ok s' → runS s ts = (s', none) := by
  induction ts with
  | nil => intro s s' h; simp [run] at h; simp [runS, h]
  | cons t ts ih =>
    intro s s' h
    simp only [runS, run] at h ⊢
    cases hs : step s t <;> rw [hs] at h <;> simp at h ⊢
    exact ih _ _ h

theorem runS_cases (s : BState) (ts : List Token) :
    (∃ s', run s ts = .ok s' ∧ runS s ts = (s', none)) ∨
    (∃ e, (run s ts).err = some e ∧ (runS s ts).2 = some e) := by
  cases h : run s ts with
  | ok s' => exact Or.inl ⟨s', rfl, runS_ok ts s s' h⟩
  | multipleRoot => exact Or.inr ⟨_, rfl, by rw [runS_err, h]; rfl⟩
  | invalidClose => exact Or.inr ⟨_, rfl, by rw [runS_err, h]; rfl⟩
  | missedClose => exact Or.inr ⟨_, rfl, by rw [runS_err, h]; rfl⟩
  | invalidAttr => exact Or.inr ⟨_, rfl, by rw [runS_err, h]; rfl⟩

theorem run_err_plain (s : BState) (ts : List Token) :
    (run s ts).err = none ∨ (run s ts).err = some .multipleRoot := by
  rw [run_eq, Outcome.err_map]
  rcases runT_ok_or_multipleRoot ts s.tree with ⟨s', h⟩ | h <;> rw [h]
  · left; rfl
  · right; rfl

/-- `_reset` restores the initial state from every state -/
theorem BState.reset_eq_init (s : BState) : s.reset = BState.init := rfl

theorem exc_of_err {σ : Type} (o : Outcome σ) (e : Exc) (h : o.err = some e) : o.exc = e := by
  cases o <;> simp [Outcome.err] at h <;> simp [Outcome.exc, h]

/-- a fresh object's `feed` (in the state-passing model) is `feedTokens` -/
theorem feedS_init (toks : List Token) :
    resultOf ((run BState.init toks).err == some .multipleRoot) (feedS BState.init toks) = feedTokens toks := by
  unfold feedS feedTokens
  cases h : run BState.init toks with
  | ok s' =>
    rw [runS_ok toks _ _ h]
    simp [resultOf, FeedResult.ofPass, Outcome.err]
  | multipleRoot =>
    have h2 : (runS BState.init toks).2 = some .multipleRoot := by rw [runS_err, h]; rfl
    have hp : runS BState.init toks = ((runS BState.init toks).1, some .multipleRoot) := by
      rw [← h2]
    rw [hp]
    simp only [BState.reset_eq_init, Outcome.err, beq_self_eq_true]
    cases h3 : run BState.init (wrapToks toks) with
    | ok s2 => rw [runS_ok _ _ _ h3]; simp [resultOf, FeedResult.ofPass]
    | multipleRoot =>
      have : (runS BState.init (wrapToks toks)).2 = some .multipleRoot := by rw [runS_err, h3]; rfl
      simp [resultOf, FeedResult.ofPass, this, Outcome.exc]
    | invalidClose =>
      have : (runS BState.init (wrapToks toks)).2 = some .invalidClose := by rw [runS_err, h3]; rfl
      simp [resultOf, FeedResult.ofPass, this, Outcome.exc]
    | missedClose =>
      have : (runS BState.init (wrapToks toks)).2 = some .missedClose := by rw [runS_err, h3]; rfl
      simp [resultOf, FeedResult.ofPass, this, Outcome.exc]
    | invalidAttr =>
      have : (runS BState.init (wrapToks toks)).2 = some .invalidAttr := by rw [runS_err, h3]; rfl
      simp [resultOf, FeedResult.ofPass, this, Outcome.exc]
  | invalidClose =>
    have h2 : (runS BState.init toks).2 = some .invalidClose := by rw [runS_err, h]; rfl
    have hp : runS BState.init toks = ((runS BState.init toks).1, some .invalidClose) := by rw [← h2]
    rw [hp]; simp [resultOf, FeedResult.ofPass, Outcome.err, Outcome.exc]
  | missedClose =>
    have h2 : (runS BState.init toks).2 = some .missedClose := by rw [runS_err, h]; rfl
    have hp : runS BState.init toks = ((runS BState.init toks).1, some .missedClose) := by rw [← h2]
    rw [hp]; simp [resultOf, FeedResult.ofPass, Outcome.err, Outcome.exc]
  | invalidAttr =>
    have h2 : (runS BState.init toks).2 = some .invalidAttr := by rw [runS_err, h]; rfl
    have hp : runS BState.init toks = ((runS BState.init toks).1, some .invalidAttr) := by rw [← h2]
    rw [hp]; simp [resultOf, FeedResult.ofPass, Outcome.err, Outcome.exc]

/-! ### `hasRoot` along a pass; `finish` -/

theorem hasRoot_addNode' (s : TState) (c : Node) : (addNode s c).hasRoot = true := by
  unfold addNode TState.hasRoot
  cases s.stack <;> simp

theorem hasRoot_of_stack' {s : TState} (h : s.stack ≠ []) : s.hasRoot = true := by
  unfold TState.hasRoot; cases hs : s.stack with
  | nil => exact absurd hs h
  | cons f fs => simp

theorem hasRoot_pop1 (s : TState) (h : s.hasRoot = true) : (pop1 s).hasRoot = true := by
  unfold pop1
  cases hs : s.stack with
  | nil => simpa [hs] using h
  | cons f fs => exact hasRoot_addNode' _ _

theorem hasRoot_popTo (n : Str) : ∀ (k : Nat) (s : TState), s.hasRoot = true → (popTo n k s).hasRoot = true := by
  intro k
  induction k with
  | zero => intro s h; exact h
  | succ k ih =>
    intro s h
    cases hs : s.stack with
    | nil => simpa [popTo, hs] using h
    | cons f fs =>
      simp only [popTo, hs]
      have hp := hasRoot_pop1 s h
      split
      · exact hp
      · exact ih _ hp

theorem stepT_hasRoot (s s' : TState) (t : Token) (h : stepT s t = .ok s') (hr : s.hasRoot = true) :
    s'.hasRoot = true := by
  cases t with
  | decl d => simp [stepT] at h; rw [← h]; exact hr
  | unknownDecl d => simp [stepT] at h; rw [← h]; exact hr
  | pi d => simp [stepT] at h; rw [← h]; exact hr
  | end_ n =>
    simp only [stepT, handleEnd, Outcome.ok.injEq] at h
    rw [← h]; split
    · exact hasRoot_popTo n _ s hr
    · exact hr
  | comment c =>
    simp only [stepT, addTextStrict] at h; split at h
    · cases h
    · simp at h; rw [← h]; exact hasRoot_addNode' _ _
  | entity c =>
    simp only [stepT, addTextStrict] at h; split at h
    · cases h
    · simp at h; rw [← h]; exact hasRoot_addNode' _ _
  | charref c =>
    simp only [stepT, addTextStrict] at h; split at h
    · cases h
    · simp at h; rw [← h]; exact hasRoot_addNode' _ _
  | data d =>
    simp only [stepT] at h
    split at h
    · simp at h; rw [← h]; exact hr
    · split at h
      · simp at h; rw [← h]; exact hasRoot_addNode' _ _
      · split at h
        · simp at h; rw [← h]; exact hr
        · cases h
  | start n a =>
    simp only [stepT, handleStart] at h
    split at h
    · split at h
      · simp at h; rw [← h]; exact hasRoot_addNode' _ _
      · simp at h; rw [← h]; simp [TState.hasRoot]
    · cases h
  | startend n a =>
    simp only [stepT, handleStart] at h
    split at h
    · split at h
      · simp at h; rw [← h]; exact hasRoot_addNode' _ _
      · simp at h; rw [← h]; simp [TState.hasRoot]
    · cases h

theorem runT_hasRoot (ts : List Token) : ∀ (s s' : TState), runT s ts = .ok s' → s.hasRoot = true →
    s'.hasRoot = true := by
  induction ts with
  | nil => intro s s' h hr; simp [runT] at h; rw [← h]; exact hr
  | cons t ts ih =>
    intro s s' h hr
    simp only [runT] at h
    cases hs : stepT s t <;> rw [hs] at h <;> simp at h
    exact ih _ _ h (stepT_hasRoot s _ t hs hr)

/-- a start tag accepted from any state leaves a root -/
theorem handleStart_hasRoot (s s' : TState) (n : Str) (a : List Attr) (sc : Bool)
    (h : handleStart s n a sc = .ok s') : s'.hasRoot = true := by
  simp only [handleStart] at h
  split at h
  · split at h
    · simp at h; rw [← h]; exact hasRoot_addNode' _ _
    · simp at h; rw [← h]; simp [TState.hasRoot]
  · cases h

/-- **nothing parsed.**  A pass from the initial state ends without a root exactly when every token is an
    outer one (blank text, declaration, processing instruction, stray end tag). -/
theorem runT_init_noRoot (ts : List Token) (s' : TState) (h : runT TState.init ts = .ok s') :
    s'.hasRoot = false ↔ ∀ t ∈ ts, isOuter t = true := by
  constructor
  · intro hr
    induction ts with
    | nil => intro t ht; cases ht
    | cons t ts ih =>
      by_cases ho : isOuter t = true
      · have h1 := stepT_outer_empty TState.init rfl t ho
        simp only [runT, h1] at h
        intro x hx
        rcases List.mem_cons.mp hx with e | e
        · rw [e]; exact ho
        · exact ih h x e
      · exfalso
        simp only [runT] at h
        cases hs : stepT TState.init t with
        | ok s1 =>
          rw [hs] at h
          have hr1 : s1.hasRoot = true := by
            cases t with
            | start n a => exact handleStart_hasRoot TState.init _ n a false hs
            | startend n a => exact handleStart_hasRoot TState.init _ n a true hs
            | decl d => simp [isOuter] at ho
            | unknownDecl d => simp [isOuter] at ho
            | pi d => simp [isOuter] at ho
            | end_ n => simp [isOuter] at ho
            | comment c => simp [stepT, addTextStrict, TState.init] at hs
            | entity c => simp [stepT, addTextStrict, TState.init] at hs
            | charref c => simp [stepT, addTextStrict, TState.init] at hs
            | data d =>
              simp only [isOuter, Bool.or_eq_true, not_or] at ho
              simp [stepT, TState.init, ho.1, ho.2] at hs
          have := runT_hasRoot ts s1 s' h hr1
          rw [this] at hr; cases hr
        | multipleRoot => rw [hs] at h; cases h
        | invalidClose => rw [hs] at h; cases h
        | missedClose => rw [hs] at h; cases h
        | invalidAttr => rw [hs] at h; cases h
  · intro hall
    rw [runT_outer_empty ts TState.init rfl hall] at h
    simp at h; rw [← h]; rfl

theorem closeAll_root (k : Nat) : ∀ s : TState, s.stack.length ≤ k →
    (closeAll k s).stack = [] ∧ (closeAll k s).root.isSome = s.hasRoot := by
  induction k with
  | zero =>
    intro s hk
    have : s.stack = [] := List.length_eq_zero_iff.mp (Nat.le_zero.mp hk)
    simp [closeAll, TState.hasRoot, this]
  | succ k ih =>
    intro s hk
    cases hs : s.stack with
    | nil => simp [closeAll, hs, TState.hasRoot]
    | cons f fs =>
      simp only [closeAll, hs]
      have hl : (pop1 s).stack.length ≤ k := by
        unfold pop1; rw [hs]; simp [len_addNode]; rw [hs] at hk; simp at hk; omega
      have := ih (pop1 s) hl
      refine ⟨this.1, ?_⟩
      rw [this.2, hasRoot_pop1 s (hasRoot_of_stack' (by rw [hs]; simp)), hasRoot_of_stack' (by rw [hs]; simp)]

/-- closing what is still open yields a root exactly when the state has one -/
theorem finish_root (s : TState) : (finish s).root.isSome = s.hasRoot :=
  (closeAll_root s.stack.length s (Nat.le_refl _)).2

end AHP
