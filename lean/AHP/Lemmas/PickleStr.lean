/-
  AHP.Lemmas.PickleStr — the class-string round trip `classTokens (className cls) = cls`, proved from a syntactic
  description of the tokens (non-empty, free of white space): the `cls` field of `Attrs.WF` for every class list
  the setters can build from such tokens.
-/
import AHP.Model.Pickle
namespace AHP.Pk
open AHP

/-- a class token as `className.split(' ')` of a stripped string leaves it, without inner white space -/
def Tok (t : Str) : Prop := t ≠ [] ∧ ∀ c ∈ t, isWs c = false

theorem isWs_space : isWs ' ' = true := by decide

theorem tok_no_space (t : Str) (h : Tok t) : ∀ c ∈ t, c ≠ ' ' := by
  intro c hc e
  have := h.2 c hc
  rw [e, isWs_space] at this
  exact absurd this (by decide)

theorem splitChar_ne_nil (sep : Char) (s : Str) : splitChar sep s ≠ [] := by
  induction s with
  | nil => simp [splitChar]
  | cons c r ih =>
    simp only [splitChar]
    split
    · simp
    · split <;> simp

/-- a prefix free of the separator stays in the first field -/
theorem splitChar_prefix (sep : Char) (t r : Str) (h : ∀ c ∈ t, c ≠ sep) :
    splitChar sep (t ++ sep :: r) = t :: splitChar sep r := by
  induction t with
  | nil => simp [splitChar]
  | cons c cs ih =>
    have hc : c ≠ sep := h c List.mem_cons_self
    simp only [List.cons_append, splitChar, hc, if_false]
    rw [ih (fun x hx => h x (List.mem_cons_of_mem _ hx))]

theorem splitChar_nosep (sep : Char) (t : Str) (h : ∀ c ∈ t, c ≠ sep) : splitChar sep t = [t] := by
  induction t with
  | nil => simp [splitChar]
  | cons c cs ih =>
    have hc : c ≠ sep := h c List.mem_cons_self
    simp only [splitChar, hc, if_false]
    rw [ih (fun x hx => h x (List.mem_cons_of_mem _ hx))]

theorem collapseSp_prefix (t r : Str) (h : ∀ c ∈ t, c ≠ ' ') : collapseSp (t ++ r) = t ++ collapseSp r := by
  induction t with
  | nil => rfl
  | cons c cs ih =>
    have hc : c ≠ ' ' := h c List.mem_cons_self
    simp only [List.cons_append, collapseSp, hc, if_false]
    rw [ih (fun x hx => h x (List.mem_cons_of_mem _ hx))]

theorem collapseSp_nosp (t : Str) (h : ∀ c ∈ t, c ≠ ' ') : collapseSp t = t := by
  have := collapseSp_prefix t [] h
  simpa [collapseSp] using this

theorem collapseSp_space_cons (c : Char) (r : Str) (hc : c ≠ ' ') :
    collapseSp (' ' :: c :: r) = ' ' :: collapseSp (c :: r) := by
  conv => lhs; unfold collapseSp
  simp [hc]

theorem joinWith_cons_cons (sep w v : Str) (ws : List Str) :
    joinWith sep (w :: v :: ws) = w ++ sep ++ joinWith sep (v :: ws) := by
  simp [joinWith]

/-- the joined class string of a non-empty token list: its shape, and what the three steps of
    `classTokens` do to it -/
theorem join_tokens (t : Str) (rest : List Str) (h : ∀ x ∈ t :: rest, Tok x) :
    (∃ c r, joinWith [' '] (t :: rest) = c :: r ∧ isWs c = false) ∧
    (∃ i l, joinWith [' '] (t :: rest) = i ++ [l] ∧ isWs l = false) ∧
    collapseSp (joinWith [' '] (t :: rest)) = joinWith [' '] (t :: rest) ∧
    splitChar ' ' (joinWith [' '] (t :: rest)) = t :: rest := by
  induction rest generalizing t with
  | nil =>
    have ht := h t List.mem_cons_self
    have hns := tok_no_space t ht
    simp only [joinWith]
    refine ⟨?_, ?_, collapseSp_nosp t hns, splitChar_nosep ' ' t hns⟩
    · cases t with
      | nil => exact absurd rfl ht.1
      | cons c r => exact ⟨c, r, rfl, ht.2 c List.mem_cons_self⟩
    · have hne := ht.1
      refine ⟨t.dropLast, t.getLast hne, (List.dropLast_concat_getLast hne).symm, ht.2 _ (List.getLast_mem hne)⟩
  | cons v vs ih =>
    have ht := h t List.mem_cons_self
    have hns := tok_no_space t ht
    have hrest : ∀ x ∈ v :: vs, Tok x := fun x hx => h x (List.mem_cons_of_mem _ hx)
    obtain ⟨⟨c, r, e1, hc⟩, ⟨i, l, e2, hl⟩, e3, e4⟩ := ih v hrest
    rw [joinWith_cons_cons]
    refine ⟨?_, ?_, ?_, ?_⟩
    · cases t with
      | nil => exact absurd rfl ht.1
      | cons c0 r0 => exact ⟨c0, _, rfl, ht.2 c0 List.mem_cons_self⟩
    · refine ⟨t ++ [' '] ++ i, l, ?_, hl⟩
      rw [e2]; simp
    · rw [List.append_assoc, collapseSp_prefix t _ hns]
      have hc' : c ≠ ' ' := by intro e; rw [e, isWs_space] at hc; exact absurd hc (by decide)
      show t ++ collapseSp (' ' :: joinWith [' '] (v :: vs)) = t ++ (' ' :: joinWith [' '] (v :: vs))
      rw [e1, collapseSp_space_cons c r hc', ← e1, e3]
    · rw [List.append_assoc]
      show splitChar ' ' (t ++ ' ' :: joinWith [' '] (v :: vs)) = t :: v :: vs
      rw [splitChar_prefix ' ' t _ hns, e4]

theorem lstrip_head (c : Char) (r : Str) (h : isWs c = false) : lstrip (c :: r) = c :: r := by
  simp [lstrip, List.dropWhile, h]

theorem rstrip_last (i : Str) (l : Char) (h : isWs l = false) : rstrip (i ++ [l]) = i ++ [l] := by
  simp [rstrip, List.dropWhile, h]

/-- **the class round trip**: joining tokens with single spaces and running the `className` setter's
    `stripWordsOnly` + `split(' ')` + drop-empties gives the tokens back. -/
theorem classTokens_className (cls : List Str) (h : ∀ t ∈ cls, Tok t) : classTokens (className cls) = cls := by
  cases cls with
  | nil => decide
  | cons t rest =>
    obtain ⟨⟨c, r, e1, hc⟩, ⟨i, l, e2, hl⟩, e3, e4⟩ := join_tokens t rest h
    unfold classTokens stripWordsOnly className strip
    rw [e1, lstrip_head c r hc, ← e1, e2, rstrip_last i l hl, ← e2, e3, e4]
    rw [List.filter_eq_self]
    intro x hx
    have := (h x hx).1
    cases x with
    | nil => exact absurd rfl this
    | cons _ _ => rfl

/-! ### the style-string round trip `styleToDict (styleStr sty) = sty` -/

/-- no white space at either end -/
def NoEdgeWs (x : Str) : Prop :=
  (∀ c r, x = c :: r → isWs c = false) ∧ (∀ i l, x = i ++ [l] → isWs l = false)

theorem strip_noEdge (x : Str) (h : NoEdgeWs x) : strip x = x := by
  unfold strip
  cases x with
  | nil => decide
  | cons c r =>
    rw [lstrip_head c r (h.1 c r rfl)]
    have hne : c :: r ≠ [] := by simp
    have e := (List.dropLast_concat_getLast hne).symm
    rw [e]
    exact rstrip_last _ _ (h.2 _ _ e)

theorem lstrip_space (x : Str) : lstrip (' ' :: x) = lstrip x := by
  simp [lstrip, List.dropWhile, isWs_space]

theorem strip_space (x : Str) : strip (' ' :: x) = strip x := by
  unfold strip; rw [lstrip_space]

/-- a style property as `styleToDict` stores it and `_asStr` prints it back -/
structure PropOK (p : Str × Str) : Prop where
  nameNe : p.1 ≠ []
  nameLow : lower p.1 = p.1
  nameEdge : NoEdgeWs p.1
  nameChars : ∀ c ∈ p.1, c ≠ ':' ∧ c ≠ ';'
  valNe : p.2 ≠ []
  valEdge : NoEdgeWs p.2
  valChars : ∀ c ∈ p.2, c ≠ ';'

def styleItem (p : Str × Str) : Str := p.1 ++ str ": " ++ p.2

theorem styleItem_eq (p : Str × Str) : styleItem p = p.1 ++ ':' :: ' ' :: p.2 := by
  simp [styleItem, str]

theorem styleItem_no_semi (p : Str × Str) (h : PropOK p) : ∀ c ∈ styleItem p, c ≠ ';' := by
  intro c hc
  rw [styleItem_eq] at hc
  simp only [List.mem_append, List.mem_cons] at hc
  rcases hc with hc | hc | hc | hc
  · exact (h.nameChars c hc).2
  · subst hc; decide
  · subst hc; decide
  · exact h.valChars c hc

theorem splitColon_prefix (n rest : Str) (h : ∀ c ∈ n, c ≠ ':') : splitColon (n ++ ':' :: rest) = some (n, rest) := by
  induction n with
  | nil => simp [splitColon]
  | cons c cs ih =>
    have hc : c ≠ ':' := h c List.mem_cons_self
    simp only [List.cons_append, splitColon, hc, if_false]
    rw [ih (fun x hx => h x (List.mem_cons_of_mem _ hx))]

/-- the body of the loop of `styleToDict` -/
def stepFn (d : List (Str × Str)) (item : Str) : List (Str × Str) :=
  match splitColon item with
  | none => d
  | some (n, v) => dset (lower (strip n)) (strip v) d

theorem styleToDict_eq (s : Str) : styleToDict s = (splitChar ';' (strip s)).foldl stepFn [] := rfl

/-- what one `for item in styles` step does with a printed property, with or without the space `'; '` leaves -/
theorem style_step (p : Str × Str) (h : PropOK p) (d : List (Str × Str)) (lead : Bool) :
    stepFn d ((if lead then [' '] else []) ++ styleItem p) = dset p.1 p.2 d := by
  unfold stepFn
  have hn : ∀ c ∈ p.1, c ≠ ':' := fun c hc => (h.nameChars c hc).1
  have e2 : strip (' ' :: p.2) = p.2 := by rw [strip_space, strip_noEdge _ h.valEdge]
  cases lead with
  | false =>
    simp only [Bool.false_eq_true, if_false, List.nil_append]
    rw [styleItem_eq, splitColon_prefix p.1 _ hn]
    simp only
    rw [strip_noEdge _ h.nameEdge, h.nameLow, e2]
  | true =>
    simp only [if_true]
    rw [styleItem_eq]
    have : [' '] ++ (p.1 ++ ':' :: ' ' :: p.2) = (' ' :: p.1) ++ ':' :: ' ' :: p.2 := by simp
    rw [this, splitColon_prefix (' ' :: p.1) _ (by
      intro c hc
      rcases List.mem_cons.mp hc with hc | hc
      · subst hc; decide
      · exact hn c hc)]
    simp only
    rw [strip_space, strip_noEdge _ h.nameEdge, h.nameLow, e2]

theorem joinWith2_cons_cons (w v : Str) (ws : List Str) :
    joinWith (str "; ") (w :: v :: ws) = w ++ ';' :: ' ' :: joinWith (str "; ") (v :: ws) := by
  simp [joinWith, str]

theorem splitChar_space_cons (X : Str) : splitChar ';' (' ' :: X) =
    (match splitChar ';' X with | [] => [[' ']] | w :: ws => (' ' :: w) :: ws) := by
  conv => lhs; unfold splitChar
  simp
  cases splitChar ';' X <;> rfl

/-- splitting the printed style at `;` gives the printed properties back, all but the first with the space -/
theorem split_style (p : Str × Str) (rest : List (Str × Str)) (h : ∀ q ∈ p :: rest, PropOK q) :
    splitChar ';' (joinWith (str "; ") ((p :: rest).map styleItem)) =
      styleItem p :: rest.map (fun q => ' ' :: styleItem q) := by
  induction rest generalizing p with
  | nil =>
    simp only [List.map_cons, List.map_nil, joinWith]
    exact splitChar_nosep ';' _ (styleItem_no_semi p (h p List.mem_cons_self))
  | cons q qs ih =>
    simp only [List.map_cons]
    rw [joinWith2_cons_cons, splitChar_prefix ';' _ _ (styleItem_no_semi p (h p List.mem_cons_self))]
    rw [splitChar_space_cons]
    have := ih q (fun x hx => h x (List.mem_cons_of_mem _ hx))
    simp only [List.map_cons] at this
    rw [this]

theorem style_fold (l : List (Str × Str)) (h : ∀ q ∈ l, PropOK q) (hn : (dkeys l).Nodup) (lead : Bool) (acc : List (Str × Str))
    (hd : ∀ k ∈ dkeys l, k ∉ dkeys acc) :
    (l.map (fun q => (if lead then [' '] else []) ++ styleItem q)).foldl stepFn acc = acc ++ l := by
  induction l generalizing acc with
  | nil => simp
  | cons q qs ih =>
    simp only [List.map_cons, List.foldl_cons]
    rw [style_step q (h q List.mem_cons_self) acc lead]
    simp only [dkeys, List.map_cons, List.nodup_cons] at hn
    rw [dset_of_not_mem' _ _ _ (hd q.1 (by simp [dkeys]))]
    rw [ih (fun x hx => h x (List.mem_cons_of_mem _ hx)) hn.2]
    · simp
    · intro k hk
      have := hd k (by simp [dkeys] at hk ⊢; exact Or.inr hk)
      simp only [dkeys, List.map_append, List.mem_append, not_or] at this ⊢
      refine ⟨this, ?_⟩
      simp
      intro e; subst e; exact hn.1 hk
where
  dset_of_not_mem' (k v : Str) (d : List (Str × Str)) (hk : k ∉ dkeys d) : dset k v d = d ++ [(k, v)] := by
    induction d with
    | nil => rfl
    | cons p r ih =>
      obtain ⟨k', v'⟩ := p
      simp only [dkeys, List.map_cons, List.mem_cons, not_or] at hk
      have h1 : ¬ k' = k := fun e => hk.1 e.symm
      simp only [dset, h1, if_false, List.cons_append]
      rw [ih (by simpa [dkeys] using hk.2)]

theorem joinWith_head (sep x : Str) (xs : List Str) (c : Char) (r : Str) (hx : x = c :: r) :
    ∃ r', joinWith sep (x :: xs) = c :: r' := by
  cases xs with
  | nil => exact ⟨r, by simp [joinWith, hx]⟩
  | cons y ys => exact ⟨r ++ sep ++ joinWith sep (y :: ys), by simp [joinWith, hx]⟩

theorem joinWith_last (sep : Str) (xs : List Str) (x : Str) (i : Str) (l : Char) (hx : x = i ++ [l]) :
    ∃ i', joinWith sep (xs ++ [x]) = i' ++ [l] := by
  induction xs with
  | nil => exact ⟨i, by simp [joinWith, hx]⟩
  | cons y ys ih =>
    obtain ⟨i', e⟩ := ih
    cases hys : ys ++ [x] with
    | nil => simp at hys
    | cons z zs =>
      refine ⟨y ++ sep ++ i', ?_⟩
      rw [List.cons_append, hys]
      simp only [joinWith]
      rw [← hys, e]
      simp

/-- **the style round trip**: printing a style map of well-formed properties with unique names and parsing
    it back (`StyleAttribute(str(style))`, as cloning and unpickling do) gives the same map. -/
theorem styleToDict_styleStr (sty : List (Str × Str)) (h : ∀ q ∈ sty, PropOK q) (hn : (dkeys sty).Nodup) :
    styleToDict (styleStr sty) = sty := by
  cases sty with
  | nil => decide
  | cons p rest =>
    rw [styleToDict_eq]
    unfold styleStr
    have hmap : (p :: rest).map (fun q => q.1 ++ str ": " ++ q.2) = (p :: rest).map styleItem := rfl
    rw [hmap]
    -- the whole string has no white space at its ends
    have hp := h p List.mem_cons_self
    have hs : strip (joinWith (str "; ") ((p :: rest).map styleItem)) = joinWith (str "; ") ((p :: rest).map styleItem) := by
      apply strip_noEdge
      constructor
      · intro c r e
        cases hn1 : p.1 with
        | nil => exact absurd hn1 hp.nameNe
        | cons c0 r0 =>
          obtain ⟨r', e'⟩ := joinWith_head (str "; ") (styleItem p) (rest.map styleItem) c0 (r0 ++ ':' :: ' ' :: p.2)
            (by rw [styleItem_eq, hn1]; simp)
          simp only [List.map_cons] at e
          rw [e'] at e
          have hc := (List.cons.inj e).1
          rw [← hc]
          exact hp.nameEdge.1 c0 r0 hn1
      · intro i l e
        -- the last printed property ends with the last character of its (non-empty) value
        have hne : (p :: rest) ≠ [] := by simp
        have hlast := List.dropLast_concat_getLast hne
        have hq := h _ (List.getLast_mem hne)
        have hv := List.dropLast_concat_getLast hq.valNe
        obtain ⟨i', e'⟩ := joinWith_last (str "; ") (((p :: rest).dropLast).map styleItem) (styleItem ((p :: rest).getLast hne))
          (((p :: rest).getLast hne).1 ++ ':' :: ' ' :: ((p :: rest).getLast hne).2.dropLast) (((p :: rest).getLast hne).2.getLast hq.valNe)
          (by rw [styleItem_eq]; conv => lhs; rw [← hv]
              simp)
        have e2 : ((p :: rest).dropLast).map styleItem ++ [styleItem ((p :: rest).getLast hne)] = (p :: rest).map styleItem := by
          rw [← List.map_singleton (f := styleItem), ← List.map_append, hlast]
        rw [e2] at e'
        rw [e'] at e
        have := List.append_inj' e rfl
        have hl : l = ((p :: rest).getLast hne).2.getLast hq.valNe := by
          have := this.2; simp at this; exact this.symm
        rw [hl]
        exact hq.valEdge.2 _ _ hv.symm
    rw [hs, split_style p rest h]
    -- first property without, the others with the leading space
    simp only [List.foldl_cons]
    have s1 := style_step p hp [] false
    simp only [Bool.false_eq_true, if_false, List.nil_append] at s1
    rw [s1]
    simp only [dkeys, List.map_cons, List.nodup_cons] at hn
    have s2 := style_fold rest (fun q hq => h q (List.mem_cons_of_mem _ hq)) hn.2 true (dset p.1 p.2 []) (by
      intro k hk
      simp [dset, dkeys]
      intro e; subst e; exact hn.1 hk)
    simp only [if_true] at s2
    have e3 : rest.map (fun q => ' ' :: styleItem q) = rest.map (fun q => [' '] ++ styleItem q) := by simp
    rw [e3, s2]
    simp [dset]

end AHP.Pk
