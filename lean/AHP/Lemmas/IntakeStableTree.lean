/-
  IntakeStable, part 3 — trees whose attribute stores are `intake` images are `Stable`:

  * `Node.Built` — every store of the tree is `intake l AttrState.empty` for some raw list `l`;
    `built_stable` (from `intake_view_stable`);
  * `feedTokens_built` — EVERY tree the builder produces (first pass or wrapped second pass, any token list,
    however nested, wrapper name mentioned or not) is `Built`: an invariant of `stepT` / `finish`;
  * `CNode` / `CNode.build` — a tree handed to the public constructor `AdvancedTag(name, attrList, isSelfClosing)`
    with raw attribute lists (name lower-cased, void names self-closing, blocks appended clear the flag);
    `cnode_built`;
  * `lnode_obs_reintake` — for a `Stable` tree in lexical normal form, the tree a parse of its serialisation builds
    shows the same names, attribute name/value pairs (in order), self-closing flags and text blocks (`Node.obs`).
-/
import AHP.Lemmas.RoundTrip
import AHP.Lemmas.IntakeStable
namespace AHP

/-- a store built by `AdvancedTag.__init__` from some raw attribute list -/
def IsIntake (a : AttrState) : Prop := ∃ l : List Attr, a = intake l AttrState.empty

theorem isIntake_intake (l : List Attr) : IsIntake (intake l AttrState.empty) := ⟨l, rfl⟩
theorem isIntake_empty : IsIntake AttrState.empty := ⟨[], rfl⟩

theorem isIntake_viewStable {a : AttrState} (h : IsIntake a) : ViewStable a := by
  obtain ⟨l, rfl⟩ := h
  exact intake_view_stable l

/-- re-reading an `intake` image gives an `intake` image again -/
theorem isIntake_reintakeA (a : AttrState) : IsIntake (reintakeA a) := ⟨a.view, rfl⟩

mutual
/-- every attribute store of the tree was built by the constructor from a raw list -/
def Node.Built : Node → Prop
  | .text _ => True
  | .elem _ a _ kids => IsIntake a ∧ BuiltL kids
def BuiltL : List Node → Prop
  | [] => True
  | k :: ks => k.Built ∧ BuiltL ks
end

theorem builtL_iff : ∀ ks : List Node, BuiltL ks ↔ ∀ k ∈ ks, k.Built
  | [] => by simp [BuiltL]
  | k :: ks => by simp [BuiltL, builtL_iff ks]

theorem builtL_reverse {ks : List Node} (h : BuiltL ks) : BuiltL ks.reverse := by
  rw [builtL_iff] at h ⊢
  intro k hk
  exact h k (List.mem_reverse.mp hk)

theorem builtL_append {xs ys : List Node} (hx : BuiltL xs) (hy : BuiltL ys) : BuiltL (xs ++ ys) := by
  rw [builtL_iff] at hx hy ⊢
  intro k hk
  rcases List.mem_append.mp hk with h | h
  · exact hx k h
  · exact hy k h

mutual
theorem built_stable (t : Node) (h : t.Built) : t.Stable := by
  match t, h with
  | .text _, _ => simp [Node.Stable]
  | .elem n a sc kids, h =>
    simp only [Node.Built] at h
    simp only [Node.Stable]
    exact ⟨isIntake_viewStable h.1, builtL_stable kids h.2⟩
theorem builtL_stable (ks : List Node) (h : BuiltL ks) : StableL ks := by
  match ks, h with
  | [], _ => simp [StableL]
  | k :: ks, h =>
    simp only [BuiltL] at h
    simp only [StableL]
    exact ⟨built_stable k h.1, builtL_stable ks h.2⟩
end

/-! ### the builder keeps `Built` -/

def Frame.Built (f : Frame) : Prop := IsIntake f.attrs ∧ BuiltL f.rev

/-- invariant of the tree part of the parser state -/
def TState.Built (s : TState) : Prop := (∀ f ∈ s.stack, f.Built) ∧ (∀ r, s.root = some r → r.Built)

theorem tstate_init_built : TState.init.Built := by
  simp [TState.Built, TState.init]

theorem frame_close_built {f : Frame} (h : f.Built) : f.close.Built := by
  simp only [Frame.close, Node.Built]
  exact ⟨h.1, builtL_reverse h.2⟩

theorem addNode_built {s : TState} (h : s.Built) {c : Node} (hc : c.Built) : (addNode s c).Built := by
  unfold addNode
  cases hs : s.stack with
  | nil =>
    simp only
    refine ⟨by simp, ?_⟩
    intro r hr
    simp only [Option.some.injEq] at hr
    rw [← hr]; exact hc
  | cons f fs =>
    simp only
    have hf : ∀ g ∈ s.stack, g.Built := h.1
    rw [hs] at hf
    refine ⟨?_, h.2⟩
    intro g hg
    rcases List.mem_cons.mp hg with e | m
    · subst e
      have := hf f (by simp)
      exact ⟨this.1, by simp only [BuiltL]; exact ⟨hc, this.2⟩⟩
    · exact hf g (List.mem_cons_of_mem _ m)

theorem pop1_built {s : TState} (h : s.Built) : (pop1 s).Built := by
  unfold pop1
  cases hs : s.stack with
  | nil => simp only; exact h
  | cons f fs =>
    simp only
    have hf : ∀ g ∈ s.stack, g.Built := h.1
    rw [hs] at hf
    apply addNode_built
    · exact ⟨fun g hg => hf g (List.mem_cons_of_mem _ hg), h.2⟩
    · exact frame_close_built (hf f (by simp))

theorem popTo_built (n : Str) : ∀ (k : Nat) {s : TState}, s.Built → (popTo n k s).Built
  | 0, _, h => h
  | k + 1, s, h => by
    unfold popTo
    cases hs : s.stack with
    | nil => simp only; exact h
    | cons f fs =>
      simp only
      split
      · exact pop1_built h
      · exact popTo_built n k (pop1_built h)

theorem handleStart_built {s : TState} (h : s.Built) (n : Str) (a : List Attr) (sc : Bool) {s' : TState}
    (hs : handleStart s n a sc = .ok s') : s'.Built := by
  unfold handleStart at hs
  simp only at hs
  split at hs
  · split at hs
    · injection hs with e
      rw [← e]
      exact addNode_built h (by simp only [Node.Built, BuiltL]; exact ⟨isIntake_intake a, trivial⟩)
    · injection hs with e
      rw [← e]
      refine ⟨?_, h.2⟩
      intro g hg
      rcases List.mem_cons.mp hg with e' | m
      · subst e'; exact ⟨isIntake_intake a, by simp [BuiltL]⟩
      · exact h.1 g m
  · cases hs

theorem handleEnd_built {s : TState} (h : s.Built) (n : Str) : (handleEnd s n).Built := by
  unfold handleEnd
  split
  · exact popTo_built n _ h
  · exact h

theorem addTextStrict_built {s : TState} (h : s.Built) (t : Str) {s' : TState}
    (hs : addTextStrict s t = .ok s') : s'.Built := by
  unfold addTextStrict at hs
  split at hs
  · cases hs
  · injection hs with e
    rw [← e]
    exact addNode_built h (by simp [Node.Built])

theorem stepT_built {s : TState} (h : s.Built) (t : Token) {s' : TState} (hs : stepT s t = .ok s') : s'.Built := by
  cases t with
  | start n a => exact handleStart_built h n a false hs
  | startend n a => exact handleStart_built h n a true hs
  | end_ n =>
    simp only [stepT] at hs
    injection hs with e
    rw [← e]; exact handleEnd_built h n
  | data d =>
    simp only [stepT] at hs
    split at hs
    · injection hs with e; rw [← e]; exact h
    · split at hs
      · injection hs with e
        rw [← e]
        exact addNode_built h (by simp [Node.Built])
      · split at hs
        · injection hs with e; rw [← e]; exact h
        · cases hs
  | entity e => exact addTextStrict_built h _ hs
  | charref c => exact addTextStrict_built h _ hs
  | comment c => exact addTextStrict_built h _ hs
  | decl d => simp only [stepT] at hs; injection hs with e; rw [← e]; exact h
  | unknownDecl d => simp only [stepT] at hs; injection hs with e; rw [← e]; exact h
  | pi d => simp only [stepT] at hs; injection hs with e; rw [← e]; exact h

theorem runT_built : ∀ (ts : List Token) {s s' : TState}, s.Built → runT s ts = .ok s' → s'.Built
  | [], s, s', h, hr => by
    simp only [runT] at hr
    injection hr with e
    rw [← e]; exact h
  | t :: ts, s, s', h, hr => by
    simp only [runT] at hr
    cases hst : stepT s t with
    | ok s1 =>
      rw [hst] at hr
      exact runT_built ts (stepT_built h t hst) hr
    | multipleRoot => rw [hst] at hr; cases hr
    | invalidClose => rw [hst] at hr; cases hr
    | missedClose => rw [hst] at hr; cases hr
    | invalidAttr => rw [hst] at hr; cases hr

theorem closeAll_built : ∀ (k : Nat) {s : TState}, s.Built → (closeAll k s).Built
  | 0, _, h => h
  | k + 1, s, h => by
    unfold closeAll
    cases hs : s.stack with
    | nil => simp only; exact h
    | cons f fs => simp only; exact closeAll_built k (pop1_built h)

theorem finish_built {s : TState} (h : s.Built) : (finish s).Built := closeAll_built _ h

/-- one pass from the initial state: the root of its document is `Built` -/
theorem pass_built (toks : List Token) (second : Bool) (d : Doc) (b : Bool)
    (h : FeedResult.ofPass second (run BState.init toks) = .doc d b) : ∀ r, d.root = some r → r.Built := by
  rw [run_eq] at h
  simp only [BState.init] at h
  cases hr : runT TState.init toks with
  | ok s' =>
    rw [hr] at h
    simp only [Outcome.map, FeedResult.ofPass, BState.doc] at h
    injection h with hd _
    have hb := finish_built (runT_built toks tstate_init_built hr)
    intro r hroot
    rw [← hd] at hroot
    exact hb.2 r hroot
  | multipleRoot => rw [hr] at h; simp [Outcome.map, FeedResult.ofPass] at h
  | invalidClose => rw [hr] at h; simp [Outcome.map, FeedResult.ofPass] at h
  | missedClose => rw [hr] at h; simp [Outcome.map, FeedResult.ofPass] at h
  | invalidAttr => rw [hr] at h; simp [Outcome.map, FeedResult.ofPass] at h

/-- **Every tree the builder produces is `Built`** — for every token list (any order, however nested, mentioning
    the wrapper name or not), first pass or wrapped second pass. -/
theorem feedTokens_built (toks : List Token) (d : Doc) (b : Bool) (h : feedTokens toks = .doc d b) :
    ∀ r, d.root = some r → r.Built := by
  unfold feedTokens at h
  split at h
  · exact pass_built _ true d b h
  · exact pass_built _ false d b h

/-- …hence `Stable`: its attribute stores list the same pairs after being re-read from their rendering -/
theorem feedTokens_stable (toks : List Token) (d : Doc) (b : Bool) (h : feedTokens toks = .doc d b) :
    ∀ r, d.root = some r → r.Stable :=
  fun r hr => built_stable r (feedTokens_built toks d b h r hr)

/-! ### trees built through the public constructor from raw attribute lists -/

/-- a tree as the constructor `AdvancedTag(name, attrList, isSelfClosing)` + `appendBlock` receive it: RAW attribute
    lists (any names, any letter case, duplicates, class / style / spellcheck), text blocks as text-like tokens -/
inductive CNode where
  | tok (t : Token)
  | elem (name : Str) (attrs : List Attr) (sc : Bool) (kids : List CNode)
  deriving Repr, Inhabited

mutual
/-- what the constructor builds: name lower-cased, attributes through `intake`, void names self-closing, the flag
    cleared as soon as a block is appended -/
def CNode.build : CNode → LNode
  | .tok t => .tok t
  | .elem n l sc kids =>
      .elem (lower n) (intake l AttrState.empty) (if kids.isEmpty then sc || isVoid (lower n) else false) (buildCL kids)
def buildCL : List CNode → List LNode
  | [] => []
  | k :: ks => k.build :: buildCL ks
end

mutual
theorem cnode_built (c : CNode) : c.build.toNode.Built := by
  match c with
  | .tok t => simp [CNode.build, LNode.toNode, Node.Built]
  | .elem n l sc kids =>
    simp only [CNode.build, LNode.toNode, Node.Built]
    exact ⟨isIntake_intake l, cnodeL_built kids⟩
theorem cnodeL_built (cs : List CNode) : BuiltL (toNodeL (buildCL cs)) := by
  match cs with
  | [] => simp [buildCL, toNodeL, BuiltL]
  | c :: cs =>
    simp only [buildCL, toNodeL, BuiltL]
    exact ⟨cnode_built c, cnodeL_built cs⟩
end

theorem cnode_stable (c : CNode) : c.build.toNode.Stable := built_stable _ (cnode_built c)
theorem cnodeL_stable (cs : List CNode) : StableL (toNodeL (buildCL cs)) := builtL_stable _ (cnodeL_built cs)

/-! ### what the API shows of the re-parsed tree -/

mutual
theorem lnode_obs_reintake (t : LNode) (hwf : t.WF) (hst : t.toNode.Stable) : t.toNode.reintake.obs = t.toNode.obs := by
  match t, hwf, hst with
  | .tok tk, _, _ => simp [LNode.toNode, Node.reintake]
  | .elem n a sc kids, hwf, hst =>
    simp only [LNode.WF] at hwf
    simp only [LNode.toNode, Node.Stable] at hst
    simp only [LNode.toNode, Node.reintake, Node.obs]
    have hv : (reintakeA a).view = a.view := hst.1
    rw [hv, lforest_obs_reintake kids hwf.2.2.2 hst.2]
theorem lforest_obs_reintake (ks : List LNode) (hwf : WFLL ks) (hst : StableL (toNodeL ks)) :
    obsL (reintakeL (toNodeL ks)) = obsL (toNodeL ks) := by
  match ks, hwf, hst with
  | [], _, _ => simp [toNodeL, reintakeL]
  | .tok tk :: ks, hwf, hst =>
    simp only [WFLL, LNode.WF] at hwf
    simp only [toNodeL, StableL] at hst
    have hne := textOfD_ne tk hwf.1
    simp only [toNodeL, LNode.toNode, reintakeL, hne, Bool.false_eq_true, if_false, obsL, Node.obs]
    rw [lforest_obs_reintake ks hwf.2 hst.2]
  | .elem n a sc kids :: ks, hwf, hst =>
    simp only [WFLL, LNode.WF] at hwf
    simp only [toNodeL, LNode.toNode, StableL, Node.Stable] at hst
    simp only [toNodeL, LNode.toNode, reintakeL, obsL, Node.obs]
    have hv : (reintakeA a).view = a.view := hst.1.1
    rw [hv, lforest_obs_reintake kids hwf.1.2.2.2 hst.1.2, lforest_obs_reintake ks hwf.2 hst.2]
end

/-- re-reading keeps `Built` (so a document can go round any number of times) -/
theorem isIntake_stable_reintake (a : AttrState) : ViewStable (reintakeA a) :=
  isIntake_viewStable (isIntake_reintakeA a)

/-! ### every tree the builder produces is in lexical normal form

  `Node.Lex`: no empty text block; element names lower-case; void names self-closing; self-closing elements
  empty.  For a tree given as `l.toNode` this is `l.WF` (`wf_of_lex`). -/

mutual
def Node.Lex : Node → Prop
  | .text s => s ≠ []
  | .elem n _ sc kids => lower n = n ∧ (isVoid n = true → sc = true) ∧ (sc = true → kids = []) ∧ LexL kids
def LexL : List Node → Prop
  | [] => True
  | k :: ks => k.Lex ∧ LexL ks
end

theorem lexL_iff : ∀ ks : List Node, LexL ks ↔ ∀ k ∈ ks, k.Lex
  | [] => by simp [LexL]
  | k :: ks => by simp [LexL, lexL_iff ks]

theorem lexL_reverse {ks : List Node} (h : LexL ks) : LexL ks.reverse := by
  rw [lexL_iff] at h ⊢
  intro k hk
  exact h k (List.mem_reverse.mp hk)

mutual
theorem wf_of_lex (l : LNode) (h : l.toNode.Lex) : l.WF := by
  match l, h with
  | .tok t, h =>
    simp only [LNode.toNode, Node.Lex, textOfD] at h
    simp only [LNode.WF]
    cases ht : Spec.textOf t with
    | none => rw [ht] at h; simp at h
    | some s => rfl
  | .elem n a sc kids, h =>
    simp only [LNode.toNode, Node.Lex] at h
    simp only [LNode.WF]
    refine ⟨h.1, h.2.1, ?_, wfL_of_lex kids h.2.2.2⟩
    intro hsc
    have := h.2.2.1 hsc
    cases kids with
    | nil => rfl
    | cons k ks => simp [toNodeL] at this
theorem wfL_of_lex (ks : List LNode) (h : LexL (toNodeL ks)) : WFLL ks := by
  match ks, h with
  | [], _ => simp [WFLL]
  | k :: ks, h =>
    simp only [toNodeL, LexL] at h
    simp only [WFLL]
    exact ⟨wf_of_lex k h.1, wfL_of_lex ks h.2⟩
end

def Frame.Lex (f : Frame) : Prop := lower f.name = f.name ∧ isVoid f.name = false ∧ LexL f.rev

def TState.Lex (s : TState) : Prop := (∀ f ∈ s.stack, f.Lex) ∧ (∀ r, s.root = some r → r.Lex)

theorem tstate_init_lex : TState.init.Lex := by simp [TState.Lex, TState.init]

theorem frame_close_lex {f : Frame} (h : f.Lex) : f.close.Lex := by
  simp only [Frame.close, Node.Lex]
  refine ⟨h.1, ?_, by simp, lexL_reverse h.2.2⟩
  intro hv; rw [h.2.1] at hv; cases hv

theorem addNode_lex {s : TState} (h : s.Lex) {c : Node} (hc : c.Lex) : (addNode s c).Lex := by
  unfold addNode
  cases hs : s.stack with
  | nil =>
    simp only
    refine ⟨by simp, ?_⟩
    intro r hr
    simp only [Option.some.injEq] at hr
    rw [← hr]; exact hc
  | cons f fs =>
    simp only
    have hf : ∀ g ∈ s.stack, g.Lex := h.1
    rw [hs] at hf
    refine ⟨?_, h.2⟩
    intro g hg
    rcases List.mem_cons.mp hg with e | m
    · subst e
      have := hf f (by simp)
      exact ⟨this.1, this.2.1, by simp only [LexL]; exact ⟨hc, this.2.2⟩⟩
    · exact hf g (List.mem_cons_of_mem _ m)

theorem pop1_lex {s : TState} (h : s.Lex) : (pop1 s).Lex := by
  unfold pop1
  cases hs : s.stack with
  | nil => simp only; exact h
  | cons f fs =>
    simp only
    have hf : ∀ g ∈ s.stack, g.Lex := h.1
    rw [hs] at hf
    apply addNode_lex
    · exact ⟨fun g hg => hf g (List.mem_cons_of_mem _ hg), h.2⟩
    · exact frame_close_lex (hf f (by simp))

theorem popTo_lex (n : Str) : ∀ (k : Nat) {s : TState}, s.Lex → (popTo n k s).Lex
  | 0, _, h => h
  | k + 1, s, h => by
    unfold popTo
    cases hs : s.stack with
    | nil => simp only; exact h
    | cons f fs =>
      simp only
      split
      · exact pop1_lex h
      · exact popTo_lex n k (pop1_lex h)

theorem handleStart_lex {s : TState} (h : s.Lex) (n : Str) (a : List Attr) (sc : Bool) {s' : TState}
    (hs : handleStart s n a sc = .ok s') : s'.Lex := by
  unfold handleStart at hs
  simp only at hs
  have hl : lower (lower n) = lower n := Attrs.lower_idem n
  split at hs
  · split at hs
    · injection hs with e
      rw [← e]
      exact addNode_lex h (by simp [Node.Lex, LexL, hl])
    · next hsc =>
      injection hs with e
      rw [← e]
      refine ⟨?_, h.2⟩
      intro g hg
      rcases List.mem_cons.mp hg with e' | m
      · subst e'
        refine ⟨hl, ?_, by simp [LexL]⟩
        cases hv : isVoid (lower n) with
        | false => rfl
        | true => rw [hv] at hsc; simp at hsc
      · exact h.1 g m
  · cases hs

theorem handleEnd_lex {s : TState} (h : s.Lex) (n : Str) : (handleEnd s n).Lex := by
  unfold handleEnd
  split
  · exact popTo_lex n _ h
  · exact h

theorem addTextStrict_lex {s : TState} (h : s.Lex) (t : Str) (ht : t ≠ []) {s' : TState}
    (hs : addTextStrict s t = .ok s') : s'.Lex := by
  unfold addTextStrict at hs
  split at hs
  · cases hs
  · injection hs with e
    rw [← e]
    exact addNode_lex h (by simp only [Node.Lex]; exact ht)

theorem stepT_lex {s : TState} (h : s.Lex) (t : Token) {s' : TState} (hs : stepT s t = .ok s') : s'.Lex := by
  cases t with
  | start n a => exact handleStart_lex h n a false hs
  | startend n a => exact handleStart_lex h n a true hs
  | end_ n =>
    simp only [stepT] at hs
    injection hs with e
    rw [← e]; exact handleEnd_lex h n
  | data d =>
    simp only [stepT] at hs
    split at hs
    · injection hs with e; rw [← e]; exact h
    · next hd =>
      split at hs
      · injection hs with e
        rw [← e]
        exact addNode_lex h (by simp only [Node.Lex]; intro e; rw [e] at hd; simp at hd)
      · split at hs
        · injection hs with e; rw [← e]; exact h
        · cases hs
  | entity e => exact addTextStrict_lex h _ (by simp) hs
  | charref c => exact addTextStrict_lex h _ (by simp) hs
  | comment c => exact addTextStrict_lex h _ (by simp) hs
  | decl d => simp only [stepT] at hs; injection hs with e; rw [← e]; exact h
  | unknownDecl d => simp only [stepT] at hs; injection hs with e; rw [← e]; exact h
  | pi d => simp only [stepT] at hs; injection hs with e; rw [← e]; exact h

theorem runT_lex : ∀ (ts : List Token) {s s' : TState}, s.Lex → runT s ts = .ok s' → s'.Lex
  | [], s, s', h, hr => by
    simp only [runT] at hr
    injection hr with e
    rw [← e]; exact h
  | t :: ts, s, s', h, hr => by
    simp only [runT] at hr
    cases hst : stepT s t with
    | ok s1 =>
      rw [hst] at hr
      exact runT_lex ts (stepT_lex h t hst) hr
    | multipleRoot => rw [hst] at hr; cases hr
    | invalidClose => rw [hst] at hr; cases hr
    | missedClose => rw [hst] at hr; cases hr
    | invalidAttr => rw [hst] at hr; cases hr

theorem closeAll_lex : ∀ (k : Nat) {s : TState}, s.Lex → (closeAll k s).Lex
  | 0, _, h => h
  | k + 1, s, h => by
    unfold closeAll
    cases hs : s.stack with
    | nil => simp only; exact h
    | cons f fs => simp only; exact closeAll_lex k (pop1_lex h)

theorem pass_lex (toks : List Token) (second : Bool) (d : Doc) (b : Bool)
    (h : FeedResult.ofPass second (run BState.init toks) = .doc d b) : ∀ r, d.root = some r → r.Lex := by
  rw [run_eq] at h
  simp only [BState.init] at h
  cases hr : runT TState.init toks with
  | ok s' =>
    rw [hr] at h
    simp only [Outcome.map, FeedResult.ofPass, BState.doc] at h
    injection h with hd _
    have hb : (finish s').Lex := closeAll_lex _ (runT_lex toks tstate_init_lex hr)
    intro r hroot
    rw [← hd] at hroot
    exact hb.2 r hroot
  | multipleRoot => rw [hr] at h; simp [Outcome.map, FeedResult.ofPass] at h
  | invalidClose => rw [hr] at h; simp [Outcome.map, FeedResult.ofPass] at h
  | missedClose => rw [hr] at h; simp [Outcome.map, FeedResult.ofPass] at h
  | invalidAttr => rw [hr] at h; simp [Outcome.map, FeedResult.ofPass] at h

/-- **Every tree the builder produces is in lexical normal form** (what `LNode` / `LNode.WF` describe). -/
theorem feedTokens_lex (toks : List Token) (d : Doc) (b : Bool) (h : feedTokens toks = .doc d b) :
    ∀ r, d.root = some r → r.Lex := by
  unfold feedTokens at h
  split at h
  · exact pass_lex _ true d b h
  · exact pass_lex _ false d b h

end AHP
