/-
  AHP.Lemmas.Pickle — lemmas about AHP/Model/Pickle.lean used by the C17 and C16 theorems.

  1. association-list dict (`dset`, `ddel`, `dget`)
  2. the attribute store: `handle` is idempotent and invisible to the views; the round trip
     `Attrs.init (attrsList a)` (what cloneNode / __setstate__ do with an attribute list)
  3. element trees: the appenders, `reown`, `setParent`, the invariant `OK`
-/
import AHP.Model.Pickle
namespace AHP.Pk
open AHP

/-! ### 1. dict -/

section dict
variable {α : Type}

theorem dset_of_not_mem (k : Str) (v : α) (d : List (Str × α)) (h : k ∉ dkeys d) : dset k v d = d ++ [(k, v)] := by
  induction d with
  | nil => rfl
  | cons p r ih =>
    obtain ⟨k', v'⟩ := p
    simp only [dkeys, List.map_cons, List.mem_cons, not_or] at h
    have h1 : ¬ k' = k := fun e => h.1 e.symm
    simp only [dset, h1, if_false, List.cons_append]
    rw [ih (by simpa [dkeys] using h.2)]

theorem ddel_of_not_mem (k : Str) (d : List (Str × α)) (h : k ∉ dkeys d) : ddel k d = d := by
  induction d with
  | nil => rfl
  | cons p r ih =>
    obtain ⟨k', v'⟩ := p
    simp only [dkeys, List.map_cons, List.mem_cons, not_or] at h
    have h1 : ¬ k' = k := fun e => h.1 e.symm
    simp only [ddel, h1, if_false]
    rw [ih (by simpa [dkeys] using h.2)]

theorem dkeys_dset (k : Str) (v : α) (d : List (Str × α)) :
    dkeys (dset k v d) = if k ∈ dkeys d then dkeys d else dkeys d ++ [k] := by
  induction d with
  | nil => simp [dset, dkeys]
  | cons p r ih =>
    obtain ⟨k', v'⟩ := p
    by_cases e : k' = k
    · subst e; simp [dset, dkeys]
    · have e' : ¬ k = k' := fun x => e x.symm
      simp only [dset, e, if_false, dkeys, List.map_cons, List.mem_cons, e', false_or] at ih ⊢
      rw [ih]; split <;> simp_all

theorem mem_dkeys_dset (k k' : Str) (v : α) (d : List (Str × α)) :
    k' ∈ dkeys (dset k v d) ↔ k' = k ∨ k' ∈ dkeys d := by
  rw [dkeys_dset]; split
  · constructor
    · intro h; exact Or.inr h
    · rintro (h | h)
      · subst h; assumption
      · exact h
  · simp [or_comm]

theorem nodup_dset (k : Str) (v : α) (d : List (Str × α)) (h : (dkeys d).Nodup) : (dkeys (dset k v d)).Nodup := by
  rw [dkeys_dset]; split
  · exact h
  · rename_i hk
    rw [List.nodup_append]
    refine ⟨h, by simp, ?_⟩
    intro a ha b hb
    simp at hb; subst hb
    intro e; subst e; exact hk ha

theorem ddel_sublist (k : Str) (d : List (Str × α)) : (ddel k d).Sublist d := by
  induction d with
  | nil => exact List.Sublist.slnil
  | cons p r ih =>
    obtain ⟨k', v'⟩ := p
    simp only [ddel]; split
    · exact List.sublist_cons_self _ _
    · exact ih.cons₂ _

theorem nodup_ddel (k : Str) (d : List (Str × α)) (h : (dkeys d).Nodup) : (dkeys (ddel k d)).Nodup :=
  ((ddel_sublist k d).map Prod.fst).nodup h

theorem mem_ddel (k : Str) (d : List (Str × α)) (p : Str × α) (h : p ∈ ddel k d) : p ∈ d :=
  (ddel_sublist k d).subset h

theorem not_mem_dkeys_ddel (k : Str) (d : List (Str × α)) (h : (dkeys d).Nodup) : k ∉ dkeys (ddel k d) := by
  induction d with
  | nil => simp [ddel, dkeys]
  | cons p r ih =>
    obtain ⟨k', v'⟩ := p
    simp only [dkeys, List.map_cons, List.nodup_cons] at h
    simp only [ddel]; split
    · rename_i e; subst e; exact h.1
    · rename_i e
      simp only [dkeys, List.map_cons, List.mem_cons, not_or]
      exact ⟨fun x => e x.symm, ih h.2⟩

theorem mem_dkeys_ddel (k k' : Str) (d : List (Str × α)) (hne : k' ≠ k) : k' ∈ dkeys (ddel k d) ↔ k' ∈ dkeys d := by
  induction d with
  | nil => simp [ddel]
  | cons p r ih =>
    obtain ⟨k2, v2⟩ := p
    simp only [ddel]; split
    · rename_i e; subst e
      simp [dkeys, hne]
    · simp only [dkeys, List.map_cons, List.mem_cons] at ih ⊢
      rw [ih]

theorem mem_dset (k : Str) (v : α) (d : List (Str × α)) (p : Str × α) (h : p ∈ dset k v d) :
    p = (k, v) ∨ p ∈ d := by
  induction d with
  | nil => simp [dset] at h; exact Or.inl h
  | cons q r ih =>
    obtain ⟨k', v'⟩ := q
    simp only [dset] at h; split at h
    · rcases List.mem_cons.mp h with h | h
      · exact Or.inl h
      · exact Or.inr (List.mem_cons_of_mem _ h)
    · rcases List.mem_cons.mp h with h | h
      · subst h; exact Or.inr List.mem_cons_self
      · rcases ih h with h | h
        · exact Or.inl h
        · exact Or.inr (List.mem_cons_of_mem _ h)

/-- setting a key to the value it already has changes nothing -/
theorem dset_same (k : Str) (v : α) (d : List (Str × α)) (h : dget k d = some v) : dset k v d = d := by
  induction d with
  | nil => simp [dget] at h
  | cons q r ih =>
    obtain ⟨k', v'⟩ := q
    simp only [dget] at h; simp only [dset]
    split
    · rename_i e; subst e; simp at h; subst h; rfl
    · rename_i e; simp [e] at h; rw [ih h]

theorem dget_dset_self (k : Str) (v : α) (d : List (Str × α)) : dget k (dset k v d) = some v := by
  induction d with
  | nil => simp [dset, dget]
  | cons q r ih =>
    obtain ⟨k', v'⟩ := q
    simp only [dset]; split
    · simp [dget]
    · rename_i e; simp [dget, e, ih]

theorem dget_dset_ne (k k' : Str) (v : α) (d : List (Str × α)) (hne : k' ≠ k) : dget k' (dset k v d) = dget k' d := by
  induction d with
  | nil => simp [dset, dget, hne.symm]
  | cons q r ih =>
    obtain ⟨k2, v2⟩ := q
    simp only [dset]; split
    · rename_i e; subst e; simp [dget, hne.symm]
    · simp only [dget]; split
      · rfl
      · exact ih

theorem dget_ddel_ne (k k' : Str) (d : List (Str × α)) (hne : k' ≠ k) : dget k' (ddel k d) = dget k' d := by
  induction d with
  | nil => simp [ddel]
  | cons q r ih =>
    obtain ⟨k2, v2⟩ := q
    simp only [ddel]; split
    · rename_i e; subst e; simp [dget, hne.symm]
    · simp only [dget]; split
      · rfl
      · exact ih

theorem dget_none_of_not_mem (k : Str) (d : List (Str × α)) (h : k ∉ dkeys d) : dget k d = none := by
  induction d with
  | nil => rfl
  | cons q r ih =>
    obtain ⟨k2, v2⟩ := q
    simp only [dkeys, List.map_cons, List.mem_cons, not_or] at h
    have h1 : ¬ k2 = k := fun e => h.1 e.symm
    simp only [dget, h1, if_false]
    exact ih h.2

theorem mem_of_dget (k : Str) (v : α) (d : List (Str × α)) (h : dget k d = some v) : (k, v) ∈ d := by
  induction d with
  | nil => simp [dget] at h
  | cons q r ih =>
    obtain ⟨k2, v2⟩ := q
    simp only [dget] at h; split at h
    · rename_i e; subst e; simp at h; subst h; exact List.mem_cons_self
    · exact List.mem_cons_of_mem _ (ih h)

theorem dget_of_mem (k : Str) (v : α) (d : List (Str × α)) (hn : (dkeys d).Nodup) (h : (k, v) ∈ d) : dget k d = some v := by
  induction d with
  | nil => simp at h
  | cons q r ih =>
    obtain ⟨k2, v2⟩ := q
    simp only [dkeys, List.map_cons, List.nodup_cons] at hn
    rcases List.mem_cons.mp h with h | h
    · cases h; simp [dget]
    · have : k2 ≠ k := by
        intro e; subst e
        exact hn.1 (List.mem_map.mpr ⟨(k2, v), h, rfl⟩)
      simp only [dget, this, if_false]
      exact ih hn.2 h

theorem mem_ddel_ne (k : Str) (d : List (Str × α)) (hn : (dkeys d).Nodup) (p : Str × α) (h : p ∈ ddel k d) : p.1 ≠ k := by
  intro e
  have : p.1 ∈ dkeys (ddel k d) := List.mem_map.mpr ⟨p, h, rfl⟩
  rw [e] at this
  exact not_mem_dkeys_ddel k d hn this

theorem mem_dset_ne (k : Str) (v : α) (d : List (Str × α)) (hn : (dkeys d).Nodup) (p : Str × α) (h : p ∈ dset k v d)
    (hne : p ≠ (k, v)) : p ∈ d ∧ p.1 ≠ k := by
  have hn' := nodup_dset k v d hn
  rcases mem_dset k v d p h with h1 | h1
  · exact absurd h1 hne
  · refine ⟨h1, ?_⟩
    intro e
    have h2 := dget_of_mem p.1 p.2 _ hn' h
    rw [e, dget_dset_self] at h2
    apply hne
    cases p; simp at e h2 ⊢; exact ⟨e, h2.symm⟩

/-- with unique keys, the entries under one key are at most the one `dget` finds -/
theorem filter_key (k : Str) (d : List (Str × α)) (hn : (dkeys d).Nodup) :
    d.filter (fun p => p.1 == k) = match dget k d with | some v => [(k, v)] | none => [] := by
  induction d with
  | nil => rfl
  | cons q r ih =>
    obtain ⟨k2, v2⟩ := q
    simp only [dkeys, List.map_cons, List.nodup_cons] at hn
    by_cases e : k2 = k
    · subst e
      have : r.filter (fun p => p.1 == k2) = [] := by
        rw [List.filter_eq_nil_iff]
        intro p hp hq
        simp at hq
        exact hn.1 (hq ▸ List.mem_map.mpr ⟨p, hp, rfl⟩)
      simp [dget, this]
    · have e2 : (k2 == k) = false := by simp [e]
      simp only [List.filter_cons, e2, dget, e, if_false]
      exact ih hn.2

end dict

/-! ### 2. the attribute store -/

namespace Attrs

theorem sClass_ne_sStyle : sClass ≠ sStyle := by decide
theorem sStyle_ne_sClass : sStyle ≠ sClass := by decide

/-- Well-formedness of an attribute store: what every store built by the constructor and the public
    mutators satisfies, plus the two string round trips the theorems take as hypotheses on the data
    (`classTokens ∘ className` and `styleToDict ∘ styleStr` reproduce the stored class list / style map). -/
structure WF (a : Attrs) : Prop where
  nodup : (dkeys a.dict).Nodup
  names : ∀ p ∈ a.dict, validAttrName p.1 = true ∧ lower p.1 = p.1
  styleKey : ∀ p ∈ a.dict, (p.1 = sStyle → p.2 = DVal.style) ∧ (p.1 ≠ sStyle → p.2 ≠ DVal.style)
  boolStr : ∀ p ∈ a.dict, boolStrAttrs.contains p.1 = true → p.1 ≠ sClass → ∃ s, p.2 = DVal.str s ∧ convBoolStr (some s) = s
  cls : classTokens (className a.cls) = a.cls
  sty : styleToDict (styleStr a.sty) = a.sty

/-- the dict after the `class` step of `_handleClassAttr` -/
def classStep (a : Attrs) : List (Str × DVal) :=
  if a.cls.isEmpty then ddel sClass a.dict else dset sClass (.str (className a.cls)) a.dict

theorem handle_dict (a : Attrs) : (handle a).dict = ensureStyle a.sty (classStep a) := rfl
theorem handle_cls (a : Attrs) : (handle a).cls = a.cls := rfl
theorem handle_sty (a : Attrs) : (handle a).sty = a.sty := rfl

theorem nodup_classStep (a : Attrs) (h : (dkeys a.dict).Nodup) : (dkeys (classStep a)).Nodup := by
  unfold classStep; split
  · exact nodup_ddel _ _ h
  · exact nodup_dset _ _ _ h

theorem nodup_ensureStyle (sty : List (Str × Str)) (d : List (Str × DVal)) (h : (dkeys d).Nodup) :
    (dkeys (ensureStyle sty d)).Nodup := by
  unfold ensureStyle; split
  · exact nodup_ddel _ _ h
  · exact nodup_dset _ _ _ h

theorem nodup_handle (a : Attrs) (h : (dkeys a.dict).Nodup) : (dkeys (handle a).dict).Nodup :=
  nodup_ensureStyle _ _ (nodup_classStep a h)

theorem dget_ensureStyle_ne (sty : List (Str × Str)) (d : List (Str × DVal)) (k : Str) (hne : k ≠ sStyle) :
    dget k (ensureStyle sty d) = dget k d := by
  unfold ensureStyle; split
  · exact dget_ddel_ne _ _ _ hne
  · exact dget_dset_ne _ _ _ _ hne

/-- what `class` maps to after the synchronisation -/
theorem dget_class_handle (a : Attrs) (h : (dkeys a.dict).Nodup) :
    dget sClass (handle a).dict = if a.cls.isEmpty then none else some (DVal.str (className a.cls)) := by
  rw [handle_dict, dget_ensureStyle_ne _ _ _ sClass_ne_sStyle]
  unfold classStep; split
  · exact dget_none_of_not_mem _ _ (not_mem_dkeys_ddel _ _ h)
  · exact dget_dset_self _ _ _

/-- what `style` maps to after the synchronisation -/
theorem dget_style_handle (a : Attrs) (h : (dkeys a.dict).Nodup) :
    dget sStyle (handle a).dict = if a.sty.isEmpty then none else some DVal.style := by
  rw [handle_dict]
  unfold ensureStyle; split
  · exact dget_none_of_not_mem _ _ (not_mem_dkeys_ddel _ _ (nodup_classStep a h))
  · exact dget_dset_self _ _ _

/-- `_handleClassAttr` is idempotent: a second synchronisation finds nothing to do. -/
theorem handle_idem (a : Attrs) (h : (dkeys a.dict).Nodup) : handle (handle a) = handle a := by
  have hn := nodup_handle a h
  have e1 : classStep (handle a) = (handle a).dict := by
    unfold classStep
    rw [handle_cls]
    split
    · rename_i hc
      apply ddel_of_not_mem
      intro hm
      have := dget_class_handle a h
      rw [if_pos hc] at this
      obtain ⟨p, hp, hk⟩ := List.mem_map.mp hm
      have := dget_of_mem p.1 p.2 _ hn hp
      rw [hk] at this; simp_all
    · rename_i hc
      apply dset_same
      rw [dget_class_handle a h, if_neg hc]
  have e2 : ensureStyle a.sty (handle a).dict = (handle a).dict := by
    unfold ensureStyle
    split
    · rename_i hc
      apply ddel_of_not_mem
      intro hm
      have := dget_style_handle a h
      rw [if_pos hc] at this
      obtain ⟨p, hp, hk⟩ := List.mem_map.mp hm
      have := dget_of_mem p.1 p.2 _ hn hp
      rw [hk] at this; simp_all
    · rename_i hc
      apply dset_same
      rw [dget_style_handle a h, if_neg hc]
  show ({ (handle a) with dict := ensureStyle (handle a).sty (classStep (handle a)) } : Attrs) = handle a
  rw [e1, handle_sty, e2]

/-- the synchronisation is invisible through the attribute list … -/
theorem attrsList_handle (a : Attrs) (h : (dkeys a.dict).Nodup) : attrsList (handle a) = attrsList a := by
  unfold attrsList
  rw [handle_idem a h]
  rfl

/-- … and through the rendered start tag. -/
theorem pieces_handle (a : Attrs) (h : (dkeys a.dict).Nodup) : pieces (handle a) = pieces a := by
  unfold pieces
  rw [handle_idem a h]
  rfl

theorem startTag_handle (n : Str) (a : Attrs) (sc : Bool) (h : (dkeys a.dict).Nodup) :
    startTag n (handle a) sc = startTag n a sc := by
  unfold startTag
  rw [pieces_handle a h]

/-! #### the round trip through an attribute list (`cloneNode`, `__setstate__`) -/

/-- what holds of every entry of the synchronised dict of a well-formed store -/
structure EntryOK (a : Attrs) (p : Str × DVal) : Prop where
  valid : validAttrName p.1 = true
  low : lower p.1 = p.1
  cls : p.1 = sClass → p.2 = DVal.str (className a.cls)
  sty : p.1 = sStyle → p.2 = DVal.style ∧ a.sty.isEmpty = false
  nsty : p.1 ≠ sStyle → p.2 ≠ DVal.style
  bs : boolStrAttrs.contains p.1 = true → p.1 ≠ sClass → ∃ s, p.2 = DVal.str s ∧ convBoolStr (some s) = s

theorem entryOK_old (a : Attrs) (h : WF a) (p : Str × DVal) (hp : p ∈ a.dict) (h1 : p.1 ≠ sClass) (h2 : p.1 ≠ sStyle) :
    EntryOK a p :=
  ⟨(h.names p hp).1, (h.names p hp).2, fun e => absurd e h1, fun e => absurd e h2, (h.styleKey p hp).2, h.boolStr p hp⟩

theorem entryOK_class (a : Attrs) : EntryOK a (sClass, DVal.str (className a.cls)) :=
  ⟨by show validAttrName sClass = true; decide, by show lower sClass = sClass; decide, fun _ => rfl,
   fun e => absurd e sClass_ne_sStyle, fun _ => by simp, fun _ e => absurd rfl e⟩

theorem entryOK_style (a : Attrs) (hs : a.sty.isEmpty = false) : EntryOK a (sStyle, DVal.style) :=
  ⟨by show validAttrName sStyle = true; decide, by show lower sStyle = sStyle; decide,
   fun e => absurd e sStyle_ne_sClass, fun _ => ⟨rfl, hs⟩, fun e => absurd rfl e,
   fun e => absurd e (by show ¬ (boolStrAttrs.contains sStyle = true); decide)⟩

theorem mem_classStep (a : Attrs) (h : WF a) (p : Str × DVal) (hp : p ∈ classStep a) :
    p = (sClass, DVal.str (className a.cls)) ∨ (p ∈ a.dict ∧ p.1 ≠ sClass) := by
  unfold classStep at hp; split at hp
  · exact Or.inr ⟨mem_ddel _ _ _ hp, mem_ddel_ne _ _ h.nodup _ hp⟩
  · by_cases e : p = (sClass, DVal.str (className a.cls))
    · exact Or.inl e
    · exact Or.inr (mem_dset_ne _ _ _ h.nodup _ hp e)

theorem handle_entries (a : Attrs) (h : WF a) (p : Str × DVal) (hp : p ∈ (handle a).dict) : EntryOK a p := by
  rw [handle_dict] at hp
  have hn := nodup_classStep a h.nodup
  have key : p ∈ classStep a ∧ p.1 ≠ sStyle → EntryOK a p := by
    rintro ⟨h1, h2⟩
    rcases mem_classStep a h p h1 with e | ⟨e1, e2⟩
    · rw [e]; exact entryOK_class a
    · exact entryOK_old a h p e1 e2 h2
  unfold ensureStyle at hp; split at hp
  · exact key ⟨mem_ddel _ _ _ hp, mem_ddel_ne _ _ hn _ hp⟩
  · rename_i hs
    by_cases e : p = (sStyle, DVal.style)
    · rw [e]; exact entryOK_style a (by simpa using hs)
    · exact key (mem_dset_ne _ _ _ hn _ hp e)

theorem render_ofOpt (a : Attrs) (v : DVal) (h : v ≠ DVal.style) : DVal.ofOpt (render a v) = v := by
  cases v <;> simp_all [render, DVal.ofOpt]

/-- `setitem` on a new plain key -/
theorem setitem_plain (a acc : Attrs) (k : Str) (v : DVal) (hk : lower k = k) (h1 : k ≠ sClass) (h2 : k ≠ sStyle)
    (hv : v ≠ DVal.style) (hb : boolStrAttrs.contains k = true → ∃ s, v = DVal.str s ∧ convBoolStr (some s) = s)
    (hd : k ∉ dkeys acc.dict) :
    setitem acc k (render a v) = some { acc with dict := acc.dict ++ [(k, v)] } := by
  unfold setitem
  simp only [hk, h1, h2, if_false]
  split
  · rename_i hbs
    obtain ⟨s, e1, e2⟩ := hb hbs
    subst e1
    simp only [render, e2]
    rw [dset_of_not_mem _ _ _ hd]
  · rw [render_ofOpt a v hv, dset_of_not_mem _ _ _ hd]

theorem setitem_class (a acc : Attrs) (hc : classTokens (className a.cls) = a.cls) :
    setitem acc sClass (render a (DVal.str (className a.cls))) = some { acc with cls := a.cls } := by
  unfold setitem
  have e1 : lower sClass = sClass := by decide
  simp only [e1, sClass_ne_sStyle, if_false, if_true, render, hc]

theorem ensureStyle_set (sty : List (Str × Str)) (d : List (Str × DVal)) (h : sty.isEmpty = false) :
    ensureStyle sty d = dset sStyle DVal.style d := by
  unfold ensureStyle; simp [h]

theorem setitem_style (a acc : Attrs) (hs : styleToDict (styleStr a.sty) = a.sty) (hne : a.sty.isEmpty = false)
    (hd : sStyle ∉ dkeys acc.dict) :
    setitem acc sStyle (render a DVal.style) = some { acc with dict := acc.dict ++ [(sStyle, DVal.style)], sty := a.sty } := by
  unfold setitem
  have e1 : lower sStyle = sStyle := by decide
  simp only [e1, if_true, render, hs, ensureStyle_set _ _ hne]
  have e2 : dset sStyle DVal.style (dset sStyle DVal.style acc.dict) = dset sStyle DVal.style acc.dict :=
    dset_same _ _ _ (dget_dset_self _ _ _)
  rw [e2, e2, dset_of_not_mem _ _ _ hd]

/-- The attribute loop of `__init__` over the (rendered) entries of a synchronised dict: plain entries are
    appended in order, `class` goes to the class list, `style` to the style map and the end of the dict. -/
theorem initGo_spec (a : Attrs) (hc : classTokens (className a.cls) = a.cls) (hs : styleToDict (styleStr a.sty) = a.sty)
    (L : List (Str × DVal)) (hn : (dkeys L).Nodup) (he : ∀ p ∈ L, EntryOK a p)
    (acc : Attrs) (hd : ∀ k ∈ dkeys L, k ∉ dkeys acc.dict) :
    initGo acc (L.map (fun p => (p.1, render a p.2))) =
      some { dict := acc.dict ++ L.filter (fun p => p.1 != sClass),
             cls := if sClass ∈ dkeys L then a.cls else acc.cls,
             sty := if sStyle ∈ dkeys L then a.sty else acc.sty } := by
  induction L generalizing acc with
  | nil => simp [initGo, dkeys]
  | cons q r ih =>
    obtain ⟨k, v⟩ := q
    have ok := he (k, v) List.mem_cons_self
    simp only [dkeys, List.map_cons, List.nodup_cons] at hn
    have hkr : k ∉ dkeys r := hn.1
    have hkd : k ∉ dkeys acc.dict := hd k (by simp [dkeys])
    have her : ∀ p ∈ r, EntryOK a p := fun p hp => he p (List.mem_cons_of_mem _ hp)
    simp only [List.map_cons, initGo, ok.low, ok.valid, if_true]
    by_cases c1 : k = sClass
    · subst c1
      have ev : v = DVal.str (className a.cls) := ok.cls rfl
      subst ev
      rw [setitem_class a acc hc]
      simp only
      rw [ih hn.2 her { acc with cls := a.cls } (fun k' hk' => hd k' (by simp [dkeys] at hk' ⊢; exact Or.inr hk'))]
      simp only [dkeys, List.map_cons, List.mem_cons, sStyle_ne_sClass, false_or, true_or, if_true]
      simp
      refine ⟨?_, ?_⟩ <;> first | rfl | exact ite_self _ | (split <;> rfl) | (split <;> split <;> simp_all)
    · by_cases c2 : k = sStyle
      · subst c2
        obtain ⟨e1, e2⟩ := ok.sty rfl
        simp only at e1; subst e1
        rw [setitem_style a acc hs e2 hkd]
        simp only
        rw [ih hn.2 her { acc with dict := acc.dict ++ [(sStyle, DVal.style)], sty := a.sty } (by
          intro k' hk'
          have := hd k' (by simp [dkeys] at hk' ⊢; exact Or.inr hk')
          simp only [dkeys, List.map_append, List.mem_append, not_or] at this ⊢
          refine ⟨this, ?_⟩
          simp
          intro e; subst e; exact hkr hk')]
        simp only [dkeys, List.map_cons, List.mem_cons, sClass_ne_sStyle, false_or, true_or, if_true]
        simp [sStyle_ne_sClass]
        refine ⟨?_, ?_⟩ <;> first | rfl | exact ite_self _ | (split <;> rfl) | (split <;> split <;> simp_all)
      · rw [setitem_plain a acc k v ok.low c1 c2 (ok.nsty c2) (fun hb => ok.bs hb c1) hkd]
        simp only
        rw [ih hn.2 her { acc with dict := acc.dict ++ [(k, v)] } (by
          intro k' hk'
          have := hd k' (by simp [dkeys] at hk' ⊢; exact Or.inr hk')
          simp only [dkeys, List.map_append, List.mem_append, not_or] at this ⊢
          refine ⟨this, ?_⟩
          simp
          intro e; subst e; exact hkr hk')]
        have n1 : ¬ sClass = k := fun e => c1 e.symm
        have n2 : ¬ sStyle = k := fun e => c2 e.symm
        simp only [dkeys, List.map_cons, List.mem_cons, n1, n2, false_or]
        simp [c1]
        refine ⟨?_, ?_⟩ <;> first | rfl | exact ite_self _ | (split <;> rfl) | (split <;> split <;> simp_all)

/-- The store a constructor builds from `getAttributesList()` of `a`: the synchronised entries except
    `class` (which lives in the class list until the next read), same class list, same style map. -/
def fresh (a : Attrs) : Attrs :=
  { dict := (handle a).dict.filter (fun p => p.1 != sClass), cls := a.cls, sty := a.sty }

theorem mem_dkeys_iff_dget {α : Type} (k : Str) (d : List (Str × α)) : k ∈ dkeys d ↔ dget k d ≠ none := by
  induction d with
  | nil => simp [dkeys, dget]
  | cons q r ih =>
    obtain ⟨k2, v2⟩ := q
    by_cases e : k2 = k
    · subst e; simp [dkeys, dget]
    · have e' : ¬ k = k2 := fun x => e x.symm
      simp only [dkeys, List.map_cons, List.mem_cons, e', false_or, dget, e, if_false]
      exact ih

/-- `AdvancedTag(name, original.getAttributesList())` succeeds and builds `fresh a`. -/
theorem init_attrsList (a : Attrs) (h : WF a) : init (attrsList a) = some (fresh a) := by
  unfold init attrsList
  rw [initGo_spec a h.cls h.sty (handle a).dict (nodup_handle a h.nodup) (handle_entries a h) empty (by simp [empty, dkeys])]
  unfold fresh
  have hc : (if sClass ∈ dkeys (handle a).dict then a.cls else empty.cls) = a.cls := by
    split
    · rfl
    · rename_i hm
      rw [mem_dkeys_iff_dget, dget_class_handle a h.nodup] at hm
      by_cases e : a.cls.isEmpty
      · simp at e; simp [e, empty]
      · simp [e] at hm
  have hs : (if sStyle ∈ dkeys (handle a).dict then a.sty else empty.sty) = a.sty := by
    split
    · rfl
    · rename_i hm
      rw [mem_dkeys_iff_dget, dget_style_handle a h.nodup] at hm
      by_cases e : a.sty.isEmpty
      · simp at e; simp [e, empty]
      · simp [e] at hm
  rw [hc, hs]
  simp [empty]

theorem filter_ne_sublist (d : List (Str × DVal)) : (d.filter (fun p => p.1 != sClass)).Sublist d := List.filter_sublist

theorem nodup_fresh (a : Attrs) (h : (dkeys a.dict).Nodup) : (dkeys (fresh a).dict).Nodup :=
  ((filter_ne_sublist _).map Prod.fst).nodup (nodup_handle a h)

theorem class_not_mem_fresh (a : Attrs) : sClass ∉ dkeys (fresh a).dict := by
  intro hm
  obtain ⟨p, hp, hk⟩ := List.mem_map.mp hm
  simp [fresh] at hp
  exact hp.2 hk

theorem dget_filter_ne {α : Type} (k k' : Str) (d : List (Str × α)) (hne : k' ≠ k) :
    dget k' (d.filter (fun p => p.1 != k)) = dget k' d := by
  induction d with
  | nil => rfl
  | cons q r ih =>
    obtain ⟨k2, v2⟩ := q
    by_cases e : k2 = k
    · subst e
      have : ¬ k2 = k' := fun x => hne x.symm
      simp [List.filter_cons, dget, this, ih]
    · simp only [List.filter_cons, bne_iff_ne, ne_eq, e, not_false_eq_true, if_true, dget]
      split
      · rfl
      · exact ih

/-- After the next read, the rebuilt store lists the same entries with `class` moved to the end. -/
theorem handle_fresh (a : Attrs) (h : WF a) :
    (handle (fresh a)).dict =
      (handle a).dict.filter (fun p => p.1 != sClass) ++ (handle a).dict.filter (fun p => p.1 == sClass) := by
  have hn := nodup_handle a h.nodup
  have hnf := nodup_fresh a h.nodup
  -- the class step
  have e1 : classStep (fresh a) =
      (handle a).dict.filter (fun p => p.1 != sClass) ++ (handle a).dict.filter (fun p => p.1 == sClass) := by
    rw [filter_key sClass _ hn, dget_class_handle a h.nodup]
    unfold classStep
    show (if a.cls.isEmpty then ddel sClass (fresh a).dict else dset sClass (DVal.str (className a.cls)) (fresh a).dict) = _
    split
    · rw [ddel_of_not_mem _ _ (class_not_mem_fresh a)]; simp [fresh]
    · rw [dset_of_not_mem _ _ _ (class_not_mem_fresh a)]; simp [fresh]
  rw [handle_dict, e1]
  -- the style step finds the key as it should be
  show ensureStyle a.sty _ = _
  have hn2 : (dkeys (classStep (fresh a))).Nodup := nodup_classStep _ hnf
  rw [e1] at hn2
  unfold ensureStyle
  split
  · rename_i hs
    apply ddel_of_not_mem
    have := dget_style_handle a h.nodup
    rw [if_pos hs] at this
    have key : dget sStyle (classStep (fresh a)) = none := by
      unfold classStep
      show dget sStyle (if a.cls.isEmpty then ddel sClass (fresh a).dict else dset sClass _ (fresh a).dict) = none
      split
      · rw [dget_ddel_ne _ _ _ sStyle_ne_sClass]; show dget sStyle ((handle a).dict.filter _) = none
        rw [dget_filter_ne _ _ _ sStyle_ne_sClass]; exact this
      · rw [dget_dset_ne _ _ _ _ sStyle_ne_sClass]; show dget sStyle ((handle a).dict.filter _) = none
        rw [dget_filter_ne _ _ _ sStyle_ne_sClass]; exact this
    intro hm
    rw [← e1, mem_dkeys_iff_dget] at hm
    exact hm key
  · rename_i hs
    apply dset_same
    have := dget_style_handle a h.nodup
    rw [if_neg hs] at this
    rw [← e1]
    unfold classStep
    show dget sStyle (if a.cls.isEmpty then ddel sClass (fresh a).dict else dset sClass _ (fresh a).dict) = some DVal.style
    split
    · rw [dget_ddel_ne _ _ _ sStyle_ne_sClass]; show dget sStyle ((handle a).dict.filter _) = _
      rw [dget_filter_ne _ _ _ sStyle_ne_sClass]; exact this
    · rw [dget_dset_ne _ _ _ _ sStyle_ne_sClass]; show dget sStyle ((handle a).dict.filter _) = _
      rw [dget_filter_ne _ _ _ sStyle_ne_sClass]; exact this

/-- In the synchronised dict `class`, when present, is the last entry: true of every store on which no
    attribute has been added after a read (constructor, parser, unpickled and cloned elements). -/
def ClassLast (a : Attrs) : Prop :=
  (handle a).dict = (handle a).dict.filter (fun p => p.1 != sClass) ++ (handle a).dict.filter (fun p => p.1 == sClass)

theorem handle_fresh_eq (a : Attrs) (h : WF a) (hl : ClassLast a) : (handle (fresh a)).dict = (handle a).dict := by
  rw [handle_fresh a h]; exact hl.symm

/-- the rebuilt store shows the same attribute list … -/
theorem attrsList_fresh (a : Attrs) (h : WF a) (hl : ClassLast a) : attrsList (fresh a) = attrsList a := by
  unfold attrsList
  rw [handle_fresh_eq a h hl]
  rfl

/-- … and renders the same start tag. -/
theorem startTag_fresh (n : Str) (a : Attrs) (sc : Bool) (h : WF a) (hl : ClassLast a) :
    startTag n (fresh a) sc = startTag n a sc := by
  unfold startTag pieces
  rw [handle_fresh_eq a h hl]
  rfl

theorem WF_fresh (a : Attrs) (h : WF a) : WF (fresh a) := by
  have he := handle_entries a h
  have sub : ∀ p ∈ (fresh a).dict, p ∈ (handle a).dict ∧ p.1 ≠ sClass := by
    intro p hp; simp [fresh] at hp; exact hp
  exact {
    nodup := nodup_fresh a h.nodup
    names := fun p hp => ⟨(he p (sub p hp).1).valid, (he p (sub p hp).1).low⟩
    styleKey := fun p hp => ⟨fun e => ((he p (sub p hp).1).sty e).1, (he p (sub p hp).1).nsty⟩
    boolStr := fun p hp hb hc => (he p (sub p hp).1).bs hb hc
    cls := h.cls
    sty := h.sty }

theorem classLast_fresh (a : Attrs) (h : WF a) : ClassLast (fresh a) := by
  unfold ClassLast
  rw [handle_fresh a h]
  simp only [List.filter_append, List.filter_filter]
  have e1 : ((handle a).dict.filter (fun p => p.1 == sClass)).filter (fun p => p.1 != sClass) = [] := by
    rw [List.filter_filter]; apply List.filter_eq_nil_iff.mpr; intro p _; simp
  have e2 : ((handle a).dict.filter (fun p => p.1 != sClass)).filter (fun p => p.1 == sClass) = [] := by
    rw [List.filter_filter]; apply List.filter_eq_nil_iff.mpr; intro p _; simp
  simp only [List.filter_filter] at e1 e2
  simp [e1, e2]

end Attrs

/-! ### 3. element trees -/

namespace DN

def ownerOf : DN → Option Nat
  | .text _ => none
  | .el _ _ _ _ _ _ _ _ _ ow => ow

/-- what `appendBlock` stores for a block: a text as itself, an element with parent and owner set -/
def attach (o : Nat) (ow : Option Nat) : DN → DN
  | .text s => .text s
  | c => reown ow (setParent (some o) c)

theorem elemIds_append (xs ys : List DN) : elemIds (xs ++ ys) = elemIds xs ++ elemIds ys := by
  induction xs with
  | nil => rfl
  | cons b bs ih => cases b <;> simp [elemIds, ih]

theorem textOf_append (xs ys : List DN) : textOf (xs ++ ys) = textOf xs ++ textOf ys := by
  induction xs with
  | nil => rfl
  | cons b bs ih => cases b <;> simp [textOf, ih]

theorem oid_attach (o : Nat) (ow : Option Nat) (c : DN) : (attach o ow c).oid = c.oid := by
  cases c <;> simp [attach, reown, setParent, oid]

/-- `__setstate__`'s loop: re-appending the blocks one by one builds the three lists side by side. -/
theorem foldl_appendBlock (kids : List DN) (o u : Nat) (nm : Str) (a : Attrs) (sc : Bool) (bl : List DN) (ch : List Nat)
    (tx : Str) (p ow : Option Nat) :
    kids.foldl appendBlock (.el o u nm a sc bl ch tx p ow) =
      .el o u nm a (if kids.isEmpty then sc else false) (bl ++ kids.map (attach o ow)) (ch ++ elemIds kids) (tx ++ textOf kids) p ow := by
  induction kids generalizing sc bl ch tx with
  | nil => simp [elemIds, textOf]
  | cons k ks ih =>
    cases k with
    | text s =>
      simp only [List.foldl_cons, appendBlock, appendText]
      rw [ih]
      simp [attach, elemIds, textOf]
    | el o2 u2 n2 a2 sc2 b2 c2 t2 p2 w2 =>
      simp only [List.foldl_cons, appendBlock, appendChild]
      rw [ih]
      simp [attach, elemIds, textOf, oid]

end DN

mutual
/-- The specification of an unpickled copy: the same tree with fresh consecutive object ids in document
    order, rebuilt attribute stores, parent / children / text caches recomputed from the block lists and
    one owner throughout. -/
def relabel (par own : Option Nat) : DN → Nat → DN × Nat
  | .text s, n => (.text s, n)
  | .el _ u nm a sc blocks _ _ _ _, n =>
    let r := relabelL (some n) own blocks (n + 1)
    (.el n u nm (Attrs.fresh a) sc r.1 (DN.elemIds r.1) (DN.textOf r.1) par own, r.2)
def relabelL (par own : Option Nat) : List DN → Nat → List DN × Nat
  | [], n => ([], n)
  | b :: bs, n =>
    let r1 := relabel par own b n
    let r2 := relabelL par own bs r1.2
    (r1.1 :: r2.1, r2.2)
end

/-- the blocks as `loadL` returns them: every element still a root with the owner its own state named -/
def loadKids (ρ : Option Nat → Option Nat) : List DN → Nat → List DN × Nat
  | [], n => ([], n)
  | b :: bs, n =>
    let r1 := relabel none (ρ (DN.ownerOf b)) b n
    let r2 := loadKids ρ bs r1.2
    (r1.1 :: r2.1, r2.2)

mutual
theorem relabel_snd (par own : Option Nat) (t : DN) (n : Nat) : (relabel par own t n).2 = n + DN.size t := by
  match t with
  | .text s => simp [relabel, DN.size]
  | .el o u nm a sc blocks ch tx p ow =>
    simp only [relabel, DN.size]
    rw [relabelL_snd]; omega
theorem relabelL_snd (par own : Option Nat) (bs : List DN) (n : Nat) : (relabelL par own bs n).2 = n + DN.sizeL bs := by
  match bs with
  | [] => simp [relabelL, DN.sizeL]
  | b :: bs =>
    simp only [relabelL, DN.sizeL]
    rw [relabelL_snd, relabel_snd]; omega
end

theorem elemIds_reownL (ow : Option Nat) (bs : List DN) : DN.elemIds (DN.reownL ow bs) = DN.elemIds bs := by
  induction bs with
  | nil => simp [DN.reownL, DN.elemIds]
  | cons b bs ih => cases b <;> simp [DN.reownL, DN.reown, DN.elemIds, ih]

theorem textOf_reownL (ow : Option Nat) (bs : List DN) : DN.textOf (DN.reownL ow bs) = DN.textOf bs := by
  induction bs with
  | nil => simp [DN.reownL, DN.textOf]
  | cons b bs ih => cases b <;> simp [DN.reownL, DN.reown, DN.textOf, ih]

mutual
theorem reown_relabel (par o ow : Option Nat) (t : DN) (n : Nat) :
    DN.reown ow (relabel par o t n).1 = (relabel par ow t n).1 := by
  match t with
  | .text s => simp [relabel, DN.reown]
  | .el o1 u nm a sc blocks ch tx p w =>
    simp only [relabel, DN.reown]
    have h := reownL_relabelL (some n) o ow blocks (n + 1)
    rw [← h, elemIds_reownL, textOf_reownL]
theorem reownL_relabelL (par o ow : Option Nat) (bs : List DN) (n : Nat) :
    DN.reownL ow (relabelL par o bs n).1 = (relabelL par ow bs n).1 := by
  match bs with
  | [] => simp [relabelL, DN.reownL]
  | b :: bs =>
    simp only [relabelL, DN.reownL]
    rw [reown_relabel, relabel_snd, relabel_snd, reownL_relabelL]
end

theorem setParent_relabel (par p own : Option Nat) (t : DN) (n : Nat) :
    DN.setParent p (relabel par own t n).1 = (relabel p own t n).1 := by
  cases t <;> simp [relabel, DN.setParent]

theorem attach_relabel (o : Nat) (ow ow' : Option Nat) (t : DN) (n : Nat) :
    DN.attach o ow (relabel none ow' t n).1 = (relabel (some o) ow t n).1 := by
  cases t with
  | text s => simp [relabel, DN.attach]
  | el o1 u nm a sc blocks ch tx p w =>
    have h1 := setParent_relabel none (some o) ow' (.el o1 u nm a sc blocks ch tx p w) n
    have h2 := reown_relabel (some o) ow' ow (.el o1 u nm a sc blocks ch tx p w) n
    rw [← h2, ← h1]
    simp only [relabel, DN.attach]

theorem attach_loadKids (ρ : Option Nat → Option Nat) (o : Nat) (ow : Option Nat) (bs : List DN) (n : Nat) :
    (loadKids ρ bs n).1.map (DN.attach o ow) = (relabelL (some o) ow bs n).1 ∧ (loadKids ρ bs n).2 = (relabelL (some o) ow bs n).2 := by
  induction bs generalizing n with
  | nil => simp [loadKids, relabelL]
  | cons b bs ih =>
    simp only [loadKids, relabelL, List.map_cons]
    rw [attach_relabel, relabel_snd, relabel_snd]
    exact ⟨by rw [(ih _).1], (ih _).2⟩

theorem elemIds_map_attach (o : Nat) (ow : Option Nat) (ks : List DN) : DN.elemIds (ks.map (DN.attach o ow)) = DN.elemIds ks := by
  induction ks with
  | nil => rfl
  | cons k ks ih => cases k <;> simp [DN.attach, DN.reown, DN.setParent, DN.elemIds, ih]

theorem textOf_map_attach (o : Nat) (ow : Option Nat) (ks : List DN) : DN.textOf (ks.map (DN.attach o ow)) = DN.textOf ks := by
  induction ks with
  | nil => rfl
  | cons k ks ih => cases k <;> simp [DN.attach, DN.reown, DN.setParent, DN.textOf, ih]

/-! #### well-formed trees (the hypotheses of the round-trip theorem) -/

mutual
/-- every element: lower-case name, well-formed attribute store with `class` last -/
def WFT : DN → Prop
  | .text _ => True
  | .el _ _ n a _ blocks _ _ _ _ => lower n = n ∧ Attrs.WF a ∧ Attrs.ClassLast a ∧ WFTL blocks
def WFTL : List DN → Prop
  | [] => True
  | b :: bs => WFT b ∧ WFTL bs
end

mutual
/-- Unpickling computes exactly the specified copy (and never raises) on well-formed trees. -/
theorem load_spec (ρ : Option Nat → Option Nat) (t : DN) (h : WFT t) (n : Nat) :
    load ρ (getstate t) n = some (relabel none (ρ (DN.ownerOf t)) t n) := by
  match t, h with
  | .text s, _ => simp [getstate, load, relabel]
  | .el o u nm a sc blocks ch tx p ow, h =>
    simp only [WFT] at h
    obtain ⟨hn, ha, _, hb⟩ := h
    simp only [getstate, load]
    rw [loadL_spec ρ blocks hb (n + 1)]
    simp only [DN.mk, Attrs.init_attrsList a ha, hn, DN.setStateFields]
    rw [DN.foldl_appendBlock]
    simp only [DN.setSc, relabel, DN.ownerOf, List.nil_append]
    have hk := attach_loadKids ρ n (ρ ow) blocks (n + 1)
    rw [← hk.1, ← hk.2, elemIds_map_attach, textOf_map_attach]
theorem loadL_spec (ρ : Option Nat → Option Nat) (bs : List DN) (h : WFTL bs) (n : Nat) :
    loadL ρ (getstateL bs) n = some (loadKids ρ bs n) := by
  match bs, h with
  | [], _ => simp [getstateL, loadL, loadKids]
  | b :: bs, h =>
    simp only [WFTL] at h
    simp only [getstateL, loadL, loadKids]
    rw [load_spec ρ b h.1 n]
    simp only
    rw [loadL_spec ρ bs h.2 _]
end

/-! #### properties of the specified copy -/

mutual
theorem html_relabel (par own : Option Nat) (t : DN) (h : WFT t) (n : Nat) : DN.html (relabel par own t n).1 = DN.html t := by
  match t, h with
  | .text s, _ => simp [relabel]
  | .el o u nm a sc blocks ch tx p ow, h =>
    simp only [WFT] at h
    obtain ⟨_, ha, hl, hb⟩ := h
    simp only [relabel, DN.html]
    rw [Attrs.startTag_fresh nm a sc ha hl, htmlL_relabelL (some n) own blocks hb (n + 1)]
theorem htmlL_relabelL (par own : Option Nat) (bs : List DN) (h : WFTL bs) (n : Nat) :
    DN.htmlL (relabelL par own bs n).1 = DN.htmlL bs := by
  match bs, h with
  | [], _ => simp [relabelL]
  | b :: bs, h =>
    simp only [WFTL] at h
    simp only [relabelL, DN.htmlL]
    rw [html_relabel par own b h.1 n, htmlL_relabelL par own bs h.2 _]
end

mutual
theorem uids_relabel (par own : Option Nat) (t : DN) (n : Nat) : DN.uids (relabel par own t n).1 = DN.uids t := by
  match t with
  | .text s => simp [relabel]
  | .el o u nm a sc blocks ch tx p ow =>
    simp only [relabel, DN.uids]
    rw [uidsL_relabelL]
theorem uidsL_relabelL (par own : Option Nat) (bs : List DN) (n : Nat) : DN.uidsL (relabelL par own bs n).1 = DN.uidsL bs := by
  match bs with
  | [] => simp [relabelL]
  | b :: bs =>
    simp only [relabelL, DN.uidsL]
    rw [uids_relabel, uidsL_relabelL]
end

mutual
/-- the copy's objects are exactly the next `size t` fresh ids, in document order -/
theorem oids_relabel (par own : Option Nat) (t : DN) (n : Nat) : DN.oids (relabel par own t n).1 = List.range' n (DN.size t) := by
  match t with
  | .text s => simp [relabel, DN.oids, DN.size]
  | .el o u nm a sc blocks ch tx p ow =>
    simp only [relabel, DN.oids, DN.size]
    rw [oidsL_relabelL, Nat.add_comm 1, List.range'_succ]
theorem oidsL_relabelL (par own : Option Nat) (bs : List DN) (n : Nat) :
    DN.oidsL (relabelL par own bs n).1 = List.range' n (DN.sizeL bs) := by
  match bs with
  | [] => simp [relabelL, DN.oidsL, DN.sizeL]
  | b :: bs =>
    simp only [relabelL, DN.oidsL, DN.sizeL]
    rw [oids_relabel, oidsL_relabelL, relabel_snd, List.range'_append_1]
end

/-! the structural invariant (C04's, on this representation) -/

def noContent : List DN → Prop
  | [] => True
  | .text s :: bs => s = [] ∧ noContent bs
  | .el .. :: _ => False

mutual
/-- Per element: parent back-link, owner, `children` mirrors the element blocks, `text` is the
    concatenation of the text blocks, self-closing ⇒ no content; threaded top-down. -/
def OK (par own : Option Nat) : DN → Prop
  | .text _ => True
  | .el o _ _ _ sc blocks ch tx p ow =>
    p = par ∧ ow = own ∧ ch = DN.elemIds blocks ∧ tx = DN.textOf blocks ∧ (sc = true → noContent blocks) ∧
    OKL (some o) own blocks
def OKL (par own : Option Nat) : List DN → Prop
  | [] => True
  | b :: bs => OK par own b ∧ OKL par own bs
end

mutual
/-- the part of the invariant that the copy inherits from the original rather than re-establishes -/
def ScOK : DN → Prop
  | .text _ => True
  | .el _ _ _ _ sc blocks _ _ _ _ => (sc = true → noContent blocks) ∧ ScOKL blocks
def ScOKL : List DN → Prop
  | [] => True
  | b :: bs => ScOK b ∧ ScOKL bs
end

mutual
theorem ScOK_of_OK (par own : Option Nat) (t : DN) (h : OK par own t) : ScOK t := by
  match t, h with
  | .text s, _ => simp [ScOK]
  | .el o u nm a sc blocks ch tx p ow, h =>
    simp only [OK] at h
    simp only [ScOK]
    exact ⟨h.2.2.2.2.1, ScOKL_of_OKL _ _ blocks h.2.2.2.2.2⟩
theorem ScOKL_of_OKL (par own : Option Nat) (bs : List DN) (h : OKL par own bs) : ScOKL bs := by
  match bs, h with
  | [], _ => simp [ScOKL]
  | b :: bs, h =>
    simp only [OKL] at h
    simp only [ScOKL]
    exact ⟨ScOK_of_OK par own b h.1, ScOKL_of_OKL par own bs h.2⟩
end

theorem noContent_relabelL (par own : Option Nat) (bs : List DN) (n : Nat) (h : noContent bs) :
    noContent (relabelL par own bs n).1 := by
  induction bs generalizing n with
  | nil => simp [relabelL, noContent]
  | cons b bs ih =>
    cases b with
    | text s =>
      simp only [noContent] at h
      simp only [relabelL, relabel, noContent]
      exact ⟨h.1, ih _ h.2⟩
    | el => simp [noContent] at h

mutual
/-- The copy satisfies the structural invariant, with every link inside the copy. -/
theorem OK_relabel (par own : Option Nat) (t : DN) (h : ScOK t) (n : Nat) : OK par own (relabel par own t n).1 := by
  match t, h with
  | .text s, _ => simp [relabel, OK]
  | .el o u nm a sc blocks ch tx p ow, h =>
    simp only [ScOK] at h
    simp only [relabel, OK]
    exact ⟨trivial, trivial, trivial, trivial, fun hs => noContent_relabelL _ _ _ _ (h.1 hs),
           OKL_relabelL (some n) own blocks h.2 (n + 1)⟩
theorem OKL_relabelL (par own : Option Nat) (bs : List DN) (h : ScOKL bs) (n : Nat) : OKL par own (relabelL par own bs n).1 := by
  match bs, h with
  | [], _ => simp [relabelL, OKL]
  | b :: bs, h =>
    simp only [ScOKL] at h
    simp only [relabelL, OKL]
    exact ⟨OK_relabel par own b h.1 n, OKL_relabelL par own bs h.2 _⟩
end

mutual
/-- The copy is again well-formed (so it can be pickled again). -/
theorem WFT_relabel (par own : Option Nat) (t : DN) (h : WFT t) (n : Nat) : WFT (relabel par own t n).1 := by
  match t, h with
  | .text s, _ => simp [relabel, WFT]
  | .el o u nm a sc blocks ch tx p ow, h =>
    simp only [WFT] at h
    obtain ⟨hn, ha, _, hb⟩ := h
    simp only [relabel, WFT]
    exact ⟨hn, Attrs.WF_fresh a ha, Attrs.classLast_fresh a ha, WFTL_relabelL (some n) own blocks hb (n + 1)⟩
theorem WFTL_relabelL (par own : Option Nat) (bs : List DN) (h : WFTL bs) (n : Nat) : WFTL (relabelL par own bs n).1 := by
  match bs, h with
  | [], _ => simp [relabelL, WFTL]
  | b :: bs, h =>
    simp only [WFTL] at h
    simp only [relabelL, WFTL]
    exact ⟨WFT_relabel par own b h.1 n, WFTL_relabelL par own bs h.2 _⟩
end

/-! #### tag equality of a rebuilt store -/

namespace Attrs

theorem styEq_refl (m : List (Str × Str)) : styEq m m = true := by
  unfold styEq
  simp only [Bool.and_eq_true, List.all_eq_true, beq_self_eq_true, implies_true, and_true, and_self]
  intro k hk
  simpa using hk

theorem GVal.eq_refl (g : GVal) : g.eq g = true := by
  cases g <;> simp [GVal.eq, styEq_refl]

theorem dget_append {α : Type} (k : Str) (d1 d2 : List (Str × α)) :
    dget k (d1 ++ d2) = match dget k d1 with | some v => some v | none => dget k d2 := by
  induction d1 with
  | nil => rfl
  | cons q r ih =>
    obtain ⟨k2, v2⟩ := q
    simp only [List.cons_append, dget]
    split
    · rfl
    · exact ih

theorem dget_filter_eq_other {α : Type} (k k' : Str) (d : List (Str × α)) (hne : k' ≠ k) :
    dget k' (d.filter (fun p => p.1 == k)) = none := by
  apply dget_none_of_not_mem
  intro hm
  obtain ⟨p, hp, hk⟩ := List.mem_map.mp hm
  simp at hp
  exact hne (hk ▸ hp.2)

/-- moving the `class` entry to the end changes no lookup -/
theorem dget_partition (k : Str) (d : List (Str × DVal)) (hn : (dkeys d).Nodup) :
    dget k (d.filter (fun p => p.1 != sClass) ++ d.filter (fun p => p.1 == sClass)) = dget k d := by
  rw [dget_append]
  by_cases e : k = sClass
  · subst e
    have h1 : dget sClass (d.filter (fun p => p.1 != sClass)) = none := by
      apply dget_none_of_not_mem
      intro hm
      obtain ⟨p, hp, hk⟩ := List.mem_map.mp hm
      simp at hp
      exact hp.2 hk
    rw [h1, filter_key sClass d hn]
    cases h : dget sClass d <;> simp [dget]
  · rw [dget_filter_ne _ _ _ e, dget_filter_eq_other _ _ _ e]
    cases dget k d <;> rfl

theorem dget_handle_fresh (a : Attrs) (h : WF a) (k : Str) : dget k (handle (fresh a)).dict = dget k (handle a).dict := by
  rw [handle_fresh a h, dget_partition k _ (nodup_handle a h.nodup)]

theorem getForEq_fresh (a : Attrs) (h : WF a) (k : Str) : getForEq (fresh a) k = getForEq a k := by
  unfold getForEq
  rw [dget_handle_fresh a h k]
  rfl

theorem mem_keys_handle_fresh (a : Attrs) (h : WF a) (k : Str) :
    k ∈ dkeys (handle (fresh a)).dict ↔ k ∈ dkeys (handle a).dict := by
  rw [mem_dkeys_iff_dget, mem_dkeys_iff_dget, dget_handle_fresh a h k]

end Attrs

/-- what the public views show of one element, apart from identities and content: name, attribute list, flag -/
def elView : DN → Str × List (Str × Option Str) × Bool
  | .text s => (s, [], false)
  | .el _ _ nm a sc _ _ _ _ _ => (nm, Attrs.attrsList a, sc)

mutual
theorem views_relabel (par own : Option Nat) (t : DN) (h : WFT t) (n : Nat) :
    (DN.elems (relabel par own t n).1).map elView = (DN.elems t).map elView := by
  match t, h with
  | .text s, _ => simp [relabel, DN.elems]
  | .el o u nm a sc blocks ch tx p ow, h =>
    simp only [WFT] at h
    obtain ⟨_, ha, hl, hb⟩ := h
    simp only [relabel, DN.elems, List.map_cons, elView]
    rw [Attrs.attrsList_fresh a ha hl, viewsL_relabelL (some n) own blocks hb (n + 1)]
theorem viewsL_relabelL (par own : Option Nat) (bs : List DN) (h : WFTL bs) (n : Nat) :
    (DN.elemsL (relabelL par own bs n).1).map elView = (DN.elemsL bs).map elView := by
  match bs, h with
  | [], _ => simp [relabelL, DN.elemsL]
  | b :: bs, h =>
    simp only [WFTL] at h
    simp only [relabelL, DN.elemsL, List.map_append]
    rw [views_relabel par own b h.1 n, viewsL_relabelL par own bs h.2 _]
end

end AHP.Pk
