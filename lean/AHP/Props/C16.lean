/- C16 — property theorems (stub: the property is not claimed yet). -/
namespace AHP.C16
end AHP.C16
