/-
  C16 — Reading never writes: queries, serialisers and copies leave documents untouched.

  Property theorems only.  Model: AHP/Model/Observe.lean (observers as state-passing functions on a world of
  documents, with the writes the code performs: lazy `class`/`style` synchronisation of whatever attribute
  stores the observer reaches, the parser's `__getstate__`, allocation of clones and unpickled copies outside
  the documents) on top of AHP/Model/Pickle.lean; lemmas: AHP/Lemmas/Observe.lean, AHP/Lemmas/Pickle.lean.

  `snapshot w` is what the public views show of every document of the world: serialisation, doctype, reset hook,
  index maps, and per element object identity, uid, name, attribute list, self-closing flag, parent, owner, text,
  children and block shape.  `CleanW w` (every attribute store has unique keys) is an invariant of every store the
  constructor and the mutators build; it is what makes the lazy synchronisation idempotent.

  STATUS OF THE THEOREMS (review B, H2) — read this before citing C16 as "proved":

  (I) Theorems WITH CONTENT — they relate two things that are defined independently and could disagree:
      `synchronisation_invisible`, `synchronisation_idempotent` (the lazy `class`/`style` synchronisation changes
      the raw attribute dict — see the `example`s at the end — yet no public view moves, provided the store has
      unique keys), their lifts `observer_leaves_snapshot` / `observers_leave_snapshot` (for the observers that
      do write: every footprint other than `Foot.none`, the serialisers, cloning, pickling of a tree), and
      `observer_keeps_clean` (the hypothesis is an invariant).
  (II) Theorems that hold BY CONSTRUCTION OF THE MODEL — true because of how `Model/Observe.lean` was written, not
      because of anything the library does; the corresponding clauses of the property are DECIDED BY THE TIE
      (correspondence stream + oracle: identity snapshot of both documents after every observer), not by proof.
      They carry the suffix `_by_construction`:
      * purity of the observers the code leaves pure (`Obs.read .none`: searches, navigation, text, XPath, …):
        the model function is the identity on the holder (`pure_observer_is_identity_by_construction`); that the
        Python functions write nothing is the ASSUMPTION of the model, i.e. the property itself;
      * C16d `observer_frame_by_construction` / `observers_frame_by_construction`: `obsStep i` is *defined* to
        touch only `docs[i]`, so the frame statement is a fact about `List.set`;
      * C16c `observer_keeps_parser_usable_by_construction` / `observers_keep_reset_hooks_by_construction`:
        `Parser.afterGetstate` is *defined* as `{ p with root := … }`, so the reset hook is kept by definition
        (C17 `getstate_keeps_reset_by_construction` is `rfl`); the one real defect of this property (the old
        `__getstate__` deleting `reset`, fixed c6b9dce) could not have contradicted these theorems — it was
        found by the tie;
      * "index contents are the same": `index` is a field no observer of the model ever assigns, so that
        component of `observer_leaves_snapshot` is by construction as well.
  (III) Bookkeeping: `set_map_snap`, `run_length`, `canParse_of_snap`, `kind_obs`, `getHTML_is_snapshot_html`.

  So: C16 is decided by machine-checked proof only for the clause "attribute and class/style reads (which
  synchronise lazily) are invisible"; every other clause is decided by the tie.
-/
import AHP.Lemmas.Observe
namespace AHP.C16
open AHP AHP.Pk

def CleanW (w : World) : Prop := ∀ h ∈ w.docs, CleanH h

/-! ### (I) Theorems with content: the lazy synchronisation is invisible -/

/-- C16a for the synchronisation itself: `_handleClassAttr` run on *any* set of elements of a document —
    whatever an observer happens to reach — is invisible through every public view of that document
    (non-trivial: the raw attribute dict does change). -/
theorem synchronisation_invisible (h : Holder) (hc : CleanH h) (f : Foot) : snapHolder (matFoot f h) = snapHolder h :=
  snapHolder_matFoot f h hc

/-- a second synchronisation of a store finds nothing to do (the reason reads can be repeated) -/
theorem synchronisation_idempotent (a : Attrs) (h : (dkeys a.dict).Nodup) : Attrs.handle (Attrs.handle a) = Attrs.handle a :=
  Attrs.handle_idem a h

theorem set_map_snap (docs : List Holder) (i : Nat) (h h' : Holder) (hi : docs[i]? = some h)
    (e : snapHolder h' = snapHolder h) : (docs.set i h').map snapHolder = docs.map snapHolder := by
  induction docs generalizing i with
  | nil => simp
  | cons d ds ih =>
    cases i with
    | zero =>
      simp only [List.getElem?_cons_zero, Option.some.injEq] at hi
      subst hi
      simp [List.set, e]
    | succ k =>
      simp only [List.getElem?_cons_succ] at hi
      simp only [List.set, List.map_cons]
      rw [ih k hi]

/-- **C16a** — every observer (any element of `Obs`: reads with any footprint, the serialisers, attribute
    lists, cloning, pickling), applied to any document of the world, leaves the snapshot of the *whole world*
    unchanged. -/
theorem observer_leaves_snapshot (i : Nat) (o : Obs) (w : World) (hc : CleanW w) : snapshot (obsStep i o w).1 = snapshot w := by
  unfold obsStep
  cases hi : w.docs[i]? with
  | none => rfl
  | some h =>
    simp only [snapshot]
    exact set_map_snap w.docs i h _ hi (snapHolder_obs o h (hc h (List.mem_of_getElem? hi)))

/-- the invariant is kept, so observers can be chained -/
theorem observer_keeps_clean (i : Nat) (o : Obs) (w : World) (hc : CleanW w) : CleanW (obsStep i o w).1 := by
  unfold obsStep
  cases hi : w.docs[i]? with
  | none => exact hc
  | some h =>
    intro h' hm
    simp only at hm
    rcases List.mem_or_eq_of_mem_set hm with hm | hm
    · exact hc h' hm
    · subst hm; exact clean_obs o h (hc h (List.mem_of_getElem? hi))

/-- **C16b** — closed under sequences: after any sequence of observers on any documents of the world, of any
    length, the snapshot is the one taken before. -/
theorem observers_leave_snapshot (ops : List (Nat × Obs)) (w : World) (hc : CleanW w) :
    snapshot (run w ops) = snapshot w ∧ CleanW (run w ops) := by
  induction ops generalizing w with
  | nil => exact ⟨rfl, hc⟩
  | cons op rest ih =>
    obtain ⟨i, o⟩ := op
    simp only [run]
    have h1 := observer_leaves_snapshot i o w hc
    have h2 := observer_keeps_clean i o w hc
    obtain ⟨h3, h4⟩ := ih (obsStep i o w).1 h2
    exact ⟨h3.trans h1, h4⟩

/-! ### (III) bookkeeping -/

/-- the number of documents never changes -/
theorem run_length (ops : List (Nat × Obs)) (w : World) : (run w ops).docs.length = w.docs.length := by
  induction ops generalizing w with
  | nil => rfl
  | cons op rest ih =>
    obtain ⟨i, o⟩ := op
    simp only [run]
    rw [ih]
    unfold obsStep
    cases w.docs[i]? <;> simp

theorem canParse_of_snap (h h' : Holder) (e : snapHolder h' = snapHolder h)
    (k : (∃ t, h = .tree t) ↔ (∃ t, h' = .tree t)) : canParseAgain h' = canParseAgain h := by
  cases h with
  | tree t =>
    obtain ⟨t', ht'⟩ := k.mp ⟨t, rfl⟩
    subst ht'; rfl
  | parser p =>
    cases h' with
    | tree t' => exact absurd (k.mpr ⟨t', rfl⟩) (by simp)
    | parser p' =>
      simp only [snapHolder, HSnap.mk.injEq] at e
      simp only [canParseAgain]
      exact e.2.2.1

theorem kind_obs (o : Obs) (h : Holder) : (∃ t, h = .tree t) ↔ (∃ t, (obsHolder o h).1 = .tree t) := by
  cases h with
  | tree t =>
    constructor
    · intro _
      cases o <;> simp [obsHolder, matFoot, Holder.root, Holder.setRoot]
    · intro _; exact ⟨t, rfl⟩
  | parser p =>
    constructor
    · rintro ⟨t, ht⟩; cases ht
    · rintro ⟨t, ht⟩
      cases o <;> simp [obsHolder, matFoot, Holder.root, Holder.setRoot] at ht <;> (try (split at ht <;> simp at ht))

/-! ### (II) Theorems that hold by construction of the model (the clauses themselves are decided by the tie) -/

mutual
theorem matSel_none (t : DN) : matSel (fun _ => false) t = t := by
  cases t with
  | text s => rfl
  | el o u n a sc blocks ch tx p ow => simp only [matSel, Bool.false_eq_true, ite_false, matSelL_none blocks]
theorem matSelL_none (bs : List DN) : matSelL (fun _ => false) bs = bs := by
  cases bs with
  | nil => rfl
  | cons b bs => simp only [matSelL, matSel_none b, matSelL_none bs]
end

/-- BY CONSTRUCTION: an observer the code leaves pure (`Foot.none`: searches, navigation, text, identity,
    XPath, iteration, …) is the identity on the holder in the model.  That the Python functions are pure is
    the model's assumption; it is checked by the tie, not proved. -/
theorem pure_observer_is_identity_by_construction (h : Holder) : (obsHolder (.read .none) h).1 = h := by
  simp only [obsHolder, matFoot]
  cases h with
  | tree t =>
    simp only [Holder.root, Holder.setRoot, footOids, List.contains_nil, matSel_none]
  | parser p =>
    simp only [Holder.root]
    cases hr : p.root with
    | none => rfl
    | some r =>
      simp only [Holder.setRoot, footOids, List.contains_nil, matSel_none, ← hr]

/-- **C16c**, BY CONSTRUCTION (`Parser.afterGetstate` is defined to keep the hook) — after any observer (in
    particular after pickling the parser) the parser still has its reset hook: `parseStr` on the same object
    starts from a clean state. -/
theorem observer_keeps_parser_usable_by_construction (o : Obs) (h : Holder) (hc : CleanH h) :
    canParseAgain (obsHolder o h).1 = canParseAgain h :=
  canParse_of_snap h _ (snapHolder_obs o h hc) (kind_obs o h)

/-- C16c over sequences, through the snapshot (the reset hook is part of it); BY CONSTRUCTION as above. -/
theorem observers_keep_reset_hooks_by_construction (ops : List (Nat × Obs)) (w : World) (hc : CleanW w) :
    (snapshot (run w ops)).map (·.hasReset) = (snapshot w).map (·.hasReset) := by
  rw [(observers_leave_snapshot ops w hc).1]

/-- **C16d** (frame), BY CONSTRUCTION (`obsStep i` is defined to touch only `docs[i]`: a fact about `List.set`)
    — an observer on document `i` leaves every other document of the world *identical*, not merely
    snapshot-equal.  Cross-document writes of the library (e.g. an `isTagEqual` that sorts the other element's
    class list) are caught by the tie, which snapshots both documents. -/
theorem observer_frame_by_construction (i j : Nat) (o : Obs) (w : World) (hne : j ≠ i) : (obsStep i o w).1.docs[j]? = w.docs[j]? := by
  unfold obsStep
  cases hi : w.docs[i]? with
  | none => rfl
  | some h => simp [List.getElem?_set_ne (fun e => hne e.symm)]

/-- … over sequences that never address document `j` (BY CONSTRUCTION as above). -/
theorem observers_frame_by_construction (ops : List (Nat × Obs)) (j : Nat) (w : World) (hj : ∀ op ∈ ops, op.1 ≠ j) :
    (run w ops).docs[j]? = w.docs[j]? := by
  induction ops generalizing w with
  | nil => rfl
  | cons op rest ih =>
    obtain ⟨i, o⟩ := op
    simp only [run]
    rw [ih _ (fun op hop => hj op (List.mem_cons_of_mem _ hop))]
    exact observer_frame_by_construction i j o w (fun e => hj (i, o) List.mem_cons_self e.symm)

/-- (III) the serialisers return what the snapshot shows: `getHTML` of a parser is the `html` field (by definition) -/
theorem getHTML_is_snapshot_html (p : Parser) :
    (obsHolder .docHtml (.parser p)).2.1 = Out.str (snapHolder (.parser p)).html := by
  simp [obsHolder, snapHolder]

/-! ### non-vacuity: a reader really writes, and the snapshot really does not move -/

/-- `<div class="a" style="color: red">` as the constructor leaves it: `class` lives in the class list only -/
def lazyStore : Attrs := ⟨[(sStyle, .style)], [str "a"], [(str "color", str "red")]⟩

def lazyDoc : Holder := .tree (.el 0 0 (str "div") lazyStore false [.text []] [] [] none none)

def rawKeys : Holder → List Str
  | .tree (.el _ _ _ a _ _ _ _ _ _) => dkeys a.dict
  | _ => []

def outAttrs : Out → List (Str × Option Str)
  | .attrs l => l
  | _ => []

/-- reading the attribute list changes the raw dict (`class` is materialised) … -/
example : rawKeys lazyDoc = [sStyle] ∧ rawKeys (obsHolder (.attrsList 0) lazyDoc).1 = [sStyle, sClass] := by decide

/-- … returns the full list … -/
example : outAttrs (obsHolder (.attrsList 0) lazyDoc).2.1 =
    [(str "style", some (str "color: red")), (str "class", some (str "a"))] := by decide

/-- … and the hypotheses of the theorems hold of this world. -/
theorem lazyWorld_clean : CleanW ⟨[lazyDoc, lazyDoc], 1, 1⟩ := by
  intro h hm
  simp only [List.mem_cons, List.mem_nil_iff, or_false, or_self] at hm
  subst hm
  simp only [lazyDoc, CleanH, CleanT, CleanTL, and_true]
  decide

end AHP.C16
