/-
  C12 — Formatter layout guarantees: indentation, minification, slim tags, stability.

  Property theorems only (model: AHP/Model/Format.lean; lemmas: AHP/Lemmas/Format.lean, Squeeze.lean).
  Quantification as in C11: every token sequence, every configuration; hypothesis: no element is named like the
  invisible wrapper.

  Text level (through the character-level lexer `lexStrict` of C01 and the lexer bridge of C11,
  `Lemmas/FormatLex*.lean`; lemmas in `Lemmas/FormatLexPretty.lean`, `FormatLexPrettyLayout.lean`,
  `FormatLexPrettyMulti.lean`, `FormatLexMiniText.lean`):
  `mini_output_fixed_point_text` (mini² = mini), `pretty_text_stable` (pretty³ = pretty²), `pretty_text_layout…` (the
  layout law read off the output text; any token sequence whose tree is strict, unclosed tails included),
  `mini_output_text_runs` (the mini clause on the data tokens / text runs of the lexed output), for strict single-root
  documents, and their `…_multi` counterparts for multi-root documents.
-/
import AHP.Lemmas.Format
import AHP.Lemmas.FormatLexPrettyLayout
import AHP.Lemmas.FormatLexPrettyMulti
import AHP.Lemmas.FormatLexMiniText
namespace AHP.C12
open AHP AHP.Fmt
-- the lexer's side (namespace `AHP`) has declarations with the same short names as the formatter model
-- (`AHP.Fmt`); inside this file the short names keep meaning the formatter model's (as in Props/C11.lean)
export AHP.Fmt (Frame Node binaryAttrs boolString collapseSpaces dictDel dictSet docHTML endTag handleEnd
  handleStart isAlnum isAlpha isVoid renderAttr run startTag step styleStr styleToDict toNodeL validAttrName
  voidTags wrapToks)

/-! #### C12a — indentation -/

/-- **C12a (tree level).**  In the tree the formatter serialises, every element outside pre/code carries
    `_indent = "\n" ++ indent^depth`, `depth` being its number of proper ancestors other than the invisible wrapper
    *recomputed from the finished tree* (`LayoutOK`), every element below pre/code carries none, and the mini classes
    give none at all — whatever pushes, explicit pops and implicit pops the token sequence caused. -/
theorem indentation_law (cfg : Cfg) (toks : List Tok) (h : NoWrapperStart toks) (s : St) (r : Node)
    (hs : feed cfg toks = .ok s) (hr : s.root = some r) : LayoutOK cfg 0 false r := by
  rw [feed_dec cfg toks h] at hs
  cases hp : Plain.feed toks with
  | error e => simp [hp, mapOk] at hs
  | ok ps =>
    simp only [hp, mapOk, Except.ok.injEq] at hs
    rw [← hs, root_dec] at hr
    cases hpr : ps.root with
    | none => simp [hpr] at hr
    | some r0 =>
      simp only [hpr, Option.map_some, Option.some.injEq] at hr
      rw [← hr]
      exact layout_decorate cfg ⟨0, 0⟩ [] r0

/-- the counters the formatter is left with are those of the elements still open: `currentIndentLevel` = number
    of open elements other than the wrapper, `inPreformatted` = number of open pre/code elements -/
theorem counters_are_stack_functions (cfg : Cfg) (toks : List Tok) (h : NoWrapperStart toks) (s : St)
    (hs : feed cfg toks = .ok s) :
    ∃ ps, Plain.feed toks = .ok ps ∧ s.level = ((ctxOf ps.stack).level : Int) ∧ s.inPre = ((ctxOf ps.stack).inPre : Int)
      ∧ s.stack.length = ps.stack.length := by
  rw [feed_dec cfg toks h] at hs
  cases hp : Plain.feed toks with
  | error e => simp [hp, mapOk] at hs
  | ok ps =>
    simp only [hp, mapOk, Except.ok.injEq] at hs
    exact ⟨ps, rfl, by rw [← hs]; rfl, by rw [← hs]; rfl, by rw [← hs]; simp [decSt]⟩

/-- In the output text the `_indent` is what precedes the start tag … -/
theorem start_tag_after_indent (k : Kind) (n : Str) (st : AStore) (sc : Bool) (ind : Str) :
    ∃ rest, startTag k n st sc ind = ind ++ rest ∧ rest.head? = some '<' := startTag_prefix k n st sc ind

/-- … and the end tag of an element that is not self-closing, unless the element is pre/code or is script/style whose
    content already ends with exactly that line break and indentation. -/
theorem end_tag_after_indent (n ind : Str) (kids : List Node) (hpre : isPre n = false)
    (hraw : isPreserve n = true → lastTextEndsWith ind kids = false) :
    endTag n false ind kids = ind ++ str "</" ++ n ++ str ">" := by
  rcases endTag_cases n ind kids with h | ⟨_, h | h⟩
  · exact h
  · rw [hpre] at h; cases h
  · rw [hraw h.1] at h; cases h.2

/-- C12a read off the output text: the start tag of an element that obeys the law outside pre/code, pretty classes, is
    written as a line break, exactly `depth` copies of the indent unit, then `<` — the tag is the first thing on its line
    (when the unit itself contains no line break). -/
theorem start_tag_text_pretty (cfg : Cfg) (hm : cfg.mini = false) (depth : Nat) (k : Kind) (n : Str) (st : AStore)
    (sc : Bool) (ind : Str) (kids : List Node) (h : LayoutOK cfg depth false (.elem k n st sc ind kids)) :
    ∃ rest, startTag k n st sc ind = '\n' :: rep depth cfg.indent ++ '<' :: rest := by
  have hind : ind = '\n' :: rep depth cfg.indent := by
    have := h.1
    simpa [hm] using this
  obtain ⟨rest, h1, h2⟩ := startTag_prefix k n st sc ind
  cases rest with
  | nil => simp at h2
  | cons c r =>
    simp only [List.head?_cons, Option.some.injEq] at h2
    subst h2
    exact ⟨r, by rw [h1, hind]⟩

/-! #### C12c — slim output = normal output without the space before `>` -/

/-- C12c on one start tag -/
theorem slim_start_tag (ssc : Bool) (n : Str) (st : AStore) (sc : Bool) (ind : Str) :
    startTag .normal n st sc ind = ind ++ ('<' :: n ++ attrString st) ++ (if sc then str " />" else str " >")
    ∧ startTag (.slim ssc) n st sc ind
        = ind ++ ('<' :: n ++ attrString st) ++ (if sc then (if ssc then str "/>" else str " />") else str ">") :=
  ⟨startTag_normal n st sc ind, startTag_slim ssc n st sc ind⟩

/-- **C12c (document level).**  For the same tokens, indent unit and mini flag, the slim class fails exactly when the
    normal class fails, and otherwise its output is the normal output piece by piece: text blocks, end tags and doctype
    line identical, every start-tag piece with the space before `>` removed (before `/>` only with slimSelfClosing) —
    in start tags only. -/
theorem slim_output (cfg : Cfg) (hk : cfg.kind = .normal) (ssc : Bool) (toks : List Tok) (h : NoWrapperStart toks) :
    (match feed cfg toks with
     | .ok fn => ∃ fs, feed { cfg with kind := .slim ssc } toks = .ok fs ∧ fs.doctype = fn.doctype
          ∧ (fn.root = none → fs.root = none)
          ∧ ∀ r, fn.root = some r → ∃ r', fs.root = some r'
              ∧ docHTML fn.doctype fn.root = .ok (flat (docPieces fn.doctype r))
              ∧ docHTML fs.doctype fs.root = .ok (flat ((docPieces fn.doctype r).map (slimPiece ssc)))
     | .error e => feed { cfg with kind := .slim ssc } toks = .error e) := by
  rw [feed_dec cfg toks h, feed_dec { cfg with kind := .slim ssc } toks h]
  cases hp : Plain.feed toks with
  | error e => simp [mapOk]
  | ok ps =>
    simp only [mapOk]
    refine ⟨_, rfl, rfl, ?_, ?_⟩
    · intro hn
      rw [root_dec] at hn ⊢
      cases hr : ps.root with
      | none => rfl
      | some r0 => simp [hr] at hn
    · intro r hr
      rw [root_dec] at hr
      cases hpr : ps.root with
      | none => simp [hpr] at hr
      | some r0 =>
        simp only [hpr, Option.map_some, Option.some.injEq] at hr
        have hcfg : cfg = { cfg with kind := .normal } := by cases cfg; simp_all
        have e1 : r = setKind .normal (dec0 cfg r0) := by
          rw [← hr]; unfold dec0
          conv => lhs; rw [hcfg]
          exact decorate_setKind cfg .normal _ _ r0
        have e2 : dec0 { cfg with kind := .slim ssc } r0 = setKind (.slim ssc) (dec0 cfg r0) :=
          decorate_setKind cfg (.slim ssc) _ _ r0
        refine ⟨setKind (.slim ssc) (dec0 cfg r0), by rw [root_dec, hpr, Option.map_some, e2], ?_, ?_⟩
        · rw [root_dec, hpr, Option.map_some, hr]; exact docHTML_eq_flat _ _
        · rw [root_dec, hpr, Option.map_some, e2, docHTML_eq_flat, e1]
          show Except.ok (flat (docPieces ps.doctype _)) = _
          rw [docPieces_slim]
          rfl

/-- the slim classes are the normal classes with the other element class: with the same explicit indent argument,
    `AdvancedHTMLSlimTagFormatter` / `…SlimTagMiniFormatter` are configured like `AdvancedHTMLFormatter` /
    `…MiniFormatter` except for `kind` (so `slim_output` applies to the four shipped classes) -/
theorem slim_classes (ind : IndentArg) (hi : ind ≠ .dflt) (ssc : Bool) :
    mkCfg .slim ind ssc = { mkCfg .pretty ind ssc with kind := .slim ssc } ∧ (mkCfg .pretty ind ssc).kind = .normal
    ∧ mkCfg .slimMini ind ssc = { mkCfg .mini ind ssc with kind := .slim ssc } ∧ (mkCfg .mini ind ssc).kind = .normal := by
  cases ind with
  | dflt => exact absurd rfl hi
  | str s => simp [mkCfg, indentOf]
  | int i => simp [mkCfg, indentOf]

/-- what the surgery does to the two shapes a start tag can have -/
theorem slim_surgery (ssc : Bool) (x : Str) :
    slimSurgery ssc (x ++ str " >") = x ++ str ">"
    ∧ slimSurgery ssc (x ++ str " />") = x ++ (if ssc then str "/>" else str " />") :=
  ⟨slimSurgery_open ssc x, slimSurgery_selfclosed ssc x⟩

/-! #### C12b — mini output carries no indentation -/

/-- the mini classes give no element an `_indent` (special case of the indentation law, spelled out) -/
theorem mini_no_indent (cfg : Cfg) (hm : cfg.mini = true) (c : Ctx) : indentAt cfg c = [] := by
  unfold indentAt getIndent
  by_cases h0 : c.inPre = 0 <;> simp [h0, hm]

/-- C12b: a data piece outside preserved content comes out without a tab … -/
theorem squeezed_has_no_tab (s : Str) : ∀ c ∈ squeeze s, c ≠ '\t' := squeeze_noTab s

/-- … and neither begins nor ends with a line break (CR or LF). -/
theorem squeezed_has_no_outer_line_break (s : Str) :
    (∀ c, (squeeze s).head? = some c → isCRLF c = false) ∧ (∀ c, (squeeze s).getLast? = some c → isCRLF c = false) :=
  squeeze_ends s

/-- C12b/C12d core: the data rule is idempotent. -/
theorem squeeze_idempotent (s : Str) : squeeze (squeeze s) = squeeze s := squeeze_idem s

/-- **C12b / C12d (tree level).**  Decorating an already decorated tree changes nothing — for every class, context and
    tree: the same elements get the same `_indent` (a function of the ancestors' names only) and every squeezed data block
    is a fixed point of the data rule.  With `formatter_tree_is_decorated` (C11) this is "formatting the formatter's own
    tree again gives the same tree"; for the mini classes, whose output adds no text, it is the fixed-point statement up to
    re-tokenisation of the output (see `…_partial` below). -/
theorem reformat_tree_fixed_point (cfg : Cfg) (c : Ctx) (p : Str) (t : Node) :
    decorate cfg c p (decorate cfg c p t) = decorate cfg c p t := decorate_idem cfg c p t

/-! #### C12b at text level — the mini clause read off the OUTPUT text -/

/-- **C12b on the output text.**  Mini class (normal or slim elements); any token sequence whose plain-parser tree is a
    strict document, single- or multi-root (`WrapperOK`), **adjacent data blocks allowed (no `Glued`)**.  The output text
    lexes (`lexStrict`) to the doctype declaration followed by `glueDt (dtText dt) body`: `body` are the tokens of the
    document's blocks, and the line break `getHTML` writes after the doctype line is a data token of its own or glued in
    front of `body`'s leading data token (it is not text of the document).  Then, with the stack of open elements
    recomputed from the tokens alone (`tagStack`) and `miniCare st` = "no pre/code element open and the innermost open
    element is not script/style":

    * every data or reference token `t` of `body` at a position where `miniCare` holds is a `GoodText`: it neither
      begins nor ends with CR/LF and contains no tab — a data token of the output is several squeezed pieces glued;
    * every **text run** of `body` (`textRuns`: maximal sequence of consecutive data and reference tokens, rendered and
      glued) at such a position is a `GoodText`.

    The known finding `C12-mini-dropped-markup` does not limit this clause (it concerns `mini² = mini`): two pieces that
    touch because markup between them was dropped are each squeezed, and a concatenation of good texts is good.  What
    limits it is the strict sub-language (the hypotheses `Strict`, `DtOK`); outside it: tree level
    (`squeezed_has_no_tab`, `squeezed_has_no_outer_line_break` per piece) + the oracle `mini_text_violation`. -/
theorem mini_output_text_runs (cfg : Cfg) (hm : cfg.mini = true) (hi : IndentWS cfg) (toks : List Tok)
    (h : NoWrapperStart toks) (ps : St) (hp : Plain.feed toks = .ok ps)
    (n : Str) (st : AStore) (sc : Bool) (kids : List FNode)
    (hroot : ps.root = some (FNode.elem n st sc kids).toNode) (hw : WrapperOK n st sc kids)
    (hs : (FNode.elem n st sc kids).Strict) (hdt : DtOK ps.doctype) :
    ∃ out body, format cfg toks = .ok out ∧
      lexStrict out = some (dtToks ps.doctype ++ glueDt (dtText ps.doctype) body) ∧
      (∀ pre t post, body = pre ++ t :: post → isRunTok t = true → miniCare (tagStack [] pre) = true →
        GoodText (renderTok t)) ∧
      (∀ p ∈ textRuns body, miniCare p.1 = true → GoodText p.2) := by
  obtain ⟨out, body, h1, h2, h3⟩ := mini_text_core cfg hm hi toks h ps hp n st sc kids hroot hw hs hdt
  refine ⟨out, body, h1, h2, ?_, ?_⟩
  · intro pre t post e hr hc
    exact dscan_split pre [] t post (e ▸ h3) hr hc
  · exact dscan_runs body [] [] h3 (fun _ => goodText_nil)

/-- `GoodText`, spelled out -/
theorem goodText_iff (s : Str) :
    GoodText s ↔ (∀ c, s.head? = some c → isCRLF c = false) ∧ (∀ c, s.getLast? = some c → isCRLF c = false)
      ∧ ∀ c ∈ s, c ≠ '\t' := Iff.rfl

/-! #### C12d — stability from the second pass on -/

/-- **C12d key lemma** (DESIGN §5).  In pass k+1 a text region is the pieces pass k wrote followed by the indent `I`
    (a line break, then spaces/tabs) pass k put before the next tag; only the last data piece `d` (possibly empty) meets
    `I`, the tokenizer hands the formatter `d ++ I` as one piece.  From the second pass on that piece is stable:
    `sq (sq (d ++ I) ++ I) = sq (d ++ I)`, for every `d` and every such `I`.  (Pass 1 → 2 is not covered and not stable:
    pass 1 sees `d`, pass 2 sees `sq d ++ I` — which is why the property says "from the second pass on".) -/
theorem indent_piece_stable (d i : Str) (hi : IsIndent i) : squeeze (squeeze (d ++ i) ++ i) = squeeze (d ++ i) :=
  squeeze_indent_stable d i hi

/-- every `_indent` the pretty classes produce with a spaces/tabs indent unit is such an `I` -/
theorem getIndent_isIndent (cfg : Cfg) (hm : cfg.mini = false) (hu : ∀ c ∈ cfg.indent, c = ' ' ∨ c = '\t') (level : Int) :
    IsIndent (getIndent cfg level) := by
  unfold getIndent
  simp only [hm, Bool.false_eq_true, if_false]
  refine ⟨_, rfl, ?_⟩
  generalize level.toNat = n
  induction n with
  | zero => simp [rep]
  | succ k ih =>
    intro c hc
    simp only [rep, List.mem_append] at hc
    rcases hc with hc | hc
    · exact hu c hc
    · exact ih c hc

/-! #### C12b/C12d at text level — through the real pipeline text → `lexStrict` → formatter → text -/

/-- **C12c/C12b on text: mini² = mini.**  Mini class (normal or slim elements), any doctype, any strict single-root
    document `u` — any size and depth — without adjacent data blocks (`Glued`) and without the reserved name: feed the
    formatter the tokens of `u`; its output text lexes (`lexStrict`), and feeding the formatter those tokens gives the
    identical text.  (`AHP.Fmt.mini_text_fixed_point`; also stated as `C11.mini_output_is_fixed_point_text`.  With
    adjacent data blocks it fails: `mini_dropped_markup_counterexample`, the known finding.) -/
theorem mini_output_fixed_point_text (cfg : Cfg) (hm : cfg.mini = true) (hi : IndentWS cfg) (dt : Option Str)
    (hdt : DtOK dt) (n : Str) (st : AStore) (sc : Bool) (kids : List FNode)
    (hs : (FNode.elem n st sc kids).Strict) (hg : (FNode.elem n st sc kids).Glued)
    (hnw : (FNode.elem n st sc kids).NoWrapper) :
    ∃ out toks2, format cfg (strictToks dt (.elem n st sc kids)) = .ok out ∧ lexStrict out = some toks2 ∧
      format cfg (toks2.map Tok.ofToken) = .ok out :=
  mini_text_fixed_point cfg hm hi dt hdt n st sc kids hs hg hnw

/-- **C12d on text: pretty³ = pretty².**  Pretty class — normal or slim element class, `cfg.mini = false`, indent unit
    made of spaces/tabs (`IndentWS`) —, any doctype (`DtOK`), any strict single-root document `u` (`FNode.Strict`; any
    size, any depth) without the reserved name.  Pass 1: the formatter fed the tokens of `u` writes `out1`; the strict
    lexer reads `out1` back as `toks2`; pass 2: the formatter fed `toks2` writes `out2`; the lexer reads `out2` back as
    `toks3`; pass 3: the formatter fed `toks3` writes **`out2` again**.

    Unlike the mini case **no `Glued` hypothesis is needed**: whatever adjacent data blocks the input has, pass 1's
    output re-tokenises without adjacent data blocks, every data block that precedes a tag written with an `_indent` `I`
    has the form `d ++ I`, pass 2 makes it `sq (d ++ I) ++ I`, and pass 3 `sq (sq (d ++ I) ++ I) ++ I`, the same by
    `indent_piece_stable`; data blocks before a reference or comment are fixed by `squeeze_idempotent`; below pre/code
    nothing is rewritten; script/style content ends with the `_indent` after pass 1 and `getEndTag` then adds nothing.
    What *is* needed is the blank indent unit: `stability_needs_blank_indent_unit`.  Pass 2 = pass 1 does not hold:
    `second_pass_differs_from_first`. -/
theorem pretty_text_stable (cfg : Cfg) (hm : cfg.mini = false) (hi : IndentWS cfg) (dt : Option Str)
    (hdt : DtOK dt) (n : Str) (st : AStore) (sc : Bool) (kids : List FNode)
    (hs : (FNode.elem n st sc kids).Strict) (hnw : (FNode.elem n st sc kids).NoWrapper) :
    ∃ out1 toks2 out2 toks3 out3,
      format cfg (strictToks dt (.elem n st sc kids)) = .ok out1 ∧ lexStrict out1 = some toks2 ∧
      format cfg (toks2.map Tok.ofToken) = .ok out2 ∧ lexStrict out2 = some toks3 ∧
      format cfg (toks3.map Tok.ofToken) = .ok out3 ∧ out3 = out2 := by
  obtain ⟨out1, toks2, out2, toks3, h1, h2, h3, h4, h5⟩ :=
    pretty_text_stable_core cfg hm hi dt hdt n st sc kids hs hnw
  exact ⟨out1, toks2, out2, toks3, out2, h1, h2, h3, h4, h5, rfl⟩

/-- the two shipped pretty classes with an indent argument made of spaces/tabs (the default, an integer, or such a
    string) meet the hypotheses `cfg.mini = false` and `IndentWS cfg` of `pretty_text_stable` / `pretty_text_layout` -/
theorem pretty_classes_cfg (ind : IndentArg) (ssc : Bool)
    (hind : ∀ s, ind = .str s → ∀ c ∈ s, c = ' ' ∨ c = '\t') :
    (mkCfg .pretty ind ssc).mini = false ∧ IndentWS (mkCfg .pretty ind ssc)
    ∧ (mkCfg .slim ind ssc).mini = false ∧ IndentWS (mkCfg .slim ind ssc) := by
  cases ind with
  | dflt =>
    have h2 : ∀ c ∈ str "  ", c = ' ' ∨ c = '\t' := by decide
    have h4 : ∀ c ∈ str "    ", c = ' ' ∨ c = '\t' := by decide
    exact ⟨rfl, h2, rfl, h4⟩
  | str s => exact ⟨rfl, hind s rfl, rfl, hind s rfl⟩
  | int i =>
    have : ∀ c ∈ List.replicate i.toNat ' ', c = ' ' ∨ c = '\t' := by
      intro c hc
      exact Or.inl (List.eq_of_mem_replicate hc)
    exact ⟨rfl, this, rfl, this⟩

/-- **Why "from the second pass on".**  Pass 1 sees the document's own data pieces, pass 2 sees them glued to the
    `_indent` pass 1 wrote after them: `<div>a<p></p></div>` → `a` + LF + 2 spaces + `<p >` → the piece `a\n  ` is
    squeezed to `a ` and the indent written again: the second output differs from the first (a space before the line
    break), the third equals the second (`pretty_text_stable`). -/
theorem second_pass_differs_from_first :
    okIs (format (mkCfg .pretty (.str (str "  ")) false)
      (strictToks none (.elem (str "div") {} false [.tok (.data (str "a")), .elem (str "p") {} false []])))
      "\n<div >a\n  <p >\n  </p>\n</div>" = true
    ∧ lexStrict (str "\n<div >a\n  <p >\n  </p>\n</div>")
        = some [.data (str "\n"), .start (str "div") [], .data (str "a\n  "), .start (str "p") [],
                .data (str "\n  "), .end_ (str "p"), .data (str "\n"), .end_ (str "div")]
    ∧ okIs (format (mkCfg .pretty (.str (str "  ")) false)
        ([Token.data (str "\n"), .start (str "div") [], .data (str "a\n  "), .start (str "p") [],
          .data (str "\n  "), .end_ (str "p"), .data (str "\n"), .end_ (str "div")].map Tok.ofToken))
        "\n<div >a \n  <p > \n  </p>\n</div>" = true := by decide

/-- **The hypothesis `IndentWS` is needed.**  With an indent unit that is not white space (`indent = "x"`) every pass
    adds a copy of the indent to the text in front of each tag, for ever: the same document, passes 1, 2, 3 (each fed
    the tokens `lexStrict` reads from the previous output). -/
theorem stability_needs_blank_indent_unit :
    okIs (format ⟨.normal, str "x", false⟩
      (strictToks none (.elem (str "div") {} false [.tok (.data (str "a")), .elem (str "p") {} false []])))
      "\n<div >a\nx<p >\nx</p>\n</div>" = true
    ∧ lexStrict (str "\n<div >a\nx<p >\nx</p>\n</div>")
        = some [.data (str "\n"), .start (str "div") [], .data (str "a\nx"), .start (str "p") [],
                .data (str "\nx"), .end_ (str "p"), .data (str "\n"), .end_ (str "div")]
    ∧ okIs (format ⟨.normal, str "x", false⟩
        ([Token.data (str "\n"), .start (str "div") [], .data (str "a\nx"), .start (str "p") [],
          .data (str "\nx"), .end_ (str "p"), .data (str "\n"), .end_ (str "div")].map Tok.ofToken))
        "\n<div >a\nx\nx<p >x\nx</p>\n</div>" = true
    ∧ lexStrict (str "\n<div >a\nx\nx<p >x\nx</p>\n</div>")
        = some [.data (str "\n"), .start (str "div") [], .data (str "a\nx\nx"), .start (str "p") [],
                .data (str "x\nx"), .end_ (str "p"), .data (str "\n"), .end_ (str "div")]
    ∧ okIs (format ⟨.normal, str "x", false⟩
        ([Token.data (str "\n"), .start (str "div") [], .data (str "a\nx\nx"), .start (str "p") [],
          .data (str "x\nx"), .end_ (str "p"), .data (str "\n"), .end_ (str "div")].map Tok.ofToken))
        "\n<div >a\nx\nx\nx<p >x\nx\nx</p>\n</div>" = true := by decide

/-! #### C12a at text level — the layout law read off the output text -/

/-- `Scan` read position by position (shared by the single- and multi-root layout statements) -/
theorem scan_positions (cfg : Cfg) (out : Str) (toks2 : List Token)
    (h3 : out = renderToksY (styleOf cfg.kind) toks2) (h4 : Scan (styleOf cfg.kind) cfg.indent [] [] toks2) :
    ∀ pre t post, toks2 = pre ++ t :: post →
        out = renderToksY (styleOf cfg.kind) pre ++ renderTokY (styleOf cfg.kind) t
                ++ renderToksY (styleOf cfg.kind) post
        ∧ (∀ m a, t = .start m a ∨ t = .startend m a → noPre (tagStack [] pre) = true →
            ∃ x, renderToksY (styleOf cfg.kind) pre = x ++ '\n' :: rep (tagStack [] pre).length cfg.indent)
        ∧ (∀ m, t = .end_ m → (tagStack [] pre).head? = some m ∧
            (isPre m = false → noPre (tagStack [] pre).tail = true →
              ∃ x, renderToksY (styleOf cfg.kind) pre = x ++ '\n' :: rep ((tagStack [] pre).length - 1) cfg.indent)) := by
  intro pre t post hsplit
  have hat := scan_split (styleOf cfg.kind) cfg.indent pre [] [] t post (hsplit ▸ h4)
  simp only [List.nil_append] at hat
  refine ⟨?_, ?_, ?_⟩
  · rw [h3, hsplit, renderToksY_append]
    simp [renderToksY]
  · intro m a ht hpre
    rcases ht with rfl | rfl
    · obtain ⟨x, hx⟩ := hat hpre
      exact ⟨x, hx.symm⟩
    · obtain ⟨x, hx⟩ := hat hpre
      exact ⟨x, hx.symm⟩
  · intro m ht
    subst ht
    refine ⟨hat.1, ?_⟩
    intro h1 h2
    obtain ⟨x, hx⟩ := hat.2 h1 h2
    exact ⟨x, hx.symm⟩

/-- **C12a on the output text.**  Pretty class (normal or slim elements, indent unit of spaces/tabs), any token
    sequence `toks` whose plain-parser tree — `ps.root`, **elements still open at the end of the input included**: the
    final state `ps` may have a non-empty stack, `getHTML` serialises the tree with them closed — is a strict single-root
    document `u` without the reserved name (doctype `ps.doctype`).  (Implicit closes inside `toks` are allowed as long as
    the resulting tree is strict; stray end tags leave no trace in the tree.)  The output text `out` lexes
    (`lexStrict out = some toks2`), is the rendering of `toks2`
    (`renderToksY`, start tags in the class's style), the tags of `toks2` are balanced (`tagStack [] toks2 = []`, every
    end tag closes the innermost open element), and for **every position**: split `toks2 = pre ++ t :: post`, so that
    `out = before ++ (text of t) ++ …` with `before = renderToksY … pre` the text in front of the tag, and let
    `open_ = tagStack [] pre` be the names of the elements open at that point, recomputed from the tokens `pre` alone
    (a start tag pushes, an end tag pops).  Then

    * `t` a start tag or a self-closing tag, no pre/code element open: `before` ends with a line break followed by
      exactly `open_.length` copies of the indent unit — the tag is preceded on its line by depth × indent and nothing
      else (text may FOLLOW a tag on the same line: "on its own line" is proved as "preceded by LF + depth × unit");
    * `t` the end tag `</n>`: `n` is the innermost open element; and if `n` is not pre/code and no pre/code element
      encloses it, `before` ends with a line break followed by exactly `(depth of that element)` copies of the unit —
      the end tag is preceded on its line by the indentation of its start tag.  No exception is needed for script/style:
      `getEndTag` omits the indent only when the content already ends with it.

    (`layout_reads_as_line`: since the unit has no line break, "ends with LF + d units" = "the last line of `before` is
    exactly d units".)  `pretty_text_layout` is the instance for the tokens of a strict document,
    `pretty_text_layout_second_pass` the one for the re-tokenised output of pass 1, `pretty_text_layout_multi` the
    multi-root counterpart. -/
theorem pretty_text_layout_tokens (cfg : Cfg) (hm : cfg.mini = false) (hi : IndentWS cfg)
    (n : Str) (st : AStore) (sc : Bool) (kids : List FNode)
    (hs : (FNode.elem n st sc kids).Strict) (hnw : (FNode.elem n st sc kids).NoWrapper)
    (toks : List Tok) (hnws : NoWrapperStart toks) (ps : St)
    (hp : Plain.feed toks = .ok ps) (hroot : ps.root = some (FNode.elem n st sc kids).toNode)
    (hdt : DtOK ps.doctype) :
    ∃ out toks2, format cfg toks = .ok out ∧ lexStrict out = some toks2 ∧ tagStack [] toks2 = [] ∧
      ∀ pre t post, toks2 = pre ++ t :: post →
        out = renderToksY (styleOf cfg.kind) pre ++ renderTokY (styleOf cfg.kind) t
                ++ renderToksY (styleOf cfg.kind) post
        ∧ (∀ m a, t = .start m a ∨ t = .startend m a → noPre (tagStack [] pre) = true →
            ∃ x, renderToksY (styleOf cfg.kind) pre = x ++ '\n' :: rep (tagStack [] pre).length cfg.indent)
        ∧ (∀ m, t = .end_ m → (tagStack [] pre).head? = some m ∧
            (isPre m = false → noPre (tagStack [] pre).tail = true →
              ∃ x, renderToksY (styleOf cfg.kind) pre = x ++ '\n' :: rep ((tagStack [] pre).length - 1) cfg.indent)) := by
  obtain ⟨out, toks2, h1, h2, h3, h4⟩ :=
    pretty_layout_core_open cfg hm hi ps.doctype hdt n st sc kids hs hnw toks hnws ps hp hroot rfl
  exact ⟨out, toks2, h1, h2, scan_balanced _ _ _ _ _ h4, scan_positions cfg out toks2 h3 h4⟩

/-- `pretty_text_layout_tokens` for the token sequence of a strict single-root document (what `lexStrict` returns on
    any serialisation of it, C01): the output of the first pretty pass obeys the layout law. -/
theorem pretty_text_layout (cfg : Cfg) (hm : cfg.mini = false) (hi : IndentWS cfg) (dt : Option Str)
    (hdt : DtOK dt) (n : Str) (st : AStore) (sc : Bool) (kids : List FNode)
    (hs : (FNode.elem n st sc kids).Strict) (hnw : (FNode.elem n st sc kids).NoWrapper) :
    ∃ out toks2, format cfg (strictToks dt (.elem n st sc kids)) = .ok out ∧ lexStrict out = some toks2 ∧
      tagStack [] toks2 = [] ∧
      ∀ pre t post, toks2 = pre ++ t :: post →
        out = renderToksY (styleOf cfg.kind) pre ++ renderTokY (styleOf cfg.kind) t
                ++ renderToksY (styleOf cfg.kind) post
        ∧ (∀ m a, t = .start m a ∨ t = .startend m a → noPre (tagStack [] pre) = true →
            ∃ x, renderToksY (styleOf cfg.kind) pre = x ++ '\n' :: rep (tagStack [] pre).length cfg.indent)
        ∧ (∀ m, t = .end_ m → (tagStack [] pre).head? = some m ∧
            (isPre m = false → noPre (tagStack [] pre).tail = true →
              ∃ x, renderToksY (styleOf cfg.kind) pre = x ++ '\n' :: rep ((tagStack [] pre).length - 1) cfg.indent)) :=
  pretty_text_layout_tokens cfg hm hi n st sc kids hs hnw _ (noWrapperStart_strictToks dt _ hs hnw) _
    (plain_feed_strictToks dt hdt n st sc kids hs) rfl hdt

/-- … and so does the output of the second pass (the formatter fed the tokens the lexer reads from pass 1's output) —
    hence, with `pretty_text_stable`, of every later pass. -/
theorem pretty_text_layout_second_pass (cfg : Cfg) (hm : cfg.mini = false) (hi : IndentWS cfg) (dt : Option Str)
    (hdt : DtOK dt) (n : Str) (st : AStore) (sc : Bool) (kids : List FNode)
    (hs : (FNode.elem n st sc kids).Strict) (hnw : (FNode.elem n st sc kids).NoWrapper) :
    ∃ out1 toks2 out2 toks3, format cfg (strictToks dt (.elem n st sc kids)) = .ok out1 ∧ lexStrict out1 = some toks2 ∧
      format cfg (toks2.map Tok.ofToken) = .ok out2 ∧ lexStrict out2 = some toks3 ∧ tagStack [] toks3 = [] ∧
      ∀ pre t post, toks3 = pre ++ t :: post →
        out2 = renderToksY (styleOf cfg.kind) pre ++ renderTokY (styleOf cfg.kind) t
                ++ renderToksY (styleOf cfg.kind) post
        ∧ (∀ m a, t = .start m a ∨ t = .startend m a → noPre (tagStack [] pre) = true →
            ∃ x, renderToksY (styleOf cfg.kind) pre = x ++ '\n' :: rep (tagStack [] pre).length cfg.indent)
        ∧ (∀ m, t = .end_ m → (tagStack [] pre).head? = some m ∧
            (isPre m = false → noPre (tagStack [] pre).tail = true →
              ∃ x, renderToksY (styleOf cfg.kind) pre = x ++ '\n' :: rep ((tagStack [] pre).length - 1) cfg.indent)) := by
  obtain ⟨f1, l1, w1, p1, s1, n1⟩ := pass_step cfg hi dt hdt n st sc kids hs hnw _
    (noWrapperStart_strictToks dt _ hs hnw) (plain_feed_strictToks dt hdt n st sc kids hs)
  obtain ⟨out2, toks3, g1, g2, g3, g4⟩ := pretty_text_layout_tokens cfg hm hi n st sc _ s1 n1 _ w1 _ p1 rfl hdt
  exact ⟨_, _, out2, toks3, f1, l1, g1, g2, g3, g4⟩

/-! #### the text-level statements for MULTI-ROOT documents (the invisible wrapper) -/

/-- **C12d on text, multi-root: pretty³ = pretty².**  As `pretty_text_stable`, for a strict multi-root document: `kids`
    are the top-level blocks (text, references, comments, elements — `topScan false kids = none` says a first parser pass
    rejects them, so the parser wraps them in the invisible root), `strictToksM dt kids` their tokens after the doctype
    declaration.  `getHTML` prints the doctype line, a line break and the blocks; on re-parsing that line break is text
    of the wrapper, and the next pass strips it again (`squeeze_dtText`) — which is why the proof goes through. -/
theorem pretty_text_stable_multi (cfg : Cfg) (hm : cfg.mini = false) (hi : IndentWS cfg) (dt : Option Str)
    (hdt : DtOK dt) (kids : List FNode) (hs : StrictL kids) (hnw : NoWrapperL kids)
    (hmulti : topScan false kids = none) :
    ∃ out1 toks2 out2 toks3 out3,
      format cfg (strictToksM dt kids) = .ok out1 ∧ lexStrict out1 = some toks2 ∧
      format cfg (toks2.map Tok.ofToken) = .ok out2 ∧ lexStrict out2 = some toks3 ∧
      format cfg (toks3.map Tok.ofToken) = .ok out3 ∧ out3 = out2 := by
  obtain ⟨out1, toks2, out2, toks3, h1, h2, h3, h4, h5⟩ :=
    pretty_text_stable_multi_core cfg hm hi dt hdt kids hs hnw hmulti
  exact ⟨out1, toks2, out2, toks3, out2, h1, h2, h3, h4, h5, rfl⟩

/-- **pretty³ = pretty² from any token sequence** (review M4: `pretty_text_stable` starts from the tokens of the tree): pass
    1 may be fed ANY token sequence whose plain-parser tree is a strict single-root document (implicit closes, elements
    left open at the end of the input), or (`…_multi`) a strict multi-root document. -/
theorem pretty_text_stable_tokens (cfg : Cfg) (hm : cfg.mini = false) (hi : IndentWS cfg)
    (n : Str) (st : AStore) (sc : Bool) (kids : List FNode)
    (hs : (FNode.elem n st sc kids).Strict) (hnw : (FNode.elem n st sc kids).NoWrapper)
    (toks : List Tok) (hnws : NoWrapperStart toks) (ps : St) (hp : Plain.feed toks = .ok ps)
    (hroot : ps.root = some (FNode.elem n st sc kids).toNode) (hdt : DtOK ps.doctype) :
    ∃ out1 toks2 out2 toks3 out3, format cfg toks = .ok out1 ∧ lexStrict out1 = some toks2 ∧
      format cfg (toks2.map Tok.ofToken) = .ok out2 ∧ lexStrict out2 = some toks3 ∧
      format cfg (toks3.map Tok.ofToken) = .ok out3 ∧ out3 = out2 := by
  obtain ⟨out1, toks2, out2, toks3, h1, h2, h3, h4, h5⟩ :=
    pretty_text_stable_core_open cfg hm hi n st sc kids hs hnw toks hnws ps hp hroot hdt
  exact ⟨out1, toks2, out2, toks3, out2, h1, h2, h3, h4, h5, rfl⟩

theorem pretty_text_stable_tokens_multi (cfg : Cfg) (hm : cfg.mini = false) (hi : IndentWS cfg)
    (kids : List FNode) (hs : StrictL kids) (hnw : NoWrapperL kids) (hmulti : topScan false kids = none)
    (toks : List Tok) (hnws : NoWrapperStart toks) (ps : St) (hp : Plain.feed toks = .ok ps)
    (hroot : ps.root = some (FNode.elem wrapper {} false kids).toNode) (hdt : DtOK ps.doctype) :
    ∃ out1 toks2 out2 toks3 out3, format cfg toks = .ok out1 ∧ lexStrict out1 = some toks2 ∧
      format cfg (toks2.map Tok.ofToken) = .ok out2 ∧ lexStrict out2 = some toks3 ∧
      format cfg (toks3.map Tok.ofToken) = .ok out3 ∧ out3 = out2 := by
  obtain ⟨out1, toks2, out2, toks3, h1, h2, h3, h4, h5⟩ :=
    pretty_text_stable_multi_core_open cfg hm hi kids hs hnw hmulti toks hnws ps hp hroot hdt
  exact ⟨out1, toks2, out2, toks3, out2, h1, h2, h3, h4, h5, rfl⟩

/-- **C12a on the output text, multi-root.**  As `pretty_text_layout_tokens`, for any token sequence whose plain-parser
    tree is the invisible wrapper around the strict top-level blocks `kids`: the output lexes, the tags are balanced, and
    at every position the layout law holds with depth recomputed from the tokens alone — top-level elements at depth 0
    (preceded by a line break and nothing else), the wrapper does not count. -/
theorem pretty_text_layout_multi (cfg : Cfg) (hm : cfg.mini = false) (hi : IndentWS cfg)
    (kids : List FNode) (hs : StrictL kids) (hnw : NoWrapperL kids) (hmulti : topScan false kids = none)
    (toks : List Tok) (hnws : NoWrapperStart toks) (ps : St)
    (hp : Plain.feed toks = .ok ps) (hroot : ps.root = some (FNode.elem wrapper {} false kids).toNode)
    (hdt : DtOK ps.doctype) :
    ∃ out toks2, format cfg toks = .ok out ∧ lexStrict out = some toks2 ∧ tagStack [] toks2 = [] ∧
      ∀ pre t post, toks2 = pre ++ t :: post →
        out = renderToksY (styleOf cfg.kind) pre ++ renderTokY (styleOf cfg.kind) t
                ++ renderToksY (styleOf cfg.kind) post
        ∧ (∀ m a, t = .start m a ∨ t = .startend m a → noPre (tagStack [] pre) = true →
            ∃ x, renderToksY (styleOf cfg.kind) pre = x ++ '\n' :: rep (tagStack [] pre).length cfg.indent)
        ∧ (∀ m, t = .end_ m → (tagStack [] pre).head? = some m ∧
            (isPre m = false → noPre (tagStack [] pre).tail = true →
              ∃ x, renderToksY (styleOf cfg.kind) pre = x ++ '\n' :: rep ((tagStack [] pre).length - 1) cfg.indent)) := by
  obtain ⟨out, toks2, h1, h2, h3, h4⟩ :=
    pretty_layout_core_multi cfg hm hi ps.doctype hdt kids hs hnw hmulti toks hnws ps hp hroot rfl
  exact ⟨out, toks2, h1, h2, scan_balanced _ _ _ _ _ h4, scan_positions cfg out toks2 h3 h4⟩

/-- … and so does the output of the second pass (hence, with `pretty_text_stable_multi`, of every later pass) -/
theorem pretty_text_layout_multi_second_pass (cfg : Cfg) (hm : cfg.mini = false) (hi : IndentWS cfg) (dt : Option Str)
    (hdt : DtOK dt) (kids : List FNode) (hs : StrictL kids) (hnw : NoWrapperL kids)
    (hmulti : topScan false kids = none) :
    ∃ out1 toks2 out2 toks3, format cfg (strictToksM dt kids) = .ok out1 ∧ lexStrict out1 = some toks2 ∧
      format cfg (toks2.map Tok.ofToken) = .ok out2 ∧ lexStrict out2 = some toks3 ∧ tagStack [] toks3 = [] ∧
      ∀ pre t post, toks3 = pre ++ t :: post →
        out2 = renderToksY (styleOf cfg.kind) pre ++ renderTokY (styleOf cfg.kind) t
                ++ renderToksY (styleOf cfg.kind) post
        ∧ (∀ m a, t = .start m a ∨ t = .startend m a → noPre (tagStack [] pre) = true →
            ∃ x, renderToksY (styleOf cfg.kind) pre = x ++ '\n' :: rep (tagStack [] pre).length cfg.indent)
        ∧ (∀ m, t = .end_ m → (tagStack [] pre).head? = some m ∧
            (isPre m = false → noPre (tagStack [] pre).tail = true →
              ∃ x, renderToksY (styleOf cfg.kind) pre = x ++ '\n' :: rep ((tagStack [] pre).length - 1) cfg.indent)) := by
  obtain ⟨f1, l1, w1, p1, s1, n1, m1⟩ := pass_step_multi cfg hi dt hdt kids hs hnw hmulti _
    (noWrapperStart_toksM dt kids hs hnw) _ (plain_feed_strictToksM dt hdt kids hs hmulti) rfl rfl
  obtain ⟨out2, toks3, g1, g2, g3, g4⟩ := pretty_text_layout_multi cfg hm hi _ s1 n1 m1 _ w1 _ p1 rfl hdt
  exact ⟨_, _, out2, toks3, f1, l1, g1, g2, g3, g4⟩

/-- **mini² = mini on text, multi-root** (mini classes, strict multi-root document without adjacent data blocks) -/
theorem mini_output_fixed_point_text_multi (cfg : Cfg) (hm : cfg.mini = true) (hi : IndentWS cfg) (dt : Option Str)
    (hdt : DtOK dt) (kids : List FNode) (hs : StrictL kids) (hg : GluedL kids) (ha : FNoAdjL kids)
    (hnw : NoWrapperL kids) (hmulti : topScan false kids = none) :
    ∃ out toks2, format cfg (strictToksM dt kids) = .ok out ∧ lexStrict out = some toks2 ∧
      format cfg (toks2.map Tok.ofToken) = .ok out :=
  mini_text_fixed_point_multi cfg hm hi dt hdt kids hs hg ha hnw hmulti

/-- **The hypothesis `NoWrapper` is needed for the layout law** (the property excludes the reserved name): in the strict
    document `<div><xxxblank><p></p></xxxblank></div>` the element carrying the wrapper's name does not count as a level,
    so `<p >` — two elements open — is written after one unit instead of two. -/
theorem layout_needs_no_reserved_name :
    okIs (format (mkCfg .pretty (.str (str "  ")) false)
      (strictToks none (.elem (str "div") {} false [.elem (str "xxxblank") {} false [.elem (str "p") {} false []]])))
      "\n<div >\n  <xxxblank >\n  <p >\n  </p>\n  </xxxblank>\n</div>" = true
    ∧ (FNode.elem (str "div") {} false [.elem (str "xxxblank") {} false [.elem (str "p") {} false []]]).Strict := by
  refine ⟨by decide, ?_⟩
  simp only [FNode.Strict, StrictL]
  decide

/-- "ends with a line break and `d` copies of the unit", read as a statement about the line the tag is on: when the unit
    has no line break (`IndentWS`), the text between the last line break of `before` and the tag is exactly `d` copies
    of the unit, and there is such a line break. -/
theorem layout_reads_as_line (cfg : Cfg) (hi : IndentWS cfg) (d : Nat) (before x : Str)
    (h : before = x ++ '\n' :: rep d cfg.indent) : lastLine before = rep d cfg.indent ∧ '\n' ∈ before := by
  apply lastLine_indText cfg.indent _ d before ⟨x, h.symm⟩
  intro c hc
  rcases hi c hc with rfl | rfl <;> decide

/-!
  #### What is partial

  * The text-level theorems (`mini_output_fixed_point_text`, `pretty_text_stable`, `pretty_text_layout…`, and their
    `…_multi` counterparts for multi-root documents) are stated for the strict sub-language the lexer bridge of C11
    covers: documents whose plain-parser tree is `FNode.Strict` (well-formed names and attribute items, text blocks that
    are data runs / references / comments other than the singletons `<` `&`, raw-text content free of its closing
    expression, attribute stores re-read unchanged), doctype absent or a `doctype …` declaration, reserved name absent,
    indent unit of spaces/tabs.  The layout statements `pretty_text_layout_tokens` / `pretty_text_layout_multi` take ANY
    token sequence whose tree is of that kind — implicit closes and elements left open at the end of the input included;
    the three-pass statements start from the tokens of the tree (`strictToks`, `strictToksM`).  Token sequences whose
    tree is not strict (data singletons, ill-formed names, …) are covered by the tree-level statements above
    (`indentation_law`, `reformat_tree_fixed_point`) and by the tie: passes 1–3 of every case run through model and
    library, the oracles check the layout on passes 1 and 2, `pass 3 = pass 2` and `mini² = mini` on the real code.
  * `mini² = mini` needs `Glued` (no two adjacent data blocks) — without it: the known finding below.
-/

/-- Known finding `C12-mini-dropped-markup`, the instance: two data pieces that are adjacent in the *output* because the
    markup between them was dropped (stray end tag, PI) are squeezed separately; together they are not a fixed point.
    (`'<div> </zzz> b</div>'` → `<div >  b</div>` → `<div > b</div>`: the blank first piece becomes the leading white
    space of the merged piece.) -/
theorem mini_dropped_markup_counterexample :
    squeeze (squeeze (str " ") ++ squeeze (str " b")) ≠ squeeze (str " ") ++ squeeze (str " b") := by decide

/-- Why the hypothesis `NoWrapperStart`: an element that carries the reserved wrapper name in the *input* is not counted
    when opened but is counted when closed implicitly, so what follows is indented one level too little (`<u>` below
    `<div>` at column 0).  The property excludes the reserved name (DESIGN §8 #21). -/
theorem reserved_name_breaks_the_law :
    okIs (format (mkCfg .pretty (.str (str "  ")) false)
      [.start (str "div") [], .start (str "b") [], .start (str "xxxblank") [], .end_ (str "b"), .start (str "u") []])
      "\n<div >\n  <b >\n    <xxxblank >\n    </xxxblank>\n  </b>\n<u >\n</u>\n</div>" = true := by decide +kernel

/-! #### non-vacuity -/

def sampleToks : List Tok :=
  [.start (str "ul") [], .start (str "li") [], .data (str "a"), .start (str "li") [], .data (str "b\n"),
   .startend (str "pre") [], .start (str "br") [], .end_ (str "ul"), .data (str "\n")]

example : NoWrapperStart sampleToks := by decide
/-- implicit closes (`li`, `li`) are dedented, the self-closed `pre` does not switch indentation off -/
example : okIs (format (mkCfg .pretty (.str (str "  ")) false) sampleToks)
    "\n<ul >\n  <li >a\n    <li >b\n      <pre />\n      <br />\n    </li>\n  </li>\n</ul>" = true := by decide +kernel
example : okIs (format (mkCfg .slim (.str (str "  ")) true) sampleToks)
    "\n<ul>\n  <li>a\n    <li>b\n      <pre/>\n      <br/>\n    </li>\n  </li>\n</ul>" = true := by decide +kernel
example : okIs (format (mkCfg .mini .dflt false) sampleToks) "<ul ><li >a<li >b<pre /><br /></li></li></ul>" = true := by decide +kernel

/-! #### non-vacuity of the text-level theorems -/

/-- a document with two *adjacent* data blocks (not `Glued`), nested elements, a void element, a `pre` with a nested
    element, a reference and a `script` -/
def stableTree : FNode :=
  .elem (str "div") {} false
    [.tok (.data (str "a")), .tok (.data (str " b\n")),
     .elem (str "p") {} false [.tok (.data (str "x")), .elem (str "br") {} true []],
     .elem (str "pre") {} false [.elem (str "span") {} false [.tok (.data (str "  y  "))]],
     .tok (.entity (str "amp")),
     .elem (str "script") {} false [.tok (.data (str "if (a < b) { s = 1; }"))]]

set_option synthInstance.maxSize 1024 in
theorem stableTree_strict : stableTree.Strict := by simp only [stableTree, FNode.Strict, StrictL]; decide
theorem stableTree_noWrapper : stableTree.NoWrapper := by
  simp only [stableTree, FNode.NoWrapper, NoWrapperL]; decide
example : ¬ stableTree.Glued := by simp only [stableTree, FNode.Glued, GluedL, FNoAdjL, fisDataTok]; decide

/-- `pretty_text_stable` applies to it (slim class, tab indent, with a doctype) … -/
example : ∃ out1 toks2 out2 toks3 out3,
    format (mkCfg .slim (.str (str "\t")) true) (strictToks (some (str "DOCTYPE html")) stableTree) = .ok out1 ∧
    lexStrict out1 = some toks2 ∧ format (mkCfg .slim (.str (str "\t")) true) (toks2.map Tok.ofToken) = .ok out2 ∧
    lexStrict out2 = some toks3 ∧ format (mkCfg .slim (.str (str "\t")) true) (toks3.map Tok.ofToken) = .ok out3 ∧
    out3 = out2 :=
  pretty_text_stable (mkCfg .slim (.str (str "\t")) true) rfl (by decide) _ (by decide) _ _ _ _
    stableTree_strict stableTree_noWrapper

/-- … and so does `pretty_text_layout` (pretty class, default indent) -/
example : ∃ out toks2, format (mkCfg .pretty .dflt false) (strictToks none stableTree) = .ok out ∧
    lexStrict out = some toks2 ∧ tagStack [] toks2 = [] :=
  let ⟨out, toks2, h1, h2, h3, _⟩ := pretty_text_layout (mkCfg .pretty .dflt false) rfl (by decide) none trivial
    _ _ _ _ stableTree_strict stableTree_noWrapper
  ⟨out, toks2, h1, h2, h3⟩

/-- a token sequence with an implicit close (`<li>` closed by `</ul>`) that **ends with two elements still open** -/
def openTailToks : List Tok :=
  [.start (str "div") [], .start (str "ul") [], .start (str "li") [], .data (str "a"), .end_ (str "ul"),
   .start (str "p") [], .data (str "b")]

def openTailTree : FNode :=
  .elem (str "div") {} false
    [.elem (str "ul") {} false [.elem (str "li") {} false [.tok (.data (str "a"))]],
     .elem (str "p") {} false [.tok (.data (str "b"))]]

/-- `pretty_text_layout_tokens` applies to it: the final stack is not empty (`p`, `div` open) -/
example : ∃ ps, Plain.feed openTailToks = .ok ps ∧ ps.stack.length = 2 ∧ ps.root = some openTailTree.toNode := by
  refine ⟨_, rfl, ?_, ?_⟩
  · decide
  · rfl
example : ∃ out toks2, format (mkCfg .pretty .dflt false) openTailToks = .ok out ∧ lexStrict out = some toks2 ∧
    tagStack [] toks2 = [] :=
  let ⟨out, toks2, h1, h2, h3, _⟩ := pretty_text_layout_tokens (mkCfg .pretty .dflt false) rfl (by decide)
    _ _ _ _ (by simp only [FNode.Strict, StrictL]; decide)
    (by simp only [FNode.NoWrapper, NoWrapperL]; decide) openTailToks (by decide) _ rfl
    (show _ = some openTailTree.toNode from rfl) trivial
  ⟨out, toks2, h1, h2, h3⟩
example : okIs (format (mkCfg .pretty .dflt false) openTailToks)
    "\n<div >\n  <ul >\n    <li >a\n    </li>\n  </ul>\n  <p >b\n  </p>\n</div>" = true := by decide
/-- a multi-root document: text, two elements (one nested), a reference, a void element, trailing line break -/
def multiKids : List FNode :=
  [.tok (.data (str "a ")), .elem (str "b") {} false [.tok (.data (str "x")), .elem (str "i") {} false []],
   .tok (.entity (str "amp")), .elem (str "br") {} true [], .elem (str "p") {} false [.tok (.data (str "y\n"))],
   .tok (.data (str "\n"))]

theorem multiKids_strict : StrictL multiKids := by simp only [multiKids, FNode.Strict, StrictL]; decide
theorem multiKids_noWrapper : NoWrapperL multiKids := by simp only [multiKids, FNode.NoWrapper, NoWrapperL]; decide
theorem multiKids_multi : topScan false multiKids = none := by decide

/-- `pretty_text_stable_multi` applies to it (with a doctype, tab indent) … -/
example : ∃ out1 toks2 out2 toks3 out3,
    format (mkCfg .pretty (.str (str "\t")) false) (strictToksM (some (str "doctype html")) multiKids) = .ok out1 ∧
    lexStrict out1 = some toks2 ∧ format (mkCfg .pretty (.str (str "\t")) false) (toks2.map Tok.ofToken) = .ok out2 ∧
    lexStrict out2 = some toks3 ∧ format (mkCfg .pretty (.str (str "\t")) false) (toks3.map Tok.ofToken) = .ok out3 ∧
    out3 = out2 :=
  pretty_text_stable_multi _ rfl (by decide) _ (by decide) _ multiKids_strict multiKids_noWrapper multiKids_multi

/-- … and so does the layout law (slim class) -/
example : ∃ out1 toks2 out2 toks3, format (mkCfg .slim .dflt true) (strictToksM none multiKids) = .ok out1 ∧
    lexStrict out1 = some toks2 ∧ format (mkCfg .slim .dflt true) (toks2.map Tok.ofToken) = .ok out2 ∧
    lexStrict out2 = some toks3 ∧ tagStack [] toks3 = [] :=
  let ⟨o1, t2, o2, t3, h1, h2, h3, h4, h5, _⟩ := pretty_text_layout_multi_second_pass (mkCfg .slim .dflt true) rfl
    (by decide) none trivial _ multiKids_strict multiKids_noWrapper multiKids_multi
  ⟨o1, t2, o2, t3, h1, h2, h3, h4, h5⟩

/-- the texts: pass 1 and pass 2 (= pass 3) of the multi-root document -/
example : okIs (format (mkCfg .pretty (.str (str "\t")) false) (strictToksM (some (str "doctype html")) multiKids))
    "<!doctype html>\na \n<b >x\n\t<i >\n\t</i>\n</b>&amp;\n<br />\n<p >y\n</p>" = true := by decide +kernel
/-- `mini_output_fixed_point_text_multi` applies to it -/
example : ∃ out toks2, format (mkCfg .mini .dflt false) (strictToksM (some (str "doctype html")) multiKids) = .ok out ∧
    lexStrict out = some toks2 ∧ format (mkCfg .mini .dflt false) (toks2.map Tok.ofToken) = .ok out :=
  mini_output_fixed_point_text_multi _ rfl (by decide) _ (by decide) _ multiKids_strict
    (by simp only [multiKids, FNode.Glued, GluedL, FNoAdjL, fisDataTok]; decide)
    (by simp only [multiKids, FNoAdjL, fisDataTok]; decide) multiKids_noWrapper multiKids_multi

/-- `mini_output_text_runs` applies to `stableTree` (adjacent data blocks `a`, ` b\n`; a `pre`; a `script`), slim-mini
    class, with a doctype -/
example : ∃ out body, format (mkCfg .slimMini .dflt true) (strictToks (some (str "DOCTYPE html")) stableTree) = .ok out ∧
    lexStrict out = some (dtToks (some (str "DOCTYPE html")) ++ glueDt (str "\n") body) ∧
    (∀ p ∈ textRuns body, miniCare p.1 = true → GoodText p.2) :=
  let ⟨out, body, h1, h2, _, h4⟩ := mini_output_text_runs (mkCfg .slimMini .dflt true) rfl (by decide) _
    (noWrapperStart_strictToks _ _ stableTree_strict stableTree_noWrapper) _
    (plain_feed_strictToks (some (str "DOCTYPE html")) (by decide) _ _ _ _ stableTree_strict) _ _ _ _ rfl (by decide)
    stableTree_strict (by decide)
  ⟨out, body, h1, h2, h4⟩

/-- the text and its runs: `a` and ` b\n` were squeezed separately and touch; the run inside `pre` keeps its blanks and
    the `script` content its text (`miniCare` false there) -/
example : okIs (format (mkCfg .mini .dflt false) (strictToks (some (str "DOCTYPE html")) stableTree))
    "<!DOCTYPE html>\n<div >a b<p >x<br /></p><pre ><span >  y  </span></pre>&amp;<script >if (a < b) { s = 1; }</script></div>"
    = true := by decide +kernel
example : (textRuns [Token.start (str "div") [], .data (str "a b"), .start (str "p") [], .data (str "x"),
      .startend (str "br") [], .end_ (str "p"), .start (str "pre") [], .start (str "span") [], .data (str "  y  "),
      .end_ (str "span"), .end_ (str "pre"), .entity (str "amp"), .start (str "script") [],
      .data (str "if (a < b) { s = 1; }"), .end_ (str "script"), .end_ (str "div")]).map (fun p => (miniCare p.1, p.2))
    = [(true, str "a b"), (true, str "x"), (false, str "  y  "), (true, str "&amp;"),
       (false, str "if (a < b) { s = 1; }")] := by decide +kernel

/-- `mini_output_text_runs` on the multi-root document -/
example : ∃ out body, format (mkCfg .mini .dflt false) (strictToksM (some (str "doctype html")) multiKids) = .ok out ∧
    lexStrict out = some (dtToks (some (str "doctype html")) ++ glueDt (str "\n") body) ∧
    (∀ p ∈ textRuns body, miniCare p.1 = true → GoodText p.2) :=
  let ⟨out, body, h1, h2, _, h4⟩ := mini_output_text_runs (mkCfg .mini .dflt false) rfl (by decide) _
    (noWrapperStart_toksM _ _ multiKids_strict multiKids_noWrapper) _
    (plain_feed_strictToksM (some (str "doctype html")) (by decide) _ multiKids_strict multiKids_multi) _ _ _ _ rfl
    (by decide) (strict_wrapperElem _ multiKids_strict) (by decide)
  ⟨out, body, h1, h2, h4⟩

/-- `pretty_text_stable_tokens` applies to `openTailToks` (implicit close, two elements left open) -/
example : ∃ out1 toks2 out2 toks3 out3, format (mkCfg .pretty .dflt false) openTailToks = .ok out1 ∧
    lexStrict out1 = some toks2 ∧ format (mkCfg .pretty .dflt false) (toks2.map Tok.ofToken) = .ok out2 ∧
    lexStrict out2 = some toks3 ∧ format (mkCfg .pretty .dflt false) (toks3.map Tok.ofToken) = .ok out3 ∧ out3 = out2 :=
  pretty_text_stable_tokens (mkCfg .pretty .dflt false) rfl (by decide)
    _ _ _ _ (by simp only [FNode.Strict, StrictL]; decide)
    (by simp only [FNode.NoWrapper, NoWrapperL]; decide) openTailToks (by decide) _ rfl
    (show _ = some openTailTree.toNode from rfl) trivial
/-- a multi-root token sequence with an implicit close and an unclosed element: `a<ul><li>x</ul><p>y` -/
def multiOpenToks : List Tok :=
  [.data (str "a"), .start (str "ul") [], .start (str "li") [], .data (str "x"), .end_ (str "ul"), .start (str "p") [],
   .data (str "y")]
def multiOpenKids : List FNode :=
  [.tok (.data (str "a")), .elem (str "ul") {} false [.elem (str "li") {} false [.tok (.data (str "x"))]],
   .elem (str "p") {} false [.tok (.data (str "y"))]]
example : ∃ out1 toks2 out2 toks3 out3, format (mkCfg .pretty .dflt false) multiOpenToks = .ok out1 ∧
    lexStrict out1 = some toks2 ∧ format (mkCfg .pretty .dflt false) (toks2.map Tok.ofToken) = .ok out2 ∧
    lexStrict out2 = some toks3 ∧ format (mkCfg .pretty .dflt false) (toks3.map Tok.ofToken) = .ok out3 ∧ out3 = out2 :=
  pretty_text_stable_tokens_multi (mkCfg .pretty .dflt false) rfl (by decide) multiOpenKids
    (by simp only [multiOpenKids, FNode.Strict, StrictL]; decide)
    (by simp only [multiOpenKids, FNode.NoWrapper, NoWrapperL]; decide) (by decide) multiOpenToks (by decide) _ rfl
    (show _ = some (FNode.elem wrapper {} false multiOpenKids).toNode from rfl) trivial
example : okIs (format (mkCfg .pretty .dflt false) multiOpenToks)
    "a\n<ul >\n  <li >x\n  </li>\n</ul>\n<p >y\n</p>" = true := by decide +kernel

/-- the texts in question: pass 1, and pass 2 = pass 3 (what the model's formatter and lexer compute) -/
example : okIs (format (mkCfg .pretty .dflt false) (strictToks (some (str "DOCTYPE html")) stableTree))
    ("<!DOCTYPE html>\n\n<div >a b\n  <p >x\n    <br />\n  </p>\n  <pre ><span >  y  </span></pre>&amp;\n" ++
     "  <script >if (a < b) { s = 1; }\n  </script>\n</div>") = true := by decide +kernel

/-- the law at one position of that text: the tokens before `<br />` leave `div`, `p` open (depth 2), and the text
    before it ends with a line break and 2 × 2 spaces -/
example : tagStack [] [Token.decl (str "DOCTYPE html"), .data (str "\n\n"), .start (str "div") [],
      .data (str "a b\n  "), .start (str "p") [], .data (str "x\n    ")] = [str "p", str "div"]
    ∧ renderToksY TagStyle.normal [Token.decl (str "DOCTYPE html"), .data (str "\n\n"), .start (str "div") [],
        .data (str "a b\n  "), .start (str "p") [], .data (str "x\n    ")]
      = str "<!DOCTYPE html>\n\n<div >a b\n  <p >x" ++ '\n' :: rep 2 (str "  ") := by decide

end AHP.C12
