/- C12 — property theorems (stub: the property is not claimed yet). -/
namespace AHP.C12
end AHP.C12
