/-
  C12 — Formatter layout guarantees: indentation, minification, slim tags, stability.

  Property theorems only (model: AHP/Model/Format.lean; lemmas: AHP/Lemmas/Format.lean, Squeeze.lean).
  Quantification as in C11: every token sequence, every configuration; hypothesis: no element is named like the
  invisible wrapper.
-/
import AHP.Lemmas.Format
namespace AHP.C12
open AHP AHP.Fmt

/-! #### C12a — indentation -/

/-- **C12a (tree level).**  In the tree the formatter serialises, every element outside pre/code carries
    `_indent = "\n" ++ indent^depth`, `depth` being its number of proper ancestors other than the invisible wrapper
    *recomputed from the finished tree* (`LayoutOK`), every element below pre/code carries none, and the mini classes
    give none at all — whatever pushes, explicit pops and implicit pops the token sequence caused. -/
theorem indentation_law (cfg : Cfg) (toks : List Tok) (h : NoWrapperStart toks) (s : St) (r : Node)
    (hs : feed cfg toks = .ok s) (hr : s.root = some r) : LayoutOK cfg 0 false r := by
  rw [feed_dec cfg toks h] at hs
  cases hp : Plain.feed toks with
  | error e => simp [hp, mapOk] at hs
  | ok ps =>
    simp only [hp, mapOk, Except.ok.injEq] at hs
    rw [← hs, root_dec] at hr
    cases hpr : ps.root with
    | none => simp [hpr] at hr
    | some r0 =>
      simp only [hpr, Option.map_some, Option.some.injEq] at hr
      rw [← hr]
      exact layout_decorate cfg ⟨0, 0⟩ [] r0

/-- the counters the formatter is left with are those of the elements still open: `currentIndentLevel` = number
    of open elements other than the wrapper, `inPreformatted` = number of open pre/code elements -/
theorem counters_are_stack_functions (cfg : Cfg) (toks : List Tok) (h : NoWrapperStart toks) (s : St)
    (hs : feed cfg toks = .ok s) :
    ∃ ps, Plain.feed toks = .ok ps ∧ s.level = ((ctxOf ps.stack).level : Int) ∧ s.inPre = ((ctxOf ps.stack).inPre : Int)
      ∧ s.stack.length = ps.stack.length := by
  rw [feed_dec cfg toks h] at hs
  cases hp : Plain.feed toks with
  | error e => simp [hp, mapOk] at hs
  | ok ps =>
    simp only [hp, mapOk, Except.ok.injEq] at hs
    exact ⟨ps, rfl, by rw [← hs]; rfl, by rw [← hs]; rfl, by rw [← hs]; simp [decSt]⟩

/-- In the output text the `_indent` is what precedes the start tag … -/
theorem start_tag_after_indent (k : Kind) (n : Str) (st : AStore) (sc : Bool) (ind : Str) :
    ∃ rest, startTag k n st sc ind = ind ++ rest ∧ rest.head? = some '<' := startTag_prefix k n st sc ind

/-- … and the end tag of an element that is not self-closing, unless the element is pre/code or is script/style whose
    content already ends with exactly that line break and indentation. -/
theorem end_tag_after_indent (n ind : Str) (kids : List Node) (hpre : isPre n = false)
    (hraw : isPreserve n = true → lastTextEndsWith ind kids = false) :
    endTag n false ind kids = ind ++ str "</" ++ n ++ str ">" := by
  rcases endTag_cases n ind kids with h | ⟨_, h | h⟩
  · exact h
  · rw [hpre] at h; cases h
  · rw [hraw h.1] at h; cases h.2

/-- C12a read off the output text: the start tag of an element that obeys the law outside pre/code, pretty classes, is
    written as a line break, exactly `depth` copies of the indent unit, then `<` — the tag is the first thing on its line
    (when the unit itself contains no line break). -/
theorem start_tag_text_pretty (cfg : Cfg) (hm : cfg.mini = false) (depth : Nat) (k : Kind) (n : Str) (st : AStore)
    (sc : Bool) (ind : Str) (kids : List Node) (h : LayoutOK cfg depth false (.elem k n st sc ind kids)) :
    ∃ rest, startTag k n st sc ind = '\n' :: rep depth cfg.indent ++ '<' :: rest := by
  have hind : ind = '\n' :: rep depth cfg.indent := by
    have := h.1
    simpa [hm] using this
  obtain ⟨rest, h1, h2⟩ := startTag_prefix k n st sc ind
  cases rest with
  | nil => simp at h2
  | cons c r =>
    simp only [List.head?_cons, Option.some.injEq] at h2
    subst h2
    exact ⟨r, by rw [h1, hind]⟩

/-! #### C12c — slim output = normal output without the space before `>` -/

/-- C12c on one start tag -/
theorem slim_start_tag (ssc : Bool) (n : Str) (st : AStore) (sc : Bool) (ind : Str) :
    startTag .normal n st sc ind = ind ++ ('<' :: n ++ attrString st) ++ (if sc then str " />" else str " >")
    ∧ startTag (.slim ssc) n st sc ind
        = ind ++ ('<' :: n ++ attrString st) ++ (if sc then (if ssc then str "/>" else str " />") else str ">") :=
  ⟨startTag_normal n st sc ind, startTag_slim ssc n st sc ind⟩

/-- **C12c (document level).**  For the same tokens, indent unit and mini flag, the slim class fails exactly when the
    normal class fails, and otherwise its output is the normal output piece by piece: text blocks, end tags and doctype
    line identical, every start-tag piece with the space before `>` removed (before `/>` only with slimSelfClosing) —
    in start tags only. -/
theorem slim_output (cfg : Cfg) (hk : cfg.kind = .normal) (ssc : Bool) (toks : List Tok) (h : NoWrapperStart toks) :
    (match feed cfg toks with
     | .ok fn => ∃ fs, feed { cfg with kind := .slim ssc } toks = .ok fs ∧ fs.doctype = fn.doctype
          ∧ (fn.root = none → fs.root = none)
          ∧ ∀ r, fn.root = some r → ∃ r', fs.root = some r'
              ∧ docHTML fn.doctype fn.root = .ok (flat (docPieces fn.doctype r))
              ∧ docHTML fs.doctype fs.root = .ok (flat ((docPieces fn.doctype r).map (slimPiece ssc)))
     | .error e => feed { cfg with kind := .slim ssc } toks = .error e) := by
  rw [feed_dec cfg toks h, feed_dec { cfg with kind := .slim ssc } toks h]
  cases hp : Plain.feed toks with
  | error e => simp [mapOk]
  | ok ps =>
    simp only [mapOk]
    refine ⟨_, rfl, rfl, ?_, ?_⟩
    · intro hn
      rw [root_dec] at hn ⊢
      cases hr : ps.root with
      | none => rfl
      | some r0 => simp [hr] at hn
    · intro r hr
      rw [root_dec] at hr
      cases hpr : ps.root with
      | none => simp [hpr] at hr
      | some r0 =>
        simp only [hpr, Option.map_some, Option.some.injEq] at hr
        have hcfg : cfg = { cfg with kind := .normal } := by cases cfg; simp_all
        have e1 : r = setKind .normal (dec0 cfg r0) := by
          rw [← hr]; unfold dec0
          conv => lhs; rw [hcfg]
          exact decorate_setKind cfg .normal _ _ r0
        have e2 : dec0 { cfg with kind := .slim ssc } r0 = setKind (.slim ssc) (dec0 cfg r0) :=
          decorate_setKind cfg (.slim ssc) _ _ r0
        refine ⟨setKind (.slim ssc) (dec0 cfg r0), by rw [root_dec, hpr, Option.map_some, e2], ?_, ?_⟩
        · rw [root_dec, hpr, Option.map_some, hr]; exact docHTML_eq_flat _ _
        · rw [root_dec, hpr, Option.map_some, e2, docHTML_eq_flat, e1]
          show Except.ok (flat (docPieces ps.doctype _)) = _
          rw [docPieces_slim]
          rfl

/-- the slim classes are the normal classes with the other element class: with the same explicit indent argument,
    `AdvancedHTMLSlimTagFormatter` / `…SlimTagMiniFormatter` are configured like `AdvancedHTMLFormatter` /
    `…MiniFormatter` except for `kind` (so `slim_output` applies to the four shipped classes) -/
theorem slim_classes (ind : IndentArg) (hi : ind ≠ .dflt) (ssc : Bool) :
    mkCfg .slim ind ssc = { mkCfg .pretty ind ssc with kind := .slim ssc } ∧ (mkCfg .pretty ind ssc).kind = .normal
    ∧ mkCfg .slimMini ind ssc = { mkCfg .mini ind ssc with kind := .slim ssc } ∧ (mkCfg .mini ind ssc).kind = .normal := by
  cases ind with
  | dflt => exact absurd rfl hi
  | str s => simp [mkCfg, indentOf]
  | int i => simp [mkCfg, indentOf]

/-- what the surgery does to the two shapes a start tag can have -/
theorem slim_surgery (ssc : Bool) (x : Str) :
    slimSurgery ssc (x ++ str " >") = x ++ str ">"
    ∧ slimSurgery ssc (x ++ str " />") = x ++ (if ssc then str "/>" else str " />") :=
  ⟨slimSurgery_open ssc x, slimSurgery_selfclosed ssc x⟩

/-! #### C12b — mini output carries no indentation -/

/-- the mini classes give no element an `_indent` (special case of the indentation law, spelled out) -/
theorem mini_no_indent (cfg : Cfg) (hm : cfg.mini = true) (c : Ctx) : indentAt cfg c = [] := by
  unfold indentAt getIndent
  by_cases h0 : c.inPre = 0 <;> simp [h0, hm]

/-- C12b: a data piece outside preserved content comes out without a tab … -/
theorem squeezed_has_no_tab (s : Str) : ∀ c ∈ squeeze s, c ≠ '\t' := squeeze_noTab s

/-- … and neither begins nor ends with a line break (CR or LF). -/
theorem squeezed_has_no_outer_line_break (s : Str) :
    (∀ c, (squeeze s).head? = some c → isCRLF c = false) ∧ (∀ c, (squeeze s).getLast? = some c → isCRLF c = false) :=
  squeeze_ends s

/-- C12b/C12d core: the data rule is idempotent. -/
theorem squeeze_idempotent (s : Str) : squeeze (squeeze s) = squeeze s := squeeze_idem s

/-- **C12b / C12d (tree level).**  Decorating an already decorated tree changes nothing — for every class, context and
    tree: the same elements get the same `_indent` (a function of the ancestors' names only) and every squeezed data block
    is a fixed point of the data rule.  With `formatter_tree_is_decorated` (C11) this is "formatting the formatter's own
    tree again gives the same tree"; for the mini classes, whose output adds no text, it is the fixed-point statement up to
    re-tokenisation of the output (see `…_partial` below). -/
theorem reformat_tree_fixed_point (cfg : Cfg) (c : Ctx) (p : Str) (t : Node) :
    decorate cfg c p (decorate cfg c p t) = decorate cfg c p t := decorate_idem cfg c p t

/-! #### C12d — stability from the second pass on -/

/-- **C12d key lemma** (DESIGN §5).  In pass k+1 a text region is the pieces pass k wrote followed by the indent `I`
    (a line break, then spaces/tabs) pass k put before the next tag; only the last data piece `d` (possibly empty) meets
    `I`, the tokenizer hands the formatter `d ++ I` as one piece.  From the second pass on that piece is stable:
    `sq (sq (d ++ I) ++ I) = sq (d ++ I)`, for every `d` and every such `I`.  (Pass 1 → 2 is not covered and not stable:
    pass 1 sees `d`, pass 2 sees `sq d ++ I` — which is why the property says "from the second pass on".) -/
theorem indent_piece_stable (d i : Str) (hi : IsIndent i) : squeeze (squeeze (d ++ i) ++ i) = squeeze (d ++ i) :=
  squeeze_indent_stable d i hi

/-- every `_indent` the pretty classes produce with a spaces/tabs indent unit is such an `I` -/
theorem getIndent_isIndent (cfg : Cfg) (hm : cfg.mini = false) (hu : ∀ c ∈ cfg.indent, c = ' ' ∨ c = '\t') (level : Int) :
    IsIndent (getIndent cfg level) := by
  unfold getIndent
  simp only [hm, Bool.false_eq_true, if_false]
  refine ⟨_, rfl, ?_⟩
  generalize level.toNat = n
  induction n with
  | zero => simp [rep]
  | succ k ih =>
    intro c hc
    simp only [rep, List.mem_append] at hc
    rcases hc with hc | hc
    · exact hu c hc
    · exact ih c hc

/-!
  #### What is partial

  * `pretty_stable_partial` / `mini_fixed_point_partial` (string level, not stated as theorems): `pretty³ = pretty²` and
    `mini (mini x) = mini x` on output *text*.  Proved here: the tree-level fixed point (`reformat_tree_fixed_point`), that
    depth and preformatted-ness of every position depend on the tree only (`formatter_tree_is_decorated`, C11), and the two
    facts about the one piece of text that changes between passes (`squeeze_idempotent`, `indent_piece_stable`).  Missing:
    the character-level lexer (another group's Model/Lexer) to show that the output text tokenizes back into the tree's
    blocks with each `_indent` glued to the preceding data piece, and the position-wise induction over the token list that
    uses the lemmas above.  The tie runs passes 1–3 of every case through model and library and the oracle checks
    `pass 3 = pass 2`, `mini² = mini` on the real code.
  * C12a over the output *string* (an independent `layoutOf : text → (depth, column)*`): the tree-level law is proved
    (`indentation_law`) together with `start_tag_after_indent` / `end_tag_after_indent`; recomputing depth from the text again
    needs the lexer.  The oracle does exactly that on the real output with the real tokenizer.
-/

/-- Known finding `C12-mini-dropped-markup`, the instance: two data pieces that are adjacent in the *output* because the
    markup between them was dropped (stray end tag, PI) are squeezed separately; together they are not a fixed point.
    (`'<div> </zzz> b</div>'` → `<div >  b</div>` → `<div > b</div>`: the blank first piece becomes the leading white
    space of the merged piece.) -/
theorem mini_dropped_markup_counterexample :
    squeeze (squeeze (str " ") ++ squeeze (str " b")) ≠ squeeze (str " ") ++ squeeze (str " b") := by decide

/-- Why the hypothesis `NoWrapperStart`: an element that carries the reserved wrapper name in the *input* is not counted
    when opened but is counted when closed implicitly, so what follows is indented one level too little (`<u>` below
    `<div>` at column 0).  The property excludes the reserved name (DESIGN §8 #21). -/
theorem reserved_name_breaks_the_law :
    okIs (format (mkCfg .pretty (.str (str "  ")) false)
      [.start (str "div") [], .start (str "b") [], .start (str "xxxblank") [], .end_ (str "b"), .start (str "u") []])
      "\n<div >\n  <b >\n    <xxxblank >\n    </xxxblank>\n  </b>\n<u >\n</u>\n</div>" = true := by decide +kernel

/-! #### non-vacuity -/

def sampleToks : List Tok :=
  [.start (str "ul") [], .start (str "li") [], .data (str "a"), .start (str "li") [], .data (str "b\n"),
   .startend (str "pre") [], .start (str "br") [], .end_ (str "ul"), .data (str "\n")]

example : NoWrapperStart sampleToks := by decide
/-- implicit closes (`li`, `li`) are dedented, the self-closed `pre` does not switch indentation off -/
example : okIs (format (mkCfg .pretty (.str (str "  ")) false) sampleToks)
    "\n<ul >\n  <li >a\n    <li >b\n      <pre />\n      <br />\n    </li>\n  </li>\n</ul>" = true := by decide +kernel
example : okIs (format (mkCfg .slim (.str (str "  ")) true) sampleToks)
    "\n<ul>\n  <li>a\n    <li>b\n      <pre/>\n      <br/>\n    </li>\n  </li>\n</ul>" = true := by decide +kernel
example : okIs (format (mkCfg .mini .dflt false) sampleToks) "<ul ><li >a<li >b<pre /><br /></li></li></ul>" = true := by decide +kernel

end AHP.C12
