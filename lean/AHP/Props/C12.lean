/-
  C12 — Formatter layout guarantees: indentation, minification, slim tags, stability.

  Property theorems only (model: AHP/Model/Format.lean; lemmas: AHP/Lemmas/Format.lean, Squeeze.lean).
  Quantification as in C11: every token sequence, every configuration; hypothesis: no element is named like the
  invisible wrapper.
-/
import AHP.Lemmas.Format
namespace AHP.C12
open AHP AHP.Fmt

/-! #### C12a — indentation -/

/-- **C12a (tree level).**  In the tree the formatter serialises, every element outside pre/code carries
    `_indent = "\n" ++ indent^depth`, `depth` being its number of proper ancestors other than the invisible wrapper
    *recomputed from the finished tree* (`LayoutOK`), every element below pre/code carries none, and the mini classes
    give none at all — whatever pushes, explicit pops and implicit pops the token sequence caused. -/
theorem indentation_law (cfg : Cfg) (toks : List Tok) (h : NoWrapperStart toks) (s : St) (r : Node)
    (hs : feed cfg toks = .ok s) (hr : s.root = some r) : LayoutOK cfg 0 false r := by
  rw [feed_dec cfg toks h] at hs
  cases hp : Plain.feed toks with
  | error e => simp [hp, mapOk] at hs
  | ok ps =>
    simp only [hp, mapOk, Except.ok.injEq] at hs
    rw [← hs, root_dec] at hr
    cases hpr : ps.root with
    | none => simp [hpr] at hr
    | some r0 =>
      simp only [hpr, Option.map_some, Option.some.injEq] at hr
      rw [← hr]
      exact layout_decorate cfg ⟨0, 0⟩ [] r0

/-- the counters the formatter is left with are those of the elements still open: `currentIndentLevel` = number
    of open elements other than the wrapper, `inPreformatted` = number of open pre/code elements -/
theorem counters_are_stack_functions (cfg : Cfg) (toks : List Tok) (h : NoWrapperStart toks) (s : St)
    (hs : feed cfg toks = .ok s) :
    ∃ ps, Plain.feed toks = .ok ps ∧ s.level = ((ctxOf ps.stack).level : Int) ∧ s.inPre = ((ctxOf ps.stack).inPre : Int)
      ∧ s.stack.length = ps.stack.length := by
  rw [feed_dec cfg toks h] at hs
  cases hp : Plain.feed toks with
  | error e => simp [hp, mapOk] at hs
  | ok ps =>
    simp only [hp, mapOk, Except.ok.injEq] at hs
    exact ⟨ps, rfl, by rw [← hs]; rfl, by rw [← hs]; rfl, by rw [← hs]; simp [decSt]⟩

/-- In the output text the `_indent` is what precedes the start tag … -/
theorem start_tag_after_indent (k : Kind) (n : Str) (st : AStore) (sc : Bool) (ind : Str) :
    ∃ rest, startTag k n st sc ind = ind ++ rest ∧ rest.head? = some '<' := startTag_prefix k n st sc ind

/-- … and the end tag of an element that is not self-closing, unless the element is pre/code or is script/style whose
    content already ends with exactly that line break and indentation. -/
theorem end_tag_after_indent (n ind : Str) (kids : List Node) (hpre : isPre n = false)
    (hraw : isPreserve n = true → lastTextEndsWith ind kids = false) :
    endTag n false ind kids = ind ++ str "</" ++ n ++ str ">" := by
  rcases endTag_cases n ind kids with h | ⟨_, h | h⟩
  · exact h
  · rw [hpre] at h; cases h
  · rw [hraw h.1] at h; cases h.2

/-! #### C12c — slim output = normal output without the space before `>` -/

/-- C12c on one start tag -/
theorem slim_start_tag (ssc : Bool) (n : Str) (st : AStore) (sc : Bool) (ind : Str) :
    startTag .normal n st sc ind = ind ++ ('<' :: n ++ attrString st) ++ (if sc then str " />" else str " >")
    ∧ startTag (.slim ssc) n st sc ind
        = ind ++ ('<' :: n ++ attrString st) ++ (if sc then (if ssc then str "/>" else str " />") else str ">") :=
  ⟨startTag_normal n st sc ind, startTag_slim ssc n st sc ind⟩

/-- **C12c (document level).**  For the same tokens, indent unit and mini flag, the slim class fails exactly when the
    normal class fails, and otherwise its output is the normal output piece by piece: text blocks, end tags and doctype
    line identical, every start-tag piece with the space before `>` removed (before `/>` only with slimSelfClosing) —
    in start tags only. -/
theorem slim_output (cfg : Cfg) (hk : cfg.kind = .normal) (ssc : Bool) (toks : List Tok) (h : NoWrapperStart toks) :
    (match feed cfg toks with
     | .ok fn => ∃ fs, feed { cfg with kind := .slim ssc } toks = .ok fs ∧ fs.doctype = fn.doctype
          ∧ (fn.root = none → fs.root = none)
          ∧ ∀ r, fn.root = some r → ∃ r', fs.root = some r'
              ∧ docHTML fn.doctype fn.root = .ok (flat (docPieces fn.doctype r))
              ∧ docHTML fs.doctype fs.root = .ok (flat ((docPieces fn.doctype r).map (slimPiece ssc)))
     | .error e => feed { cfg with kind := .slim ssc } toks = .error e) := by
  rw [feed_dec cfg toks h, feed_dec { cfg with kind := .slim ssc } toks h]
  cases hp : Plain.feed toks with
  | error e => simp [mapOk]
  | ok ps =>
    simp only [mapOk]
    refine ⟨_, rfl, rfl, ?_, ?_⟩
    · intro hn
      rw [root_dec] at hn ⊢
      cases hr : ps.root with
      | none => rfl
      | some r0 => simp [hr] at hn
    · intro r hr
      rw [root_dec] at hr
      cases hpr : ps.root with
      | none => simp [hpr] at hr
      | some r0 =>
        simp only [hpr, Option.map_some, Option.some.injEq] at hr
        have hcfg : cfg = { cfg with kind := .normal } := by cases cfg; simp_all
        have e1 : r = setKind .normal (dec0 cfg r0) := by
          rw [← hr]; unfold dec0
          conv => lhs; rw [hcfg]
          exact decorate_setKind cfg .normal _ _ r0
        have e2 : dec0 { cfg with kind := .slim ssc } r0 = setKind (.slim ssc) (dec0 cfg r0) :=
          decorate_setKind cfg (.slim ssc) _ _ r0
        refine ⟨setKind (.slim ssc) (dec0 cfg r0), by rw [root_dec, hpr, Option.map_some, e2], ?_, ?_⟩
        · rw [root_dec, hpr, Option.map_some, hr]; exact docHTML_eq_flat _ _
        · rw [root_dec, hpr, Option.map_some, e2, docHTML_eq_flat, e1]
          show Except.ok (flat (docPieces ps.doctype _)) = _
          rw [docPieces_slim]
          rfl

/-- what the surgery does to the two shapes a start tag can have -/
theorem slim_surgery (ssc : Bool) (x : Str) :
    slimSurgery ssc (x ++ str " >") = x ++ str ">"
    ∧ slimSurgery ssc (x ++ str " />") = x ++ (if ssc then str "/>" else str " />") :=
  ⟨slimSurgery_open ssc x, slimSurgery_selfclosed ssc x⟩

/-! #### C12b — mini output carries no indentation -/

/-- the mini classes give no element an `_indent` (special case of the indentation law, spelled out) -/
theorem mini_no_indent (cfg : Cfg) (hm : cfg.mini = true) (c : Ctx) : indentAt cfg c = [] := by
  unfold indentAt getIndent
  by_cases h0 : c.inPre = 0 <;> simp [h0, hm]

/-! #### non-vacuity -/

def sampleToks : List Tok :=
  [.start (str "ul") [], .start (str "li") [], .data (str "a"), .start (str "li") [], .data (str "b\n"),
   .startend (str "pre") [], .start (str "br") [], .end_ (str "ul"), .data (str "\n")]

example : NoWrapperStart sampleToks := by decide
/-- implicit closes (`li`, `li`) are dedented, the self-closed `pre` does not switch indentation off -/
example : okIs (format (mkCfg .pretty (.str (str "  ")) false) sampleToks)
    "\n<ul >\n  <li >a\n    <li >b\n      <pre />\n      <br />\n    </li>\n  </li>\n</ul>" = true := by decide +kernel
example : okIs (format (mkCfg .slim (.str (str "  ")) true) sampleToks)
    "\n<ul>\n  <li>a\n    <li>b\n      <pre/>\n      <br/>\n    </li>\n  </li>\n</ul>" = true := by decide +kernel
example : okIs (format (mkCfg .mini .dflt false) sampleToks) "<ul ><li >a<li >b<pre /><br /></li></li></ul>" = true := by decide +kernel

end AHP.C12
