/-
  C17 — Pickled and cloned documents are faithful, independent copies.

  Property theorems only.  Model: AHP/Model/Pickle.lean (the definitions the driver executes); lemmas and the
  specification function `relabel` (the copy as it should be): AHP/Lemmas/Pickle.lean.

  Domain predicate `WFT t` (decidable data conditions, the analogue of "a C01 tree"): every element has a
  lower-case name and a well-formed attribute store (`Attrs.WF`: unique lower-case valid keys, the `style` key
  holds the style object, `spellcheck`-like keys hold a normalised string, and the two string round trips
  `classTokens (className cls) = cls`, `styleToDict (styleStr sty) = sty` hold of the stored data) in which
  `class`, once synchronised, is the last entry (`Attrs.ClassLast`; see `classLast_needed` for why).
  `ScOK t` is the part of C04's invariant a copy can only inherit ("self-closing ⇒ no content").

  Object identity is the `oid`; "fresh" means `n` is above every object id in use, as the allocator guarantees.
  Python-level aliasing (weak references, pickle memo, protocols) is outside a value model: the oracle of the
  correspondence check covers it on the real objects.

  Names are written `Pk.Attrs.…`, `Pk.styleToDict`, … : Lemmas/PickleEdit.lean brings the other attribute-store
  models into scope (it reuses their string lemmas through the equalities of Props/AttrStores.lean), and an
  enclosing-namespace name (`AHP.Attrs.…`) would win over the opened `AHP.Pk`.
-/
import AHP.Lemmas.Pickle
import AHP.Lemmas.PickleStr
import AHP.Lemmas.PickleIdx
import AHP.Lemmas.PickleEdit
namespace AHP.C17
open AHP AHP.Pk

/-! ### C17a — `pickle.loads(pickle.dumps(t))` of a detached tree -/

/-- Unpickling never raises on a well-formed tree and yields exactly the specified copy. -/
theorem unpickle_eq (ρ : Option Nat → Option Nat) (t : DN) (h : WFT t) (n : Nat) :
    roundTrip ρ t n = some ((relabel none (ρ (DN.ownerOf t)) t n).1, n + DN.size t) := by
  unfold roundTrip
  rw [load_spec ρ t h n, ← relabel_snd none (ρ (DN.ownerOf t)) t n]

/-- C17a, all clauses for a tree: the copy exists, consumes exactly `size t` fresh objects, serialises
    identically, has the same uids element for element and the same per-element name / attribute list /
    self-closing flag, is made of the fresh objects `n, n+1, …` in document order (hence pairwise distinct and
    none of them an object of the original), and is itself well-formed. -/
theorem unpickle_faithful (ρ : Option Nat → Option Nat) (t : DN) (h : WFT t) (n : Nat) :
    ∃ t', roundTrip ρ t n = some (t', n + DN.size t) ∧
      DN.html t' = DN.html t ∧
      DN.uids t' = DN.uids t ∧
      (DN.elems t').map elView = (DN.elems t).map elView ∧
      DN.oids t' = List.range' n (DN.size t) ∧
      WFT t' := by
  refine ⟨_, unpickle_eq ρ t h n, html_relabel _ _ t h n, uids_relabel _ _ t n, views_relabel _ _ t h n,
    oids_relabel _ _ t n, WFT_relabel _ _ t h n⟩

/-- C17a, links: in the copy every `parentNode` is the containing element *of the copy*, the root has none,
    `children` and `text` mirror the block list, and every `ownerDocument` is what the root's reference
    resolves to — C04's invariant, given that the original kept "self-closing ⇒ no content". -/
theorem unpickle_links (ρ : Option Nat → Option Nat) (t : DN) (h : WFT t) (hs : ScOK t) (n : Nat) (t' : DN) (m : Nat)
    (e : roundTrip ρ t n = some (t', m)) : OK none (ρ (DN.ownerOf t)) t' := by
  rw [unpickle_eq ρ t h n] at e
  cases e
  exact OK_relabel none _ t hs n

/-- the objects of the copy are pairwise distinct -/
theorem unpickle_oids_nodup (ρ : Option Nat → Option Nat) (t : DN) (h : WFT t) (n : Nat) (t' : DN) (m : Nat)
    (e : roundTrip ρ t n = some (t', m)) : (DN.oids t').Nodup := by
  rw [unpickle_eq ρ t h n] at e
  cases e
  rw [oids_relabel]; exact List.nodup_range'

/-- C17b, disjointness: no object of the copy is an object of the original (or of anything allocated before). -/
theorem unpickle_disjoint (ρ : Option Nat → Option Nat) (t : DN) (h : WFT t) (n : Nat) (t' : DN) (m : Nat)
    (e : roundTrip ρ t n = some (t', m)) (used : List Nat) (hfresh : ∀ o ∈ used, o < n) :
    ∀ o ∈ DN.oids t', o ∉ used := by
  rw [unpickle_eq ρ t h n] at e
  cases e
  intro o ho hu
  rw [oids_relabel, List.mem_range'_1] at ho
  have := hfresh o hu
  omega

/-- C17b, closure: the copy can be pickled again, with any protocol's memo `ρ'`; the second copy is as
    faithful to the original as the first. -/
theorem repickle (ρ ρ' : Option Nat → Option Nat) (t : DN) (h : WFT t) (n : Nat) (t' : DN) (m : Nat)
    (e : roundTrip ρ t n = some (t', m)) :
    ∃ t'', roundTrip ρ' t' m = some (t'', m + DN.size t') ∧ DN.html t'' = DN.html t ∧ DN.uids t'' = DN.uids t := by
  obtain ⟨t1, e1, h1, h2, _, _, h5⟩ := unpickle_faithful ρ t h n
  rw [e1] at e; cases e
  obtain ⟨t2, e2, g1, g2, _, _, _⟩ := unpickle_faithful ρ' t' h5 (n + DN.size t)
  exact ⟨t2, e2, g1.trans h1, g2.trans h2⟩

/-! ### C17b — edits are addressed to objects: one side's edit finds nothing to change on the other -/

mutual
theorem mapAt_not_mem (o : Nat) (f : DN → DN) (t : DN) (h : o ∉ DN.oids t) : mapAt o f t = t := by
  match t with
  | .text s => simp [mapAt]
  | .el o1 u nm a sc blocks ch tx p ow =>
    simp only [DN.oids, List.mem_cons, not_or] at h
    have h1 : ¬ o1 = o := fun e => h.1 e.symm
    simp only [mapAt, h1, if_false]
    rw [mapAtL_not_mem o f blocks h.2]
theorem mapAtL_not_mem (o : Nat) (f : DN → DN) (bs : List DN) (h : o ∉ DN.oidsL bs) : mapAtL o f bs = bs := by
  match bs with
  | [] => simp [mapAtL]
  | b :: bs =>
    simp only [DN.oidsL, List.mem_append, not_or] at h
    simp only [mapAtL]
    rw [mapAt_not_mem o f b h.1, mapAtL_not_mem o f bs h.2]
end

/-! STATUS of the two independence theorems below (review B, M5).  In this value model a tree *is* its value and an
    edit is addressed to an object id, so "an edit on the copy leaves the original" reduces to `mapAt_not_mem`:
    an edit addressed to an object id that does not occur in a tree changes nothing in that tree.  That is true
    of ANY two trees with disjoint object ids; the only pickle-specific input is `unpickle_disjoint` (the copy
    is made of fresh object ids).  What the property means by "shares no mutable state" — no aliasing in the
    Python object graph (a shared style object, attribute dict, blocks / children / class list) — is not
    expressible here and is decided by the oracle of the tie (identity comparison of every mutable object of
    the two sides, edits on each side observed on the other), not by these theorems.  Likewise `clone_not_eq`
    takes the freshness of the new uid as a hypothesis (uid generation is not modelled) and "clone shares no
    mutable state" has no statement beyond `clone_eq`. -/

/-- An edit of any kind on an element of the copy leaves the original exactly as it was … (a fact about
    disjoint object ids: `mapAt_not_mem` + `unpickle_disjoint`; see the status note above) -/
theorem edit_copy_leaves_original (ρ : Option Nat → Option Nat) (t : DN) (h : WFT t) (n : Nat) (t' : DN) (m : Nat)
    (e : roundTrip ρ t n = some (t', m)) (hfresh : ∀ o ∈ DN.oids t, o < n)
    (target : Nat) (ht : target ∈ DN.oids t') (oid uid : Nat) (ed : Edit) :
    applyEdit target oid uid ed t = t := by
  have hd := unpickle_disjoint ρ t h n t' m e (DN.oids t) hfresh target ht
  cases ed <;> simp only [applyEdit] <;> (try split) <;> first | exact mapAt_not_mem _ _ _ hd | rfl

/-- … and an edit on an element of the original leaves the copy exactly as it was (same remark). -/
theorem edit_original_leaves_copy (ρ : Option Nat → Option Nat) (t : DN) (h : WFT t) (n : Nat) (t' : DN) (m : Nat)
    (e : roundTrip ρ t n = some (t', m)) (hfresh : ∀ o ∈ DN.oids t, o < n)
    (target : Nat) (ht : target ∈ DN.oids t) (oid uid : Nat) (ed : Edit) :
    applyEdit target oid uid ed t' = t' := by
  have hd : target ∉ DN.oids t' := fun hm => unpickle_disjoint ρ t h n t' m e (DN.oids t) hfresh target hm ht
  cases ed <;> simp only [applyEdit] <;> (try split) <;> first | exact mapAt_not_mem _ _ _ hd | rfl

/-! ### C17a for parsers -/

theorem inner_relabel (par own : Option Nat) (t : DN) (h : WFT t) (n : Nat) : DN.inner (relabel par own t n).1 = DN.inner t := by
  cases t with
  | text s => simp [relabel, DN.inner]
  | el o u nm a sc blocks ch tx p ow =>
    simp only [WFT] at h
    simp only [relabel, DN.inner]
    rw [htmlL_relabelL _ _ blocks h.2.2.2]

/-- Unpickling a parser: a new parser object `n` that kept the doctype, has its `reset` hook, serialises
    identically; its root is the faithful copy of the root made of the next fresh objects, with the same uids,
    and — when the original's root was owned by the original parser — every element of the copy is owned by the
    *new* parser and linked inside the copy. -/
theorem parser_unpickle (p : Parser) (r : DN) (hr : p.root = some r) (h : WFT r) (n : Nat) :
    ∃ p' r', p.roundTrip n = some (p', n + 1 + DN.size r) ∧
      p'.oid = n ∧ p'.doctype = p.doctype ∧ p'.hasReset = true ∧ p'.html = p.html ∧
      p'.root = some r' ∧ DN.uids r' = DN.uids r ∧ DN.oids r' = List.range' (n + 1) (DN.size r) ∧ WFT r' ∧
      (DN.ownerOf r = some p.oid → ScOK r → OK none (some n) r') := by
  have e := load_spec (fun o => if o = some p.oid then some n else o) r h (n + 1)
  refine ⟨{ oid := n, root := some (relabel none ((fun o => if o = some p.oid then some n else o) (DN.ownerOf r)) r (n + 1)).1,
            doctype := p.doctype, hasReset := true,
            index := p.index.map (Index.remap ((DN.oids r).zip
              (DN.oids (relabel none ((fun o => if o = some p.oid then some n else o) (DN.ownerOf r)) r (n + 1)).1))) },
          (relabel none ((fun o => if o = some p.oid then some n else o) (DN.ownerOf r)) r (n + 1)).1, ?_, ?_⟩
  · unfold Parser.roundTrip
    simp only [hr, e]
    rw [relabel_snd]
  · refine ⟨rfl, rfl, rfl, ?_, rfl, uids_relabel _ _ r (n + 1), oids_relabel _ _ r (n + 1), WFT_relabel _ _ r h (n + 1), ?_⟩
    · unfold Parser.html
      simp only [hr]
      cases r with
      | text s => simp [relabel]
      | el o u nm a sc blocks ch tx pp ow =>
        have hi := fun own => inner_relabel none own (.el o u nm a sc blocks ch tx pp ow) h (n + 1)
        have hh := fun own => html_relabel none own (.el o u nm a sc blocks ch tx pp ow) h (n + 1)
        simp only [relabel] at hi hh ⊢
        rw [hi, hh]
    · intro ho hs
      simp only [ho, if_true]
      exact OK_relabel none (some n) r hs (n + 1)

/-- A parser that has parsed nothing pickles to a parser that has parsed nothing (and can parse). -/
theorem parser_unpickle_empty (p : Parser) (hr : p.root = none) (n : Nat) :
    ∃ p', p.roundTrip n = some (p', n + 1) ∧ p'.root = none ∧ p'.hasReset = true ∧ p'.doctype = p.doctype := by
  refine ⟨{ p with oid := n, hasReset := true }, ?_, hr, rfl, rfl⟩
  unfold Parser.roundTrip
  simp [hr]

/-- BY CONSTRUCTION OF THE MODEL (`rfl`): `Parser.afterGetstate` is *defined* as `{ p with root := … }`, so the
    hook is kept by definition.  Pickling leaves the original parser's `reset` hook in place in the repaired
    `__getstate__`; the defect it had (c6b9dce) could not have contradicted this statement — it was found, and
    the clause is decided, by the tie (`reset` present on both sides after every `dumps`; parser re-use). -/
theorem getstate_keeps_reset_by_construction (p : Parser) : p.afterGetstate.hasReset = p.hasReset := rfl

/-! #### working indexes: references are carried to the same document position of the copy -/

theorem lookup_zip_range' (xs : List Nat) (s x : Nat) (h : x ∈ xs) :
    (xs.zip (List.range' s xs.length)).lookup x = some (s + xs.idxOf x) := by
  induction xs generalizing s with
  | nil => simp at h
  | cons y ys ih =>
    simp only [List.length_cons, List.range'_succ, List.zip_cons_cons, List.lookup_cons]
    by_cases e : x = y
    · subst e; simp
    · have hx : x ∈ ys := by simpa [e] using h
      have e' : (x == y) = false := by simp [e]
      have e2 : (y == x) = false := by rw [beq_eq_false_iff_ne]; exact fun h => e h.symm
      rw [e', ih (s + 1) hx]
      simp [List.idxOf_cons, e2]
      omega

mutual
theorem length_oids (t : DN) : (DN.oids t).length = DN.size t := by
  match t with
  | .text s => simp [DN.oids, DN.size]
  | .el o u nm a sc blocks ch tx p ow => simp only [DN.oids, DN.size, List.length_cons]; rw [length_oidsL]; omega
theorem length_oidsL (bs : List DN) : (DN.oidsL bs).length = DN.sizeL bs := by
  match bs with
  | [] => simp [DN.oidsL, DN.sizeL]
  | b :: bs => simp only [DN.oidsL, DN.sizeL, List.length_append]; rw [length_oids, length_oidsL]
end

/-- An index entry (or any other object reference held by the parser) that pointed at the `k`-th element of
    the original document points, in the unpickled parser, at the `k`-th element of the copy: the pickle memo
    `remap` sends it to the object `n + 1 + k`, which is `oids r'` at position `k`. -/
theorem index_reference_carried (r : DN) (h : WFT r) (own : Option Nat) (n : Nat) (x : Nat) (hx : x ∈ DN.oids r) :
    let r' := (relabel none own r (n + 1)).1
    remap ((DN.oids r).zip (DN.oids r')) x = n + 1 + (DN.oids r).idxOf x ∧
    (DN.oids r')[(DN.oids r).idxOf x]? = some (n + 1 + (DN.oids r).idxOf x) := by
  intro r'
  have ho : DN.oids r' = List.range' (n + 1) (DN.oids r).length := by
    rw [length_oids]; exact oids_relabel none own r (n + 1)
  constructor
  · unfold remap
    rw [ho, lookup_zip_range' _ _ _ hx]
  · rw [ho]
    have : (DN.oids r).idxOf x < (DN.oids r).length := List.idxOf_lt_length_of_mem hx
    simp [List.getElem?_range', this]

/-- **Working indexes (IdxInv)**: if the index of the original parser is the index of its document — as after any
    parse or `reindex()` — then the index of the unpickled parser is the index of *its* document: every map, every
    key, every list in the same order, every entry an element of the copy. -/
theorem indexed_parser_unpickle (p : Parser) (r : DN) (hr : p.root = some r) (h : WFT r) (hn : (DN.oids r).Nodup)
    (ids names classes tags : Bool) (attrNames : List Str)
    (hix : p.index = some (indexDoc ids names classes tags attrNames r)) (n : Nat) :
    ∃ p' r', p.roundTrip n = some (p', n + 1 + DN.size r) ∧ p'.root = some r' ∧
      p'.index = some (indexDoc ids names classes tags attrNames r') := by
  have e := load_spec (fun o => if o = some p.oid then some n else o) r h (n + 1)
  refine ⟨{ oid := n, root := some (relabel none ((fun o => if o = some p.oid then some n else o) (DN.ownerOf r)) r (n + 1)).1,
            doctype := p.doctype, hasReset := true,
            index := p.index.map (Index.remap ((DN.oids r).zip
              (DN.oids (relabel none ((fun o => if o = some p.oid then some n else o) (DN.ownerOf r)) r (n + 1)).1))) },
          (relabel none ((fun o => if o = some p.oid then some n else o) (DN.ownerOf r)) r (n + 1)).1, ?_, rfl, ?_⟩
  · unfold Parser.roundTrip
    simp only [hr, e]
    rw [relabel_snd]
  · simp only [hix, Option.map_some]
    rw [remap_indexDoc ids names classes tags attrNames r hn]

/-! ### C17c — cloneNode / copy.copy / copy.deepcopy -/

/-- The clone is built by the constructor from the original's name, attribute list and self-closing flag:
    it is childless (one empty text block, no children, empty text), detached (no parent, no owner), carries
    the fresh identities it was given and the rebuilt attribute store. -/
theorem clone_eq (o u : Nat) (nm : Str) (a : Attrs) (sc : Bool) (blocks : List DN) (ch : List Nat) (tx : Str)
    (p ow : Option Nat) (hn : lower nm = nm) (ha : Pk.Attrs.WF a) (oid' uid' : Nat) :
    clone oid' uid' (.el o u nm a sc blocks ch tx p ow) =
      some (.el oid' uid' nm (Pk.Attrs.fresh a) (if !sc && Pk.voidTags.contains nm then true else sc) [.text []] [] [] none none) := by
  simp only [clone, DN.mk, Pk.Attrs.init_attrsList a ha, hn]

/-- … unequal to the original under `==` exactly because its uid is fresh. -/
theorem clone_not_eq (o u : Nat) (nm : Str) (a : Attrs) (sc : Bool) (blocks : List DN) (ch : List Nat) (tx : Str)
    (p ow : Option Nat) (hn : lower nm = nm) (ha : Pk.Attrs.WF a) (oid' uid' : Nat) (hfresh : uid' ≠ u) (c : DN)
    (e : clone oid' uid' (.el o u nm a sc blocks ch tx p ow) = some c) :
    tagEq (.el o u nm a sc blocks ch tx p ow) c = false ∧ tagEq c (.el o u nm a sc blocks ch tx p ow) = false := by
  rw [clone_eq o u nm a sc blocks ch tx p ow hn ha] at e
  cases e
  simp [tagEq, hfresh]
  exact fun h => hfresh h.symm

/-- … tag-equal to its original in both directions (`isTagEqual`: same name, same attribute names, same value
    per name — whatever the position of `class`). -/
theorem clone_tag_equal (o u : Nat) (nm : Str) (a : Attrs) (sc : Bool) (blocks : List DN) (ch : List Nat) (tx : Str)
    (p ow : Option Nat) (hn : lower nm = nm) (ha : Pk.Attrs.WF a) (oid' uid' : Nat) (c : DN)
    (e : clone oid' uid' (.el o u nm a sc blocks ch tx p ow) = some c) :
    isTagEqual (.el o u nm a sc blocks ch tx p ow) c = true ∧ isTagEqual c (.el o u nm a sc blocks ch tx p ow) = true := by
  rw [clone_eq o u nm a sc blocks ch tx p ow hn ha] at e
  cases e
  simp only [isTagEqual, Bool.and_eq_true, beq_self_eq_true, true_and, List.all_eq_true, List.contains_iff_mem,
    Pk.Attrs.getForEq_fresh a ha, Pk.Attrs.GVal.eq_refl, implies_true, and_true]
  refine ⟨⟨fun k hk => ?_, fun k hk => ?_⟩, ⟨fun k hk => ?_, fun k hk => ?_⟩⟩
  · exact (Pk.Attrs.mem_keys_handle_fresh a ha k).mpr hk
  · exact (Pk.Attrs.mem_keys_handle_fresh a ha k).mp hk
  · exact (Pk.Attrs.mem_keys_handle_fresh a ha k).mp hk
  · exact (Pk.Attrs.mem_keys_handle_fresh a ha k).mpr hk

/-- … and renders the same start tag (name and attributes) whenever the original's `class` is in its
    canonical last position — always, up to the order of attributes (`clone_tag_equal`). -/
theorem clone_same_start_tag (nm : Str) (a : Attrs) (sc : Bool) (ha : Pk.Attrs.WF a) (hl : Pk.Attrs.ClassLast a) :
    Pk.Attrs.startTag nm (Pk.Attrs.fresh a) sc = Pk.Attrs.startTag nm a sc := Pk.Attrs.startTag_fresh nm a sc ha hl

/-! ### the two string round trips, from a syntactic description of the stored data -/

/-- class tokens that are non-empty and free of white space survive `' '.join` → `stripWordsOnly` → `split(' ')` -/
theorem class_round_trip (cls : List Str) (h : ∀ t ∈ cls, Tok t) : classTokens (className cls) = cls :=
  classTokens_className cls h

/-- style maps with unique names whose properties are `PropOK` (lower-case non-empty name without `:`/`;` and
    without white space at its ends; non-empty value without `;` and without white space at its ends) survive
    `_asStr` → `styleToDict` -/
theorem style_round_trip (sty : List (Str × Str)) (h : ∀ q ∈ sty, PropOK q) (hn : (dkeys sty).Nodup) :
    Pk.styleToDict (Pk.styleStr sty) = sty :=
  styleToDict_styleStr sty h hn

/-- hence `Attrs.WF` follows from purely syntactic conditions on the store -/
theorem wf_of_syntactic (a : Attrs) (hn : (dkeys a.dict).Nodup)
    (hnames : ∀ p ∈ a.dict, Pk.validAttrName p.1 = true ∧ lower p.1 = p.1)
    (hstyle : ∀ p ∈ a.dict, (p.1 = sStyle → p.2 = DVal.style) ∧ (p.1 ≠ sStyle → p.2 ≠ DVal.style))
    (hbool : ∀ p ∈ a.dict, boolStrAttrs.contains p.1 = true → p.1 ≠ sClass → ∃ s, p.2 = DVal.str s ∧ convBoolStr (some s) = s)
    (hcls : ∀ t ∈ a.cls, Tok t) (hsty : ∀ q ∈ a.sty, PropOK q) (hsn : (dkeys a.sty).Nodup) : Pk.Attrs.WF a :=
  ⟨hn, hnames, hstyle, hbool, class_round_trip a.cls hcls, style_round_trip a.sty hsty hsn⟩


/-! ### the domain is closed under the edit operations: the theorems above apply after any history of edits

  `Attrs.WF` was shown closed under unpickling and cloning only (`WF_fresh`).  It is closed under every mutator of
  the model as well, with ONE operand condition: the token handed to `addClass` has no space inside and no white
  space at its ends (`TokArg`; the model's `addClass` takes one token of `stripWordsOnly(…).split(' ')`).
  `setAttribute` needs none: whatever text is assigned to `class` / `style` is stored as split / as parsed, and
  both parsers are idempotent through the string form (`clsOK_classTokens`, `styleToDict_idem_pk`).

  `ClassLast` (the position of `class` in the synchronised dict) is NOT closed under edits after a read — that is
  the known finding `C17-repickle-class-position` (`classLast_needed`).  What is closed is `ClassLazy` (the raw
  dict does not hold `class` yet, a non-empty style has its key): it holds of every store a constructor,
  unpickling or cloning builds, every mutator keeps it, and it implies `ClassLast`.  `WFTz` is `WFT` with
  `ClassLazy` in the place of `ClassLast`. -/

/-- a mutator of the attribute store -/
inductive AEdit where
  | set (k : Str) (v : Option Str)      -- `_attributes[k] = v` (`setAttribute`, attribute loop of the constructor)
  | del (k : Str)                       -- `del _attributes[k]` (`removeAttribute`)
  | addClass (tok : Str)

def AEdit.apply (a : Attrs) : AEdit → Attrs
  | .set k v => match Pk.Attrs.setitem a k v with | some a' => a' | none => a
  | .del k => Pk.Attrs.delitem a k
  | .addClass tok => Pk.Attrs.addClass a tok

/-- operand conditions: the key of a write is a valid attribute name (`setAttribute` raises `KeyError` on any
    other name, the constructor drops it); the token of `addClass` has no space inside and no white space at
    its ends -/
def AEdit.OK : AEdit → Prop
  | .set k _ => Pk.validAttrName (lower k) = true
  | .del _ => True
  | .addClass tok => Pk.Attrs.TokArg tok

/-- **`Attrs.WF` is closed under every mutator** (and `ClassLazy` with it). -/
theorem WF_edit (a : Attrs) (e : AEdit) (he : e.OK) (h : Pk.Attrs.WF a) : Pk.Attrs.WF (e.apply a) := by
  cases e with
  | set k v =>
    obtain ⟨a', e'⟩ := Pk.Attrs.setitem_isSome a k v
    simp only [AEdit.apply, e']
    exact Pk.Attrs.WF_setitem a k v h he a' e'
  | del k => exact Pk.Attrs.WF_delitem a k h
  | addClass tok => exact Pk.Attrs.WF_addClass a tok h he

theorem classLazy_edit (a : Attrs) (e : AEdit) (h : Pk.Attrs.ClassLazy a) : Pk.Attrs.ClassLazy (e.apply a) := by
  cases e with
  | set k v =>
    obtain ⟨a', e'⟩ := Pk.Attrs.setitem_isSome a k v
    simp only [AEdit.apply, e']
    exact Pk.Attrs.classLazy_setitem a k v h a' e'
  | del k => exact Pk.Attrs.classLazy_delitem a k h
  | addClass tok => exact Pk.Attrs.classLazy_addClass a tok h

/-- **after any history of mutators** the store is well formed; if `class` was still lazy at the start (as in
    every constructed / unpickled / cloned store) it still is, so `class` is in its canonical last position and
    the copy theorems (`clone_eq`, `clone_tag_equal`, `clone_same_start_tag`, `Attrs.init_attrsList`, …) apply. -/
theorem WF_history (es : List AEdit) (he : ∀ e ∈ es, e.OK) : ∀ a : Attrs, Pk.Attrs.WF a →
    Pk.Attrs.WF (es.foldl AEdit.apply a) ∧
    (Pk.Attrs.ClassLazy a → Pk.Attrs.ClassLazy (es.foldl AEdit.apply a) ∧ Pk.Attrs.ClassLast (es.foldl AEdit.apply a)) := by
  induction es with
  | nil => intro a h; exact ⟨h, fun hl => ⟨hl, Pk.Attrs.classLast_of_lazy a hl⟩⟩
  | cons e es ih =>
    intro a h
    have h1 := WF_edit a e (he e List.mem_cons_self) h
    have := ih (fun x hx => he x (List.mem_cons_of_mem _ hx)) (e.apply a) h1
    exact ⟨this.1, fun hl => this.2 (classLazy_edit a e hl)⟩

/-- every store a constructor builds — from ANY attribute list — is in the closed domain -/
theorem constructed_store_in_domain (l : List (Str × Option Str)) (a : Attrs) (e : Pk.Attrs.init l = some a) :
    Pk.Attrs.WF a ∧ Pk.Attrs.ClassLazy a ∧ Pk.Attrs.ClassLast a :=
  ⟨Pk.Attrs.WF_init l a e, Pk.Attrs.classLazy_init l a e, Pk.Attrs.classLast_of_lazy a (Pk.Attrs.classLazy_init l a e)⟩

/-- the read (`items()/keys()/getAttributesList()`) keeps `WF` and the position of `class` — but ends the
    laziness when the class list is non-empty (see `read_ends_laziness`) -/
theorem WF_read (a : Attrs) (h : Pk.Attrs.WF a) (hl : Pk.Attrs.ClassLast a) :
    Pk.Attrs.WF (Pk.Attrs.handle a) ∧ Pk.Attrs.ClassLast (Pk.Attrs.handle a) := by
  refine ⟨Pk.Attrs.WF_handle a h, ?_⟩
  unfold Pk.Attrs.ClassLast
  rw [Pk.Attrs.handle_idem a h.nodup]
  exact hl

/-- **one edit of the model keeps a tree in the closed domain** — all six kinds (appendText, appendChild,
    setAttribute, removeAttribute, addClass, removeChild), any target object. -/
theorem WFT_edit (target oid uid : Nat) (e : Edit) (he : EditOK e) (d : DN) (h : WFTz d) :
    WFTz (applyEdit target oid uid e d) := WFTz_applyEdit target oid uid e he d h

/-- **after any history of edits** the tree is in the closed domain, hence `WFT`. -/
theorem WFT_history (es : List (Nat × Nat × Nat × Edit)) (he : ∀ x ∈ es, EditOK x.2.2.2) (d : DN) (h : WFTz d) :
    WFTz (applyHistory es d) ∧ WFT (applyHistory es d) :=
  ⟨WFTz_applyHistory es he d h, WFT_of_WFTz _ (WFTz_applyHistory es he d h)⟩

/-- what unpickling returns is in the closed domain again (not only `WFT`): histories may alternate edits and
    pickling on either side -/
theorem unpickle_in_closed_domain (ρ : Option Nat → Option Nat) (t : DN) (h : WFT t) (n : Nat) (t' : DN) (m : Nat)
    (e : roundTrip ρ t n = some (t', m)) : WFTz t' := by
  rw [unpickle_eq ρ t h n] at e
  cases e
  exact WFTz_relabel none _ t h n

/-- every element a constructor builds (`AdvancedTag(name, attrList, isSelfClosing)`) is in the closed domain -/
theorem constructed_in_domain (oid uid : Nat) (name : Str) (l : List (Str × Option Str)) (sc : Bool) (ow : Option Nat)
    (c : DN) (e : DN.mk oid uid name l sc ow = some c) : WFTz c := WFTz_mk oid uid name l sc ow c e

/-- **C17a/b after any history of edits.**  Start from a tree in the closed domain (constructed, parsed,
    unpickled, cloned), apply any sequence of edits with admissible operands: pickling the result never raises and
    yields a faithful copy — same serialisation, same uids, same per-element view, fresh objects — which is again
    in the closed domain. -/
theorem unpickle_after_history (ρ : Option Nat → Option Nat) (t : DN) (h : WFTz t)
    (es : List (Nat × Nat × Nat × Edit)) (he : ∀ x ∈ es, EditOK x.2.2.2) (n : Nat) :
    ∃ t', roundTrip ρ (applyHistory es t) n = some (t', n + DN.size (applyHistory es t)) ∧
      DN.html t' = DN.html (applyHistory es t) ∧
      DN.uids t' = DN.uids (applyHistory es t) ∧
      (DN.elems t').map elView = (DN.elems (applyHistory es t)).map elView ∧
      DN.oids t' = List.range' n (DN.size (applyHistory es t)) ∧
      WFTz t' := by
  have hw := (WFT_history es he t h).2
  obtain ⟨t', e, h1, h2, h3, h4, _⟩ := unpickle_faithful ρ (applyHistory es t) hw n
  exact ⟨t', e, h1, h2, h3, h4, unpickle_in_closed_domain ρ _ hw n t' _ e⟩

/-- reads on the original (pickling calls `getAttributesList()` on every element) keep `WFT` -/
theorem read_keeps_WFT (t : DN) (h : WFT t) : WFT (materialise t) := WFT_materialise t h

/-! ### the two string round trips, exactly

  `wf_of_syntactic` asked for `Tok` (no white space at all in a class token) and `PropOK` (non-empty name and
  value).  Both are wider in the library; the exact shapes are `ClsOK` and `GoodDecl` + unique names. -/

/-- class lists: the round trip holds **exactly** for lists of non-empty tokens without a space whose first token
    does not start and whose last token does not end with white space (a tab inside a token, or at the inner ends,
    is fine) -/
theorem class_round_trip_iff (cls : List Str) : classTokens (className cls) = cls ↔ ClsOK cls := clsOK_iff cls

/-- style maps: the round trip holds **exactly** for maps with unique names whose declarations are `GoodDecl`
    (trimmed lower-case name without `:`/`;`, trimmed value without `;` — either may be EMPTY) -/
theorem style_round_trip_iff (sty : List (Str × Str)) :
    Pk.styleToDict (Pk.styleStr sty) = sty ↔ ((dkeys sty).Nodup ∧ ∀ q ∈ sty, Attrs.GoodDecl q) := by
  constructor
  · intro h; rw [← h]; exact goodDecl_styleToDict _
  · intro h; exact styleToDict_styleStr_wide sty h.1 h.2

/-- whatever is assigned, the stored data has the round-trip shape -/
theorem stored_class_round_trips (v : Str) : classTokens (className (classTokens v)) = classTokens v :=
  classTokens_idem v
theorem stored_style_round_trips (s : Str) : Pk.styleToDict (Pk.styleStr (Pk.styleToDict s)) = Pk.styleToDict s :=
  styleToDict_idem_pk s

/-- **`Attrs.WF` from purely syntactic conditions, exact form** (widens `wf_of_syntactic`: empty style values and
    names, white space other than the space inside class tokens) -/
theorem wf_iff_syntactic (a : Attrs) : Pk.Attrs.WF a ↔
    ((dkeys a.dict).Nodup ∧
     (∀ p ∈ a.dict, Pk.validAttrName p.1 = true ∧ lower p.1 = p.1) ∧
     (∀ p ∈ a.dict, (p.1 = sStyle → p.2 = DVal.style) ∧ (p.1 ≠ sStyle → p.2 ≠ DVal.style)) ∧
     (∀ p ∈ a.dict, boolStrAttrs.contains p.1 = true → p.1 ≠ sClass → ∃ s, p.2 = DVal.str s ∧ convBoolStr (some s) = s) ∧
     ClsOK a.cls ∧ (dkeys a.sty).Nodup ∧ ∀ q ∈ a.sty, Attrs.GoodDecl q) := by
  constructor
  · intro h
    exact ⟨h.nodup, h.names, h.styleKey, h.boolStr, (class_round_trip_iff _).mp h.cls,
      ((style_round_trip_iff _).mp h.sty).1, ((style_round_trip_iff _).mp h.sty).2⟩
  · rintro ⟨h1, h2, h3, h4, h5, h6, h7⟩
    exact ⟨h1, h2, h3, h4, (class_round_trip_iff _).mpr h5, (style_round_trip_iff _).mpr ⟨h6, h7⟩⟩

/-- the earlier description is a special case -/
theorem wf_of_syntactic_is_special (cls : List Str) (sty : List (Str × Str)) (hcls : ∀ t ∈ cls, Tok t)
    (hsty : ∀ q ∈ sty, PropOK q) : ClsOK cls ∧ ∀ q ∈ sty, Attrs.GoodDecl q :=
  ⟨clsOK_of_tok cls hcls, fun q hq => goodDecl_of_propOK q (hsty q hq)⟩

/-! the newly covered stores: an empty style value, an empty style name, a tab inside / at the inner end of a token -/
example : Pk.styleToDict (Pk.styleStr [(str "color", []), (str "width", str "5px")]) = [(str "color", []), (str "width", str "5px")] := by decide
example : Pk.styleToDict (Pk.styleStr [([], str "red"), (str "b", [])]) = [([], str "red"), (str "b", [])] := by decide
example : classTokens (className [str "a\tb", str "c\t", str "\td", str "e"]) = [str "a\tb", str "c\t", str "\td", str "e"] := by decide

/-! … and every excluded store really breaks the round trip (so the copy differs from the original).  The library
    can hold each of them:
    * a token starting / ending with a tab at an END of the list: `tag.className = "a \tb"; tag.removeClass("a")`
      leaves `['\tb']`, the pickled copy has `['b']` (`stripWordsOnly` splits at spaces, `strip` eats the tab);
    * a token with a space or an empty token: only by writing `_classNames` directly (every public mutator splits);
    * a style value with `;` or with white space at an end: `tag.style.background = "url(a;b)"`, `tag.style.color = " red"`
      (the property setter stores the text verbatim; the copy goes through `styleToDict`);
    * an upper-case / untrimmed / `:`-containing / repeated style name: only by writing `_styleDict` directly
      (`setProperty` and attribute access lower-case and dash the name). -/
example : classTokens (className [str "\tb"]) = [str "b"] := by decide
example : classTokens (className [str "a", str "b\t"]) = [str "a", str "b"] := by decide
example : classTokens (className [str "a b"]) = [str "a", str "b"] := by decide
example : classTokens (className [[], str "a"]) = [str "a"] := by decide
example : Pk.styleToDict (Pk.styleStr [(str "background", str "url(a;b)")]) = [(str "background", str "url(a")] := by decide
example : Pk.styleToDict (Pk.styleStr [(str "color", str " red")]) = [(str "color", str "red")] := by decide
example : Pk.styleToDict (Pk.styleStr [(str "Color", str "red")]) = [(str "color", str "red")] := by decide
example : Pk.styleToDict (Pk.styleStr [(str "a:b", str "x")]) = [(str "a", str "b: x")] := by decide
example : Pk.styleToDict (Pk.styleStr [(str "a", str "x"), (str "a", str "y")]) = [(str "a", str "y")] := by decide

/-! ### non-vacuity and the boundary of the domain -/

/-- a small document: `<div id="x" class="a b" style="color: red">t<br /></div>` as the constructor builds it -/
def sample : DN :=
  .el 0 0 (str "div")
    ⟨[(str "id", .str (str "x")), (sStyle, .style)], [str "a", str "b"], [(str "color", str "red")]⟩ false
    [.text [], .text (str "t"),
     .el 1 1 (str "br") Pk.Attrs.empty true [.text []] [] [] (some 0) none]
    [1] (str "t") none none

example : DN.html sample = str "<div id=\"x\" style=\"color: red\" class=\"a b\" >t<br /></div>" := by decide

/-- the hypotheses of the theorems are satisfiable by a tree with class, style, text and a void child … -/
theorem wf_empty : Pk.Attrs.WF Pk.Attrs.empty :=
  ⟨by decide, by decide, by decide, fun p hp => by simp [Pk.Attrs.empty] at hp, by decide, by decide⟩

theorem sample_wf : WFT sample := by
  unfold sample
  simp only [WFT, WFTL]
  refine ⟨by decide, ⟨by decide, by decide, by decide, ?_, by decide, by decide⟩, by unfold Pk.Attrs.ClassLast; decide,
    trivial, trivial, ⟨by decide, wf_empty, by unfold Pk.Attrs.ClassLast; decide, trivial, trivial⟩, trivial⟩
  intro p hp hb
  simp only [List.mem_cons, List.mem_nil_iff, or_false] at hp
  rcases hp with rfl | rfl <;> exact absurd hb (by decide)

/-- … and its copy is computed, not assumed: same serialisation, new objects 2 and 3. -/
example : (roundTrip id sample 2).map (fun r => (DN.html r.1, DN.oids r.1, DN.uids r.1, r.2)) =
    some (str "<div id=\"x\" style=\"color: red\" class=\"a b\" >t<br /></div>", [2, 3], [0, 1], 4) := by decide


/-! #### non-vacuity of the closure theorems -/

theorem sample_wfz : WFTz sample := by
  unfold sample
  simp only [WFTz, WFTzL]
  refine ⟨by decide, (sample_wf_attrs), ⟨by decide, fun _ => by decide⟩, trivial, trivial,
    ⟨by decide, wf_empty, Pk.Attrs.classLazy_empty, trivial, trivial⟩, trivial⟩
where
  sample_wf_attrs : Pk.Attrs.WF ⟨[(str "id", .str (str "x")), (sStyle, .style)], [str "a", str "b"], [(str "color", str "red")]⟩ := by
    refine ⟨by decide, by decide, by decide, ?_, by decide, by decide⟩
    intro p hp hb
    simp only [List.mem_cons, List.mem_nil_iff, or_false] at hp
    rcases hp with rfl | rfl <;> exact absurd hb (by decide)

/-- a history touching every edit kind: a mixed-case new attribute, a class value with a tab and several spaces, a
    style text with an empty value and a duplicate, `spellcheck`, a removed attribute, a new class token, a new
    child, text, a removed child -/
def sampleHistory : List (Nat × Nat × Nat × Edit) :=
  [(0, 0, 0, .setAttribute (str "Title") (str "T")),
   (0, 0, 0, .setAttribute (str "class") (str "  x\ty   z ")),
   (1, 0, 0, .setAttribute (str "style") (str "color: ; W:1;color:blue")),
   (1, 0, 0, .setAttribute (str "spellcheck") (str "Nope")),
   (0, 0, 0, .removeAttribute (str "id")),
   (0, 0, 0, .addClass (str "q")),
   (0, 7, 7, .appendChild (str "P")),
   (7, 0, 0, .appendText (str "tail")),
   (0, 0, 0, .removeChild 0)]

theorem sampleHistory_ok : ∀ x ∈ sampleHistory, EditOK x.2.2.2 := by
  intro x hx
  simp only [sampleHistory, List.mem_cons, List.mem_nil_iff, or_false] at hx
  rcases hx with rfl | rfl | rfl | rfl | rfl | rfl | rfl | rfl | rfl <;> try trivial
  exact Pk.Attrs.tokArg_of_tok _ ⟨by decide, by decide⟩

example : DN.html (applyHistory sampleHistory sample)
    = str "<div style=\"color: red\" title=\"T\" class=\"x\ty z q\" >t<p >tail</p></div>" := by decide

/-- the edited document is still in the domain, and its pickled copy is the faithful one (computed: same text,
    new objects) -/
example : WFT (applyHistory sampleHistory sample) := (WFT_history _ sampleHistory_ok _ sample_wfz).2
example : (roundTrip id (applyHistory sampleHistory sample) 10).map (fun r => (DN.html r.1, DN.oids r.1, DN.uids r.1, r.2)) =
    some (str "<div style=\"color: red\" title=\"T\" class=\"x\ty z q\" >t<p >tail</p></div>", [10, 11], [0, 7], 12) := by decide

/-- attribute level: a history on the sample's store -/
example : Pk.Attrs.WF ([AEdit.set (str "STYLE") (some (str "a:;b: 2 ")), .addClass (str "n"), .del (str "id"), .set (str "x-y") none].foldl
    AEdit.apply ⟨[(str "id", .str (str "x")), (sStyle, .style)], [str "a", str "b"], [(str "color", str "red")]⟩) :=
  (WF_history _ (by
    intro e he
    simp only [List.mem_cons, List.mem_nil_iff, or_false] at he
    rcases he with rfl | rfl | rfl | rfl
    · show Pk.validAttrName (lower (str "STYLE")) = true; decide
    · exact Pk.Attrs.tokArg_of_tok _ ⟨by decide, by decide⟩
    · trivial
    · show Pk.validAttrName (lower (str "x-y")) = true; decide) _ sample_wfz.sample_wf_attrs).1

/-- the operand condition of `addClass` is needed: a token with a space is stored as given by the model's
    one-token `addClass` and comes back as two -/
example : classTokens (className (Pk.Attrs.addClass Pk.Attrs.empty (str "a b")).cls) ≠ (Pk.Attrs.addClass Pk.Attrs.empty (str "a b")).cls := by decide

/-- a read ends the laziness (the raw dict now holds `class`): from here on a NEW attribute lands behind `class` —
    the known finding `classLast_needed` -/
theorem read_ends_laziness : ¬ Pk.Attrs.ClassLazy (Pk.Attrs.handle ⟨[], [str "a"], []⟩) := by
  intro h; exact h.1 (by decide)

/-- Why `ClassLast` is a hypothesis: a store in which an attribute was added after `class` had been
    synchronised (`class` then `title`) is rebuilt with `class` last — same mapping, different order. -/
def lateAttr : Attrs := ⟨[(sClass, .str (str "a")), (str "title", .str (str "new"))], [str "a"], []⟩

theorem classLast_needed :
    Pk.Attrs.WF lateAttr ∧ ¬ Pk.Attrs.ClassLast lateAttr ∧
    Pk.Attrs.startTag (str "div") lateAttr false = str "<div class=\"a\" title=\"new\" >" ∧
    (Pk.Attrs.init (Pk.Attrs.attrsList lateAttr)).map (fun a => Pk.Attrs.startTag (str "div") a false)
      = some (str "<div title=\"new\" class=\"a\" >") := by
  refine ⟨⟨by decide, by decide, by decide, ?_, by decide, by decide⟩, by unfold Pk.Attrs.ClassLast; decide, by decide, by decide⟩
  intro p hp hb
  simp only [lateAttr, List.mem_cons, List.mem_nil_iff, or_false] at hp
  rcases hp with rfl | rfl <;> exact absurd hb (by decide)

end AHP.C17
