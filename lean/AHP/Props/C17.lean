/- C17 — property theorems (stub: the property is not claimed yet). -/
namespace AHP.C17
end AHP.C17
