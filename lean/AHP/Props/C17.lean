/-
  C17 — Pickled and cloned documents are faithful, independent copies.

  Property theorems only.  Model: AHP/Model/Pickle.lean (the definitions the driver executes); lemmas and the
  specification function `relabel` (the copy as it should be): AHP/Lemmas/Pickle.lean.

  Domain predicate `WFT t` (decidable data conditions, the analogue of "a C01 tree"): every element has a
  lower-case name and a well-formed attribute store (`Attrs.WF`: unique lower-case valid keys, the `style` key
  holds the style object, `spellcheck`-like keys hold a normalised string, and the two string round trips
  `classTokens (className cls) = cls`, `styleToDict (styleStr sty) = sty` hold of the stored data) in which
  `class`, once synchronised, is the last entry (`Attrs.ClassLast`; see `classLast_needed` for why).
  `ScOK t` is the part of C04's invariant a copy can only inherit ("self-closing ⇒ no content").

  Object identity is the `oid`; "fresh" means `n` is above every object id in use, as the allocator guarantees.
  Python-level aliasing (weak references, pickle memo, protocols) is outside a value model: the oracle of the
  correspondence check covers it on the real objects.
-/
import AHP.Lemmas.Pickle
import AHP.Lemmas.PickleStr
import AHP.Lemmas.PickleIdx
namespace AHP.C17
open AHP AHP.Pk

/-! ### C17a — `pickle.loads(pickle.dumps(t))` of a detached tree -/

/-- Unpickling never raises on a well-formed tree and yields exactly the specified copy. -/
theorem unpickle_eq (ρ : Option Nat → Option Nat) (t : DN) (h : WFT t) (n : Nat) :
    roundTrip ρ t n = some ((relabel none (ρ (DN.ownerOf t)) t n).1, n + DN.size t) := by
  unfold roundTrip
  rw [load_spec ρ t h n, ← relabel_snd none (ρ (DN.ownerOf t)) t n]

/-- C17a, all clauses for a tree: the copy exists, consumes exactly `size t` fresh objects, serialises
    identically, has the same uids element for element and the same per-element name / attribute list /
    self-closing flag, is made of the fresh objects `n, n+1, …` in document order (hence pairwise distinct and
    none of them an object of the original), and is itself well-formed. -/
theorem unpickle_faithful (ρ : Option Nat → Option Nat) (t : DN) (h : WFT t) (n : Nat) :
    ∃ t', roundTrip ρ t n = some (t', n + DN.size t) ∧
      DN.html t' = DN.html t ∧
      DN.uids t' = DN.uids t ∧
      (DN.elems t').map elView = (DN.elems t).map elView ∧
      DN.oids t' = List.range' n (DN.size t) ∧
      WFT t' := by
  refine ⟨_, unpickle_eq ρ t h n, html_relabel _ _ t h n, uids_relabel _ _ t n, views_relabel _ _ t h n,
    oids_relabel _ _ t n, WFT_relabel _ _ t h n⟩

/-- C17a, links: in the copy every `parentNode` is the containing element *of the copy*, the root has none,
    `children` and `text` mirror the block list, and every `ownerDocument` is what the root's reference
    resolves to — C04's invariant, given that the original kept "self-closing ⇒ no content". -/
theorem unpickle_links (ρ : Option Nat → Option Nat) (t : DN) (h : WFT t) (hs : ScOK t) (n : Nat) (t' : DN) (m : Nat)
    (e : roundTrip ρ t n = some (t', m)) : OK none (ρ (DN.ownerOf t)) t' := by
  rw [unpickle_eq ρ t h n] at e
  cases e
  exact OK_relabel none _ t hs n

/-- the objects of the copy are pairwise distinct -/
theorem unpickle_oids_nodup (ρ : Option Nat → Option Nat) (t : DN) (h : WFT t) (n : Nat) (t' : DN) (m : Nat)
    (e : roundTrip ρ t n = some (t', m)) : (DN.oids t').Nodup := by
  rw [unpickle_eq ρ t h n] at e
  cases e
  rw [oids_relabel]; exact List.nodup_range'

/-- C17b, disjointness: no object of the copy is an object of the original (or of anything allocated before). -/
theorem unpickle_disjoint (ρ : Option Nat → Option Nat) (t : DN) (h : WFT t) (n : Nat) (t' : DN) (m : Nat)
    (e : roundTrip ρ t n = some (t', m)) (used : List Nat) (hfresh : ∀ o ∈ used, o < n) :
    ∀ o ∈ DN.oids t', o ∉ used := by
  rw [unpickle_eq ρ t h n] at e
  cases e
  intro o ho hu
  rw [oids_relabel, List.mem_range'_1] at ho
  have := hfresh o hu
  omega

/-- C17b, closure: the copy can be pickled again, with any protocol's memo `ρ'`; the second copy is as
    faithful to the original as the first. -/
theorem repickle (ρ ρ' : Option Nat → Option Nat) (t : DN) (h : WFT t) (n : Nat) (t' : DN) (m : Nat)
    (e : roundTrip ρ t n = some (t', m)) :
    ∃ t'', roundTrip ρ' t' m = some (t'', m + DN.size t') ∧ DN.html t'' = DN.html t ∧ DN.uids t'' = DN.uids t := by
  obtain ⟨t1, e1, h1, h2, _, _, h5⟩ := unpickle_faithful ρ t h n
  rw [e1] at e; cases e
  obtain ⟨t2, e2, g1, g2, _, _, _⟩ := unpickle_faithful ρ' t' h5 (n + DN.size t)
  exact ⟨t2, e2, g1.trans h1, g2.trans h2⟩

/-! ### C17b — edits are addressed to objects: one side's edit finds nothing to change on the other -/

mutual
theorem mapAt_not_mem (o : Nat) (f : DN → DN) (t : DN) (h : o ∉ DN.oids t) : mapAt o f t = t := by
  match t with
  | .text s => simp [mapAt]
  | .el o1 u nm a sc blocks ch tx p ow =>
    simp only [DN.oids, List.mem_cons, not_or] at h
    have h1 : ¬ o1 = o := fun e => h.1 e.symm
    simp only [mapAt, h1, if_false]
    rw [mapAtL_not_mem o f blocks h.2]
theorem mapAtL_not_mem (o : Nat) (f : DN → DN) (bs : List DN) (h : o ∉ DN.oidsL bs) : mapAtL o f bs = bs := by
  match bs with
  | [] => simp [mapAtL]
  | b :: bs =>
    simp only [DN.oidsL, List.mem_append, not_or] at h
    simp only [mapAtL]
    rw [mapAt_not_mem o f b h.1, mapAtL_not_mem o f bs h.2]
end

/-- An edit of any kind on an element of the copy leaves the original exactly as it was … -/
theorem edit_copy_leaves_original (ρ : Option Nat → Option Nat) (t : DN) (h : WFT t) (n : Nat) (t' : DN) (m : Nat)
    (e : roundTrip ρ t n = some (t', m)) (hfresh : ∀ o ∈ DN.oids t, o < n)
    (target : Nat) (ht : target ∈ DN.oids t') (oid uid : Nat) (ed : Edit) :
    applyEdit target oid uid ed t = t := by
  have hd := unpickle_disjoint ρ t h n t' m e (DN.oids t) hfresh target ht
  cases ed <;> simp only [applyEdit] <;> (try split) <;> first | exact mapAt_not_mem _ _ _ hd | rfl

/-- … and an edit on an element of the original leaves the copy exactly as it was. -/
theorem edit_original_leaves_copy (ρ : Option Nat → Option Nat) (t : DN) (h : WFT t) (n : Nat) (t' : DN) (m : Nat)
    (e : roundTrip ρ t n = some (t', m)) (hfresh : ∀ o ∈ DN.oids t, o < n)
    (target : Nat) (ht : target ∈ DN.oids t) (oid uid : Nat) (ed : Edit) :
    applyEdit target oid uid ed t' = t' := by
  have hd : target ∉ DN.oids t' := fun hm => unpickle_disjoint ρ t h n t' m e (DN.oids t) hfresh target hm ht
  cases ed <;> simp only [applyEdit] <;> (try split) <;> first | exact mapAt_not_mem _ _ _ hd | rfl

/-! ### C17a for parsers -/

theorem inner_relabel (par own : Option Nat) (t : DN) (h : WFT t) (n : Nat) : DN.inner (relabel par own t n).1 = DN.inner t := by
  cases t with
  | text s => simp [relabel, DN.inner]
  | el o u nm a sc blocks ch tx p ow =>
    simp only [WFT] at h
    simp only [relabel, DN.inner]
    rw [htmlL_relabelL _ _ blocks h.2.2.2]

/-- Unpickling a parser: a new parser object `n` that kept the doctype, has its `reset` hook, serialises
    identically; its root is the faithful copy of the root made of the next fresh objects, with the same uids,
    and — when the original's root was owned by the original parser — every element of the copy is owned by the
    *new* parser and linked inside the copy. -/
theorem parser_unpickle (p : Parser) (r : DN) (hr : p.root = some r) (h : WFT r) (n : Nat) :
    ∃ p' r', p.roundTrip n = some (p', n + 1 + DN.size r) ∧
      p'.oid = n ∧ p'.doctype = p.doctype ∧ p'.hasReset = true ∧ p'.html = p.html ∧
      p'.root = some r' ∧ DN.uids r' = DN.uids r ∧ DN.oids r' = List.range' (n + 1) (DN.size r) ∧ WFT r' ∧
      (DN.ownerOf r = some p.oid → ScOK r → OK none (some n) r') := by
  have e := load_spec (fun o => if o = some p.oid then some n else o) r h (n + 1)
  refine ⟨{ oid := n, root := some (relabel none ((fun o => if o = some p.oid then some n else o) (DN.ownerOf r)) r (n + 1)).1,
            doctype := p.doctype, hasReset := true,
            index := p.index.map (Index.remap ((DN.oids r).zip
              (DN.oids (relabel none ((fun o => if o = some p.oid then some n else o) (DN.ownerOf r)) r (n + 1)).1))) },
          (relabel none ((fun o => if o = some p.oid then some n else o) (DN.ownerOf r)) r (n + 1)).1, ?_, ?_⟩
  · unfold Parser.roundTrip
    simp only [hr, e]
    rw [relabel_snd]
  · refine ⟨rfl, rfl, rfl, ?_, rfl, uids_relabel _ _ r (n + 1), oids_relabel _ _ r (n + 1), WFT_relabel _ _ r h (n + 1), ?_⟩
    · unfold Parser.html
      simp only [hr]
      cases r with
      | text s => simp [relabel]
      | el o u nm a sc blocks ch tx pp ow =>
        have hi := fun own => inner_relabel none own (.el o u nm a sc blocks ch tx pp ow) h (n + 1)
        have hh := fun own => html_relabel none own (.el o u nm a sc blocks ch tx pp ow) h (n + 1)
        simp only [relabel] at hi hh ⊢
        rw [hi, hh]
    · intro ho hs
      simp only [ho, if_true]
      exact OK_relabel none (some n) r hs (n + 1)

/-- A parser that has parsed nothing pickles to a parser that has parsed nothing (and can parse). -/
theorem parser_unpickle_empty (p : Parser) (hr : p.root = none) (n : Nat) :
    ∃ p', p.roundTrip n = some (p', n + 1) ∧ p'.root = none ∧ p'.hasReset = true ∧ p'.doctype = p.doctype := by
  refine ⟨{ p with oid := n, hasReset := true }, ?_, hr, rfl, rfl⟩
  unfold Parser.roundTrip
  simp [hr]

/-- Pickling leaves the original parser's `reset` hook in place (the repaired `__getstate__`). -/
theorem getstate_keeps_reset (p : Parser) : p.afterGetstate.hasReset = p.hasReset := rfl

/-! #### working indexes: references are carried to the same document position of the copy -/

theorem lookup_zip_range' (xs : List Nat) (s x : Nat) (h : x ∈ xs) :
    (xs.zip (List.range' s xs.length)).lookup x = some (s + xs.idxOf x) := by
  induction xs generalizing s with
  | nil => simp at h
  | cons y ys ih =>
    simp only [List.length_cons, List.range'_succ, List.zip_cons_cons, List.lookup_cons]
    by_cases e : x = y
    · subst e; simp
    · have hx : x ∈ ys := by simpa [e] using h
      have e' : (x == y) = false := by simp [e]
      have e2 : (y == x) = false := by rw [beq_eq_false_iff_ne]; exact fun h => e h.symm
      rw [e', ih (s + 1) hx]
      simp [List.idxOf_cons, e2]
      omega

mutual
theorem length_oids (t : DN) : (DN.oids t).length = DN.size t := by
  match t with
  | .text s => simp [DN.oids, DN.size]
  | .el o u nm a sc blocks ch tx p ow => simp only [DN.oids, DN.size, List.length_cons]; rw [length_oidsL]; omega
theorem length_oidsL (bs : List DN) : (DN.oidsL bs).length = DN.sizeL bs := by
  match bs with
  | [] => simp [DN.oidsL, DN.sizeL]
  | b :: bs => simp only [DN.oidsL, DN.sizeL, List.length_append]; rw [length_oids, length_oidsL]
end

/-- An index entry (or any other object reference held by the parser) that pointed at the `k`-th element of
    the original document points, in the unpickled parser, at the `k`-th element of the copy: the pickle memo
    `remap` sends it to the object `n + 1 + k`, which is `oids r'` at position `k`. -/
theorem index_reference_carried (r : DN) (h : WFT r) (own : Option Nat) (n : Nat) (x : Nat) (hx : x ∈ DN.oids r) :
    let r' := (relabel none own r (n + 1)).1
    remap ((DN.oids r).zip (DN.oids r')) x = n + 1 + (DN.oids r).idxOf x ∧
    (DN.oids r')[(DN.oids r).idxOf x]? = some (n + 1 + (DN.oids r).idxOf x) := by
  intro r'
  have ho : DN.oids r' = List.range' (n + 1) (DN.oids r).length := by
    rw [length_oids]; exact oids_relabel none own r (n + 1)
  constructor
  · unfold remap
    rw [ho, lookup_zip_range' _ _ _ hx]
  · rw [ho]
    have : (DN.oids r).idxOf x < (DN.oids r).length := List.idxOf_lt_length_of_mem hx
    simp [List.getElem?_range', this]

/-- **Working indexes (IdxInv)**: if the index of the original parser is the index of its document — as after any
    parse or `reindex()` — then the index of the unpickled parser is the index of *its* document: every map, every
    key, every list in the same order, every entry an element of the copy. -/
theorem indexed_parser_unpickle (p : Parser) (r : DN) (hr : p.root = some r) (h : WFT r) (hn : (DN.oids r).Nodup)
    (ids names classes tags : Bool) (attrNames : List Str)
    (hix : p.index = some (indexDoc ids names classes tags attrNames r)) (n : Nat) :
    ∃ p' r', p.roundTrip n = some (p', n + 1 + DN.size r) ∧ p'.root = some r' ∧
      p'.index = some (indexDoc ids names classes tags attrNames r') := by
  have e := load_spec (fun o => if o = some p.oid then some n else o) r h (n + 1)
  refine ⟨{ oid := n, root := some (relabel none ((fun o => if o = some p.oid then some n else o) (DN.ownerOf r)) r (n + 1)).1,
            doctype := p.doctype, hasReset := true,
            index := p.index.map (Index.remap ((DN.oids r).zip
              (DN.oids (relabel none ((fun o => if o = some p.oid then some n else o) (DN.ownerOf r)) r (n + 1)).1))) },
          (relabel none ((fun o => if o = some p.oid then some n else o) (DN.ownerOf r)) r (n + 1)).1, ?_, rfl, ?_⟩
  · unfold Parser.roundTrip
    simp only [hr, e]
    rw [relabel_snd]
  · simp only [hix, Option.map_some]
    rw [remap_indexDoc ids names classes tags attrNames r hn]

/-! ### C17c — cloneNode / copy.copy / copy.deepcopy -/

/-- The clone is built by the constructor from the original's name, attribute list and self-closing flag:
    it is childless (one empty text block, no children, empty text), detached (no parent, no owner), carries
    the fresh identities it was given and the rebuilt attribute store. -/
theorem clone_eq (o u : Nat) (nm : Str) (a : Attrs) (sc : Bool) (blocks : List DN) (ch : List Nat) (tx : Str)
    (p ow : Option Nat) (hn : lower nm = nm) (ha : Attrs.WF a) (oid' uid' : Nat) :
    clone oid' uid' (.el o u nm a sc blocks ch tx p ow) =
      some (.el oid' uid' nm (Attrs.fresh a) (if !sc && voidTags.contains nm then true else sc) [.text []] [] [] none none) := by
  simp only [clone, DN.mk, Attrs.init_attrsList a ha, hn]

/-- … unequal to the original under `==` exactly because its uid is fresh. -/
theorem clone_not_eq (o u : Nat) (nm : Str) (a : Attrs) (sc : Bool) (blocks : List DN) (ch : List Nat) (tx : Str)
    (p ow : Option Nat) (hn : lower nm = nm) (ha : Attrs.WF a) (oid' uid' : Nat) (hfresh : uid' ≠ u) (c : DN)
    (e : clone oid' uid' (.el o u nm a sc blocks ch tx p ow) = some c) :
    tagEq (.el o u nm a sc blocks ch tx p ow) c = false ∧ tagEq c (.el o u nm a sc blocks ch tx p ow) = false := by
  rw [clone_eq o u nm a sc blocks ch tx p ow hn ha] at e
  cases e
  simp [tagEq, hfresh]
  exact fun h => hfresh h.symm

/-- … tag-equal to its original in both directions (`isTagEqual`: same name, same attribute names, same value
    per name — whatever the position of `class`). -/
theorem clone_tag_equal (o u : Nat) (nm : Str) (a : Attrs) (sc : Bool) (blocks : List DN) (ch : List Nat) (tx : Str)
    (p ow : Option Nat) (hn : lower nm = nm) (ha : Attrs.WF a) (oid' uid' : Nat) (c : DN)
    (e : clone oid' uid' (.el o u nm a sc blocks ch tx p ow) = some c) :
    isTagEqual (.el o u nm a sc blocks ch tx p ow) c = true ∧ isTagEqual c (.el o u nm a sc blocks ch tx p ow) = true := by
  rw [clone_eq o u nm a sc blocks ch tx p ow hn ha] at e
  cases e
  simp only [isTagEqual, Bool.and_eq_true, beq_self_eq_true, true_and, List.all_eq_true, List.contains_iff_mem,
    Attrs.getForEq_fresh a ha, Attrs.GVal.eq_refl, implies_true, and_true]
  refine ⟨⟨fun k hk => ?_, fun k hk => ?_⟩, ⟨fun k hk => ?_, fun k hk => ?_⟩⟩
  · exact (Attrs.mem_keys_handle_fresh a ha k).mpr hk
  · exact (Attrs.mem_keys_handle_fresh a ha k).mp hk
  · exact (Attrs.mem_keys_handle_fresh a ha k).mp hk
  · exact (Attrs.mem_keys_handle_fresh a ha k).mpr hk

/-- … and renders the same start tag (name and attributes) whenever the original's `class` is in its
    canonical last position — always, up to the order of attributes (`clone_tag_equal`). -/
theorem clone_same_start_tag (nm : Str) (a : Attrs) (sc : Bool) (ha : Attrs.WF a) (hl : Attrs.ClassLast a) :
    Attrs.startTag nm (Attrs.fresh a) sc = Attrs.startTag nm a sc := Attrs.startTag_fresh nm a sc ha hl

/-! ### the two string round trips, from a syntactic description of the stored data -/

/-- class tokens that are non-empty and free of white space survive `' '.join` → `stripWordsOnly` → `split(' ')` -/
theorem class_round_trip (cls : List Str) (h : ∀ t ∈ cls, Tok t) : classTokens (className cls) = cls :=
  classTokens_className cls h

/-- style maps with unique names whose properties are `PropOK` (lower-case non-empty name without `:`/`;` and
    without white space at its ends; non-empty value without `;` and without white space at its ends) survive
    `_asStr` → `styleToDict` -/
theorem style_round_trip (sty : List (Str × Str)) (h : ∀ q ∈ sty, PropOK q) (hn : (dkeys sty).Nodup) :
    styleToDict (styleStr sty) = sty :=
  styleToDict_styleStr sty h hn

/-- hence `Attrs.WF` follows from purely syntactic conditions on the store -/
theorem wf_of_syntactic (a : Attrs) (hn : (dkeys a.dict).Nodup)
    (hnames : ∀ p ∈ a.dict, validAttrName p.1 = true ∧ lower p.1 = p.1)
    (hstyle : ∀ p ∈ a.dict, (p.1 = sStyle → p.2 = DVal.style) ∧ (p.1 ≠ sStyle → p.2 ≠ DVal.style))
    (hbool : ∀ p ∈ a.dict, boolStrAttrs.contains p.1 = true → p.1 ≠ sClass → ∃ s, p.2 = DVal.str s ∧ convBoolStr (some s) = s)
    (hcls : ∀ t ∈ a.cls, Tok t) (hsty : ∀ q ∈ a.sty, PropOK q) (hsn : (dkeys a.sty).Nodup) : Attrs.WF a :=
  ⟨hn, hnames, hstyle, hbool, class_round_trip a.cls hcls, style_round_trip a.sty hsty hsn⟩

/-! ### non-vacuity and the boundary of the domain -/

/-- a small document: `<div id="x" class="a b" style="color: red">t<br /></div>` as the constructor builds it -/
def sample : DN :=
  .el 0 0 (str "div")
    ⟨[(str "id", .str (str "x")), (sStyle, .style)], [str "a", str "b"], [(str "color", str "red")]⟩ false
    [.text [], .text (str "t"),
     .el 1 1 (str "br") Attrs.empty true [.text []] [] [] (some 0) none]
    [1] (str "t") none none

example : DN.html sample = str "<div id=\"x\" style=\"color: red\" class=\"a b\" >t<br /></div>" := by decide

/-- the hypotheses of the theorems are satisfiable by a tree with class, style, text and a void child … -/
theorem wf_empty : Attrs.WF Attrs.empty :=
  ⟨by decide, by decide, by decide, fun p hp => by simp [Attrs.empty] at hp, by decide, by decide⟩

theorem sample_wf : WFT sample := by
  unfold sample
  simp only [WFT, WFTL]
  refine ⟨by decide, ⟨by decide, by decide, by decide, ?_, by decide, by decide⟩, by unfold Attrs.ClassLast; decide,
    trivial, trivial, ⟨by decide, wf_empty, by unfold Attrs.ClassLast; decide, trivial, trivial⟩, trivial⟩
  intro p hp hb
  simp only [List.mem_cons, List.mem_nil_iff, or_false] at hp
  rcases hp with rfl | rfl <;> exact absurd hb (by decide)

/-- … and its copy is computed, not assumed: same serialisation, new objects 2 and 3. -/
example : (roundTrip id sample 2).map (fun r => (DN.html r.1, DN.oids r.1, DN.uids r.1, r.2)) =
    some (str "<div id=\"x\" style=\"color: red\" class=\"a b\" >t<br /></div>", [2, 3], [0, 1], 4) := by decide

/-- Why `ClassLast` is a hypothesis: a store in which an attribute was added after `class` had been
    synchronised (`class` then `title`) is rebuilt with `class` last — same mapping, different order. -/
def lateAttr : Attrs := ⟨[(sClass, .str (str "a")), (str "title", .str (str "new"))], [str "a"], []⟩

theorem classLast_needed :
    Attrs.WF lateAttr ∧ ¬ Attrs.ClassLast lateAttr ∧
    Attrs.startTag (str "div") lateAttr false = str "<div class=\"a\" title=\"new\" >" ∧
    (Attrs.init (Attrs.attrsList lateAttr)).map (fun a => Attrs.startTag (str "div") a false)
      = some (str "<div title=\"new\" class=\"a\" >") := by
  refine ⟨⟨by decide, by decide, by decide, ?_, by decide, by decide⟩, by unfold Attrs.ClassLast; decide, by decide, by decide⟩
  intro p hp hb
  simp only [lateAttr, List.mem_cons, List.mem_nil_iff, or_false] at hp
  rcases hp with rfl | rfl <;> exact absurd hb (by decide)

end AHP.C17
