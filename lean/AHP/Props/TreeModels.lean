/-
  TreeModels — the six models of the document tree are consistent with each other.

  The tree is modelled by the groups that built different properties, each tied to the library by its own
  correspondence stream:

    (1) `AHP.Node`            Model/Tree.lean + Builder.lean   what the parser builds; `Node.html`, `htmlL`, `docHTML`   (C01–C03, C13)
    (2) `AHP.Dom.DN`/`Meta`   Model/Dom.lean + DomView.lean    cached fields, mutators, `outerHTML`/`innerHTML`         (C04, C05, C20)
    (3) `AHP.Pk.DN`           Model/Pickle.lean + Observe.lean attribute stores, object ids, `html`/`inner`, `elems`      (C16, C17)
    (4) `AHP.G3.Node`/`Elem`  Model/Search.lean                documents for the searches, `preorder`, `desc`           (C06, C07)
    (5) `AHP.XPath.Doc`       Model/XPath.lean                 pre-order tables with parent indices                      (C14)
    (6) `AHP.Fmt.Node`        Model/Format.lean                formatter trees and the model's own plain parser          (C11, C12)

  Property theorems only; definitions and lemmas in AHP/Lemmas/TreeModels{,Order,Build,Create,Walk,XPath}.lean
  (namespace `AHP.TM`).  The hub `TM.HN` is the common refinement: text | element with identity, name, the
  attribute store of model (1), self-closing flag, blocks.  The maps (all total, structural):

      Dom.DN --ofDom--> HN --toTree--> AHP.Node --toFmt--> Fmt.Node
                           --toPk p o--> Pk.DN         (cached fields recomputed from the blocks; `rawPk` copies them)
                           --g3--> List G3.Node        (elements only)
                           --toDoc--> XPath.Doc
      AHP.Node --number n--> HN                        (identities in creation order; `toTree ∘ number = id`)

  Everything is stated for EVERY tree (any size, depth, shape).  Side conditions, each shown to be needed:
    * `PlainDom`  (2)'s `getStartTag` prints the attribute list as it is; (1), (3), (4), (6) drop `class`/`style`
                  keys of the raw dict (they live in the class list / style map) and print a boolean attribute with
                  an empty value bare.  The library does the latter (`<input checked>`): `dom_differs_on_empty_boolean`.
    * `AttrInv`/`DictDom`  the attribute store is a Python dict (pairwise distinct keys) — AttrStores' invariant.
    * `LeadDeclOK`  a leading declaration is a doctype (`handle_decl` is only ever called for one):
                  `builders_differ_on_non_doctype_decl`.
  A former side condition is gone: the formatter model stripped with all of `str.isspace()`, model (1) with the ASCII
  part, so top-level U+00A0 text (and `class="\xa0a"`, AttrStores) told them apart and the library agreed with model
  (6) — this module found that (`builders_differ_on_nbsp_data`, condition `FeedDom`).  `isWs` of Model/Basic.lean is now
  all of `str.isspace()`; the two builders agree on every token list with `LeadDeclOK`, and the former counter-example is
  an instance of the agreement (`builders_agree_on_nbsp_data`).
-/
import AHP.Lemmas.TreeModelsCreate
import AHP.Lemmas.TreeModelsXPath
import AHP.Lemmas.RoundTrip
namespace AHP.TreeModels
open AHP AHP.TM AHP.AttrStores

/-! ### the maps lose nothing they should keep -/

/-- Every tree of model (1) is the image of a hub tree, whose identities are 0, 1, 2, … in document order. -/
theorem tree_is_image (t : Node) (n : Nat) :
    (number t n).1.toTree = t ∧ (number t n).1.ids = List.range' n (number t n).1.size :=
  ⟨toTree_number t n, (number_ids t n).1⟩

/-- sample: `<div id="a">x<p class>y</p><br/>z</div>` with uids 0, 1, 2 -/
def sampleTree : Node :=
  .elem "div".toList ⟨[("id".toList, some "a".toList)], [], []⟩ false
    [.text "x".toList, .elem "p".toList ⟨[], ["k".toList], []⟩ false [.text "y".toList],
     .elem "br".toList AttrState.empty true [], .text "z".toList]

def sampleHub : HN := (number sampleTree 0).1

example : sampleHub.ids = [0, 1, 2] ∧ sampleHub.toTree.html = "<div id=\"a\" >x<p class=\"k\" >y</p><br />z</div>".toList := by
  decide

/-- the DOM model's sample: the same document with cached fields (what `Dom.mk` builds), plain attributes -/
def sampleFN : Dom.FN :=
  .el "div".toList [("id".toList, some "a".toList)] false
    [.text "x".toList, .el "p".toList [("title".toList, some "say \"hi\"".toList)] false [.text "y".toList],
     .el "br".toList [] true [], .text "z".toList]

def sampleDom : Dom.DN := (Dom.mk none (some 7) sampleFN 0).1

theorem sampleDom_ok : Dom.OK none (some 7) sampleDom := Dom.mk_OK none (some 7) sampleFN 0
theorem sampleDom_plain : PlainDom sampleDom := by
  simp only [sampleDom, sampleFN, Dom.mk, Dom.mkL, PlainDom, PlainDomL, PlainAttrs, List.mem_cons, List.not_mem_nil,
    or_false, forall_eq, false_imp_iff, implies_true, and_true]
  decide
theorem sampleDom_dict : DictDom sampleDom := by
  simp [sampleDom, sampleFN, Dom.mk, Dom.mkL, DictDom, DictDomL, keys]

/-! ### serialisation agrees -/

/-- **`outerHTML` is one function**: the DOM model's `outerHTML` of any tree with plain attribute dicts, `Node.html`
    of its image in model (1), `DN.html` of its image in the pickle model (whatever parent / owner it hangs
    under) and `outer` of its image in the formatter model are the same string. -/
theorem outerHTML_agree (n : Dom.DN) (hp : PlainDom n) (hd : DictDom n) (p o : Option Nat) :
    Dom.outerHTML n = (ofDom n).toTree.html
    ∧ Pk.DN.html ((ofDom n).toPk p o) = (ofDom n).toTree.html
    ∧ Fmt.outer (toFmt (ofDom n).toTree) = (ofDom n).toTree.html :=
  ⟨outerHTML_toTree n hp, pk_html _ p o (attrInv_ofDom n hd), fmt_outer _ (attrInv_toTree _ (attrInv_ofDom n hd))⟩

/-- **`innerHTML` is one function** (of an element `m` with blocks `bs`). -/
theorem innerHTML_agree (m : Dom.Meta) (bs : List Dom.DN) (hp : PlainDom (.el m bs)) (hd : DictDom (.el m bs))
    (p o : Option Nat) :
    Dom.innerHTML m bs = (ofDom (.el m bs)).toTree.innerHTML
    ∧ Pk.DN.inner ((ofDom (.el m bs)).toPk p o) = (ofDom (.el m bs)).toTree.innerHTML := by
  refine ⟨?_, pk_inner _ p o (attrInv_ofDom _ hd) ⟨_, _, _, _, _, ofDom_el m bs⟩⟩
  simp only [plainDom_el] at hp
  simp only [Dom.innerHTML, ofDom_el, toTree_el, Node.innerHTML, innerL_toTree bs hp.2]

/-- The cached fields: under C04's invariant `OK` the element copied FIELD BY FIELD into the pickle model (`rawPk`:
    `children`, `text`, `parentNode`, `ownerDocument` as stored) is the image that recomputes them from the blocks
    — so the consistent element serialises alike in the three models, cached fields and all. -/
theorem consistent_element_agree (n : Dom.DN) (p o : Option Nat) (hok : Dom.OK p o n) (hp : PlainDom n)
    (hd : DictDom n) :
    rawPk n = (ofDom n).toPk p o ∧ Pk.DN.html (rawPk n) = Dom.outerHTML n ∧ Dom.outerHTML n = (ofDom n).toTree.html := by
  have h := outerHTML_agree n hp hd p o
  refine ⟨rawPk_eq_toPk n p o hok, ?_, h.1⟩
  rw [rawPk_eq_toPk n p o hok, h.2.1, h.1]

example : Dom.outerHTML sampleDom = "<div id=\"a\" >x<p title=\"say &quot;hi&quot;\" >y</p><br />z</div>".toList := by
  decide
example : rawPk sampleDom = (ofDom sampleDom).toPk none (some 7) :=
  (consistent_element_agree sampleDom none (some 7) sampleDom_ok sampleDom_plain sampleDom_dict).1

/-- The DOM model's own tree builder against the trees of model (1): what `Dom.mk` builds for a parsed node — the
    leading empty indent block, identities, cached fields — is, identities forgotten and text normalised (`Node.norm`:
    empty text dropped, adjacent text merged), the parsed node itself; and it serialises as that node. -/
theorem dom_constructor_builds_the_parsed_tree (f : Dom.FN) (p o : Option Nat) (n : Nat) :
    (ofDom (Dom.mk p o f n).1).toTree.norm = (fnNode f).norm
    ∧ (PlainDom (Dom.mk p o f n).1 → Dom.outerHTML (Dom.mk p o f n).1 = (fnNode f).html) := by
  refine ⟨mk_norm f p o n, fun hp => ?_⟩
  rw [outerHTML_toTree _ hp, ← html_norm, mk_norm f p o n, html_norm]

example : (fnNode sampleFN).html = "<div id=\"a\" >x<p title=\"say &quot;hi&quot;\" >y</p><br />z</div>".toList := by
  decide

/-- Beyond plain attributes (`class`, `style`, boolean strings — any store of model (1) that is a dict): the pickle
    model's and the formatter model's serialisers still print what model (1) prints.  AttrStores supplies the
    start tags. -/
theorem html_agree_any_store (h : HN) (hi : h.AttrInv) (p o : Option Nat) :
    Pk.DN.html (h.toPk p o) = h.toTree.html ∧ Fmt.outer (toFmt h.toTree) = h.toTree.html :=
  ⟨pk_html h p o hi, fmt_outer _ (attrInv_toTree h hi)⟩

example : sampleHub.AttrInv := by
  simp [sampleHub, sampleTree, number, numberL, HN.AttrInv, AttrInvL, AttrStores.Inv, keys, AttrState.empty]

/-- `PlainDom` is needed, and here the DOM model is the one that differs from the library (which prints a boolean
    attribute with an empty value bare: `<input checked />`); such names are outside the DOM model's alphabet
    (`Dom.specialAttr`). -/
theorem dom_differs_on_empty_boolean :
    Dom.startTag ⟨0, "input".toList, [("checked".toList, some [])], true, [], [], none, none⟩
        = "<input checked=\"\" />".toList
    ∧ startTag "input".toList (plainState [("checked".toList, some [])]) true = "<input checked />".toList := by
  decide

/-- … and a `class` key inside the raw dict is printed by the DOM model only (models (1), (3), (4), (6) keep class
    names in the class list, as the library does). -/
theorem dom_differs_on_class_key :
    Dom.startTag ⟨0, "p".toList, [("class".toList, some "k".toList)], false, [], [], none, none⟩
        = "<p class=\"k\" >".toList
    ∧ startTag "p".toList (plainState [("class".toList, some "k".toList)]) false = "<p >".toList := by
  decide

/-! ### traversal agrees -/

/-- **Document order is one list.**  For every DOM tree: the pre-order of its image in the search model, the
    object ids / uids / `getAllNodes` of its image in the pickle model, and the DOM model's own `ids`; the
    `getAllChildNodes` walk is that list without the element itself. -/
theorem document_order_agree (n : Dom.DN) (p o : Option Nat) :
    G3.uidsOf (G3.preorderL (ofDom n).g3) = Dom.ids n
    ∧ Pk.DN.oids ((ofDom n).toPk p o) = Dom.ids n
    ∧ Pk.DN.uids ((ofDom n).toPk p o) = Dom.ids n
    ∧ (Pk.DN.elems ((ofDom n).toPk p o)).map Pk.DN.oid = Dom.ids n
    ∧ Dom.desc n = (Dom.ids n).tail := by
  rw [← ids_ofDom]
  exact ⟨uids_g3 _, pk_oids _ p o, pk_uids _ p o, pk_elems_oids _ p o, by rw [ids_ofDom]; exact desc_eq_idsL n⟩

/-- … element by element, not only identity by identity: each model's traversal is the image of the hub's
    element list `subs` (every element with its parent's identity). -/
theorem elements_agree (h : HN) (p o : Option Nat) :
    G3.preorderL h.g3 = (h.subs p).flatMap (fun e => e.2.g3)
    ∧ Pk.DN.elems (h.toPk p o) = (h.subs p).map (fun e => e.2.toPk e.1 o)
    ∧ els h.toTree = (h.subs p).map (fun e => e.2.key) :=
  ⟨preorder_g3 h p, pk_elems h p o, els_toTree h p⟩

theorem dom_elements_agree (n : Dom.DN) (p : Option Nat) :
    (Dom.elems n).map elOf = ((ofDom n).subs p).map (·.2) := elems_ofDom n p

/-- The element of the search model (root of the image of an element): its `preorder`, `desc` and children are the
    DOM model's `ids`, `getAllChildNodes` and element blocks; `Distinct` (hypothesis of C06/C07) is the `nodup`
    clause of C04's invariant; the creation order C07 folds the index over is the document order. -/
theorem search_image (m : Dom.Meta) (bs : List Dom.DN) :
    let r := g3Root m.id m.name (plainState m.attrs) (ofDomL bs)
    (ofDom (.el m bs)).g3 = [r]
    ∧ G3.uidsOf r.preorder = Dom.ids (.el m bs)
    ∧ G3.uidsOf r.desc = Dom.descL bs
    ∧ G3.uidsOf r.kids = Dom.elemIds bs
    ∧ (r.Distinct ↔ (Dom.ids (.el m bs)).Nodup)
    ∧ (G3.creationOrder r).map (·.uid) = Dom.ids (.el m bs) := by
  have hids : Dom.ids (.el m bs) = m.id :: idsL (ofDomL bs) := by rw [← ids_ofDom]; simp
  refine ⟨by simp [g3Root], ?_, ?_, ?_, ?_, ?_⟩
  · rw [g3Root_preorder, hids]
  · rw [g3Root_desc, descL_eq_idsL, idsL_ofDomL]
  · rw [g3Root_kids, kidIds_ofDomL]
  · rw [g3Root_distinct _ _ _ m.sc, hids, ids_el]
  · rw [creationOrder_g3Root, hids]

/-- The cached navigation fields, under C04's invariant: `parentNode` of every element is the element that holds
    it, `children` its element blocks, `text` its text blocks — what the images in (3), (4), (5) compute. -/
theorem cached_fields_agree (n : Dom.DN) (p o : Option Nat) (hok : Dom.OK p o n) :
    (Dom.elems n).map (fun e => e.1.parent) = ((ofDom n).subs p).map (·.1)
    ∧ ∀ e ∈ Dom.elems n, e.1.children = kidIds (ofDomL e.2) ∧ e.1.text = kidText (ofDomL e.2) :=
  ⟨parents_ofDom n p o hok, cached_ofDom n p o hok⟩

example : Dom.ids sampleDom = [0, 1, 2] ∧ Dom.desc sampleDom = [1, 2]
    ∧ (Dom.elems sampleDom).map (fun e => e.1.parent) = [none, some 0, some 0] := by
  simp [sampleDom, sampleFN, Dom.mk, Dom.mkL, Dom.ids, Dom.idsL, Dom.desc, Dom.elems, Dom.elemsL]

/-! ### the XPath model's table -/

/-- **The table built from any tree passes the model's pre-order check** — the hypothesis `preorder_check_sound`
    (C14) turns into `PreOrder`, under which C14c/d are proved, holds for every document that is a tree. -/
theorem toDoc_isPreOrder (h : HN) : h.toDoc.isPreOrder = true ∧ XPath.PreOrder h.toDoc :=
  ⟨table_isPreOrder (walked_walk h), table_preOrder (walked_walk h)⟩

/-- the same for a forest (several top-level elements) -/
theorem docOfL_isPreOrder (ks : List HN) : (docOfL ks).isPreOrder = true ∧ XPath.PreOrder (docOfL ks) :=
  ⟨table_isPreOrder (walked_walkL ks), table_preOrder (walked_walkL ks)⟩

/-- hence C14c applies to every tree: the recursive descendant walk of the table is the ancestor-based
    specification -/
theorem toDoc_desc_spec (h : HN) (i : Nat) : h.toDoc.desc i = XPath.specDesc h.toDoc i :=
  XPath.desc_eq_specDesc _ (toDoc_isPreOrder h).2 i

/-- **Rows are the elements in document order; `anc`, `children`, `desc` of a row are the ancestors, element
    blocks and subtree of its element** — for every tree, in terms of row indices: an entry of `walk` is (row
    index, row indices of the ancestors nearest first, the element). -/
theorem toDoc_rows (h : HN) :
    h.toDoc.length = h.size
    ∧ (h.walk [] 0).map (·.pos) = List.range' 0 h.size
    ∧ (h.walk [] 0).map (·.node) = (h.subs none).map (·.2)
    ∧ ∀ e ∈ h.walk [] 0,
        h.toDoc.name e.pos = e.node.name
        ∧ h.toDoc.parent e.pos = e.ups.head?
        ∧ h.toDoc.anc e.pos = e.ups
        ∧ h.toDoc.children e.pos = kidPos (e.pos + 1) e.node.kids
        ∧ h.toDoc.desc e.pos = List.range' (e.pos + 1) (e.node.size - 1) := by
  have hW := walked_walk h
  refine ⟨by rw [HN.toDoc, table_length, walk_length], walk_pos h [] 0, walk_nodes h [] 0 none, ?_⟩
  intro e he
  exact ⟨name_ent hW he, parent_ent hW he, anc_ent hW e.pos he rfl, children_ent hW he, desc_ent hW he⟩

/-- **Read by identity**, for a tree whose identities are the creation indices 0, 1, 2, … in document order (every
    parsed document, `parsed_is_ranked`): row `i` is element `i`; its parent column, `children`, `desc`, `anc` are the
    identities of the element's parent, element blocks, subtree and ancestors. -/
theorem toDoc_by_identity (h : HN) (hr : h.ids = List.range' 0 h.size) :
    h.toDoc.isPreOrder = true ∧ h.toDoc.length = h.size ∧
    (∀ x ∈ h.subs none, h.toDoc.name x.2.id = x.2.name ∧ h.toDoc.parent x.2.id = x.1 ∧
        h.toDoc.children x.2.id = kidIds x.2.kids ∧ h.toDoc.desc x.2.id = idsL x.2.kids) ∧
    (∀ y ∈ h.ancs [], h.toDoc.anc y.1 = y.2) := toDoc_ranked h hr

/-- the documents the parser (`number`: model (1) numbered in creation order) and the DOM constructor (`Dom.mk`)
    build are numbered that way -/
theorem parsed_is_ranked (t : Node) (f : Dom.FN) (p o : Option Nat) :
    (number t 0).1.ids = List.range' 0 (number t 0).1.size
    ∧ (ofDom (Dom.mk p o f 0).1).ids = List.range' 0 (ofDom (Dom.mk p o f 0).1).size := by
  refine ⟨(number_ids t 0).1, ?_⟩
  obtain ⟨k, h1, _⟩ := Dom.mk_ids p o f 0
  rw [← length_ids, ids_ofDom, h1]; simp

example : sampleHub.toDoc.map (fun r => (r.name, r.parent)) =
    [("div".toList, none), ("p".toList, some 0), ("br".toList, some 0)] := by decide
example : sampleHub.toDoc.children 0 = [1, 2] ∧ sampleHub.toDoc.desc 0 = [1, 2] ∧ sampleHub.toDoc.anc 2 = [0] := by
  decide

/-! ### creation order = document order -/

/-- **The elements of the parsed document, in document order, are the elements `handle_starttag` /
    `handle_startendtag` created, in creation order** — for every token list (any nesting, implicit closes,
    stray end tags, both passes).  With `tree_is_image` (identities = ranks in that order) this is the assumption
    C07 ("the index is filled as elements are created": `Idx.parse` folds over `creationOrder doc`) and C14 (row
    index = uid) take from C02. -/
theorem creation_order_is_document_order {toks : List Token} {d : Doc} {sp : Bool}
    (h : feedTokens toks = .doc d sp) :
    docEls d = (if sp then wrapToks toks else toks).flatMap created := feedTokens_els h

/-- one pass, from the initial state: also when it is the pass that gets abandoned -/
theorem pass_creation_order (ts : List Token) (b : BState) (h : run BState.init ts = .ok b) :
    docEls b.doc = ts.flatMap created := doc_els ts b h

/-- badly nested input: `<a><b>x</a><c/>` then a second root — second pass, four elements in creation order -/
def sampleToks : List Token :=
  [.start "a".toList [], .start "b".toList [], .data "x".toList, .end_ "a".toList, .startend "c".toList []]

example : ∃ d, feedTokens sampleToks = .doc d true ∧
    (docEls d).map (·.1) = [wrapperName, "a".toList, "b".toList, "c".toList] := by
  refine ⟨_, rfl, by decide⟩

/-! ### the two models of the plain parser build the same tree -/

/-- **`Fmt.Plain.feed` = the image of `Builder.feedTokens`**, for every token list of the domain: same exception
    or same doctype and same root (up to the ghost `verb` flags, which no function of the formatter model reads). -/
theorem plain_builders_agree (toks : List Token) (hd : LeadDeclOK toks) :
    (Fmt.Plain.feed (toks.map tokF)).map viewF = feedViewF (feedTokens toks) := feed_agree toks hd

/-- step by step: from related states, any pass ends in related states or in `MultipleRootNodeException` on both
    sides -/
theorem plain_passes_agree (ts : List Token) {s : Fmt.St} {b : BState} (h : Sim s b.tree b.doctype) :
    SimRun (run b ts) (Fmt.Plain.run (ts.map tokF) s) := sim_run ts h

/-- `feedViewF` loses nothing: the plain parser raises `MultipleRootNodeException` only -/
theorem plain_parser_raises (toks : List Token) (e : Exc) (h : feedTokens toks = .raised e) : e = .multipleRoot :=
  feedTokens_raises toks e h

/-- … and so do `parseStr` + `getHTML` of the two models (the string C01–C03 reason about is the string C11
    compares the formatter with). -/
theorem plain_getHTML_agree (toks : List Token) (hd : LeadDeclOK toks) :
    Fmt.Plain.html (toks.map tokF) =
      (match feedTokens toks with
       | .doc d _ => (match d.html with | some s => .ok s | none => .error .noRoot)
       | .raised _ => .error .multipleRoot) := plain_html_agree toks hd

/-- the domain contains every token list whose declarations are doctypes — whatever characters the tokens carry
    (formerly `feedDom_of_ascii`, which also needed ASCII attribute values and data) -/
theorem leadDeclOK_of_doctypes {toks : List Token}
    (hdecl : ∀ d, Token.decl d ∈ toks → Fmt.isDoctype d = true) : LeadDeclOK toks := by
  match toks, hdecl with
  | [], _ => trivial
  | .decl d :: _, h => exact h d (by simp)
  | .data _ :: .decl d :: _, h => exact h d (by simp)
  | .data _ :: [], _ => trivial
  | .data _ :: .unknownDecl _ :: _, _ => trivial
  | .data _ :: .comment _ :: _, _ => trivial
  | .data _ :: .pi _ :: _, _ => trivial
  | .data _ :: .start _ _ :: _, _ => trivial
  | .data _ :: .startend _ _ :: _, _ => trivial
  | .data _ :: .end_ _ :: _, _ => trivial
  | .data _ :: .data _ :: _, _ => trivial
  | .data _ :: .entity _ :: _, _ => trivial
  | .data _ :: .charref _ :: _, _ => trivial
  | .unknownDecl _ :: _, _ => trivial
  | .comment _ :: _, _ => trivial
  | .pi _ :: _, _ => trivial
  | .start _ _ :: _, _ => trivial
  | .startend _ _ :: _, _ => trivial
  | .end_ _ :: _, _ => trivial
  | .entity _ :: _, _ => trivial
  | .charref _ :: _, _ => trivial

theorem sampleToks_lead : LeadDeclOK sampleToks := by simp [sampleToks, LeadDeclOK]

example : (Fmt.Plain.feed (sampleToks.map tokF)).map viewF = feedViewF (feedTokens sampleToks) :=
  plain_builders_agree sampleToks sampleToks_lead

example : Fmt.Plain.html (sampleToks.map tokF) = .ok "<a ><b >x</b></a><c />".toList := by rfl

/-- The input on which the two builders used to disagree: top-level data that is white space to `str.strip()` but not
    ASCII white space — U+00A0 before the root.  Both models now skip it (`not data.strip()`): first pass, one root
    `a`, as in the library.  An instance of `plain_builders_agree`; replaces the former counter-example
    `builders_differ_on_nbsp_data`. -/
theorem builders_agree_on_nbsp_data :
    (Fmt.Plain.feed ([Token.data [Char.ofNat 0xa0], .start ['a'] [], .end_ ['a']].map tokF)).map viewF
        = .ok (none, some (.elem .normal ['a'] {} false [] []))
    ∧ feedViewF (feedTokens [Token.data [Char.ofNat 0xa0], .start ['a'] [], .end_ ['a']])
        = .ok (none, some (.elem .normal ['a'] {} false [] []))
    ∧ ∃ d, feedTokens [Token.data [Char.ofNat 0xa0], .start ['a'] [], .end_ ['a']] = .doc d false := by
  refine ⟨by rfl, by rfl, _, rfl⟩

/-- non-vacuity beyond ASCII: non-ASCII white space in a `class` value, in top-level data (U+3000, skipped) and inside
    an element (kept) -/
def sampleUniToks : List Token :=
  [.data [Char.ofNat 0x3000, '\n'], .start "a".toList [("class".toList, some [Char.ofNat 0xa0, 'k', Char.ofNat 0x2003])],
   .data [Char.ofNat 0xa0], .end_ "a".toList, .data [Char.ofNat 0x85]]

example : (Fmt.Plain.feed (sampleUniToks.map tokF)).map viewF = feedViewF (feedTokens sampleUniToks) :=
  plain_builders_agree sampleUniToks (by simp [sampleUniToks, LeadDeclOK])

example : Fmt.Plain.html (sampleUniToks.map tokF) = .ok ("<a class=\"k\" >".toList ++ [Char.ofNat 0xa0] ++ "</a>".toList) := by
  rfl

/-- `LeadDeclOK` is needed: a leading declaration that is not a doctype, after blanks — never produced by the
    tokenizer (`handle_decl` is called for `<!doctype …>` only).  Model (1) puts the wrapper start tag after it
    (the blanks stay outside), the formatter model in front (the blanks become a text block of the wrapper). -/
theorem builders_differ_on_non_doctype_decl :
    (Fmt.Plain.feed ([Token.data ['\n'], .decl ['x'], .startend ['a'] [], .startend ['b'] []].map tokF)).map viewF
      ≠ feedViewF (feedTokens [Token.data ['\n'], .decl ['x'], .startend ['a'] [], .startend ['b'] []]) := by
  intro h
  -- the number of blocks of the root tells them apart: 3 (the blanks are a text block of the wrapper) against 2
  have := congrArg (fun r : Except Fmt.Err (Option Str × Option Fmt.Node) => match r with
    | .ok (_, some (.elem _ _ _ _ _ ks)) => ks.length
    | _ => 0) h
  revert this
  decide

end AHP.TreeModels
