/-
  C02 — the code tie of the end-tag handler: `Parser.AdvancedHTMLParser.handle_endtag` ITSELF (dumped node by node into
  `Gen.Code.parser` by harness/ahpcheck/translate_code.py on every run, interpreted by `AHP.PyAst`) does to the list of open
  elements `self._inTag` what the hand-written model's end-tag step (`handleEnd` of `Model/Builder.lean`, the `.end_` case of
  `stepT`: the model of the C02 / C03 theorems) does to its stack of open frames — for EVERY stack and EVERY name: the nearest open
  element of that name is closed with everything inside it, and a name that is not open changes nothing; the call never raises
  (the bare `except` included: it is never reached) and touches no other field of the parser object.

  The object: any record of fields `fs` whose `_inTag` is a Python list of elements.  An element is a number (`PyV.ancestor u`, as
  in `Props/C18Code.lean`); the ONLY thing the method reads from an element is `inTag[i].tagName`, which is the parameter
  `tagOf u` of the theorems (`Ctx.elemAttr`).  The hand model keeps its stack innermost FIRST and a frame carries the children
  collected so far (it attaches a child when the frame is closed, the code when it is opened — `Model/Builder.lean` says why both
  give the same tree); the Python list is outermost first and `pop()` only shortens it.  So the tie is on what both have in
  common: the elements that stay open are the same ones (`closeR … <:+ r`: a suffix of the model-ordered list, i.e. a prefix of
  the Python list — same objects, same order), and their names are the names of the model's stack after `handleEnd`.

  The `while` runs on fuel: `r.length` iterations suffice (`handle_endtag_code_eq_model` takes any fuel ≥ the stack length).
-/
import AHP.Lemmas.PyAstParser
import AHP.Lemmas.Builder
namespace AHP.C02Code
open AHP AHP.Gen AHP.Conv AHP.PyAst AHP.Gen.Code AHP.PyAstParser

/-- The open elements (innermost first) after an end tag `n`: without the nearest one named `n` and everything above it; as they
were when no open element has that name. -/
def closeR (tagOf : Nat → Str) (n : Str) (r : List Nat) : List Nat :=
  if n ∈ r.map tagOf then (r.dropWhile (fun u => decide (tagOf u ≠ n))).drop 1 else r

/-- the same on names: what `handleEnd` does to the names of the model's stack -/
def closeN (n : Str) (ns : List Str) : List Str :=
  if n ∈ ns then (ns.dropWhile (fun m => decide (m ≠ n))).drop 1 else ns

theorem closeR_suffix (tagOf : Nat → Str) (n : Str) (r : List Nat) : closeR tagOf n r <:+ r := by
  unfold closeR
  split
  · exact (List.drop_suffix _ _).trans (List.dropWhile_suffix _)
  · exact List.suffix_refl _

theorem closeR_names (tagOf : Nat → Str) (n : Str) (r : List Nat) :
    (closeR tagOf n r).map tagOf = closeN n (r.map tagOf) := by
  unfold closeR closeN
  split
  · rw [List.map_drop, List.dropWhile_map]; rfl
  · rfl

/-! ### the hand model's step on the names of its stack -/

theorem names_pop1 (s : TState) : names (pop1 s) = (names s).drop 1 := by
  unfold pop1
  cases hs : s.stack with
  | nil => simp [names, hs]
  | cons f fs =>
    have := names_addNode ⟨fs, s.root⟩ f.close
    simpa [names, hs] using this

theorem names_popTo (n : Str) : ∀ (k : Nat) (s : TState), n ∈ names s → s.stack.length ≤ k →
    names (popTo n k s) = ((names s).dropWhile (fun m => decide (m ≠ n))).drop 1 := by
  intro k
  induction k with
  | zero =>
    intro s hm hl
    have : s.stack = [] := List.eq_nil_of_length_eq_zero (by omega)
    simp [names, this] at hm
  | succ k ih =>
    intro s hm hl
    cases hs : s.stack with
    | nil => simp [names, hs] at hm
    | cons f fs =>
      have hn : names s = f.name :: fs.map (·.name) := by simp [names, hs]
      by_cases hf : f.name = n
      · have : popTo n (k + 1) s = pop1 s := by simp [popTo, hs, hf]
        rw [this, names_pop1, hn]
        simp [List.dropWhile, hf]
      · rw [popTo_skip n k s f fs hs hf]
        have hp : names (pop1 s) = fs.map (·.name) := by rw [names_pop1, hn]; rfl
        have hm' : n ∈ names (pop1 s) := by
          rw [hp]; rw [hn] at hm
          simp only [List.mem_cons] at hm
          rcases hm with h | h
          · exact absurd h.symm hf
          · exact h
        have hl' : (pop1 s).stack.length ≤ k := by
          have := congrArg List.length hp
          simp only [names, List.length_map] at this
          rw [this]; rw [hs] at hl; simp at hl; omega
        rw [ih (pop1 s) hm' hl', hp, hn]
        simp [List.dropWhile, hf]

/-- `handleEnd` on the names of the stack -/
theorem names_handleEnd (s : TState) (n : Str) : names (handleEnd s n) = closeN n (names s) := by
  unfold handleEnd closeN
  by_cases h : n ∈ names s
  · have hc : (s.stack.map (·.name)).contains n = true := by simpa [names] using h
    rw [if_pos hc, if_pos h]
    exact names_popTo n _ s h (Nat.le_refl _)
  · have hc : ¬ (s.stack.map (·.name)).contains n = true := by simpa [names] using h
    rw [if_neg hc, if_neg h]

/-! ### the dumped method -/

/-- the statements inside the `try:` of the dump, in the pieces the lemmas are about -/
def tryBody : List Stmt :=
  [.assign "foundIt" (.const (.bool false)),
   .alias "inTag" "self" "_inTag",
   .forS "i" (.call "range" [.call "len" [.avar "inTag"]]) findBody,
   .ifS (.not (.var "foundIt")) [.ret (.const .none)] [],
   .whileS topCond popBody,
   .refCall "inTag" "pop" []]

theorem handle_endtag_body : AdvancedHTMLParser_handle_endtag_ast.body = [.tryS tryBody [.mk none [.pass]]] := rfl

/-- the search loop as a statement: `foundIt` says whether the name is on the stack (`us`: the Python list) -/
theorem search_stmt (tagOf : Nat → Str) (fuel : Nat) (n : Str) (fs : List (String × Field)) (us : List Nat) (env : Env)
    (hf : fs.lookup "_inTag" = some (.list (embU us))) (hv : Vars env fs n false) :
    ∃ env', execS (parserCx tagOf fuel) env (.forS "i" (.call "range" [.call "len" [.avar "inTag"]]) findBody) = (env', .next)
      ∧ Vars env' fs n (decide (n ∈ us.map tagOf)) := by
  have hit : eval (parserCx tagOf fuel) env (.call "range" [.call "len" [.avar "inTag"]])
      = .ok (.tuple ((List.range' 0 us.length).map (fun i => PyV.int (Int.ofNat i)))) := by
    simp [eval, evalList, hv.inTag, getField, hv.self, hf, Field.toVal, parserCx_funs, builtin, pyLen, embU_length,
      List.range_eq_range']
  obtain ⟨env', h1, h2⟩ := findLoop_run tagOf fuel n fs (fun _ => true) (fun _ => rfl) us [] env (by simpa using hf) hv
  refine ⟨env', ?_, h2⟩
  simp only [execS, hit, iterItems, Val.mutable, Bool.not_false, Bool.true_or, if_true]
  simpa using h1

/-- `handle_endtag(self, tagName)` for every list of open elements (`r`: innermost first, so the Python list is `r.reverse`),
every name and every object around the list, with `r.length` iterations or more for the `while`: the list becomes
`closeR tagOf n r` (reversed), no other field changes, the call returns `None`. -/
theorem handle_endtag_run (tagOf : Nat → Str) (fuel : Nat) (r : List Nat) (fs : List (String × Field)) (n : Str)
    (hf : fs.lookup "_inTag" = some (.list (embU r.reverse))) (hfuel : r.length ≤ fuel) :
    runMeth (parserCx tagOf fuel) AdvancedHTMLParser_handle_endtag_ast fs [.py (.str n)]
      = (some (assocSet fs "_inTag" (.list (embU (closeR tagOf n r).reverse))), .ok (.py .none)) := by
  have hparams : AdvancedHTMLParser_handle_endtag_ast.params = [("self", none), ("tagName", none)] := rfl
  -- the first two statements
  have h1 : execS (parserCx tagOf fuel) [("self", .obj fs), ("tagName", .py (.str n))]
      (.assign "foundIt" (.const (.bool false)))
      = ([("self", .obj fs), ("tagName", .py (.str n)), ("foundIt", .py (.bool false))], .next) := by
    simp [execS, eval, aliasOK, Val.mutable, Lit.toPy, assocSet]
  have h2 : execS (parserCx tagOf fuel) [("self", .obj fs), ("tagName", .py (.str n)), ("foundIt", .py (.bool false))]
      (.alias "inTag" "self" "_inTag")
      = ([("self", .obj fs), ("tagName", .py (.str n)), ("foundIt", .py (.bool false)), ("inTag", .ref "self" "_inTag")],
         .next) := by
    simp [execS, getField, List.lookup, hf, assocSet]
  have hv2 : Vars [("self", .obj fs), ("tagName", .py (.str n)), ("foundIt", .py (.bool false)),
      ("inTag", .ref "self" "_inTag")] fs n false := ⟨rfl, rfl, rfl, rfl⟩
  obtain ⟨env3, h3, hv3⟩ := search_stmt tagOf fuel n fs r.reverse _ hf hv2
  have hmem : decide (n ∈ r.reverse.map tagOf) = decide (n ∈ r.map tagOf) := by simp
  rw [hmem] at hv3
  by_cases hm : n ∈ r.map tagOf
  · -- the name is open: pop down to it, then pop it
    simp only [hm, decide_true] at hv3
    have h4 : execS (parserCx tagOf fuel) env3 (.ifS (.not (.var "foundIt")) [.ret (.const .none)] []) = (env3, .next) := by
      simp [execS, eval, hv3.found, Val.truthy, truthy, execL]
    obtain ⟨env5, h5, hv5⟩ := popLoop_run tagOf n r fuel fuel fs env3 true hm hfuel hf hv3
    have h5' : execS (parserCx tagOf fuel) env3 (.whileS topCond popBody) = (env5, .next) := by
      simp only [execS, parserCx_fuel]; exact h5
    obtain ⟨u, d, hd, _⟩ := dropWhile_head tagOf n r hm
    rw [hd] at hv5
    have h6 := pop_run (parserCx tagOf fuel) u d _ env5 hv5.self hv5.inTag (lookup_assocSet_eq _ _ _)
    rw [assocSet_assocSet] at h6
    have hclose : closeR tagOf n r = d := by unfold closeR; rw [if_pos hm, hd]; rfl
    rw [hclose]
    have hb : execL (parserCx tagOf fuel) [("self", .obj fs), ("tagName", .py (.str n))] tryBody
        = (assocSet env5 "self" (.obj (assocSet fs "_inTag" (.list (embU d.reverse)))), .next) := by
      unfold tryBody
      rw [execL_cons_next _ _ _ _ _ h1, execL_cons_next _ _ _ _ _ h2, execL_cons_next _ _ _ _ _ h3,
        execL_cons_next _ _ _ _ _ h4, execL_cons_next _ _ _ _ _ h5', execL_cons_next _ _ _ _ _ h6, execL_nil]
    have hbody := tryS_next _ _ _ _ [.mk none [.pass]] hb
    simp only [runMeth, hparams, bindArgs, List.lookup, Option.isSome, Bool.false_eq_true, if_false, List.isEmpty,
      if_true, handle_endtag_body, execL_cons_next _ _ _ _ _ hbody, execL_nil, lookup_assocSet_eq, PyAst.resultOf]
  · -- the name is not open: `return`
    simp only [hm, decide_false] at hv3
    have h4 : execS (parserCx tagOf fuel) env3 (.ifS (.not (.var "foundIt")) [.ret (.const .none)] [])
        = (env3, .ret (.py .none)) := by
      simp [execS, eval, hv3.found, Val.truthy, truthy, execL, Lit.toPy]
    have hclose : closeR tagOf n r = r := by simp [closeR, hm]
    rw [hclose, assocSet_self _ _ _ hf]
    have hb : execL (parserCx tagOf fuel) [("self", .obj fs), ("tagName", .py (.str n))] tryBody
        = (env3, .ret (.py .none)) := by
      unfold tryBody
      rw [execL_cons_next _ _ _ _ _ h1, execL_cons_next _ _ _ _ _ h2, execL_cons_next _ _ _ _ _ h3,
        execL_cons_ret _ _ _ _ _ _ h4]
    have hbody := tryS_ret _ _ _ _ _ [.mk none [.pass]] hb
    simp only [runMeth, hparams, bindArgs, List.lookup, Option.isSome, Bool.false_eq_true, if_false, List.isEmpty,
      if_true, handle_endtag_body, execL_cons_ret _ _ _ _ _ _ hbody, hv3.self, PyAst.resultOf]

/-- **The code tie of C02's end-tag step.**  For every state `s` of the hand model's tree builder, every list `r` of open elements
(innermost first, as the model keeps them; `self._inTag` is `r.reverse`) whose names are the names of the model's stack, every
name `n`, every object `fs` around the list and every fuel ≥ the stack length: the dumped `handle_endtag` returns `None` (it never
raises), changes no field but `_inTag`, and leaves in it the list `r'` with
  * `r' <:+ r`: the elements still open are the outermost ones of before — same objects, same order;
  * their names are the names of the hand model's stack after `handleEnd s n`.  -/
theorem handle_endtag_code_eq_model (tagOf : Nat → Str) (fuel : Nat) (s : TState) (r : List Nat) (fs : List (String × Field))
    (n : Str) (hrep : r.map tagOf = s.stack.map (·.name))
    (hf : fs.lookup "_inTag" = some (.list (embU r.reverse))) (hfuel : s.stack.length ≤ fuel) :
    runMeth (parserCx tagOf fuel) AdvancedHTMLParser_handle_endtag_ast fs [.py (.str n)]
      = (some (assocSet fs "_inTag" (.list (embU (closeR tagOf n r).reverse))), .ok (.py .none))
    ∧ closeR tagOf n r <:+ r
    ∧ (closeR tagOf n r).map tagOf = (handleEnd s n).stack.map (·.name) := by
  have hlen : r.length = s.stack.length := by
    have := congrArg List.length hrep; simpa using this
  refine ⟨handle_endtag_run tagOf fuel r fs n hf (by omega), closeR_suffix tagOf n r, ?_⟩
  rw [closeR_names, hrep]
  exact (names_handleEnd s n).symm

/-- the length of the list afterwards is the length of the model's stack: with `closeR … <:+ r` this fixes the list -/
theorem handle_endtag_length (tagOf : Nat → Str) (s : TState) (r : List Nat) (n : Str)
    (hrep : r.map tagOf = s.stack.map (·.name)) : (closeR tagOf n r).length = (handleEnd s n).stack.length := by
  have h := congrArg List.length (show (closeR tagOf n r).map tagOf = (handleEnd s n).stack.map (·.name) by
    rw [closeR_names, hrep]; exact (names_handleEnd s n).symm)
  simpa using h

/-! ### the theorems are not vacuous, and the interpreter runs the dump -/

-- A small budget, so that a broken example fails at once instead of searching; `decide +kernel` evaluates in the kernel and
-- does not consume it.
set_option maxHeartbeats 2000

private def tg : Nat → Str := fun u => if u = 1 then "div".toList else if u = 2 then "b".toList else "i".toList
private def obj (us : List Nat) : List (String × Field) := [("root", .py .none), ("_inTag", .list (embU us)), ("doctype", .py .none)]
private def fr (n : String) : Frame := ⟨n.toList, AttrState.empty, []⟩

/-- `</b>` with `div > b > i > i` open: `b` and the two `i` inside it are closed; the other fields are untouched -/
example : runMeth (parserCx tg 4) AdvancedHTMLParser_handle_endtag_ast (obj [1, 2, 3, 4]) [.py (.str "b".toList)]
    = (some (obj [1]), .ok (.py .none)) := by decide +kernel
/-- the hand model on the same stack -/
example : (handleEnd ⟨[fr "i", fr "i", fr "b", fr "div"], none⟩ "b".toList).stack.map (·.name) = ["div".toList] := by
  decide +kernel
/-- the NEAREST open element of the name is closed, not the outermost: `i > b > i` and `</i>` -/
example : runMeth (parserCx tg 3) AdvancedHTMLParser_handle_endtag_ast (obj [3, 2, 4]) [.py (.str "i".toList)]
    = (some (obj [3, 2]), .ok (.py .none)) := by decide +kernel
/-- a name that is not open: nothing changes -/
example : runMeth (parserCx tg 3) AdvancedHTMLParser_handle_endtag_ast (obj [1, 2]) [.py (.str "p".toList)]
    = (some (obj [1, 2]), .ok (.py .none)) := by decide +kernel
/-- no open element at all -/
example : runMeth (parserCx tg 0) AdvancedHTMLParser_handle_endtag_ast (obj []) [.py (.str "p".toList)]
    = (some (obj []), .ok (.py .none)) := by decide +kernel
/-- the fuel bound is sharp: with one iteration less than the stack length the interpreter gives up (`abort` is not an
exception: the bare `except` does not swallow it) -/
example : (runMeth (parserCx tg 2) AdvancedHTMLParser_handle_endtag_ast (obj [1, 2, 3]) [.py (.str "div".toList)]).2
    = .error (unsupported "while: out of fuel") := by decide +kernel
/-- the hypotheses of the tie are met by that run (`r` = the list innermost first) -/
example : [4, 3, 2, 1].map tg = (⟨[fr "i", fr "i", fr "b", fr "div"], none⟩ : TState).stack.map (·.name)
    ∧ closeR tg "b".toList [4, 3, 2, 1] = [1] := by decide +kernel
/-- the interpreter fails closed: an object without `_inTag` — the `AttributeError` is swallowed by the bare `except`, as in
Python; a list holding something else than elements is not given a meaning -/
example : runMeth (parserCx tg 3) AdvancedHTMLParser_handle_endtag_ast [("root", .py .none)] [.py (.str "p".toList)]
    = (some [("root", .py .none)], .ok (.py .none)) := by decide +kernel

end AHP.C02Code
