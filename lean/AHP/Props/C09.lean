/- C09 — property theorems (stub: the property is not claimed yet). -/
namespace AHP.C09
end AHP.C09
