/-
  C09 — The class attribute, className, classList and the rendered HTML never diverge.

  Property theorems only.  Model: AHP/Model/Attrs.lean (the functions the native driver executes);
  lemmas: AHP/Lemmas/Attrs*.lean.

  Reading guide.  `Reach T e` says that `e` is reachable: constructed from an attribute list (directly, by the
  parser, by cloneNode / copy / unpickling — all are `mk`) and then taken through *any* sequence of operations of
  the attribute store (`Op`: the seven class writers of the property, every other attribute and style writer, and
  `sync`, the lazy synchronisation every reader may trigger).  The invariants are proved for every `Op`, hence for
  every history.  Each view is the model function of its own read path (with its own synchronisation); the view
  theorems say that all of them are projections of the one list `e.cls` (`_classNames`).

  `T : Tables` (the dot-access tables of constants.py) is universally quantified; the only table fact used is
  `ClassPlain T`: `class` is not listed as a boolean attribute (checked on the real tables by the harness on every run).
-/
import AHP.Lemmas.AttrsWriteRead
namespace AHP.C09
open AHP AHP.Attrs

/-- an element constructed from some attribute list and taken through some history -/
def Reach (T : Tables) (e : El) : Prop :=
  ∃ tag sc attrs ops, e = run T (mk T tag sc attrs) ops

/-- `class` is not in `TAG_ITEM_BINARY_ATTRIBUTES` / `…_STRING_ATTR` -/
def ClassPlain (T : Tables) : Prop := T.binary.contains classK = false ∧ T.binStr.contains classK = false

/-! ### C09b — the invariant, for every operation and every history -/

/-- C09b: in every reachable state no class name is empty or contains a space; the underlying dict has distinct,
    valid, lower-case keys, with the `class` key holding a class snapshot only. -/
theorem reach_inv {T : Tables} {e : El} (h : Reach T e) : ClsInv e ∧ DictInv e := by
  obtain ⟨tag, sc, attrs, ops, rfl⟩ := h
  exact ⟨clsInv_run T ops (clsInv_mk T tag sc attrs), dictInv_run T ops (dictInv_mk T tag sc attrs)⟩

/-- C09b, step form: every single operation keeps "no empty name, no name with a space". -/
theorem no_empty_names_step (T : Tables) (op : Op) {e : El} (h : ClsInv e) : ClsInv (step T e op).2 :=
  clsInv_step T op h

/-- C09b: reachability is closed under every operation (so the theorems below hold after each step). -/
theorem reach_step {T : Tables} {e : El} (h : Reach T e) (op : Op) : Reach T (step T e op).2 := by
  obtain ⟨tag, sc, attrs, ops, rfl⟩ := h
  refine ⟨tag, sc, attrs, ops ++ [op], ?_⟩
  unfold run
  rw [List.foldl_append]
  rfl

/-- C09b: `addClass` never introduces a duplicate — for every argument string: a name's number of occurrences
    never grows beyond one (names already duplicated by a `className` assignment stay as they are). -/
theorem addClass_no_new_duplicate (s : Str) (e : El) (x : Str) :
    (addClass s e).cls.count x ≤ max 1 (e.cls.count x) := count_addClassL s e.cls x

theorem addClass_keeps_nodup (s : Str) (e : El) (h : e.cls.Nodup) : (addClass s e).cls.Nodup := nodup_addClassL s h

/-- C09b: both accept several space separated names and act name by name (operands whose only white space is
    the ASCII space, as in the property's operand set). -/
theorem addClass_name_by_name {s : Str} (hs : SpaceOnly s) (e : El) :
    (addClass s e).cls = (words s).foldl addOne e.cls := addClassL_eq_fold hs e.cls

theorem removeClass_name_by_name {s : Str} (hs : SpaceOnly s) (e : El) :
    (removeClass s e).cls = (words s).foldl rmOne e.cls := rmClassL_eq_fold hs e.cls

/-- C09b: `addClass` of present names is a no-op -/
theorem addClass_present {s : Str} (hs : SpaceOnly s) (e : El) (h : ∀ w ∈ words s, w ∈ e.cls) : addClass s e = e := by
  have : (addClass s e).cls = e.cls := by
    rw [addClass_name_by_name hs, foldl_addOne_of_all_mem _ _ h]
  cases e
  simp only [addClass] at this ⊢
  rw [this]

/-- C09b: `removeClass` of absent names is a no-op -/
theorem removeClass_absent {s : Str} (hs : SpaceOnly s) (e : El) (h : ∀ w ∈ words s, w ∉ e.cls) : removeClass s e = e := by
  have : (removeClass s e).cls = e.cls := by
    rw [removeClass_name_by_name hs, foldl_rmOne_of_none_mem _ _ h]
  cases e
  simp only [removeClass] at this ⊢
  rw [this]

/-- C09b: a new single name goes to the end; a present one changes nothing; removal takes the name out. -/
theorem addOne_spec (cls : List Str) (w : Str) : addOne cls w = if w ∈ cls then cls else cls ++ [w] := by
  by_cases h : w ∈ cls
  · rw [addOne_of_mem h, if_pos h]
  · rw [addOne_of_not_mem h, if_neg h]

theorem rmOne_spec (cls : List Str) (w : Str) : rmOne cls w = cls.erase w := by
  by_cases h : w ∈ cls
  · exact rmOne_of_mem h
  · rw [rmOne_of_not_mem h, List.erase_of_not_mem h]

/-! ### C09a — every view is a projection of the one list -/

/-- `classList` / `classNames` -/
theorem view_classList (e : El) : classList e = e.cls := rfl

/-- `className` -/
theorem view_className (e : El) : e.className = joinWith [' '] e.cls := rfl

/-- `hasClass` -/
theorem view_hasClass (n : Str) (e : El) : hasClass n e = true ↔ n ∈ e.cls := List.contains_iff_mem

/-- `attributes['class']`, for every spelling of the key -/
theorem view_getitem (T : Tables) {k : Str} (hk : lower k = classK) (e : El) : getitem T k e = .str e.className := by
  unfold getitem
  simp only [hk]
  simp [classK_ne_styleK]

/-- `attributes.get('class')`: the value and no write -/
theorem view_mapGet (T : Tables) {k : Str} (hk : lower k = classK) (d : PyVal) (e : El) :
    mapGet T k d e = (.str e.className, e) := by
  unfold mapGet
  simp only [hk, if_true]

/-- `getAttribute('class')`, for every spelling that is not itself a boolean attribute name -/
theorem view_getAttribute (T : Tables) {k : Str} (hk : lower k = classK) (hb : T.binary.contains k = false)
    (d : PyVal) (e : El) : getAttribute T k d e = (.str e.className, e) := by
  unfold getAttribute
  rw [hb]
  exact view_mapGet T hk d e

/-- `attributes.items()`: the `class` entry is exactly the rendered list, and it is there iff the list is non-empty -/
theorem view_items (e : El) :
    aget classK (items e).1 = if e.cls.isEmpty then none else some (.str e.className) := by
  rw [aget_items, aget_class_sync]
  split <;> rfl

/-- `getAttributesList()` / `getAttributesDict()` -/
theorem view_attrsList (e : El) :
    aget classK (attrsList e).1 = if e.cls.isEmpty then none else some (some e.className) := by
  rw [aget_attrsList, aget_class_sync]
  split <;> rfl

/-- the rendered start tag, read back: `class` carries `escapeQuotes(className)` between quotes -/
theorem view_startTag (T : Tables) (hT : ClassPlain T) (e : El) :
    aget classK (readBack (startTagItems T e).1)
      = if e.cls.isEmpty then none else some (some (unescQ (escQ e.className))) := by
  rw [aget_readBack, view_items]
  split
  · rfl
  · simp only [Option.bind]
    congr 1
    unfold readBackVal renderItem
    simp only [hT.1]
    by_cases hf : (PyVal.str e.className).falsy = true
    · have : e.className = [] := by simpa [PyVal.falsy] using hf
      simp [this, PyVal.falsy, escQ, replaceQuote]
    · simp [hf, PyVal.tostrOpt]

/-! ### C09a — presence: the attribute is there exactly when the list is non-empty -/

/-- `'class' in attributes` -/
theorem presence_contains {k : Str} (hk : lower k = classK) (e : El) : contains k e = !e.cls.isEmpty := by
  unfold contains
  simp only [hk, if_true]

/-- `hasAttribute('class')`, any spelling -/
theorem presence_hasAttribute {k : Str} (hk : lower k = classK) (e : El) : hasAttribute k e = !e.cls.isEmpty := by
  unfold hasAttribute
  exact presence_contains (by rw [lower_idem, hk]) e

/-- `keys()` / iteration -/
theorem presence_keys (e : El) : classK ∈ (keys e).1 ↔ e.cls ≠ [] := by
  rw [keys_fst, ← ahas_iff_mem]
  unfold ahas
  rw [aget_class_sync]
  cases h : e.cls with
  | nil => simp
  | cons a r => simp

/-- the DOM node map lists `class` iff the list is non-empty, and its node carries the rendered list -/
theorem presence_domKeys (e : El) : classK ∈ (domKeys e).1 ↔ e.cls ≠ [] := by
  unfold domKeys
  simp only
  rw [List.mem_filter, presence_contains lower_classK]
  show classK ∈ (keys e).1 ∧ (!e.cls.isEmpty) = true ↔ _
  have := presence_keys e
  constructor
  · intro h; exact this.mp h.1
  · intro h
    refine ⟨this.mpr h, ?_⟩
    cases hc : e.cls with
    | nil => exact absurd hc h
    | cons a r => rfl

theorem view_domItem (T : Tables) {k : Str} (hk : lower k = classK) (e : El) :
    domItem T k e = if e.cls.isEmpty then none else some (classK, .str e.className) := by
  unfold domItem
  simp only [hk, presence_contains lower_classK, view_getitem T lower_classK]
  cases e.cls.isEmpty <;> rfl

/-- the rendered HTML has a `class` attribute iff the list is non-empty -/
theorem presence_startTag (T : Tables) (e : El) : classK ∈ akeys (readBack (startTagItems T e).1) ↔ e.cls ≠ [] := by
  rw [akeys_readBack]
  exact presence_keys e

/-- every name of the list is non-empty, so a non-empty list renders a non-empty value -/
theorem className_ne_nil {e : El} (h : ClsInv e) (hne : e.cls ≠ []) : e.className ≠ [] := by
  unfold El.className
  rcases hc : e.cls with _ | ⟨w, r⟩
  · exact absurd hc hne
  · have hw : w ≠ [] := (h w (by rw [hc]; simp)).1
    rcases r with _ | ⟨w', r'⟩
    · simpa [joinWith] using hw
    · rw [joinWith_cons_cons]
      intro h0
      have := List.append_eq_nil_iff.mp h0
      exact hw (List.append_eq_nil_iff.mp this.1).1

/-! ### C09a/d — the list seen through the string views, and through a re-parse / a copy -/

/-- splitting the string every string view returns gives the list back (operands of the property) -/
theorem words_className {e : El} (h : Clean e) : words e.className = e.cls :=
  words_join_clean (fun w hw => (h w hw).1)

theorem className_no_amp {e : El} (h : Clean e) : '&' ∉ e.className :=
  not_mem_join (by decide) e.cls (fun w hw => (h w hw).2)

/-- C09d: the attribute list read back from the rendered start tag carries exactly `className` -/
theorem reparse_value (T : Tables) (hT : ClassPlain T) {e : El} (h : Clean e) :
    aget classK (readBack (startTagItems T e).1) = if e.cls.isEmpty then none else some (some e.className) := by
  rw [view_startTag T hT, unescQ_escQ (className_no_amp h)]

/-- C09d: re-parsing the rendered start tag yields an element with the same class list -/
theorem view_reparse (T : Tables) (hT : ClassPlain T) {e : El} (hr : Reach T e) (h : Clean e) :
    (reparse T e).1.cls = e.cls := by
  unfold reparse
  simp only
  rw [mk_cls T _ _ _ (goodKeys_of_sync (reach_inv hr).2 (akeys_readBack T e)), reparse_value T hT h]
  cases hc : e.cls with
  | nil => rfl
  | cons a r =>
    have := words_className h
    rw [hc] at this
    simpa using this

/-- C08e/C09: `cloneNode`, `copy`, unpickling, `eval(repr(tag))` reproduce the class list -/
theorem view_clone (T : Tables) {e : El} (hr : Reach T e) (h : Clean e) : (clone T e).1.cls = e.cls := by
  unfold clone
  simp only
  rw [mk_cls T _ _ _ (goodKeys_of_sync (reach_inv hr).2 (akeys_attrsList e)), view_attrsList]
  cases hc : e.cls with
  | nil => rfl
  | cons a r =>
    have := words_className h
    rw [hc] at this
    simpa using this

/-- `Clean` holds in every state reached with operands of the property (white space = ASCII space, no `&`) -/
theorem reach_clean (T : Tables) (tag : Str) (sc : Bool) (attrs : List (Str × Option Str)) (ops : List Op)
    (ha : ∀ p ∈ attrs, ∀ s, p.2 = some s → GoodStr s) (ho : ∀ op ∈ ops, GoodOp op) :
    Clean (run T (mk T tag sc attrs) ops) :=
  clean_run T ops ho (clean_mk T tag sc attrs ha)

/-! ### C09c — `classList` returns a copy; readers do not change the list -/

/-- reading any synchronising view leaves `_classNames` (and the style map) alone -/
theorem readers_keep_list (T : Tables) (e : El) :
    (items e).2.cls = e.cls ∧ (keys e).2.cls = e.cls ∧ (attrsList e).2.cls = e.cls ∧
    (startTagItems T e).2.cls = e.cls ∧ (domKeys e).2.cls = e.cls := ⟨rfl, rfl, rfl, rfl, rfl⟩

/- C09c, "classList returns a copy whose mutation does not affect the element": NOT a theorem here.  The clause is
   about Python object identity (the list object handed out is not the list object the element keeps).  In a value
   model `classList e` is a value of type `List Str`; any statement "mutating it leaves `e` alone" is `x = x` (the
   former `classList_is_a_copy` was exactly that, proved by `rfl`, and has been removed after the review of the
   statements, design.d/reviews/review-A-C01-C10.md row 2).  The clause is checked on the real code only: oracle
   `harness/ahpcheck/props/c09.py`, failure kind `classList-aliased` (the returned list is mutated — append, clear — and
   the element's className / classList / start tag are read again), on every generated history. -/

/-- interleavings: every operation that does not address the class attribute — other attributes through any of the
    six writers, every style writer, every synchronising reader — leaves the list exactly as it was -/
theorem other_operations_keep_list (T : Tables) (op : Op) (h : KeepsClass T op) (e : El) : (step T e op).2.cls = e.cls :=
  step_cls_frame T op h e

/-! ### C09e — WRITE → READ and FRAME for the whole-list writers

  `className = v`, `setAttribute('class', v)`, `attributes['class'] = v`, `tag.className = v` through the dot table,
  `removeAttribute('class')`, `del attributes['class']` (any spelling of the key).  `addClass` / `removeClass`: C09b. -/

theorem validName_of_class {k : Str} (hk : lower k = classK) : validName k = true := by
  rw [← validName_lower, hk]; decide

/-- WRITE → READ, the list: every whole-list writer replaces `_classNames` by the words of the assigned string
    (`stripWordsOnly`, split at spaces, empty words dropped; `None` = no names); the removers empty it -/
theorem write_read_list (T : Tables) {k : Str} (hk : lower k = classK) (v : Option Str) (e : El) :
    (setClassName v e).cls = words (v.getD []) ∧
    (setAttribute T k v e).2.cls = words (v.getD []) ∧ (setAttribute T k v e).1 = .ok ∧
    (mapSet T k v e).2.cls = words (v.getD []) ∧
    (removeAttribute k e).cls = [] ∧ (mapDel k e).cls = [] := by
  have hv := validName_of_class hk
  refine ⟨rfl, ?_, setAttribute_valid T hv v e, ?_, ?_, ?_⟩
  · rw [setAttribute_eq_mapSet T hv, mapSet_class T hk]
  · rw [mapSet_class T hk]
  · unfold removeAttribute
    rw [mapDel_class (by rw [lower_idem]; exact hk)]
  · rw [mapDel_class hk]

/-- `tag.className = value` through `__setattr__` (a string, or `None`) -/
theorem write_read_dot (T : Tables) (v : DotVal) (e : El) :
    (dotSet T classNameK v e).2.cls = words ((match v with | .none => Option.none | v => some v.tostr).getD []) := by
  unfold dotSet
  rw [if_pos rfl]
  rfl

/-- WRITE → READ, every view: in a state whose list is `words s` — the state each of the writers above leaves —
    `classList`, `className`, `hasClass`, `attributes['class']`, `getAttribute('class')`, the presence tests and the
    one list of C08 read `words s` / its rendering back -/
theorem write_read_views (T : Tables) (s : Str) {e' : El} (h : e'.cls = words s) (d : PyVal) :
    classList e' = words s ∧ e'.className = joinWith [' '] (words s) ∧ (∀ n, hasClass n e' = true ↔ n ∈ words s) ∧
    getitem T classK e' = .str (joinWith [' '] (words s)) ∧
    (T.binary.contains classK = false → (getAttribute T classK d e').1 = .str (joinWith [' '] (words s))) ∧
    hasAttribute classK e' = !(words s).isEmpty ∧ contains classK e' = !(words s).isEmpty ∧
    aget classK (viewList e') = (if (words s).isEmpty then none else some (some (joinWith [' '] (words s)))) := by
  have hcn : e'.className = joinWith [' '] (words s) := by unfold El.className; rw [h]
  refine ⟨h, hcn, ?_, ?_, ?_, ?_, ?_, ?_⟩
  · intro n; rw [view_hasClass, h]
  · rw [view_getitem T lower_classK, hcn]
  · intro hb; rw [view_getAttribute T lower_classK hb, hcn]
  · rw [presence_hasAttribute lower_classK, h]
  · rw [presence_contains lower_classK, h]
  · rw [viewList_class, h, hcn]

/-- e.g. `className = v` then every view: the composite -/
theorem write_read_className (T : Tables) (v : Option Str) (e : El) (d : PyVal) :
    classList (setClassName v e) = words (v.getD []) ∧
    (setClassName v e).className = joinWith [' '] (words (v.getD [])) ∧
    hasAttribute classK (setClassName v e) = !(words (v.getD [])).isEmpty :=
  have h := write_read_views T (v.getD []) (e' := setClassName v e) rfl d
  ⟨h.1, h.2.1, h.2.2.2.2.2.1⟩

/-- FRAME: a class writer (any of the seven) leaves every other key of the mapping — `style` included — listed as it
    was, and the style map untouched.  `op` ranges over the operations that address `class` only. -/
theorem write_frame_other_keys (T : Tables) (op : Op) (hop : addresses T op = [classK]) {e : El} (h : DictInv e)
    {k : Str} (hk : k ≠ classK) :
    aget k (viewList (step T e op).2) = aget k (viewList e) ∧ (step T e op).2.sty = e.sty := by
  refine ⟨frame_lookup T op h (by rw [hop]; simpa using hk), step_sty_of_addresses T op e ?_⟩
  rw [hop]
  simpa using styleK_ne_classK

/-- the seven class writers are such operations (any spelling of the key) -/
theorem class_writers_address_class (T : Tables) {k : Str} (hk : lower k = classK) (s : Str) (v : Option Str) (dv : DotVal) :
    addresses T (.addClass s) = [classK] ∧ addresses T (.rmClass s) = [classK] ∧ addresses T (.className v) = [classK] ∧
    addresses T (.setAttr k v) = [classK] ∧ addresses T (.rmAttr k) = [classK] ∧ addresses T (.mapSet k v) = [classK] ∧
    addresses T (.mapDel k) = [classK] ∧ addresses T (.dot classNameK dv) = [classK] := by
  simp [addresses, hk]

/-- **The list as a LIST.**  Replacing the class list by `c` (what every class writer does, `addClass` / `removeClass`
    included) is `d['class'] = ' '.join(c)` — `del d['class']` for an empty `c` — on the one list: the entry keeps
    its place when `class` was listed, goes last when it was not, every other entry stays where it is.  Hypothesis
    `ClassSynced`: the state any list-shaped reader leaves (C08 `write_list_set_after_read`). -/
theorem write_list_class {e : El} (h : DictInv e) (hs : ClassSynced e) (c : List Str) :
    viewList { e with cls := c } =
      if c.isEmpty then adel classK (viewList e) else aset classK (some (joinWith [' '] c)) (viewList e) :=
  viewList_set_cls h hs c

/-- in every state: the list without its `class` entry does not change at all -/
theorem write_list_class_general (e : El) (c : List Str) :
    adel classK (viewList { e with cls := c }) = adel classK (viewList e) := viewList_cls_general e c

/-! ### non-vacuity -/

def T0 : Tables := { binary := [['c', 'h', 'e', 'c', 'k', 'e', 'd']], binStr := [], links := [] }

example : ClassPlain T0 := ⟨by decide, by decide⟩

/-- a reachable, clean state with two names: `className = "b  a"`, then `addClass("a c")` -/
example : (run T0 (mk T0 ['d', 'i', 'v'] false []) [.className (some ['b', ' ', ' ', 'a']), .addClass ['a', ' ', 'c']]).cls
    = [['b'], ['a'], ['c']] := by decide

example : GoodOp (.addClass ['a', ' ', 'c']) := by
  intro c hc
  simp at hc
  rcases hc with h | h | h <;> subst h <;> decide

/-- the value-less class attribute of the pinned tree (`<div class>`) gives no names -/
example : (mk T0 ['d', 'i', 'v'] false [(classK, none)]).cls = [] := by decide

/-! non-vacuity of C09e -/

/-- `setAttribute('CLASS', ' x  y ')` on an element with classes: the list is replaced, every view follows -/
example : ((setAttribute T0 "CLASS".toList (some " x  y ".toList)
      (run T0 (mk T0 ['d', 'i', 'v'] false []) [.className (some ['a'])])).2).cls = [['x'], ['y']] := by decide
example : lower "CLASS".toList = classK := by decide
/-- a `ClassSynced` state with a style and an attribute: `className = 'p q'` rewrites the entry in place, `removeAttribute`
    deletes it, nothing else moves -/
def eS : El := run T0 (mk T0 ['d', 'i', 'v'] false [(classK, some ['a']), ("id".toList, some ['i'])])
  [.sync, .styAssign (some "top: 1px".toList)]
example : DictInv eS ∧ ClassSynced eS := ⟨(reach_inv ⟨_, _, _, _, rfl⟩).2, by unfold ClassSynced; decide⟩
example : viewList eS = [("id".toList, some ['i']), (classK, some ['a']), (styleK, some "top: 1px".toList)] := by decide
example : viewList (setClassName (some "p q".toList) eS)
    = [("id".toList, some ['i']), (classK, some "p q".toList), (styleK, some "top: 1px".toList)] := by decide
example : viewList (removeAttribute classK eS) = [("id".toList, some ['i']), (styleK, some "top: 1px".toList)] := by decide

end AHP.C09
