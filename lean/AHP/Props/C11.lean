/- C11 — property theorems (stub: the property is not claimed yet). -/
namespace AHP.C11
end AHP.C11
