/-
  C11 — Formatting preserves the document: structure, attributes, text, preformatted.

  Property theorems only.  Model: AHP/Model/Format.lean (the four formatter classes, the element serialiser with
  `_indent`, the plain parser's handlers); lemmas and specification functions: AHP/Lemmas/Format.lean, Squeeze.lean.

  All statements are about **every token sequence** the tokenizer may hand to the `handle_*` callbacks (no
  well-formedness assumed: stray and missing end tags, several roots, text outside the root, …) and every
  configuration `cfg` (element class normal/slim, indent unit, mini).  The only hypothesis is the one the property
  itself makes (DESIGN §8 #21): no element of the input carries the reserved name of the invisible wrapper.

  String level: `formatter_output_lexes` / `formatter_output_reparses` / `formatter_roundtrip_strict` (below) go from
  the output *text* back to tokens with the character-level lexer of C01 (`lexStrict`, Model/Lexer.lean) and on to the
  plain parser's tree, for all four classes and for single- and multi-root documents in the strict sub-language
  (lemmas: AHP/Lemmas/FormatLex*.lean); `mini_output_is_fixed_point_text` is C12c on text.  What these statements
  assume is listed under "What is partial".
-/
import AHP.Lemmas.Format
import AHP.Lemmas.FormatLexMini
import AHP.Lemmas.FormatLexExact
import AHP.Lemmas.FormatLexConv
namespace AHP.C11
open AHP AHP.Fmt
-- the lexer's side (namespace `AHP`) has declarations with the same short names as the formatter model
-- (`AHP.Fmt`); inside this file the short names keep meaning the formatter model's
export AHP.Fmt (Frame Node binaryAttrs boolString collapseSpaces dictDel dictSet docHTML endTag handleEnd
  handleStart isAlnum isAlpha isVoid renderAttr run startTag step styleStr styleToDict toNodeL validAttrName
  voidTags wrapToks)

/-! #### table obligations: the sets of constants.py the statements below are about -/

theorem preformatted_table : Gen.preformattedTags = ["code", "pre"] := by decide
theorem preserve_table : Gen.preserveContentsTags = ["code", "pre", "script", "style"] := by decide
theorem wrapper_table : Gen.invisibleRootTag = "xxxblank" := by decide
/-- pre/code content is preserved content; the wrapper is neither void nor preformatted nor preserved -/
theorem tables_consistent :
    (∀ n, isPre n = true → isPreserve n = true)
    ∧ isVoid wrapper = false ∧ isPre wrapper = false ∧ isPreserve wrapper = false := by
  refine ⟨?_, by decide, by decide, by decide⟩
  intro n h
  simp only [isPre, isPreserve, preTags, preserveTags, preformatted_table, preserve_table, List.map_cons, List.map_nil,
    List.contains_cons, List.contains_nil, Bool.or_false, Bool.or_eq_true, beq_iff_eq] at h ⊢
  rcases h with h | h
  · exact Or.inl h
  · exact Or.inr (Or.inl h)

/-! #### C11a — same elements, nesting, attributes, doctype; same text modulo white space -/

/-- The data rule only moves white space: the text without white space is unchanged … -/
theorem squeeze_preserves_text (s : Str) : eraseWS (squeeze s) = eraseWS s := eraseWS_squeeze s

/-- … and a piece that is more than white space is never dropped. -/
theorem squeeze_keeps_nonblank (s : Str) (h : blank s = false) : blank (squeeze s) = false := squeeze_not_blank s h

/-- **C11a (tree level).**  For every token sequence and configuration: the formatter fails exactly when the plain
    parser fails (same error), and otherwise the tree it serialises has the same doctype and is, modulo formatting,
    the plain parser's tree: same elements in the same nesting with the same attribute store and self-closing flag,
    reference and comment blocks verbatim, data blocks equal after removing all white space (`skel`). -/
theorem formatter_preserves_document (cfg : Cfg) (toks : List Tok) (h : NoWrapperStart toks) :
    (match Plain.feed toks with
     | .ok ps => ∃ fs, feed cfg toks = .ok fs ∧ fs.doctype = ps.doctype ∧ fs.root.map skel = ps.root.map skel
     | .error e => feed cfg toks = .error e) := by
  have := format_tree cfg toks h
  cases hp : Plain.feed toks with
  | error e => simpa [hp] using this
  | ok ps =>
    rw [hp] at this
    obtain ⟨fs, h1, h2, h3⟩ := this
    refine ⟨fs, h1, h3, ?_⟩
    rw [h2]
    cases ps.root with
    | none => rfl
    | some r => simp [dec0, skel_decorate]

/-- The stronger form the other statements are derived from: the formatter's tree is a *function of the plain
    parser's tree* — `decorate` walks it top-down and decides per node from its ancestors alone. -/
theorem formatter_tree_is_decorated (cfg : Cfg) (toks : List Tok) (h : NoWrapperStart toks) :
    feed cfg toks = mapOk (decSt cfg) (Plain.feed toks) := feed_dec cfg toks h

/-- `getHTML` of the formatter is the serialisation of that tree (definitionally; stated for the record). -/
theorem format_is_serialised_tree (cfg : Cfg) (toks : List Tok) (s : St) (h : feed cfg toks = .ok s) :
    format cfg toks = docHTML s.doctype s.root := by
  simp [format, h]

/-! #### C11b — below pre/code everything is reproduced exactly; script/style content is kept -/

/-- **C11b.**  In a context with a pre/code ancestor (`c.inPre ≠ 0`) `decorate` changes nothing but the element class:
    every block — including text in elements nested arbitrarily deep — is kept character for character and no
    element gets an `_indent`. -/
theorem below_pre_exact (cfg : Cfg) (c : Ctx) (p : Str) (h : c.inPre ≠ 0) (t : Node) :
    decorate cfg c p t = rekind cfg.kind t := by
  have := decorate_inPre cfg c p h t
  rw [this.1, this.2]

/-- the children of a pre/code element are in such a context, wherever the element itself sits -/
theorem pre_children_exact (cfg : Cfg) (c : Ctx) (p n : Str) (hn : isPre n = true) (k : Kind) (st : AStore) (sc : Bool)
    (ind : Str) (kids : List Node) :
    decorate cfg c p (.elem k n st sc ind kids) = .elem cfg.kind n st sc (indentAt cfg c) (rekindL cfg.kind kids) := by
  have hc : (c.push n).inPre ≠ 0 := by simp [Ctx.push, hn]
  have := decorateL_inPre cfg (c.push n) n hc kids
  simp only [decorate]
  rw [this.1, this.2]

/-- data directly inside script/style (and pre/code) is never rewritten -/
theorem preserved_parent_text_exact (cfg : Cfg) (c : Ctx) (p : Str) (hp : isPreserve p = true) (v : Bool) (s : Str) :
    decorate cfg c p (.text v s) = .text v s := by
  cases v <;> simp [decorate, hp]

/-- references and comments are never rewritten, wherever they are -/
theorem verbatim_blocks_exact (cfg : Cfg) (c : Ctx) (p : Str) (s : Str) :
    decorate cfg c p (.text true s) = .text true s := by
  simp [decorate]

-- (`end_tag_text`, a restatement of `endTag`'s definition, is replaced by `script_style_content_reparses` below: the
-- statement about the re-parsed output it was meant to support.)

/-! #### string level: the output text lexes back and re-parses to the same document -/

/-- **C11 (string level, a).**  Any of the four formatter classes (normal or slim element class, mini or an indent
    unit of spaces/tabs), any token sequence whose plain-parser tree is a document in the strict sub-language
    (`FNode.Strict`: well-formed names and attribute items, text blocks that are data runs / references / comments,
    raw-text content free of its closing expression, attribute stores that are re-read unchanged), single- or
    multi-root (`WrapperOK`): the formatter's output TEXT is in the domain of the strict lexer and lexes to `docToks` — the token rendering of the decorated
    tree, each `_indent` glued to the data run before it (or a data run of its own). -/
theorem formatter_output_lexes (cfg : Cfg) (hi : IndentWS cfg) (toks : List Tok)
    (h : NoWrapperStart toks) (ps : St) (hp : Plain.feed toks = .ok ps)
    (n : Str) (st : AStore) (sc : Bool) (kids : List FNode)
    (hroot : ps.root = some (FNode.elem n st sc kids).toNode) (hw : WrapperOK n st sc kids)
    (hs : (FNode.elem n st sc kids).Strict) (hdt : DtOK ps.doctype) :
    ∃ out, format cfg toks = .ok out ∧ lexStrict out = some (docToks cfg ps.doctype n st sc kids) := by
  refine ⟨renderToksY (styleOf cfg.kind) (docToks cfg ps.doctype n st sc kids),
    format_text cfg toks h ps hp n st sc kids hroot hw hs, ?_⟩
  unfold docToks
  by_cases hn : n = wrapper
  · subst hn
    simp only [if_true]
    exact doc_lex_multi cfg hi _ kids (strictL_of_wrapper st sc kids hs) hdt
  · simp only [hn, if_false]
    exact doc_lex cfg hi _ _ hs hdt

/-- trees with the same skeleton have the same canonical skeleton (`cskel` = `skel`, then empty data blocks dropped
    and adjacent data blocks joined) — so `formatter_preserves_document` also reads with `cskel` -/
theorem cskel_of_skel (a b : Node) (h : skel a = skel b) : cskel a = cskel b := by
  unfold cskel; rw [h]

/-- **C11 (string level, b).**  Under the same hypotheses: lexing the formatter's output text and building with the
    plain parser gives a document with the same doctype whose tree equals the input's tree modulo formatting —
    same elements, nesting, attribute stores and self-closing flags, references and comments verbatim, text equal
    after removing white space (`cskel`: the white-space-only blocks the `_indent`s add between elements vanish,
    an `_indent` glued to a data run is white space of that run). -/
theorem formatter_output_reparses (cfg : Cfg) (hi : IndentWS cfg) (toks : List Tok)
    (h : NoWrapperStart toks) (ps : St) (hp : Plain.feed toks = .ok ps)
    (n : Str) (st : AStore) (sc : Bool) (kids : List FNode)
    (hroot : ps.root = some (FNode.elem n st sc kids).toNode) (hw : WrapperOK n st sc kids)
    (hs : (FNode.elem n st sc kids).Strict) (hdt : DtOK ps.doctype) :
    ∃ out toks' ps', format cfg toks = .ok out ∧ lexStrict out = some toks' ∧
      Plain.feed (toks'.map Tok.ofToken) = .ok ps' ∧ ps'.doctype = ps.doctype ∧
      ps'.root.map cskel = ps.root.map cskel := by
  obtain ⟨out, hout, hlex⟩ := formatter_output_lexes cfg hi toks h ps hp n st sc kids hroot hw hs hdt
  rw [hroot]
  unfold docToks at hlex
  by_cases hn : n = wrapper
  · obtain ⟨hst, hsc, hmulti⟩ := hw hn
    subst hn; subst hsc; subst hst
    simp only [if_true] at hlex
    have hk' := strictL_of_wrapper {} false kids hs
    refine ⟨out, _, _, hout, hlex, doc_reparse_multi cfg hi ps.doctype kids hk' hdt hmulti, rfl, ?_⟩
    simp only [St.root, rootOfStack, Option.map_some]
    rw [cskel_outM cfg hi ps.doctype {} kids hk']
  · simp only [hn, if_false] at hlex
    refine ⟨out, _, _, hout, hlex, doc_reparse cfg hi ps.doctype n st sc kids hs hdt, rfl, ?_⟩
    simp only [St.root, rootOfStack, Option.map_some]
    rw [cskel_outRoot cfg hi n st sc kids hs]

/-- **C11b on the re-parsed output (string level).**  Same hypotheses as `formatter_output_reparses`; the comparison is
    the finer skeleton `pskel` (`Lemmas/FormatLexExact.lean`) instead of `cskel`: lexing the formatter's output text and
    building with the plain parser gives a document with the same doctype whose tree has the same elements, nesting,
    attribute stores and self-closing flags, references and comments verbatim, and

    * **every data block below a pre/code element — at any depth, inside nested elements too — character for character**
      (adjacent data blocks joined, as re-tokenising joins them);
    * the content of every script/style element outside pre/code equal up to its trailing run of line-feed / space / tab
      characters (`stripTail`; exactly what is appended: `script_style_content_reparses`);
    * all other text equal after removing white space (as in `cskel`). -/
theorem formatter_output_reparses_exact (cfg : Cfg) (hi : IndentWS cfg) (toks : List Tok)
    (h : NoWrapperStart toks) (ps : St) (hp : Plain.feed toks = .ok ps)
    (n : Str) (st : AStore) (sc : Bool) (kids : List FNode)
    (hroot : ps.root = some (FNode.elem n st sc kids).toNode) (hw : WrapperOK n st sc kids)
    (hs : (FNode.elem n st sc kids).Strict) (hdt : DtOK ps.doctype) :
    ∃ out toks' ps', format cfg toks = .ok out ∧ lexStrict out = some toks' ∧
      Plain.feed (toks'.map Tok.ofToken) = .ok ps' ∧ ps'.doctype = ps.doctype ∧
      ps'.root.map pskel = ps.root.map pskel := by
  obtain ⟨out, hout, hlex⟩ := formatter_output_lexes cfg hi toks h ps hp n st sc kids hroot hw hs hdt
  rw [hroot]
  unfold docToks at hlex
  by_cases hn : n = wrapper
  · obtain ⟨hst, hsc, hmulti⟩ := hw hn
    subst hn; subst hsc; subst hst
    simp only [if_true] at hlex
    have hk' := strictL_of_wrapper {} false kids hs
    refine ⟨out, _, _, hout, hlex, doc_reparse_multi cfg hi ps.doctype kids hk' hdt hmulti, rfl, ?_⟩
    simp only [St.root, rootOfStack, Option.map_some]
    rw [pskel_outM cfg hi ps.doctype {} kids hk']
  · simp only [hn, if_false] at hlex
    refine ⟨out, _, _, hout, hlex, doc_reparse cfg hi ps.doctype n st sc kids hs hdt, rfl, ?_⟩
    simp only [St.root, rootOfStack, Option.map_some]
    rw [pskel_outRoot cfg hi n st sc kids hs]

/-- **C11b, script/style on the re-parsed output: exactly what is added.**  Same hypotheses.  List the contents
    (concatenated text) of the script/style elements in document order (`rawConts`), for the plain parser's tree of the
    input (`r`) and for its tree of the lexed output text (`r'`): the two lists have the same length and, element by
    element (`TailsRel`), the output's content is the input's content, or the input's content followed by **a line break
    and spaces/tabs** — "the line break and indentation the pretty printers place before the end tag" (`TailRel`;
    which of the two, and how many units: C12's layout law).  Replaces `end_tag_text`. -/
theorem script_style_content_reparses (cfg : Cfg) (hi : IndentWS cfg) (toks : List Tok)
    (h : NoWrapperStart toks) (ps : St) (hp : Plain.feed toks = .ok ps)
    (n : Str) (st : AStore) (sc : Bool) (kids : List FNode)
    (hroot : ps.root = some (FNode.elem n st sc kids).toNode) (hw : WrapperOK n st sc kids)
    (hs : (FNode.elem n st sc kids).Strict) (hdt : DtOK ps.doctype) :
    ∃ out toks' ps' r', format cfg toks = .ok out ∧ lexStrict out = some toks' ∧
      Plain.feed (toks'.map Tok.ofToken) = .ok ps' ∧ ps'.root = some r' ∧
      TailsRel (rawConts (FNode.elem n st sc kids).toNode) (rawConts r') := by
  obtain ⟨out, hout, hlex⟩ := formatter_output_lexes cfg hi toks h ps hp n st sc kids hroot hw hs hdt
  unfold docToks at hlex
  by_cases hn : n = wrapper
  · obtain ⟨hst, hsc, hmulti⟩ := hw hn
    subst hn; subst hsc; subst hst
    simp only [if_true] at hlex
    have hk' := strictL_of_wrapper {} false kids hs
    exact ⟨out, _, _, _, hout, hlex, doc_reparse_multi cfg hi ps.doctype kids hk' hdt hmulti, rfl,
      rawConts_outM cfg hi ps.doctype {} kids hk'⟩
  · simp only [hn, if_false] at hlex
    exact ⟨out, _, _, _, hout, hlex, doc_reparse cfg hi ps.doctype n st sc kids hs hdt, rfl,
      rawConts_outRoot cfg hi n st sc kids hs⟩

/-- **`pskel` refines `cskel`.**  On trees whose script/style content consists of data blocks only (`RawData`: every tree
    the tokenizer can give rise to — raw text is reported as data —, in particular every strict tree, `rawData_strict`)
    `cskel` is a function of `pskel` (`cskel t = canon (skel (pskel t))`): trees with the same `pskel` have the same
    `cskel`, so `formatter_output_reparses_exact` implies `formatter_output_reparses`. -/
theorem pskel_refines_cskel (a b : Node) (ha : RawData a) (hb : RawData b) (h : pskel a = pskel b) :
    cskel a = cskel b := cskel_of_pskel a b ha hb h

/-- what `pskel` keeps, spelled out on the three kinds of data: below pre/code the block itself; outside, the block
    without white space; of script/style outside pre/code the concatenated text without its trailing LF/space/tab run -/
theorem pskel_keeps (s : Str) (k : Kind) (n : Str) (st : AStore) (sc : Bool) (ind : Str) (kids : List Node) :
    pskelAt true (.text false s) = .text false s
    ∧ pskelAt false (.text false s) = .text false (eraseWS s)
    ∧ (isPre n = true → pskelAt false (.elem k n st sc ind kids) = .elem .normal n st sc [] (pskelAtL true kids))
    ∧ (isRawText n = true →
        pskelAt false (.elem k n st sc ind kids) = .elem .normal n st sc [] [.text false (stripTail (textCat kids))]) := by
  refine ⟨rfl, rfl, ?_, ?_⟩
  · intro hp
    have hr : isRawText n = false := by
      cases hr : isRawText n with
      | false => rfl
      | true => rw [raw_not_pre n hr] at hp; cases hp
    simp [pskelAt, hp, hr]
  · intro hr
    simp [pskelAt, hr]

/-- **C11 (string level, token form).**  For every strict single-root document tree `u` (any size, any depth),
    every doctype and every formatter class: feed the formatter the token sequence of the document; its output
    text lexes, and the plain parser builds from it a document with the same doctype and the tree of `u` modulo
    formatting. -/
theorem formatter_roundtrip_strict (cfg : Cfg) (hi : IndentWS cfg) (dt : Option Str) (hdt : DtOK dt)
    (n : Str) (st : AStore) (sc : Bool) (kids : List FNode) (hs : (FNode.elem n st sc kids).Strict)
    (hn : n ≠ wrapper) (hnw : NoWrapperStart (strictToks dt (.elem n st sc kids))) :
    ∃ out toks' ps', format cfg (strictToks dt (.elem n st sc kids)) = .ok out ∧ lexStrict out = some toks' ∧
      Plain.feed (toks'.map Tok.ofToken) = .ok ps' ∧ ps'.doctype = dt ∧
      ps'.root.map cskel = some (cskel (FNode.elem n st sc kids).toNode) := by
  have hp := plain_feed_strictToks dt hdt n st sc kids hs
  exact formatter_output_reparses cfg hi _ hnw _ hp n st sc kids rfl (fun e => absurd e hn) hs hdt

/-! #### C11c — `getFormattedHTML` / `getMiniHTML` = formatter ∘ `getHTML` (a composition through text) -/

/-- `AdvancedHTMLParser.getFormattedHTML(indent)` / `.getMiniHTML()` as the code has them (Parser.py):
    `html = self.getHTML()`; a fresh formatter of the class in question is fed `html` — i.e. the text is tokenised
    again —; `formatter.getHTML()`.  The tokenizer in between is the strict lexer of C01: `none` = the text of `getHTML()`
    is outside its domain (never for strict documents: `getFormattedHTML_is_format_of_getHTML`); a `getHTML()` that raises
    (nothing parsed) raises here too. -/
def viaGetHTML (cfg : Cfg) (toks : List Tok) : Option (Except Err Str) :=
  match Plain.html toks with
  | .error e => some (.error e)
  | .ok html => (lexStrict html).map (fun ts => format cfg (ts.map Tok.ofToken))

/-- `parser.getFormattedHTML(indent)`: `AdvancedHTMLFormatter(indent, None)` -/
def getFormattedHTML (ind : IndentArg) (toks : List Tok) : Option (Except Err Str) :=
  viaGetHTML (mkCfg .pretty ind false) toks
/-- `parser.getMiniHTML()`: `AdvancedHTMLMiniFormatter(None)` -/
def getMiniHTML (toks : List Tok) : Option (Except Err Str) := viaGetHTML (mkCfg .mini .dflt false) toks

/-- **C11c.**  Any formatter class; any token sequence whose plain-parser tree is a strict document `u` (single- or
    multi-root) without the reserved name below the root.  Then `getHTML()` returns a text `html` that the strict lexer
    reads back (`toks'` = the tokens of `u` with adjacent data blocks glued; C01), the convenience method **is the
    formatter applied to those tokens**, and those tokens are again a document of the class all C11/C12 statements are
    about: they do not start the reserved name, the plain parser builds from them `reparsed` — `u` with adjacent data
    blocks joined (multi-root: the line break after the doctype line becomes text of the wrapper) — with the same
    doctype, strict again, and with the same `pskel` as `u`. -/
theorem getFormattedHTML_is_format_of_getHTML (cfg : Cfg) (toks : List Tok) (ps : St) (hp : Plain.feed toks = .ok ps)
    (n : Str) (st : AStore) (sc : Bool) (kids : List FNode)
    (hroot : ps.root = some (FNode.elem n st sc kids).toNode) (hw : WrapperOK n st sc kids)
    (hs : (FNode.elem n st sc kids).Strict) (hdt : DtOK ps.doctype) (hnw : NoWrapperL (plainBlocks n st sc kids)) :
    ∃ html toks', Plain.html toks = .ok html ∧ lexStrict html = some toks' ∧
      viaGetHTML cfg toks = some (format cfg (toks'.map Tok.ofToken)) ∧
      NoWrapperStart (toks'.map Tok.ofToken) ∧
      Plain.feed (toks'.map Tok.ofToken)
        = .ok ⟨[], some (reparsed ps.doctype n st sc kids).toNode, ps.doctype, 0, 0⟩ ∧
      (reparsed ps.doctype n st sc kids).Strict ∧
      pskel (reparsed ps.doctype n st sc kids).toNode = pskel (FNode.elem n st sc kids).toNode := by
  have hhtml : Plain.html toks = .ok (renderToksY TagStyle.normal (htmlToks ps.doctype n st sc kids)) := by
    simp only [Plain.html, hp, hroot]
    exact plain_html_text ps.doctype n st sc kids hw
  have hlex := plain_html_lex ps.doctype hdt n st sc kids hs
  refine ⟨_, _, hhtml, hlex, ?_, nw_htmlToks ps.doctype n st sc kids hs hnw,
    plain_html_reparse ps.doctype hdt n st sc kids hw hs, reparsed_strict ps.doctype n st sc kids hw hs,
    pskel_reparsed ps.doctype n st sc kids hw⟩
  simp [viaGetHTML, hhtml, hlex]

/-- **C11c + C11a/b: the convenience methods preserve the document.**  Same hypotheses, indent unit of spaces/tabs: the
    method returns a text; that text lexes and the plain parser builds from it a document with the same doctype and the
    same `pskel` as the parser's own tree (`formatter_output_reparses_exact` composed with the step through `getHTML()`). -/
theorem getFormattedHTML_preserves_document (cfg : Cfg) (hi : IndentWS cfg) (toks : List Tok) (ps : St)
    (hp : Plain.feed toks = .ok ps) (n : Str) (st : AStore) (sc : Bool) (kids : List FNode)
    (hroot : ps.root = some (FNode.elem n st sc kids).toNode) (hw : WrapperOK n st sc kids)
    (hs : (FNode.elem n st sc kids).Strict) (hdt : DtOK ps.doctype) (hnw : NoWrapperL (plainBlocks n st sc kids)) :
    ∃ out toks'' ps'', viaGetHTML cfg toks = some (.ok out) ∧ lexStrict out = some toks'' ∧
      Plain.feed (toks''.map Tok.ofToken) = .ok ps'' ∧ ps''.doctype = ps.doctype ∧
      ps''.root.map pskel = ps.root.map pskel := by
  obtain ⟨html, toks', _, _, hvia, hnws, hfeed, hstrict, hpsk⟩ :=
    getFormattedHTML_is_format_of_getHTML cfg toks ps hp n st sc kids hroot hw hs hdt hnw
  have hwOK := reparsed_wrapperOK ps.doctype n st sc kids hw
  by_cases hn : n = wrapper
  · obtain ⟨e, hw'⟩ := hwOK.1 hn
    rw [e] at hfeed hstrict hpsk
    obtain ⟨out, t2, ps2, h1, h2, h3, h4, h5⟩ := formatter_output_reparses_exact cfg hi _ hnws _ hfeed _ _ _ _ rfl hw'
      hstrict hdt
    refine ⟨out, t2, ps2, by rw [hvia, h1], h2, h3, h4, ?_⟩
    rw [h5, hroot]
    simp only [St.root, rootOfStack, Option.map_some, hpsk]
  · obtain ⟨e, hw'⟩ := hwOK.2 hn
    rw [e] at hfeed hstrict hpsk
    obtain ⟨out, t2, ps2, h1, h2, h3, h4, h5⟩ := formatter_output_reparses_exact cfg hi _ hnws _ hfeed _ _ _ _ rfl hw'
      hstrict hdt
    refine ⟨out, t2, ps2, by rw [hvia, h1], h2, h3, h4, ?_⟩
    rw [h5, hroot]
    simp only [St.root, rootOfStack, Option.map_some, hpsk]

/-- For a single-root strict document without adjacent data blocks (`Glued`: what every parse of strict text gives) the
    step through `getHTML()` changes nothing: the convenience method returns exactly what the formatter returns on the
    original token sequence. -/
theorem getFormattedHTML_eq_format_glued (cfg : Cfg) (toks : List Tok) (hnwt : NoWrapperStart toks) (ps : St)
    (hp : Plain.feed toks = .ok ps) (n : Str) (st : AStore) (sc : Bool) (kids : List FNode)
    (hroot : ps.root = some (FNode.elem n st sc kids).toNode) (hn : n ≠ wrapper)
    (hs : (FNode.elem n st sc kids).Strict) (hg : (FNode.elem n st sc kids).Glued) (hdt : DtOK ps.doctype)
    (hnw : (FNode.elem n st sc kids).NoWrapper) :
    viaGetHTML cfg toks = some (format cfg toks) := by
  have hw : WrapperOK n st sc kids := fun e => absurd e hn
  have hnw' : NoWrapperL (plainBlocks n st sc kids) := by
    simp only [plainBlocks, hn, if_false, NoWrapperL]
    exact ⟨hnw, trivial⟩
  obtain ⟨html, toks', _, _, hvia, hnws, hfeed, _, _⟩ :=
    getFormattedHTML_is_format_of_getHTML cfg toks ps hp n st sc kids hroot hw hs hdt hnw'
  have hre : reparsed ps.doctype n st sc kids = .elem n st sc kids := by
    simp only [FNode.Glued] at hg
    simp only [reparsed, hn, if_false, mergeL_glued kids hg.1 hg.2]
  rw [hre] at hfeed
  rw [hvia, format_text cfg _ hnws _ hfeed n st sc kids rfl hw hs, format_text cfg toks hnwt ps hp n st sc kids hroot hw hs]

/-! #### C12c at string level (stated here: the lexer bridge lives with C11; `Props/C12.lean` lists it as partial) -/

/-- **mini² = mini on text.**  Mini class (normal or slim elements), any doctype, any strict single-root document
    `u` — any size and depth — without adjacent data blocks and without the reserved name: feed the formatter the
    tokens of `u`; its output text lexes (`lexStrict`), and feeding the formatter those tokens gives the identical
    text.  (With adjacent data blocks — markup the formatter drops between two text pieces — it fails:
    `C12.mini_dropped_markup_counterexample`, the known finding.) -/
theorem mini_output_is_fixed_point_text (cfg : Cfg) (hm : cfg.mini = true) (hi : IndentWS cfg) (dt : Option Str)
    (hdt : DtOK dt) (n : Str) (st : AStore) (sc : Bool) (kids : List FNode)
    (hs : (FNode.elem n st sc kids).Strict) (hg : (FNode.elem n st sc kids).Glued)
    (hnw : (FNode.elem n st sc kids).NoWrapper) :
    ∃ out toks2, format cfg (strictToks dt (.elem n st sc kids)) = .ok out ∧ lexStrict out = some toks2 ∧
      format cfg (toks2.map Tok.ofToken) = .ok out :=
  mini_text_fixed_point cfg hm hi dt hdt n st sc kids hs hg hnw

/-! #### non-vacuity -/

/-- a document with a nested preformatted span, text before the root's end and an implicit close -/
def sampleToks : List Tok :=
  [.start (str "div") [(str "class", some (str " a  b "))], .data (str " x \n"), .start (str "pre") [],
   .start (str "span") [], .data (str "  y  "), .end_ (str "pre"), .entity (str "amp"), .end_ (str "div")]

example : NoWrapperStart sampleToks := by decide
example : okIs (format (mkCfg .pretty (.str (str "  ")) false) sampleToks)
    "\n<div class=\"a b\" > x \n  <pre ><span >  y  </span></pre>&amp;\n</div>" = true := by decide
example : okIs (Plain.html sampleToks) "<div class=\"a b\" > x \n<pre ><span >  y  </span></pre>&amp;</div>" = true := by decide


/-- the plain parser's tree of `sampleToks` in lexical form -/
def sampleTree : FNode :=
  .elem (str "div") (mkStore [(str "class", some (str " a  b "))] {}) false
    [.tok (.data (str " x \n")),
     .elem (str "pre") {} false [.elem (str "span") {} false [.tok (.data (str "  y  "))]],
     .tok (.entity (str "amp"))]

/-- a document with raw text: `<!DOCTYPE html><div id="a"><script>if (a < b && c) { s = "</div>"; }</script><p>x</p></div>` -/
def rawToks : List Tok :=
  [.decl (str "DOCTYPE html"), .start (str "div") [(str "id", some (str "a"))], .start (str "script") [],
   .data (str "if (a < b && c) { s = \"</div>\"; }"), .end_ (str "script"), .start (str "p") [], .data (str "x"),
   .end_ (str "p"), .end_ (str "div")]

def rawTree : FNode :=
  .elem (str "div") (mkStore [(str "id", some (str "a"))] {}) false
    [.elem (str "script") {} false [.tok (.data (str "if (a < b && c) { s = \"</div>\"; }"))],
     .elem (str "p") {} false [.tok (.data (str "x"))]]

/-- the hypotheses of `formatter_output_reparses` are met by `sampleToks` (pretty class, two spaces) … -/
example : ∃ out toks' ps', format (mkCfg .pretty (.str (str "  ")) false) sampleToks = .ok out ∧
    lexStrict out = some toks' ∧ Plain.feed (toks'.map Tok.ofToken) = .ok ps' ∧ ps'.doctype = none ∧
    ps'.root.map cskel = some (cskel sampleTree.toNode) :=
  formatter_output_reparses (mkCfg .pretty (.str (str "  ")) false) (by decide) sampleToks (by decide)
    ⟨[], some sampleTree.toNode, none, 0, 0⟩ (by rfl) _ _ _ _ rfl (by decide)
    (by simp only [FNode.Strict, StrictL]; decide) trivial

/-- a multi-root document: text, a reference and two elements at top level, after a doctype -/
def multiToks : List Tok :=
  [.decl (str "doctype html"), .data (str "a "), .start (str "b") [], .data (str "x"), .end_ (str "b"),
   .entity (str "amp"), .startend (str "br") [], .data (str "\n")]

def multiKids : List FNode :=
  [.tok (.data (str "a ")), .elem (str "b") {} false [.tok (.data (str "x"))], .tok (.entity (str "amp")),
   .elem (str "br") {} true [], .tok (.data (str "\n"))]

/-- … by a multi-root document (the wrapper case; pretty class with a tab) … -/
example : ∃ out toks' ps', format (mkCfg .pretty (.str (str "\t")) false) multiToks = .ok out ∧
    lexStrict out = some toks' ∧ Plain.feed (toks'.map Tok.ofToken) = .ok ps' ∧
    ps'.doctype = some (str "doctype html") ∧
    ps'.root.map cskel = some (cskel (FNode.elem wrapper {} false multiKids).toNode) :=
  formatter_output_reparses (mkCfg .pretty (.str (str "\t")) false) (by decide) multiToks (by decide)
    ⟨[], some (FNode.elem wrapper {} false multiKids).toNode, some (str "doctype html"), 0, 0⟩ (by rfl) _ _ _ _ rfl
    (by decide) (by simp only [multiKids, FNode.Strict, StrictL]; decide) (by decide)

/-- … and by a document with a doctype and a `<script>` whose content has `<`, `&&` and `</div>` (mini class) -/
example : ∃ out toks' ps', format (mkCfg .mini .dflt false) rawToks = .ok out ∧
    lexStrict out = some toks' ∧ Plain.feed (toks'.map Tok.ofToken) = .ok ps' ∧
    ps'.doctype = some (str "DOCTYPE html") ∧ ps'.root.map cskel = some (cskel rawTree.toNode) :=
  formatter_output_reparses (mkCfg .mini .dflt false) (by decide) rawToks (by decide)
    ⟨[], some rawTree.toNode, some (str "DOCTYPE html"), 0, 0⟩ (by rfl) _ _ _ _ rfl (by decide)
    (by simp only [FNode.Strict, StrictL]; decide) (by decide)

/-- … and by the same multi-root document under the slim classes (`<b>`, `<br/>`) -/
example : ∃ out toks' ps', format (mkCfg .slim (.int 4) true) multiToks = .ok out ∧
    lexStrict out = some toks' ∧ Plain.feed (toks'.map Tok.ofToken) = .ok ps' ∧
    ps'.doctype = some (str "doctype html") ∧
    ps'.root.map cskel = some (cskel (FNode.elem wrapper {} false multiKids).toNode) :=
  formatter_output_reparses (mkCfg .slim (.int 4) true) (by decide) multiToks (by decide)
    ⟨[], some (FNode.elem wrapper {} false multiKids).toNode, some (str "doctype html"), 0, 0⟩ (by rfl) _ _ _ _ rfl
    (by decide) (by simp only [multiKids, FNode.Strict, StrictL]; decide) (by decide)

/-- `formatter_roundtrip_strict` on the raw-text document (slim-mini class) -/
example : ∃ out toks' ps', format (mkCfg .slimMini .dflt true) (strictToks (some (str "DOCTYPE html")) rawTree) = .ok out ∧
    lexStrict out = some toks' ∧ Plain.feed (toks'.map Tok.ofToken) = .ok ps' ∧
    ps'.doctype = some (str "DOCTYPE html") ∧ ps'.root.map cskel = some (cskel rawTree.toNode) :=
  formatter_roundtrip_strict (mkCfg .slimMini .dflt true) (by decide) _ (by decide) _ _ _ _
    (by simp only [FNode.Strict, StrictL]; decide) (by decide) (by decide)

/-- `mini_output_is_fixed_point_text` on `sampleTree` (white space around text, a `pre` with a nested element, a
    reference) and on the raw-text document, slim-mini class -/
example : ∃ out toks2, format (mkCfg .slimMini .dflt true) (strictToks none sampleTree) = .ok out ∧
    lexStrict out = some toks2 ∧ format (mkCfg .slimMini .dflt true) (toks2.map Tok.ofToken) = .ok out :=
  mini_output_is_fixed_point_text (mkCfg .slimMini .dflt true) rfl (by decide) none trivial _ _ _ _
    (by simp only [FNode.Strict, StrictL]; decide)
    (by simp only [FNode.Glued, GluedL, FNoAdjL, fisDataTok]; decide)
    (by simp only [FNode.NoWrapper, NoWrapperL]; decide)

example : ∃ out toks2, format (mkCfg .mini .dflt false) (strictToks (some (str "DOCTYPE html")) rawTree) = .ok out ∧
    lexStrict out = some toks2 ∧ format (mkCfg .mini .dflt false) (toks2.map Tok.ofToken) = .ok out :=
  mini_output_is_fixed_point_text (mkCfg .mini .dflt false) rfl (by decide) _ (by decide) _ _ _ _
    (by simp only [FNode.Strict, StrictL]; decide)
    (by simp only [FNode.Glued, GluedL, FNoAdjL, fisDataTok]; decide)
    (by simp only [FNode.NoWrapper, NoWrapperL]; decide)

/-- `formatter_output_reparses_exact` applies to `sampleToks` (a `pre` with a nested `span` holding `  y  `) … -/
example : ∃ out toks' ps', format (mkCfg .pretty (.str (str "  ")) false) sampleToks = .ok out ∧
    lexStrict out = some toks' ∧ Plain.feed (toks'.map Tok.ofToken) = .ok ps' ∧ ps'.doctype = none ∧
    ps'.root.map pskel = some (pskel sampleTree.toNode) :=
  formatter_output_reparses_exact (mkCfg .pretty (.str (str "  ")) false) (by decide) sampleToks (by decide)
    ⟨[], some sampleTree.toNode, none, 0, 0⟩ (by rfl) _ _ _ _ rfl (by decide)
    (by simp only [FNode.Strict, StrictL]; decide) trivial

example : ∃ out toks' ps' r', format (mkCfg .pretty .dflt false) rawToks = .ok out ∧
    lexStrict out = some toks' ∧ Plain.feed (toks'.map Tok.ofToken) = .ok ps' ∧ ps'.root = some r' ∧
    TailsRel (rawConts rawTree.toNode) (rawConts r') :=
  script_style_content_reparses (mkCfg .pretty .dflt false) (by decide) rawToks (by decide)
    ⟨[], some rawTree.toNode, some (str "DOCTYPE html"), 0, 0⟩ (by rfl) _ _ _ _ rfl (by decide)
    (by simp only [FNode.Strict, StrictL]; decide) (by decide)

example : rawConts rawTree.toNode = [str "if (a < b && c) { s = \"</div>\"; }"] := by decide

/-- `pskel` is strictly finer than `cskel`: white space below pre/code (here inside a nested element) is erased by
    `cskel` and kept by `pskel` -/
def preA : Node := .elem .normal (str "pre") {} false [] [.elem .normal (str "b") {} false [] [.text false (str " y ")]]
def preB : Node := .elem .normal (str "pre") {} false [] [.elem .normal (str "b") {} false [] [.text false (str "y")]]

example : cskel preA = cskel preB ∧ pskel preA ≠ pskel preB := by
  have e1 : eraseWS (str " y ") = str "y" := by decide
  have e2 : eraseWS (str "y") = str "y" := by decide
  have e3 : isRawText (str "pre") = false := by decide
  have e4 : isRawText (str "b") = false := by decide
  have e5 : isPre (str "pre") = true := by decide
  constructor
  · simp [preA, preB, cskel, skel, skelL, e1, e2]
  · simp only [preA, preB, pskel, pskelAt, pskelAtL, e3, e4, e5, Bool.and_false, Bool.false_eq_true, if_false,
      Bool.or_true, if_true, Bool.not_false, Bool.true_or]
    simp [canon, canonL, pushText, str]
/-- C11c on `sampleToks` (single root, no adjacent data blocks): the convenience method = the formatter on the tokens -/
example : getFormattedHTML (.str (str "  ")) sampleToks = some (format (mkCfg .pretty (.str (str "  ")) false) sampleToks) :=
  getFormattedHTML_eq_format_glued _ sampleToks (by decide) ⟨[], some sampleTree.toNode, none, 0, 0⟩ (by rfl) _ _ _ _ rfl
    (by decide) (by simp only [FNode.Strict, StrictL]; decide)
    (by simp only [sampleTree, FNode.Glued, GluedL, FNoAdjL, fisDataTok]; decide) trivial
    (by simp only [sampleTree, FNode.NoWrapper, NoWrapperL]; decide)

/-- C11c on the multi-root document with a doctype (mini class): hypotheses met, and the computed result -/
example : ∃ out toks'' ps'', getMiniHTML multiToks = some (.ok out) ∧ lexStrict out = some toks'' ∧
    Plain.feed (toks''.map Tok.ofToken) = .ok ps'' ∧ ps''.doctype = some (str "doctype html") ∧
    ps''.root.map pskel = some (pskel (FNode.elem wrapper {} false multiKids).toNode) :=
  getFormattedHTML_preserves_document (mkCfg .mini .dflt false) (by decide) multiToks
    ⟨[], some (FNode.elem wrapper {} false multiKids).toNode, some (str "doctype html"), 0, 0⟩ (by rfl) _ _ _ _ rfl
    (by decide) (by simp only [multiKids, FNode.Strict, StrictL]; decide) (by decide)
    (by simp only [multiKids, plainBlocks, if_true, FNode.NoWrapper, NoWrapperL]; decide)

example : (match getMiniHTML multiToks with
    | some r => okIs r "<!doctype html>\na <b >x</b>&amp;<br />"
    | none => false) = true := by decide +kernel
example : (match getFormattedHTML (.int 1) multiToks with
    | some r => okIs r "<!doctype html>\na \n<b >x\n</b>&amp;\n<br />"
    | none => false) = true := by decide +kernel
/-- `getFormattedHTML_is_format_of_getHTML` on the raw-text document (pretty class), and `pskel_refines_cskel`'s
    hypothesis on its tree -/
example : ∃ html toks', Plain.html rawToks = .ok html ∧ lexStrict html = some toks' ∧
    getFormattedHTML .dflt rawToks = some (format (mkCfg .pretty .dflt false) (toks'.map Tok.ofToken)) :=
  let ⟨html, toks', h1, h2, h3, _⟩ := getFormattedHTML_is_format_of_getHTML (mkCfg .pretty .dflt false) rawToks
    ⟨[], some rawTree.toNode, some (str "DOCTYPE html"), 0, 0⟩ (by rfl) _ _ _ _ rfl (by decide)
    (by simp only [FNode.Strict, StrictL]; decide) (by decide)
    (by
      have hn : str "div" ≠ wrapper := by decide
      simp only [plainBlocks, hn, if_false, FNode.NoWrapper, NoWrapperL]; decide)
  ⟨html, toks', h1, h2, h3⟩
example : RawData rawTree.toNode := rawData_strict _ (by simp only [rawTree, FNode.Strict, StrictL]; decide)

/-- the output texts in question -/
example : okIs (format (mkCfg .slim (.int 4) true) multiToks)
    "<!doctype html>\na \n<b>x\n</b>&amp;\n<br/>" = true := by decide
example : okIs (format (mkCfg .pretty .dflt false) rawToks)
    "<!DOCTYPE html>\n\n<div id=\"a\" >\n  <script >if (a < b && c) { s = \"</div>\"; }\n  </script>\n  <p >x\n  </p>\n</div>"
    = true := by decide

/-!
  #### What is partial

  * `formatter_output_reparses` is stated on the plain parser's *tree* of the input (`ps.root = some u.toNode`,
    `u.Strict`), not on the input's token list: that every token list of the strict sub-language (C01's `ListOK`)
    builds a `Strict` tree is not proved (it needs an invariant over `Plain.run` for arbitrary nesting); attribute
    stores are assumed stable under re-reading (`mkStore st.items {} = st`, part of `Strict` — C09/C10's subject);
    documents with the data singletons `<` / `&` as text blocks are outside (`NotSingleton`: the data rule can strip
    the white space that kept `<` from opening markup, e.g. `<\nabc` → `<abc`, on the real library too).  The
    comparison is by `cskel` (= `skel` + empty data blocks dropped + adjacent data blocks joined), which is what "same
    text modulo white space" means once the `_indent`s have become text of the document; `…_reparses_exact` compares by
    the finer `pskel` (pre/code content exact).
  * C11c (`getFormattedHTML`/`getMiniHTML` = formatter ∘ `getHTML`) is now stated as the composition through text it is
    in the code (`viaGetHTML`, `getFormattedHTML_is_format_of_getHTML`, `…_preserves_document`,
    `…_eq_format_glued`) for strict documents.  What remains tie-only there: that the stdlib tokenizer agrees with
    `lexStrict` on the text of `getHTML()` (C01's tie), documents outside the strict sub-language, and the equality
    "convenience method = formatter on the original tokens" for multi-root documents and for trees with adjacent data
    blocks (for the latter it is false in general: the joined piece is squeezed as one) — oracle `convenience`, stream
    entry `via: parser`.
  * `pskel` compares script/style content up to its trailing LF/space/tab run; the exact form of what is appended is
    `script_style_content_reparses` (a line break and spaces/tabs, or nothing).
-/

/-! #### known finding `C11-singleton-joined` (kept in the model as it is in the code)

The token sequence the stdlib tokenizer reports for `<div>a <\nb</div>` holds the data singleton `<` followed by the data
piece `\nb`.  The data rule strips the line break of the second piece, so the mini and the pretty formatter write `<b`,
which reads back as a start tag: the output does not parse back to the input's tree.  Same on the real library (replayed on
every run from `corpus/C11/finding-singleton-joined*.json`); this is why the string-level theorems above exclude the data
singletons (`NotSingleton`). -/
def singletonJoinedToks : List Tok :=
  [.start (str "div") [], .data (str "a "), .data (str "<"), .data (str "\nb"), .end_ (str "div")]

theorem singleton_joined_counterexample :
    okIs (format (mkCfg .mini .dflt false) singletonJoinedToks) "<div >a <b</div>" = true ∧
    okIs (format (mkCfg .pretty (.str (str "  ")) false) singletonJoinedToks) "\n<div >a <b\n</div>" = true ∧
    okIs (Plain.html singletonJoinedToks) "<div >a <\nb</div>" = true := by decide

end AHP.C11
