/-
  C08 — the code tie of `Tags.isValidAttributeName`: the Python function ITSELF (dumped node by node into
  `Gen.Code.tags` by harness/ahpcheck/translate_code.py on every run, interpreted by `AHP.PyAst`: first-character rule, then
  the `for` loop over the characters with its `continue`s and the early `return False`) computes the hand-written predicate
  `validAttrName` (Model/Token.lean) — and therefore each of its three other copies (`Attrs.validName`, `Pk.validAttrName`,
  `Fmt.validAttrName`: `AttrStores.validAttrName_agree`) — for every text.

  `str.isalpha()` / `str.isalnum()` are ASCII-exact in the interpreter (`PyAst.asciiAlpha/asciiAlnum`), exactly as in the four
  hand models; Python's are Unicode-aware, so code and models agree with the LIBRARY on ASCII names only (the C08 stream
  and `design.d/C08.md` say what happens to other names).
-/
import AHP.Lemmas.PyAst
import AHP.Lemmas.Cache
import AHP.Props.AttrStores
namespace AHP.C08Code
open AHP AHP.Gen AHP.Conv AHP.PyAst AHP.Gen.Code

/-- the character test of the loop, as the hand model writes it -/
def okChar (d : Char) : Bool := isAlnum d || d = '-' || d = '_'

theorem asciiAlpha_eq (c : Char) : asciiAlpha c = isAlpha c := rfl
theorem asciiAlnum_eq (c : Char) : asciiAlnum c = isAlnum c := rfl

/-- the body of the `for` loop, as dumped -/
def loopBody : List Stmt :=
  [.ifS (.meth (.var "thisCh") "isalnum" []) [.cont]
     [.ifS (.cmp .isIn (.var "thisCh") (.tuple [(.const (.str "-")), (.const (.str "_"))])) [.cont] []],
   .ret (.const (.bool false))]

/-- one character through the loop body -/
theorem loopBody_run (cx : Ctx) (env : Env) (d : Char) :
    (execL cx (assocSet env "thisCh" (.py (.str [d]))) loopBody).2
      = if okChar d then .cont else .ret (.py (.bool false)) := by
  by_cases h1 : isAlnum d = true
  · simp [loopBody, execL, execS, eval, evalList, lookup_assocSet_eq, callMethod, asciiAlnum_eq, h1, Val.truthy, truthy, okChar]
  · by_cases h2 : d = '-'
    · simp [loopBody, execL, execS, eval, evalList, lookup_assocSet_eq, callMethod, asciiAlnum_eq, h1, Val.truthy, truthy, okChar,
        toTuple, pyCompare, compareB, pyIn, pyEqV, Lit.toPy, h2]
    · by_cases h3 : d = '_'
      · simp [loopBody, execL, execS, eval, evalList, lookup_assocSet_eq, callMethod, asciiAlnum_eq, h1, Val.truthy, truthy,
          okChar, toTuple, pyCompare, compareB, pyIn, pyEqV, Lit.toPy, h3]
      · simp [loopBody, execL, execS, eval, evalList, lookup_assocSet_eq, callMethod, asciiAlnum_eq, h1, Val.truthy, truthy,
          okChar, toTuple, pyCompare, compareB, pyIn, pyEqV, Lit.toPy, h2, h3]

/-- the whole loop: it falls through when every character passes, and returns `False` at the first that does not -/
theorem loop_run (cx : Ctx) : ∀ (l : Str) (env : Env),
    (forLoop (fun env v => assocSet env "thisCh" v) (fun env => execL cx env loopBody) (fun _ => true)
      (l.map (fun c => .py (.str [c]))) env).2
      = if l.all okChar then .next else .ret (.py (.bool false))
  | [], env => by simp [forLoop]
  | d :: r, env => by
    have h := loopBody_run cx env d
    have ih := loop_run cx r
    simp only [List.map_cons, forLoop, List.all_cons]
    generalize hb : execL cx (assocSet env "thisCh" (.py (.str [d]))) loopBody = p at h
    obtain ⟨env', res⟩ := p
    simp only at h
    by_cases hd : okChar d = true
    · simp only [hd, if_true] at h
      subst h
      simp only [hd, Bool.true_and, if_true]
      exact ih env'
    · simp only [hd, Bool.false_eq_true, if_false] at h
      subst h
      simp [hd]

/-- the `for` statement of the dump, in any environment that holds the text -/
theorem for_stmt (cx : Ctx) (env : Env) (n : Str) (hn : env.lookup "attrName" = some (.py (.str n))) :
    (execS cx env (.forS "thisCh" (.var "attrName")
      [.ifS (.meth (.var "thisCh") "isalnum" []) [.cont]
         [.ifS (.cmp .isIn (.var "thisCh") (.tuple [(.const (.str "-")), (.const (.str "_"))])) [.cont] []],
       .ret (.const (.bool false))])).2
      = if n.all okChar then .next else .ret (.py (.bool false)) := by
  rw [execS]
  simp only [eval, hn, iterItems, Val.mutable, Bool.not_false, Bool.true_or, if_true]
  exact loop_run cx n env

/-- `isValidAttributeName(attrName)` on every text is the hand model `validAttrName`: the first character is a letter or
`_`, every character is a letter, a digit, `-` or `_` (ASCII classes on both sides). -/
theorem isValidAttributeName_code_eq_model (parseInt : Str → Except PyErr Int) (n : Str) :
    runModule parseInt tags "isValidAttributeName" [.py (.str n)] = .ok (.py (.bool (validAttrName n))) := by
  have hlink : runModule parseInt tags "isValidAttributeName" [.py (.str n)]
      = run { parseInt := parseInt, funs := callIn parseInt [] } isValidAttributeName_ast [.py (.str n)] := rfl
  rw [hlink]
  simp only [run, runKw, isValidAttributeName_ast, bindArgs]
  rcases n with _ | ⟨c, r⟩
  · simp [execL, execS, eval, List.lookup, Val.truthy, truthy, Lit.toPy, resultOf, validAttrName]
  · have hfor := for_stmt { parseInt := parseInt, funs := callIn parseInt [] } [("attrName", .py (.str (c :: r)))] (c :: r)
      (by simp [List.lookup])
    have hvalid : validAttrName (c :: r) = ((isAlpha c || decide (c = '_')) && (c :: r).all okChar) := rfl
    -- the statements after the first `if`, once the first character has passed
    have hgo : (isAlpha c || decide (c = '_')) = true →
        resultOf (execL { parseInt := parseInt, funs := callIn parseInt [] } [("attrName", .py (.str (c :: r)))]
              [.forS "thisCh" (.var "attrName")
                [.ifS (.meth (.var "thisCh") "isalnum" []) [.cont]
                   [.ifS (.cmp .isIn (.var "thisCh") (.tuple [(.const (.str "-")), (.const (.str "_"))])) [.cont] []],
                 .ret (.const (.bool false))],
               .ret (.const (.bool true))]).2 = .ok (.py (.bool (validAttrName (c :: r)))) := by
      intro h
      rw [execL]
      generalize execS _ _ (.forS _ _ _) = p at hfor ⊢
      obtain ⟨env', res⟩ := p
      simp only at hfor
      subst hfor
      rw [hvalid, h]
      by_cases hall : (c :: r).all okChar = true <;> simp [hall, resultOf, execL, execS, eval, Lit.toPy]
    simp only [List.lookup, Option.isSome, List.isEmpty, Bool.false_eq_true, if_false, if_true]
    rw [execL]
    by_cases h1 : isAlpha c = true
    · have hif : execS { parseInt := parseInt, funs := callIn parseInt [] } [("attrName", .py (.str (c :: r)))]
          (.ifS (.or (.not (.var "attrName")) (.and (.not (.meth (.index (.var "attrName") (.const (.int (0)))) "isalpha" []))
            (.cmp .ne (.index (.var "attrName") (.const (.int (0)))) (.const (.str "_")))))
            [.ret (.const (.bool false))] []) = ([("attrName", .py (.str (c :: r)))], .next) := by
        py_straight [pyIndex, seqItem, callMethod, asciiAlpha_eq, pyCompare, compareB, bnot, pyEq, pyEqV, h1]
      rw [hif]
      exact hgo (by simp [h1])
    · by_cases h2 : c = '_'
      · have hif : execS { parseInt := parseInt, funs := callIn parseInt [] } [("attrName", .py (.str (c :: r)))]
            (.ifS (.or (.not (.var "attrName")) (.and (.not (.meth (.index (.var "attrName") (.const (.int (0)))) "isalpha" []))
              (.cmp .ne (.index (.var "attrName") (.const (.int (0)))) (.const (.str "_")))))
              [.ret (.const (.bool false))] []) = ([("attrName", .py (.str (c :: r)))], .next) := by
          have h3 : isAlpha '_' = false := by decide
          py_straight [pyIndex, seqItem, callMethod, asciiAlpha_eq, pyCompare, compareB, bnot, pyEq, pyEqV, h2, h3]
        rw [hif]
        exact hgo (by simp [h2])
      · have hif : execS { parseInt := parseInt, funs := callIn parseInt [] } [("attrName", .py (.str (c :: r)))]
            (.ifS (.or (.not (.var "attrName")) (.and (.not (.meth (.index (.var "attrName") (.const (.int (0)))) "isalpha" []))
              (.cmp .ne (.index (.var "attrName") (.const (.int (0)))) (.const (.str "_")))))
              [.ret (.const (.bool false))] [])
            = ([("attrName", .py (.str (c :: r)))], .ret (.py (.bool false))) := by
          py_straight [pyIndex, seqItem, callMethod, asciiAlpha_eq, pyCompare, compareB, bnot, pyEq, pyEqV, h1, h2]
        rw [hif, hvalid]
        simp [h1, h2, resultOf]

/-- The code is each of the four hand-written copies of the predicate. -/
theorem isValidAttributeName_code_eq_models (parseInt : Str → Except PyErr Int) (n : Str) :
    runModule parseInt tags "isValidAttributeName" [.py (.str n)] = .ok (.py (.bool (Attrs.validName n)))
    ∧ runModule parseInt tags "isValidAttributeName" [.py (.str n)] = .ok (.py (.bool (Pk.validAttrName n)))
    ∧ runModule parseInt tags "isValidAttributeName" [.py (.str n)] = .ok (.py (.bool (Fmt.validAttrName n))) := by
  obtain ⟨h1, h2, h3⟩ := AttrStores.validAttrName_agree n
  rw [h1, h2, h3]
  exact ⟨isValidAttributeName_code_eq_model parseInt n, isValidAttributeName_code_eq_model parseInt n,
    isValidAttributeName_code_eq_model parseInt n⟩

/-- `isValidAttributeName(None)`: a false value is no name (`not attrName`), whatever its type. -/
theorem isValidAttributeName_code_none (parseInt : Str → Except PyErr Int) :
    runModule parseInt tags "isValidAttributeName" [.py .none] = .ok (.py (.bool false)) := by
  have hlink : runModule parseInt tags "isValidAttributeName" [.py .none]
      = run { parseInt := parseInt, funs := callIn parseInt [] } isValidAttributeName_ast [.py .none] := rfl
  rw [hlink]
  simp [run, runKw, isValidAttributeName_ast, bindArgs, execL, execS, eval, List.lookup, Val.truthy, truthy, Lit.toPy, resultOf]

/-! non-vacuity: concrete runs of the dump through the interpreter (kernel evaluation) — both rules, both outcomes -/

section
-- A failing `decide +kernel` explains itself by re-evaluating the proposition with the elaborator, which is very slow on
-- runs of the interpreter (minutes, gigabytes): the small budget makes a broken example fail at once.  The kernel check of
-- a correct example does not consume it.
set_option maxHeartbeats 2000

example : runModule pyIntOfStr tags "isValidAttributeName" [.py (.str "data-x".toList)] = .ok (.py (.bool true)) := by
  decide +kernel
example : runModule pyIntOfStr tags "isValidAttributeName" [.py (.str "_x9".toList)] = .ok (.py (.bool true)) := by
  decide +kernel
example : runModule pyIntOfStr tags "isValidAttributeName" [.py (.str "a b".toList)] = .ok (.py (.bool false)) := by
  decide +kernel
example : runModule pyIntOfStr tags "isValidAttributeName" [.py (.str "-a".toList)] = .ok (.py (.bool false)) := by
  decide +kernel
example : runModule pyIntOfStr tags "isValidAttributeName" [.py (.str "9a".toList)] = .ok (.py (.bool false)) := by
  decide +kernel
example : runModule pyIntOfStr tags "isValidAttributeName" [.py (.str "".toList)] = .ok (.py (.bool false)) := by
  decide +kernel
/-- the limit of the tie: `isalpha` is ASCII here and in the hand models (Python's accepts `é`) -/
example : runModule pyIntOfStr tags "isValidAttributeName" [.py (.str "é".toList)] = .ok (.py (.bool false))
    ∧ validAttrName "é".toList = false := by
  decide +kernel
/-- an argument that is not a text and not false is outside the subset: an error, never a value -/
example : runModule pyIntOfStr tags "isValidAttributeName" [.py (.int 7)] = .error (unsupported "index") := by
  decide +kernel
end

/-! ## `StyleAttribute.camelCaseToDashName` and `StyleAttribute.styleToDict` (static methods of SpecialAttributes.py, dumped as
`Gen.Code.special_attributes`) against `Attrs.camelToDash` and `Attrs.styleToDict` -/

theorem upper_not_lower (c : Char) (h : asciiUpper c = true) : asciiLower c = false := by
  simp only [asciiUpper, asciiLower, Bool.and_eq_true, decide_eq_true_eq, Bool.and_eq_false_iff, decide_eq_false_iff_not] at h ⊢
  by_cases h1 : 'a' ≤ c
  · exact absurd (Char.le_trans h1 h.2) (by decide)
  · exact Or.inl h1

/-- what `ret` receives for one character -/
def dashItems (c : Char) : List PyV := if Attrs.isUpper c then [.str ['-'], .str [lowerChar c]] else [.str [c]]

/-- the body of the loop of `camelCaseToDashName`, as dumped -/
def camelBody : List Stmt :=
  [.ifS (.meth (.var "ch") "isupper" [])
     [.varCall "ret" "append" [(.const (.str "-"))], .varCall "ret" "append" [(.meth (.var "ch") "lower" [])]]
     [.varCall "ret" "append" [(.var "ch")]]]

theorem camelBody_run (cx : Ctx) (env : Env) (c : Char) (acc : List PyV) (h : env.lookup "ret" = some (.list acc)) :
    execL cx (assocSet env "ch" (.py (.str [c]))) camelBody
      = (assocSet (assocSet env "ch" (.py (.str [c]))) "ret" (.list (acc ++ dashItems c)), .next) := by
  have hr : (assocSet env "ch" (.py (.str [c]))).lookup "ret" = some (.list acc) := by
    rw [lookup_assocSet_ne _ _ _ _ (by decide), h]
  by_cases hu : Attrs.isUpper c = true
  · have hu' : asciiUpper c = true := hu
    have hne : ∀ (e : Env) (w : Val), (assocSet e "ret" w).lookup "ch" = e.lookup "ch" :=
      fun e w => lookup_assocSet_ne e "ret" "ch" w (by decide)
    simp [camelBody, execL, execS, eval, evalList, lookup_assocSet_eq, callMethod, hu', upper_not_lower c hu', Val.truthy, truthy,
      hr, Val.toField, mutCall, Field.toVal, Lit.toPy, assocSet_assocSet, dashItems, hu, lower, hne]
  · have hu' : asciiUpper c = false := by
      have : Attrs.isUpper c = false := by simpa using hu
      exact this
    simp [camelBody, execL, execS, eval, evalList, lookup_assocSet_eq, callMethod, hu', Val.truthy, truthy,
      hr, Val.toField, mutCall, Field.toVal, Lit.toPy, dashItems, hu]

/-- the whole loop of `camelCaseToDashName`: `ret` receives the items of every character, in order -/
theorem camelLoop_run (cx : Ctx) (V : Val) (same : Env → Bool)
    (hsame : ∀ env, env.lookup "camelCaseList" = some V → same env = true) :
    ∀ (l : Str) (env : Env) (acc : List PyV),
    env.lookup "ret" = some (.list acc) → env.lookup "camelCaseList" = some V →
    ∃ env', forLoop (fun env v => assocSet env "ch" v) (fun env => execL cx env camelBody) same
                ((l.map (fun c => PyV.str [c])).map Val.py) env = (env', .next)
      ∧ env'.lookup "ret" = some (.list (acc ++ l.flatMap dashItems))
  | [], env, acc, hr, _ => ⟨env, by simp [forLoop], by simpa using hr⟩
  | c :: r, env, acc, hr, hV => by
    have hstep := camelBody_run cx env c acc hr
    have hV' : (assocSet (assocSet env "ch" (.py (.str [c]))) "ret" (.list (acc ++ dashItems c))).lookup "camelCaseList"
        = some V := by
      rw [lookup_assocSet_ne _ _ _ _ (by decide), lookup_assocSet_ne _ _ _ _ (by decide), hV]
    obtain ⟨env', h1, h2⟩ := camelLoop_run cx V same hsame r _ (acc ++ dashItems c) (lookup_assocSet_eq _ _ _) hV'
    refine ⟨env', ?_, ?_⟩
    · simp only [List.map_cons, forLoop, hstep, hsame _ hV', if_true]
      exact h1
    · rw [h2]; simp

/-- joining the items gives the hand model's text -/
theorem join_dashItems (l : Str) :
    ∃ ws, strItems (l.flatMap dashItems) = some ws ∧ joinWith [] ws = Attrs.camelToDash l := by
  induction l with
  | nil => exact ⟨[], rfl, rfl⟩
  | cons c r ih =>
    obtain ⟨ws, h1, h2⟩ := ih
    by_cases hu : Attrs.isUpper c = true
    · refine ⟨['-'] :: [lowerChar c] :: ws, ?_, ?_⟩
      · simp [List.flatMap_cons, dashItems, hu, strItems, h1]
      · have : ∀ (a : Str) (w : List Str), joinWith [] (a :: w) = a ++ joinWith [] w := by
          intro a w; cases w <;> simp [joinWith]
        rw [this, this, h2, Attrs.camelToDash, if_pos hu]; rfl
    · refine ⟨[c] :: ws, ?_, ?_⟩
      · simp [List.flatMap_cons, dashItems, hu, strItems, h1]
      · have : ∀ (a : Str) (w : List Str), joinWith [] (a :: w) = a ++ joinWith [] w := by
          intro a w; cases w <;> simp [joinWith]
        rw [this, h2, Attrs.camelToDash, if_neg hu]; rfl

/-- `StyleAttribute.camelCaseToDashName(camelCase)` on every text is `Attrs.camelToDash` (ASCII `isupper()` / `lower()`). -/
theorem camelCaseToDashName_code_eq_model (parseInt : Str → Except PyErr Int) (s : Str) :
    runModule parseInt special_attributes "camelCaseToDashName" [.py (.str s)] = .ok (.py (.str (Attrs.camelToDash s))) := by
  have hlink : runModule parseInt special_attributes "camelCaseToDashName" [.py (.str s)]
      = run { parseInt := parseInt, funs := callIn parseInt [] } StyleAttribute_camelCaseToDashName_ast [.py (.str s)] := rfl
  rw [hlink]
  simp only [run, runKw, StyleAttribute_camelCaseToDashName_ast, bindArgs, List.lookup, Option.isSome, List.isEmpty,
    Bool.false_eq_true, if_false, if_true]
  -- the `for` statement, in the environment the two assignments leave
  have hfor : ∃ env', execS { parseInt := parseInt, funs := callIn parseInt [] }
        [("camelCase", .py (.str s)), ("camelCaseList", .list (s.map (fun c => .str [c]))), ("ret", .list [])]
        (.forS "ch" (.var "camelCaseList")
          [.ifS (.meth (.var "ch") "isupper" [])
             [.varCall "ret" "append" [(.const (.str "-"))], .varCall "ret" "append" [(.meth (.var "ch") "lower" [])]]
             [.varCall "ret" "append" [(.var "ch")]]]) = (env', .next)
      ∧ env'.lookup "ret" = some (.list (s.flatMap dashItems)) := by
    have hv : eval { parseInt := parseInt, funs := callIn parseInt [] }
        [("camelCase", .py (.str s)), ("camelCaseList", .list (s.map (fun c => .str [c]))), ("ret", .list [])]
        (.var "camelCaseList") = .ok (.list (s.map (fun c => .str [c]))) := by simp [eval, List.lookup]
    obtain ⟨env', h1, h2⟩ := camelLoop_run { parseInt := parseInt, funs := callIn parseInt [] }
      (.list (s.map (fun c => .str [c])))
      (fun env' => !(Val.list (s.map (fun c => PyV.str [c]))).mutable || !(Expr.var "camelCaseList").isVar
        || decide (eval { parseInt := parseInt, funs := callIn parseInt [] } env' (.var "camelCaseList")
            = .ok (.list (s.map (fun c => .str [c])))))
      (by intro env h; simp [eval, h]) s
      [("camelCase", .py (.str s)), ("camelCaseList", .list (s.map (fun c => .str [c]))), ("ret", .list [])] []
      (by simp [List.lookup]) (by simp [List.lookup])
    refine ⟨env', ?_, by simpa using h2⟩
    rw [execS, hv]
    simp only [iterItems, Expr.isVar, Bool.or_true, Bool.true_or, if_true]
    exact h1
  obtain ⟨env', hf1, hf2⟩ := hfor
  obtain ⟨ws, hw1, hw2⟩ := join_dashItems s
  have hl : callIn parseInt [] "list" = none := rfl
  py_straight [builtin, aliasOK, Expr.makesNew, hl, Val.mutable, assocSet, hf1, hf2, callMethod, hw1, hw2]

/-! ### `styleToDict` -/

/-- the hand model's style map as a Python dict of texts -/
def embAL (d : Attrs.AL Str) : List (PyV × PyV) := d.map (fun p => (PyV.str p.1, PyV.str p.2))

theorem dSet_embAL (d : Attrs.AL Str) (k v : Str) : dSet (embAL d) (.str k) (.str v) = embAL (Attrs.aset k v d) := by
  induction d with
  | nil => rfl
  | cons p r ih =>
    obtain ⟨a, w⟩ := p
    simp only [embAL, List.map_cons, dSet, Attrs.aset, pyEqV] at ih ⊢
    by_cases h : a = k <;> simp [h, ih]

theorem findColon_not_mem (item : Str) (h : ':' ∉ item) : Attrs.findColon item = none := by
  induction item with
  | nil => rfl
  | cons c r ih =>
    have hc : c ≠ ':' := fun e => h (by simp [e])
    have hr : ':' ∉ r := fun e => h (List.mem_cons_of_mem _ e)
    simp [Attrs.findColon, hc, ih hr]

theorem findColon_mem (item : Str) (h : ':' ∈ item) :
    Attrs.findColon item = some (item.take (item.idxOf ':'), item.drop (item.idxOf ':' + 1)) := by
  induction item with
  | nil => simp at h
  | cons c r ih =>
    by_cases hc : c = ':'
    · subst hc; simp [Attrs.findColon, List.idxOf_cons]
    · have hr : ':' ∈ r := by
        rcases List.mem_cons.mp h with e | e
        · exact absurd e.symm hc
        · exact e
      have hb : (c == ':') = false := by simpa using hc
      simp [Attrs.findColon, hc, ih hr, List.idxOf_cons, hb]

theorem sliceFrom_succ (l : Str) (i : Nat) : Cache.sliceFrom l ((i : Int) + 1) = l.drop (i + 1) := by
  have h : ¬ ((i : Int) + 1 < 0) := by omega
  simp only [Cache.sliceFrom, h, if_false]
  congr 1

/-- the body of the loop of `styleToDict`, as dumped -/
def styleBody : List Stmt :=
  [.tryS
     [.assign "splitIdx" (.meth (.var "item") "index" [(.const (.str ":"))]),
      .assign "name" (.meth (.meth (.sliceTo (.var "item") (.var "splitIdx")) "strip" []) "lower" []),
      .assign "value" (.meth (.sliceFrom (.var "item") (.binop .add (.var "splitIdx") (.const (.int (1))))) "strip" []),
      .setItemVar "styleDict" (.var "name") (.var "value")]
     [.mk none [.cont]]]

/-- one item through the loop body: the dict receives the declaration (or nothing, when the item has no colon); the loop
goes on either way -/
theorem styleBody_run (cx : Ctx) (env : Env) (item : Str) (d : Attrs.AL Str) (V : Val)
    (hd : env.lookup "styleDict" = some (.dict (embAL d))) (hV : env.lookup "styles" = some V) :
    ∃ env' r, execL cx (assocSet env "item" (.py (.str item))) styleBody = (env', r) ∧ (r = .next ∨ r = .cont)
      ∧ env'.lookup "styleDict" = some (.dict (embAL (Attrs.styleItem d item))) ∧ env'.lookup "styles" = some V := by
  have hd1 : (assocSet env "item" (.py (.str item))).lookup "styleDict" = some (.dict (embAL d)) := by
    rw [lookup_assocSet_ne _ _ _ _ (by decide), hd]
  have hV1 : (assocSet env "item" (.py (.str item))).lookup "styles" = some V := by
    rw [lookup_assocSet_ne _ _ _ _ (by decide), hV]
  by_cases hm : ':' ∈ item
  · generalize he : assocSet env "item" (.py (.str item)) = env1 at hd1 hV1
    have hi : env1.lookup "item" = some (.py (.str item)) := by rw [← he, lookup_assocSet_eq]
    refine ⟨assocSet (assocSet (assocSet (assocSet env1 "splitIdx" (.py (.int (item.idxOf ':'))))
        "name" (.py (.str (lower (strip (item.take (item.idxOf ':')))))))
        "value" (.py (.str (strip (item.drop (item.idxOf ':' + 1))))))
        "styleDict" (.dict (embAL (Attrs.styleItem d item))), .next, ?_, Or.inl rfl, lookup_assocSet_eq _ _ _, ?_⟩
    · have n1 : ∀ (e : Env) (w : Val), (assocSet e "splitIdx" w).lookup "item" = e.lookup "item" :=
        fun e w => lookup_assocSet_ne e _ _ w (by decide)
      have n2 : ∀ (e : Env) (w : Val), (assocSet e "name" w).lookup "item" = e.lookup "item" :=
        fun e w => lookup_assocSet_ne e _ _ w (by decide)
      have n3 : ∀ (e : Env) (w : Val), (assocSet e "name" w).lookup "splitIdx" = e.lookup "splitIdx" :=
        fun e w => lookup_assocSet_ne e _ _ w (by decide)
      have n4 : ∀ (e : Env) (w : Val), (assocSet e "value" w).lookup "name" = e.lookup "name" :=
        fun e w => lookup_assocSet_ne e _ _ w (by decide)
      have n5 : ∀ (e : Env) (x : String) (w : Val), x ≠ "styleDict" → (assocSet e x w).lookup "styleDict" = e.lookup "styleDict" :=
        fun e x w hx => lookup_assocSet_ne e _ _ w (fun h => hx h.symm)
      simp [styleBody, execL, execS, eval, evalList, hi, callMethod, hm, aliasOK, Val.mutable, lookup_assocSet_eq, n1, n2, n3, n4,
        n5, hd1, pySlice, Cache.sliceTo_eq_take, pyBinop, numOf, Lit.toPy, sliceFrom_succ, hashable, dSet_embAL,
        Attrs.styleItem, findColon_mem item hm]
    · rw [lookup_assocSet_ne _ _ _ _ (by decide), lookup_assocSet_ne _ _ _ _ (by decide), lookup_assocSet_ne _ _ _ _ (by decide),
        lookup_assocSet_ne _ _ _ _ (by decide), hV1]
  · refine ⟨assocSet env "item" (.py (.str item)), .cont, ?_, Or.inr rfl, ?_, hV1⟩
    · simp [styleBody, execL, execS, execH, eval, evalList, lookup_assocSet_eq, callMethod, hm, catches, Lit.toPy]
    · rw [hd1, Attrs.styleItem, findColon_not_mem item hm]

/-- the whole loop of `styleToDict`: the items are folded into the dict one after the other -/
theorem styleLoop_run (cx : Ctx) (V : Val) (same : Env → Bool) (hsame : ∀ env, env.lookup "styles" = some V → same env = true) :
    ∀ (l : List Str) (env : Env) (d : Attrs.AL Str),
    env.lookup "styleDict" = some (.dict (embAL d)) → env.lookup "styles" = some V →
    ∃ env', forLoop (fun env v => assocSet env "item" v) (fun env => execL cx env styleBody) same
                ((l.map PyV.str).map Val.py) env = (env', .next)
      ∧ env'.lookup "styleDict" = some (.dict (embAL (l.foldl Attrs.styleItem d)))
  | [], env, d, hd, _ => ⟨env, by simp [forLoop], by simpa using hd⟩
  | item :: r, env, d, hd, hV => by
    obtain ⟨env1, res, h1, hres, hd1, hV1⟩ := styleBody_run cx env item d V hd hV
    obtain ⟨env', h2, h3⟩ := styleLoop_run cx V same hsame r env1 (Attrs.styleItem d item) hd1 hV1
    refine ⟨env', ?_, by simpa using h3⟩
    rcases hres with rfl | rfl <;> simp only [List.map_cons, forLoop, h1, hsame _ hV1, if_true] <;> exact h2

/-- `StyleAttribute.styleToDict(styleStr)` on every text is the hand model's ordered map `Attrs.styleToDict` (as a dict of
texts): `strip()`, `split(';')`, and per item `index(':')` (an item without a colon is skipped by the bare `except`), the two
slices, `strip().lower()` / `strip()`, assignment into the `OrderedDict`. -/
theorem styleToDict_code_eq_model (parseInt : Str → Except PyErr Int) (s : Str) :
    runModule parseInt special_attributes "styleToDict" [.py (.str s)] = .ok (.dict (embAL (Attrs.styleToDict s))) := by
  have hlink : runModule parseInt special_attributes "styleToDict" [.py (.str s)]
      = run { parseInt := parseInt, funs := callIn parseInt [StyleAttribute_camelCaseToDashName_ast] }
          StyleAttribute_styleToDict_ast [.py (.str s)] := rfl
  rw [hlink]
  simp only [run, runKw, StyleAttribute_styleToDict_ast, bindArgs, List.lookup, Option.isSome, List.isEmpty,
    Bool.false_eq_true, if_false, if_true]
  have hfor : ∃ env', execS { parseInt := parseInt, funs := callIn parseInt [StyleAttribute_camelCaseToDashName_ast] }
        [("styleStr", .py (.str (strip s))), ("styles", .list ((splitChar ';' (strip s)).map .str)), ("styleDict", .dict [])]
        (.forS "item" (.var "styles")
          [.tryS
             [.assign "splitIdx" (.meth (.var "item") "index" [(.const (.str ":"))]),
              .assign "name" (.meth (.meth (.sliceTo (.var "item") (.var "splitIdx")) "strip" []) "lower" []),
              .assign "value" (.meth (.sliceFrom (.var "item") (.binop .add (.var "splitIdx") (.const (.int (1))))) "strip" []),
              .setItemVar "styleDict" (.var "name") (.var "value")]
             [.mk none [.cont]]]) = (env', .next)
      ∧ env'.lookup "styleDict" = some (.dict (embAL (Attrs.styleToDict s))) := by
    have hv : eval { parseInt := parseInt, funs := callIn parseInt [StyleAttribute_camelCaseToDashName_ast] }
        [("styleStr", .py (.str (strip s))), ("styles", .list ((splitChar ';' (strip s)).map .str)), ("styleDict", .dict [])]
        (.var "styles") = .ok (.list ((splitChar ';' (strip s)).map .str)) := by simp [eval, List.lookup]
    obtain ⟨env', h1, h2⟩ := styleLoop_run
      { parseInt := parseInt, funs := callIn parseInt [StyleAttribute_camelCaseToDashName_ast] }
      (.list ((splitChar ';' (strip s)).map .str))
      (fun env' => !(Val.list ((splitChar ';' (strip s)).map PyV.str)).mutable || !(Expr.var "styles").isVar
        || decide (eval { parseInt := parseInt, funs := callIn parseInt [StyleAttribute_camelCaseToDashName_ast] } env'
            (.var "styles") = .ok (.list ((splitChar ';' (strip s)).map .str))))
      (by intro env h; simp [eval, h]) (splitChar ';' (strip s))
      [("styleStr", .py (.str (strip s))), ("styles", .list ((splitChar ';' (strip s)).map .str)), ("styleDict", .dict [])] []
      (by simp [List.lookup, embAL]) (by simp [List.lookup])
    refine ⟨env', ?_, h2⟩
    rw [execS, hv]
    simp only [iterItems, Expr.isVar, Bool.or_true, Bool.true_or, if_true]
    exact h1
  obtain ⟨env', hf1, hf2⟩ := hfor
  py_straight [aliasOK, Expr.makesNew, Val.mutable, assocSet, hf1, hf2, callMethod]

/-- The code is each of the four hand-written copies of `styleToDict` (`AttrStores.styleToDict_agree`). -/
theorem styleToDict_code_eq_models (parseInt : Str → Except PyErr Int) (s : Str) :
    runModule parseInt special_attributes "styleToDict" [.py (.str s)] = .ok (.dict (embAL (AHP.styleToDict s)))
    ∧ runModule parseInt special_attributes "styleToDict" [.py (.str s)] = .ok (.dict (embAL (Pk.styleToDict s)))
    ∧ runModule parseInt special_attributes "styleToDict" [.py (.str s)] = .ok (.dict (embAL (Fmt.styleToDict s))) := by
  obtain ⟨h1, h2, h3⟩ := AttrStores.styleToDict_agree s
  rw [h2, h3, ← h1]
  exact ⟨styleToDict_code_eq_model parseInt s, styleToDict_code_eq_model parseInt s, styleToDict_code_eq_model parseInt s⟩

/-! non-vacuity: concrete runs of the two dumps (kernel evaluation) -/

-- A failing `decide +kernel` explains itself by re-evaluating the proposition with the elaborator, which is very slow on
-- runs of the interpreter (minutes, gigabytes): the small budget makes a broken example fail at once.  The kernel check of
-- a correct example does not consume it.
set_option maxHeartbeats 2000

example : runModule pyIntOfStr special_attributes "camelCaseToDashName" [.py (.str "paddingTop".toList)]
    = .ok (.py (.str "padding-top".toList)) := by decide +kernel
example : runModule pyIntOfStr special_attributes "camelCaseToDashName" [.py (.str "MozBoxSizing".toList)]
    = .ok (.py (.str "-moz-box-sizing".toList)) := by decide +kernel
/-- a later declaration of the same name overwrites the value and keeps the position; an item without a colon is skipped;
names are lower-cased, values are not; only the first colon splits -/
example : runModule pyIntOfStr special_attributes "styleToDict" [.py (.str " Color : red ;; x:1; junk ; color: Blue:2 ".toList)]
    = .ok (.dict [(.str "color".toList, .str "Blue:2".toList), (.str "x".toList, .str "1".toList)]) := by decide +kernel
example : runModule pyIntOfStr special_attributes "styleToDict" [.py (.str "".toList)] = .ok (.dict []) := by decide +kernel
/-- an argument that is not a text has no `strip`: `AttributeError` -/
example : runModule pyIntOfStr special_attributes "styleToDict" [.py .none] = .error (.other "AttributeError") := by
  decide +kernel

end AHP.C08Code
