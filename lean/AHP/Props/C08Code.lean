/-
  C08 — the code tie of `Tags.isValidAttributeName`: the Python function ITSELF (dumped node by node into
  `Gen.Code.tags` by harness/ahpcheck/translate_code.py on every run, interpreted by `AHP.PyAst`: first-character rule, then
  the `for` loop over the characters with its `continue`s and the early `return False`) computes the hand-written predicate
  `validAttrName` (Model/Token.lean) — and therefore each of its three other copies (`Attrs.validName`, `Pk.validAttrName`,
  `Fmt.validAttrName`: `AttrStores.validAttrName_agree`) — for every text.

  `str.isalpha()` / `str.isalnum()` are ASCII-exact in the interpreter (`PyAst.asciiAlpha/asciiAlnum`), exactly as in the four
  hand models; Python's are Unicode-aware, so code and models agree with the LIBRARY on ASCII names only (the C08 stream
  and `design.d/C08.md` say what happens to other names).
-/
import AHP.Lemmas.PyAst
import AHP.Props.AttrStores
namespace AHP.C08Code
open AHP AHP.Gen AHP.Conv AHP.PyAst AHP.Gen.Code

/-- the character test of the loop, as the hand model writes it -/
def okChar (d : Char) : Bool := isAlnum d || d = '-' || d = '_'

theorem asciiAlpha_eq (c : Char) : asciiAlpha c = isAlpha c := rfl
theorem asciiAlnum_eq (c : Char) : asciiAlnum c = isAlnum c := rfl

/-- the body of the `for` loop, as dumped -/
def loopBody : List Stmt :=
  [.ifS (.meth (.var "thisCh") "isalnum" []) [.cont]
     [.ifS (.cmp .isIn (.var "thisCh") (.tuple [(.const (.str "-")), (.const (.str "_"))])) [.cont] []],
   .ret (.const (.bool false))]

/-- one character through the loop body -/
theorem loopBody_run (cx : Ctx) (env : Env) (d : Char) :
    (execL cx (assocSet env "thisCh" (.py (.str [d]))) loopBody).2
      = if okChar d then .cont else .ret (.py (.bool false)) := by
  by_cases h1 : isAlnum d = true
  · simp [loopBody, execL, execS, eval, evalList, lookup_assocSet_eq, callMethod, asciiAlnum_eq, h1, Val.truthy, truthy, okChar]
  · by_cases h2 : d = '-'
    · simp [loopBody, execL, execS, eval, evalList, lookup_assocSet_eq, callMethod, asciiAlnum_eq, h1, Val.truthy, truthy, okChar,
        toTuple, pyCompare, compareB, pyIn, pyEqV, Lit.toPy, h2]
    · by_cases h3 : d = '_'
      · simp [loopBody, execL, execS, eval, evalList, lookup_assocSet_eq, callMethod, asciiAlnum_eq, h1, Val.truthy, truthy,
          okChar, toTuple, pyCompare, compareB, pyIn, pyEqV, Lit.toPy, h3]
      · simp [loopBody, execL, execS, eval, evalList, lookup_assocSet_eq, callMethod, asciiAlnum_eq, h1, Val.truthy, truthy,
          okChar, toTuple, pyCompare, compareB, pyIn, pyEqV, Lit.toPy, h2, h3]

/-- the whole loop: it falls through when every character passes, and returns `False` at the first that does not -/
theorem loop_run (cx : Ctx) : ∀ (l : Str) (env : Env),
    (forLoop (fun env v => assocSet env "thisCh" v) (fun env => execL cx env loopBody) (fun _ => true)
      (l.map (fun c => .py (.str [c]))) env).2
      = if l.all okChar then .next else .ret (.py (.bool false))
  | [], env => by simp [forLoop]
  | d :: r, env => by
    have h := loopBody_run cx env d
    have ih := loop_run cx r
    simp only [List.map_cons, forLoop, List.all_cons]
    generalize hb : execL cx (assocSet env "thisCh" (.py (.str [d]))) loopBody = p at h
    obtain ⟨env', res⟩ := p
    simp only at h
    by_cases hd : okChar d = true
    · simp only [hd, if_true] at h
      subst h
      simp only [hd, Bool.true_and, if_true]
      exact ih env'
    · simp only [hd, Bool.false_eq_true, if_false] at h
      subst h
      simp [hd]

/-- the `for` statement of the dump, in any environment that holds the text -/
theorem for_stmt (cx : Ctx) (env : Env) (n : Str) (hn : env.lookup "attrName" = some (.py (.str n))) :
    (execS cx env (.forS "thisCh" (.var "attrName")
      [.ifS (.meth (.var "thisCh") "isalnum" []) [.cont]
         [.ifS (.cmp .isIn (.var "thisCh") (.tuple [(.const (.str "-")), (.const (.str "_"))])) [.cont] []],
       .ret (.const (.bool false))])).2
      = if n.all okChar then .next else .ret (.py (.bool false)) := by
  rw [execS]
  simp only [eval, hn, iterItems, Val.mutable, Bool.not_false, Bool.true_or, if_true]
  exact loop_run cx n env

/-- `isValidAttributeName(attrName)` on every text is the hand model `validAttrName`: the first character is a letter or
`_`, every character is a letter, a digit, `-` or `_` (ASCII classes on both sides). -/
theorem isValidAttributeName_code_eq_model (parseInt : Str → Except PyErr Int) (n : Str) :
    runModule parseInt tags "isValidAttributeName" [.py (.str n)] = .ok (.py (.bool (validAttrName n))) := by
  have hlink : runModule parseInt tags "isValidAttributeName" [.py (.str n)]
      = run { parseInt := parseInt, funs := callIn parseInt [] } isValidAttributeName_ast [.py (.str n)] := rfl
  rw [hlink]
  simp only [run, runKw, isValidAttributeName_ast, bindArgs]
  rcases n with _ | ⟨c, r⟩
  · simp [execL, execS, eval, List.lookup, Val.truthy, truthy, Lit.toPy, resultOf, validAttrName]
  · have hfor := for_stmt { parseInt := parseInt, funs := callIn parseInt [] } [("attrName", .py (.str (c :: r)))] (c :: r)
      (by simp [List.lookup])
    have hvalid : validAttrName (c :: r) = ((isAlpha c || decide (c = '_')) && (c :: r).all okChar) := rfl
    -- the statements after the first `if`, once the first character has passed
    have hgo : (isAlpha c || decide (c = '_')) = true →
        resultOf (execL { parseInt := parseInt, funs := callIn parseInt [] } [("attrName", .py (.str (c :: r)))]
              [.forS "thisCh" (.var "attrName")
                [.ifS (.meth (.var "thisCh") "isalnum" []) [.cont]
                   [.ifS (.cmp .isIn (.var "thisCh") (.tuple [(.const (.str "-")), (.const (.str "_"))])) [.cont] []],
                 .ret (.const (.bool false))],
               .ret (.const (.bool true))]).2 = .ok (.py (.bool (validAttrName (c :: r)))) := by
      intro h
      rw [execL]
      generalize execS _ _ (.forS _ _ _) = p at hfor ⊢
      obtain ⟨env', res⟩ := p
      simp only at hfor
      subst hfor
      rw [hvalid, h]
      by_cases hall : (c :: r).all okChar = true <;> simp [hall, resultOf, execL, execS, eval, Lit.toPy]
    simp only [List.lookup, Option.isSome, List.isEmpty, Bool.false_eq_true, if_false, if_true]
    rw [execL]
    by_cases h1 : isAlpha c = true
    · have hif : execS { parseInt := parseInt, funs := callIn parseInt [] } [("attrName", .py (.str (c :: r)))]
          (.ifS (.or (.not (.var "attrName")) (.and (.not (.meth (.index (.var "attrName") (.const (.int (0)))) "isalpha" []))
            (.cmp .ne (.index (.var "attrName") (.const (.int (0)))) (.const (.str "_")))))
            [.ret (.const (.bool false))] []) = ([("attrName", .py (.str (c :: r)))], .next) := by
        py_straight [pyIndex, seqItem, callMethod, asciiAlpha_eq, pyCompare, compareB, bnot, pyEq, pyEqV, h1]
      rw [hif]
      exact hgo (by simp [h1])
    · by_cases h2 : c = '_'
      · have hif : execS { parseInt := parseInt, funs := callIn parseInt [] } [("attrName", .py (.str (c :: r)))]
            (.ifS (.or (.not (.var "attrName")) (.and (.not (.meth (.index (.var "attrName") (.const (.int (0)))) "isalpha" []))
              (.cmp .ne (.index (.var "attrName") (.const (.int (0)))) (.const (.str "_")))))
              [.ret (.const (.bool false))] []) = ([("attrName", .py (.str (c :: r)))], .next) := by
          have h3 : isAlpha '_' = false := by decide
          py_straight [pyIndex, seqItem, callMethod, asciiAlpha_eq, pyCompare, compareB, bnot, pyEq, pyEqV, h2, h3]
        rw [hif]
        exact hgo (by simp [h2])
      · have hif : execS { parseInt := parseInt, funs := callIn parseInt [] } [("attrName", .py (.str (c :: r)))]
            (.ifS (.or (.not (.var "attrName")) (.and (.not (.meth (.index (.var "attrName") (.const (.int (0)))) "isalpha" []))
              (.cmp .ne (.index (.var "attrName") (.const (.int (0)))) (.const (.str "_")))))
              [.ret (.const (.bool false))] [])
            = ([("attrName", .py (.str (c :: r)))], .ret (.py (.bool false))) := by
          py_straight [pyIndex, seqItem, callMethod, asciiAlpha_eq, pyCompare, compareB, bnot, pyEq, pyEqV, h1, h2]
        rw [hif, hvalid]
        simp [h1, h2, resultOf]

/-- The code is each of the four hand-written copies of the predicate. -/
theorem isValidAttributeName_code_eq_models (parseInt : Str → Except PyErr Int) (n : Str) :
    runModule parseInt tags "isValidAttributeName" [.py (.str n)] = .ok (.py (.bool (Attrs.validName n)))
    ∧ runModule parseInt tags "isValidAttributeName" [.py (.str n)] = .ok (.py (.bool (Pk.validAttrName n)))
    ∧ runModule parseInt tags "isValidAttributeName" [.py (.str n)] = .ok (.py (.bool (Fmt.validAttrName n))) := by
  obtain ⟨h1, h2, h3⟩ := AttrStores.validAttrName_agree n
  rw [h1, h2, h3]
  exact ⟨isValidAttributeName_code_eq_model parseInt n, isValidAttributeName_code_eq_model parseInt n,
    isValidAttributeName_code_eq_model parseInt n⟩

/-- `isValidAttributeName(None)`: a false value is no name (`not attrName`), whatever its type. -/
theorem isValidAttributeName_code_none (parseInt : Str → Except PyErr Int) :
    runModule parseInt tags "isValidAttributeName" [.py .none] = .ok (.py (.bool false)) := by
  have hlink : runModule parseInt tags "isValidAttributeName" [.py .none]
      = run { parseInt := parseInt, funs := callIn parseInt [] } isValidAttributeName_ast [.py .none] := rfl
  rw [hlink]
  simp [run, runKw, isValidAttributeName_ast, bindArgs, execL, execS, eval, List.lookup, Val.truthy, truthy, Lit.toPy, resultOf]

/-! non-vacuity: concrete runs of the dump through the interpreter (kernel evaluation) — both rules, both outcomes -/

example : runModule pyIntOfStr tags "isValidAttributeName" [.py (.str "data-x".toList)] = .ok (.py (.bool true)) := by
  decide +kernel
example : runModule pyIntOfStr tags "isValidAttributeName" [.py (.str "_x9".toList)] = .ok (.py (.bool true)) := by
  decide +kernel
example : runModule pyIntOfStr tags "isValidAttributeName" [.py (.str "a b".toList)] = .ok (.py (.bool false)) := by
  decide +kernel
example : runModule pyIntOfStr tags "isValidAttributeName" [.py (.str "-a".toList)] = .ok (.py (.bool false)) := by
  decide +kernel
example : runModule pyIntOfStr tags "isValidAttributeName" [.py (.str "9a".toList)] = .ok (.py (.bool false)) := by
  decide +kernel
example : runModule pyIntOfStr tags "isValidAttributeName" [.py (.str "".toList)] = .ok (.py (.bool false)) := by
  decide +kernel
/-- the limit of the tie: `isalpha` is ASCII here and in the hand models (Python's accepts `é`) -/
example : runModule pyIntOfStr tags "isValidAttributeName" [.py (.str "é".toList)] = .ok (.py (.bool false))
    ∧ validAttrName "é".toList = false := by
  decide +kernel
/-- an argument that is not a text and not false is outside the subset: an error, never a value -/
example : runModule pyIntOfStr tags "isValidAttributeName" [.py (.int 7)] = .error (unsupported "index") := by
  decide +kernel

end AHP.C08Code
