/-
  AttrStores — the four models of the attribute store are one function.

  `AdvancedTag.__init__` over the attribute list, the reader-side synchronisation (`_handleClassAttr`), the
  listing `getAttributesList()` and the attribute part of `getStartTag()` are modelled four times:

    (1) `AHP`        Model/Token.lean  + Model/Tree.lean   `intake`, `AttrState.view`, `startTagI`      (C01–C03, C13)
    (2) `AHP.Attrs`  Model/Attrs.lean                      `mk`, `attrsList`, `startTag`                (C08–C10)
    (3) `AHP.Pk`     Model/Pickle.lean                     `Attrs.init`, `Attrs.attrsList`, `startTag`  (C16, C17)
    (4) `AHP.Fmt`    Model/Format.lean                     `mkStore`, `AStore.items`, `attrString`      (C11, C12)

  Property theorems only; lemmas in AHP/Lemmas/AttrStores{Str,Dict,Sim,Render}.lean.  Everything is stated for
  EVERY raw attribute list `l : List (Str × Option Str)`.  Model (1) is the hub: it keeps the most state (the
  raw text under `style`); `toA`, `toP`, `toF` forget that text and are otherwise the identity.

  Documented differences of representation (not of behaviour):
    * model (3) returns `Option` ("the constructor raised"): the theorem says it is always `some`;
    * model (2) is parametrised by the tables of constants.py.  Construction consults one row of them
      (`TAG_ITEM_BINARY_ATTRIBUTES_STRING_ATTR`, hypothesis `TablesOK`), rendering one more
      (`TAG_ITEM_BINARY_ATTRIBUTES`, hypothesis `BinaryOK`); the dot-access rows do not matter.  Models (1), (3),
      (4) read the same rows from the generated tables (AHP/Gen/Tables.lean) — `tables_agree`;
    * models (2) and (3) return / keep the synchronised store next to the listing; (1) and (4) are pure.

  No difference of behaviour is left.  (This module first FOUND one: models (1)–(3) stripped with an ASCII-only
  `strip`, model (4) with `pyStrip` = all of `str.isspace()`; on `class="\xa0a"` they differed and the library agreed
  with model (4) — theorem `fmt_differs_on_nbsp`, side condition `FmtDomain`.  The shared `isWs` of Model/Basic.lean is
  now Python's white space, `pyStrip = strip` (`strip_agree`), the side condition is gone and the former
  counter-example is an instance of the agreement: `fmt_agrees_on_nbsp`.)
-/
import AHP.Lemmas.AttrStoresRender
namespace AHP.AttrStores
open AHP

/-! ### helper equalities: names, class splitting, style text, boolean strings, quoting, dicts -/

/-- The four `isValidAttributeName`s are one predicate. -/
theorem validAttrName_agree (n : Str) :
    Attrs.validName n = validAttrName n ∧ Pk.validAttrName n = validAttrName n ∧ Fmt.validAttrName n = validAttrName n :=
  ⟨validName_attrs n, validName_pk n, validName_fmt n⟩

example : validAttrName "data-x".toList = true ∧ validAttrName "a b".toList = false := by decide

/-- The four renderings of `WORDS_ONLY_RE.sub(' ', …)` (two-character look-ahead, "previous was a space" flag,
    nested match) are one function. -/
theorem collapseSpaces_agree (s : Str) :
    Attrs.collapseSpaces s = collapseSpaces s ∧ Pk.collapseSp s = collapseSpaces s
      ∧ Fmt.collapseSpaces false s = collapseSpaces s :=
  ⟨collapse_attrs s, collapse_pk s, collapse_fmt s⟩

example : collapseSpaces " a   b  ".toList = " a b ".toList := by decide

/-- The four class splitters agree on every string. -/
theorem classSplit_agree (s : Str) :
    Attrs.words s = classNamesOf (some s) ∧ Pk.classTokens s = classNamesOf (some s)
      ∧ Fmt.classNames s = classNamesOf (some s) :=
  ⟨words_attrs s, classTokens_pk s, classNames_fmt s⟩

example : classNamesOf (some "  a  b c ".toList) = ["a".toList, "b".toList, "c".toList] := by decide

/-- non-ASCII white space: stripped at the ends (`str.strip()`), but only U+0020 separates names (`split(' ')`) — an
    inner U+00A0 / U+3000 stays inside the name, as in the library -/
example : classNamesOf (some [Char.ofNat 0xa0, 'a', ' ', 'b', Char.ofNat 0xa0, 'c', Char.ofNat 0x3000])
      = [['a'], ['b', Char.ofNat 0xa0, 'c']]
    ∧ Fmt.classNames [Char.ofNat 0xa0, 'a', ' ', 'b', Char.ofNat 0xa0, 'c', Char.ofNat 0x3000]
      = [['a'], ['b', Char.ofNat 0xa0, 'c']] := by decide

/-- `pyStrip` and `strip` are one function: both remove all of `str.isspace()`. -/
theorem strip_agree (s : Str) : Fmt.pyStrip s = strip s := pyStrip_eq s

example : strip [Char.ofNat 0x2003, '\x1c', 'a', ' ', 'b', Char.ofNat 0x85, '\n'] = ['a', ' ', 'b'] := by decide

/-- The four `StyleAttribute.styleToDict`s (first colon found by index / by recursion / by `takeWhile`) agree. -/
theorem styleToDict_agree (s : Str) :
    Attrs.styleToDict s = styleToDict s ∧ Pk.styleToDict s = styleToDict s
      ∧ Fmt.styleToDict s = styleToDict s :=
  ⟨styleToDict_attrs s, styleToDict_pk s, styleToDict_fmt s⟩

example : styleToDict " Color : red ;; x:1; color: blue".toList
    = [("color".toList, "blue".toList), ("x".toList, "1".toList)] := by decide

/-- names and values are stripped of non-ASCII white space too -/
example : styleToDict [Char.ofNat 0xa0, 'x', Char.ofNat 0x3000, ':', Char.ofNat 0x2003, '1', Char.ofNat 0x85, ';', 'y', ':', '2',
      Char.ofNat 0xa0] = [(['x'], ['1']), (['y'], ['2'])] := by decide

/-- The four `_asStr`s agree on every map. -/
theorem styleStr_agree (m : List (Str × Str)) :
    Attrs.asStr m = styleStr m ∧ Pk.styleStr m = styleStr m ∧ Fmt.styleStr m = styleStr m :=
  ⟨rfl, rfl, rfl⟩

/-- Models (2)–(4) copy the parsed style once more through its text (`tag.style = StyleAttribute(…)`), model (1)
    does not: the copy changes nothing. -/
theorem styleCopy_agree (s : Str) : styleToDict (styleStr (styleToDict s)) = styleToDict s := styleToDict_idem s

/-- The four `convertToBooleanString`s agree. -/
theorem boolString_agree (v : Option Str) :
    Attrs.boolString v = boolString v ∧ Pk.convBoolStr v = boolString v ∧ Fmt.boolString v = boolString v :=
  ⟨boolString_attrs v, boolString_pk v, boolString_fmt v⟩

example : boolString (some "FALSE".toList) = "false".toList ∧ boolString (some "x".toList) = "true".toList
    ∧ boolString none = "false".toList := by decide

/-- The four `escapeQuotes` agree. -/
theorem escapeQuotes_agree (s : Str) : Attrs.escQ s = escQ s ∧ Pk.escQ s = escQ s ∧ Fmt.escapeQuotes s = escQ s :=
  ⟨escQ_attrs s, escQ_pk s, escQ_fmt s⟩

/-- The dict writes agree: always for (2) and (3); for the formatter's (which rewrites every entry with the key)
    on dicts with pairwise distinct keys. -/
theorem dictSet_agree {β : Type} (k : Str) (v : β) (d : List (Str × β)) :
    Attrs.aset k v d = dictSet d k v ∧ Pk.dset k v d = dictSet d k v
      ∧ ((keys d).Nodup → Fmt.dictSet d k v = dictSet d k v) :=
  ⟨aset_eq k v d, dset_eq k v d, fun h => fset_eq k v h⟩

/-- The dict deletes agree: always for (2) and (4); for the pickle model's (which removes the first entry only)
    on dicts with pairwise distinct keys. -/
theorem dictDel_agree {β : Type} (k : Str) (d : List (Str × β)) :
    Attrs.adel k d = dictDel d k ∧ Fmt.dictDel d k = dictDel d k
      ∧ ((keys d).Nodup → Pk.ddel k d = dictDel d k) :=
  ⟨rfl, rfl, fun h => ddel_eq k h⟩

/-- with a repeated key the two variants do differ — such a list is not a Python dict -/
example : Fmt.dictSet [(['a'], 1), (['a'], 2)] ['a'] 0 ≠ dictSet [(['a'], 1), (['a'], 2)] ['a'] 0
    ∧ Pk.ddel ['a'] [(['a'], 1), (['a'], 2)] ≠ dictDel [(['a'], 1), (['a'], 2)] ['a'] := by decide

/-- The rows of constants.py the stores consult are the same in the generated tables of models (1), (3), (4). -/
theorem tables_agree :
    Pk.boolStrAttrs = ["spellcheck".toList] ∧ Fmt.binaryStringAttrs = ["spellcheck".toList]
      ∧ Pk.binaryAttrs = binaryAttrs ∧ Fmt.binaryAttrs = binaryAttrs :=
  ⟨pk_boolStr, fmt_boolStr, pk_binary, fmt_binary⟩

/-! ### the store after construction -/

/-- a raw attribute list exercising every branch: upper-case names, an invalid name, duplicates (last wins, first
    position), `class` twice, `style` with a duplicate property and an item without colon, a value-less `style`
    replaced later, the boolean-string attribute, a value-less attribute -/
def sample : List Attr :=
  [("ID".toList, some "a".toList), ("a b".toList, some "x".toList), ("class".toList, some " x  y ".toList),
   ("style".toList, none), ("checked".toList, none), ("spellcheck".toList, some "No".toList),
   ("Style".toList, some "Color: red; junk; color : blue;top:1".toList), ("id".toList, some "b".toList),
   ("CLASS".toList, some "z  x".toList), ("data-q".toList, some "say \"hi\"".toList)]

/-- tables as the drivers hand them to model (2) -/
def sampleTables : Attrs.Tables := ⟨binaryAttrs, [kSpell], []⟩

theorem sampleTables_ok : TablesOK sampleTables ∧ BinaryOK sampleTables :=
  ⟨fun k => contains_single k kSpell, fun _ => rfl⟩

/-- the same with non-ASCII white space at the ends of the `class` and `style` values and of a style name / value -/
def sampleUni : List Attr :=
  [("class".toList, some [Char.ofNat 0xa0, 'x', ' ', ' ', 'y', Char.ofNat 0x3000]),
   ("style".toList, some [Char.ofNat 0x2003, 'c', Char.ofNat 0xa0, ':', Char.ofNat 0x85, 'r', ';', '\x1c']),
   ("id".toList, some [Char.ofNat 0xa0, 'i'])]

/-- The invariant the equalities rest on: the keys of the dict stay pairwise distinct. -/
theorem intake_keys_nodup (l : List Attr) : (keys (intake l AttrState.empty).d).Nodup := inv_intake l inv_empty

/-- (2) = (1) as STATES: the element the constructor of model (2) builds is the image of model (1)'s store. -/
theorem mk_eq_intake {T : Attrs.Tables} (hT : TablesOK T) (tag : Str) (sc : Bool) (l : List Attr) :
    Attrs.mk T tag sc l = toA (lower tag) sc (intake l AttrState.empty) := by
  unfold Attrs.mk; rw [empty_toA]; exact foldl_toA hT (lower tag) sc l AttrState.empty

/-- (3) = (1) as states; the constructor of model (3) never raises. -/
theorem init_eq_intake (l : List Attr) : Pk.Attrs.init l = some (toP (intake l AttrState.empty)) := by
  unfold Pk.Attrs.init; rw [empty_toP]; exact initGo_toP l inv_empty

/-- (4) = (1) as states. -/
theorem mkStore_eq_intake (l : List Attr) : Fmt.mkStore l {} = toF (intake l AttrState.empty) := by
  rw [empty_toF]; exact mkStore_toF l inv_empty

/-- class names and style map are literally the same in the four stores -/
theorem classes_style_agree {T : Attrs.Tables} (hT : TablesOK T) (tag : Str) (sc : Bool) (l : List Attr) :
    let st := intake l AttrState.empty
    (Attrs.mk T tag sc l).cls = st.classes ∧ (Attrs.mk T tag sc l).sty = st.style
    ∧ (Pk.Attrs.init l).map (·.cls) = some st.classes ∧ (Pk.Attrs.init l).map (·.sty) = some st.style
    ∧ (Fmt.mkStore l {}).classes = st.classes ∧ (Fmt.mkStore l {}).style = st.style := by
  simp only [mk_eq_intake hT, init_eq_intake, mkStore_eq_intake l, Option.map_some]
  exact ⟨rfl, rfl, rfl, rfl, rfl, rfl⟩

/-! ### the listing `getAttributesList()` after construction -/

/-- (2) = (1): `getAttributesList()` of the freshly built element. -/
theorem intake_view_eq_attrs {T : Attrs.Tables} (hT : TablesOK T) (tag : Str) (sc : Bool) (l : List Attr) :
    (Attrs.attrsList (Attrs.mk T tag sc l)).1 = (intake l AttrState.empty).view := by
  rw [mk_eq_intake hT]; exact attrsList_toA _ _ (inv_intake l inv_empty)

/-- (3) = (1): the constructor succeeds and lists the same. -/
theorem intake_view_eq_pickle (l : List Attr) :
    (Pk.Attrs.init l).map Pk.Attrs.attrsList = some (intake l AttrState.empty).view := by
  rw [init_eq_intake, Option.map_some, attrsList_toP (inv_intake l inv_empty)]

/-- (4) = (1). -/
theorem intake_view_eq_format (l : List Attr) :
    (Fmt.mkStore l {}).items = (intake l AttrState.empty).view := by
  rw [mkStore_eq_intake l]; exact items_toF (inv_intake l inv_empty)

/-- The listing after construction is one list in all four models. -/
theorem intake_view_eq_all {T : Attrs.Tables} (hT : TablesOK T) (tag : Str) (sc : Bool) (l : List Attr) :
    (Attrs.attrsList (Attrs.mk T tag sc l)).1 = (intake l AttrState.empty).view
    ∧ (Pk.Attrs.init l).map Pk.Attrs.attrsList = some (intake l AttrState.empty).view
    ∧ (Fmt.mkStore l {}).items = (intake l AttrState.empty).view :=
  ⟨intake_view_eq_attrs hT tag sc l, intake_view_eq_pickle l, intake_view_eq_format l⟩

/-- non-vacuity: the sample list meets the hypotheses and its listing is far from trivial -/
example : (intake sample AttrState.empty).view =
    [("id".toList, some "b".toList), ("checked".toList, none), ("spellcheck".toList, some "true".toList),
     ("style".toList, some "color: blue; top: 1".toList), ("data-q".toList, some "say \"hi\"".toList),
     ("class".toList, some "z x".toList)] := by decide

example : (Attrs.attrsList (Attrs.mk sampleTables "DIV".toList false sample)).1 = (intake sample AttrState.empty).view :=
  intake_view_eq_attrs sampleTables_ok.1 _ _ _

/-- `TablesOK` is needed: with another boolean-string row model (2) stores another value. -/
example : (Attrs.attrsList (Attrs.mk ⟨[], [], []⟩ ['p'] false [("spellcheck".toList, some ['x'])])).1
      = [("spellcheck".toList, some ['x'])]
    ∧ (intake [("spellcheck".toList, some ['x'])] AttrState.empty).view
      = [("spellcheck".toList, some "true".toList)] := by decide

/-- The input on which the models used to disagree (a `class` value that starts with U+00A0: the ASCII-only `strip`
    of models (1)–(3) kept it, `str.strip()` and model (4) drop it) — now an instance of `intake_view_eq_all`; replaces
    the former counter-example `fmt_differs_on_nbsp`. -/
theorem fmt_agrees_on_nbsp :
    (Fmt.mkStore [("class".toList, some [Char.ofNat 0xa0, 'a'])] {}).items = [("class".toList, some ['a'])]
    ∧ (intake [("class".toList, some [Char.ofNat 0xa0, 'a'])] AttrState.empty).view = [("class".toList, some ['a'])]
    ∧ (Attrs.attrsList (Attrs.mk sampleTables ['p'] false [("class".toList, some [Char.ofNat 0xa0, 'a'])])).1
        = [("class".toList, some ['a'])]
    ∧ (Pk.Attrs.init [("class".toList, some [Char.ofNat 0xa0, 'a'])]).map Pk.Attrs.attrsList
        = some [("class".toList, some ['a'])] := by decide

/-- non-vacuity beyond ASCII: class and style lose the white space of `str.isspace()` at their ends, the plain attribute
    `id` keeps its value untouched; one listing in the four models -/
example : (intake sampleUni AttrState.empty).view =
    [("style".toList, some "c: r".toList), ("id".toList, some [Char.ofNat 0xa0, 'i']), ("class".toList, some "x y".toList)] := by
  decide

example : (Fmt.mkStore sampleUni {}).items = (intake sampleUni AttrState.empty).view := intake_view_eq_format sampleUni

/-! ### the rendered start tag -/

/-- (2) = (1): `getStartTag()` of the freshly built element (model (2) lower-cases the tag name itself). -/
theorem startTag_eq_attrs {T : Attrs.Tables} (hT : TablesOK T) (hB : BinaryOK T) (tag : Str) (sc : Bool)
    (l : List Attr) :
    (Attrs.startTag T (Attrs.mk T tag sc l)).1 = startTag (lower tag) (intake l AttrState.empty) sc := by
  rw [mk_eq_intake hT]; exact startTag_toA hB _ _ (inv_intake l inv_empty)

/-- (3) = (1). -/
theorem startTag_eq_pickle (name : Str) (sc : Bool) (l : List Attr) :
    (Pk.Attrs.init l).map (fun a => Pk.Attrs.startTag name a sc) = some (startTag name (intake l AttrState.empty) sc) := by
  rw [init_eq_intake, Option.map_some, startTag_toP name sc (inv_intake l inv_empty)]

/-- (4) = (1): the attribute string, and the start tag with the formatter's indent prefix. -/
theorem startTag_eq_format (l : List Attr) (name indent : Str) (sc : Bool) :
    Fmt.attrString (Fmt.mkStore l {}) = renderAttrs (intake l AttrState.empty).view
    ∧ Fmt.startTagNormal name (Fmt.mkStore l {}) sc indent = startTagI indent name (intake l AttrState.empty) sc := by
  rw [mkStore_eq_intake l]
  refine ⟨?_, startTag_toF name indent sc (inv_intake l inv_empty)⟩
  rw [attrString_eq, items_toF (inv_intake l inv_empty)]

/-- the element of the pickle model's tree (`DN.mk`) renders the start tag of model (1) -/
theorem dn_startTag_eq (oid uid : Nat) (name : Str) (l : List Attr) (sc : Bool) (owner : Option Nat) :
    ∃ a sc', Pk.DN.mk oid uid name l sc owner = some (.el oid uid (lower name) a sc' [.text []] [] [] none owner)
      ∧ Pk.Attrs.startTag (lower name) a sc' = startTag (lower name) (intake l AttrState.empty) sc' := by
  refine ⟨toP (intake l AttrState.empty), (if !sc && Pk.voidTags.contains name then true else sc), ?_,
    startTag_toP _ _ (inv_intake l inv_empty)⟩
  unfold Pk.DN.mk
  rw [init_eq_intake]

example : startTag "div".toList (intake sample AttrState.empty) false =
    "<div id=\"b\" checked spellcheck=\"true\" style=\"color: blue; top: 1\" data-q=\"say &quot;hi&quot;\" class=\"z x\" >".toList := by
  decide

example : (Attrs.startTag sampleTables (Attrs.mk sampleTables "DIV".toList false sample)).1
    = startTag "div".toList (intake sample AttrState.empty) false :=
  startTag_eq_attrs sampleTables_ok.1 sampleTables_ok.2 _ _ _

example : Fmt.startTagNormal "div".toList (Fmt.mkStore sample {}) false "\n  ".toList
    = startTagI "\n  ".toList "div".toList (intake sample AttrState.empty) false :=
  (startTag_eq_format sample _ _ _).2

end AHP.AttrStores
