/-
  C19 — the code tie: the Python functions of conversions.py THEMSELVES (dumped node by node into `Gen.Code` by
  harness/ahpcheck/translate_code.py on every run, interpreted by `AHP.PyAst`) compute what the hand-written model
  `Model/Conv.lean` computes — for every argument value, every `parseInt`.  One theorem per function.

  An edit of a function changes the dump and breaks the theorem of that function, for ALL inputs (the differential
  correspondence check of the C19 stream only sees the generated cases).
-/
import AHP.Lemmas.PyAst
import AHP.Lemmas.PyAstUtils
namespace AHP.C19Code
open AHP AHP.Gen AHP.Conv AHP.PyAst AHP.Gen.Code

/-- `convertToIntOrNegativeOneIfUnset(v)` -/
theorem convertToIntOrNegativeOneIfUnset_code_eq_model (parseInt : Str → Except PyErr Int) (v : PyV) :
    runModule parseInt conversions "convertToIntOrNegativeOneIfUnset" [.py v]
      = .ok (.py (Conv.convertToIntOrNegativeOneIfUnset parseInt v)) := by
  simp only [link_1, run, runKw, convertToIntOrNegativeOneIfUnset_ast]
  rcases v with _ | s | n | b | ws | i | w
  case str =>
    rcases s with _ | ⟨c, r⟩
    · py_eval; simp [Conv.convertToIntOrNegativeOneIfUnset, isNoneOrEmpty]
    · py_eval; simp only [Conv.convertToIntOrNegativeOneIfUnset, isNoneOrEmpty, pyInt]
      cases parseInt (c :: r) <;> simp
  all_goals (py_eval; simp [Conv.convertToIntOrNegativeOneIfUnset, isNoneOrEmpty, pyInt])

/-- `convertToIntOrNegativeOneIfUnset()` — the default argument. -/
theorem convertToIntOrNegativeOneIfUnset_code_default (parseInt : Str → Except PyErr Int) :
    runModule parseInt conversions "convertToIntOrNegativeOneIfUnset" []
      = .ok (.py (Conv.convertToIntOrNegativeOneIfUnset parseInt .none)) := by
  simp only [link_1, run, runKw, convertToIntOrNegativeOneIfUnset_ast]
  py_eval; simp [Conv.convertToIntOrNegativeOneIfUnset, isNoneOrEmpty]

/-- `convertToBooleanString(v)` -/
theorem convertToBooleanString_code_eq_model (parseInt : Str → Except PyErr Int) (v : PyV) :
    runModule parseInt conversions "convertToBooleanString" [.py v]
      = .ok (.py (.str (Conv.convertToBooleanString v))) := by
  simp only [link_2, run, runKw, convertToBooleanString_ast]
  rcases v with _ | s | n | b | ws | i | w
  case str =>
    by_cases h1 : lower s = ['f', 'a', 'l', 's', 'e'] <;> by_cases h2 : lower s = ['0'] <;>
      py_eval [Conv.convertToBooleanString, str, h1, h2]
  case int =>
    by_cases h : n = 0 <;> py_eval [Conv.convertToBooleanString, str, h]
  case bool =>
    cases b <;> py_eval [Conv.convertToBooleanString, str]
  case tokens =>
    by_cases h : ws = [] <;> py_eval [Conv.convertToBooleanString, str, h]
  all_goals py_eval [Conv.convertToBooleanString, str]

/-- `convertToBooleanString()` — the default argument. -/
theorem convertToBooleanString_code_default (parseInt : Str → Except PyErr Int) :
    runModule parseInt conversions "convertToBooleanString" []
      = .ok (.py (.str (Conv.convertToBooleanString .none))) := by
  simp only [link_2, run, runKw, convertToBooleanString_ast]
  py_eval [Conv.convertToBooleanString, str]

/-- `convertBooleanStringToBoolean(v)` -/
theorem convertBooleanStringToBoolean_code_eq_model (parseInt : Str → Except PyErr Int) (v : PyV) :
    runModule parseInt conversions "convertBooleanStringToBoolean" [.py v]
      = .ok (.py (.bool (Conv.convertBooleanStringToBoolean v))) := by
  simp only [link_3, run, runKw, convertBooleanStringToBoolean_ast]
  rcases v with _ | s | n | b | ws | i | w
  case str =>
    rcases s with _ | ⟨c, r⟩
    · py_eval [Conv.convertBooleanStringToBoolean, str]
    · by_cases h : lower (c :: r) = ['f', 'a', 'l', 's', 'e'] <;> py_eval [Conv.convertBooleanStringToBoolean, str, h]
  case int =>
    by_cases h : n = 0 <;> py_eval [Conv.convertBooleanStringToBoolean, str, h]
  case bool =>
    cases b <;> py_eval [Conv.convertBooleanStringToBoolean, str]
  case tokens =>
    by_cases h : ws = [] <;> py_eval [Conv.convertBooleanStringToBoolean, str, h]
  all_goals py_eval [Conv.convertBooleanStringToBoolean, str]

/-- `convertToPositiveInt(v, d)` for every value `d` of the default (returned as is, never raised). -/
theorem convertToPositiveInt_code_eq_model (parseInt : Str → Except PyErr Int) (v : PyV) (invalid : Lit) :
    runModule parseInt conversions "convertToPositiveInt" [.py v, .py invalid.toPy]
      = .ok (.py (Conv.convertToPositiveInt parseInt v invalid)) := by
  simp only [link_4, run, runKw, convertToPositiveInt_ast, Conv.convertToPositiveInt]
  generalize invalid.toPy = d
  rcases v with _ | s | n | b | ws | i | w
  case str =>
    cases h : parseInt s with
    | error e => py_eval [pyInt, h]
    | ok n => by_cases hn : n < 0 <;> py_eval [pyInt, h, hn]
  case int =>
    by_cases hn : n < 0 <;> py_eval [pyInt, hn]
  case bool =>
    cases b <;> py_eval [pyInt]
  all_goals py_eval [pyInt]

/-- `convertToPositiveInt(v)` — the default `invalidDefault=0`. -/
theorem convertToPositiveInt_code_default (parseInt : Str → Except PyErr Int) (v : PyV) :
    runModule parseInt conversions "convertToPositiveInt" [.py v]
      = .ok (.py (Conv.convertToPositiveInt parseInt v (.int 0))) := by
  have h := convertToPositiveInt_code_eq_model parseInt v (.int 0)
  simp only [link_4, run, runKw, convertToPositiveInt_ast] at h ⊢
  simpa [bindArgs, eval, Lit.toPy] using h

/-- `_handleInvalid(x)` for every argument: an exception instance or class is raised, anything else returned. -/
theorem handleInvalid_code (parseInt : Str → Except PyErr Int) (x : Val) :
    runModule parseInt conversions "_handleInvalid" [x] = handleInvalidV x := by
  rw [link_5, run, handleInvalid_run]

/-- `_handleInvalid(invalidDefault)` is the hand model's `handleInvalid`. -/
theorem handleInvalid_code_eq_model (parseInt : Str → Except PyErr Int) (inv : Inv) :
    runModule parseInt conversions "_handleInvalid" [ofInv inv] = liftPy (Conv.handleInvalid inv) := by
  rw [handleInvalid_code, handleInvalidV_ofInv]

/-- `convertPossibleValues(v, possibleValues, invalidDefault, emptyValue)` -/
theorem convertPossibleValues_code_eq_model (parseInt : Str → Except PyErr Int) (v : PyV) (ms : List String) (inv : Inv)
    (emp : Emp) :
    runModule parseInt conversions "convertPossibleValues" [.py v, ofMembers ms, ofInv inv, ofEmp emp]
      = liftPy (Conv.convertPossibleValues v ms inv emp) := by
  simp only [link_6, run, runKw, convertPossibleValues_ast]
  by_cases hv : v = .none
  · subst hv
    cases emp with
    | val l =>
      simp only [ofEmp, Conv.convertPossibleValues, handleEmpty, liftPy]
      generalize l.toPy = d
      py_eval
    | invalid =>
      simp only [ofEmp, Conv.convertPossibleValues, handleEmpty, ← handleInvalidV_ofInv]
      cases hr : handleInvalidV (ofInv inv) <;> py_eval [hr]
  · rw [possible_ne_none v hv]
    by_cases ht : lower (tostr v) = []
    · rw [if_pos ht]
      cases emp with
      | val l =>
        simp only [ofEmp, handleEmpty, liftPy]
        generalize l.toPy = d
        py_eval [hv, ht]
      | invalid =>
        simp only [ofEmp, handleEmpty, ← handleInvalidV_ofInv]
        cases hr : handleInvalidV (ofInv inv) <;> py_eval [hr, hv, ht]
    · rw [if_neg ht]
      by_cases hm : String.ofList (lower (tostr v)) ∈ ms
      · rw [if_pos (by simpa using hm)]
        py_eval [hv, ht, hm, liftPy]
      · rw [if_neg (by simpa using hm), ← handleInvalidV_ofInv]
        cases hr : handleInvalidV (ofInv inv) <;> py_eval [hr, hv, ht, hm]

/-- `convertToIntRange(v, minValue, maxValue, invalidDefault, emptyValue)` — bounds `None` or an integer. -/
theorem convertToIntRange_code_eq_model (parseInt : Str → Except PyErr Int) (hpi : ValueErrorOnly parseInt) (v : PyV)
    (lo hi : Option Int) (inv : Inv) (emp : Emp) :
    runModule parseInt conversions "convertToIntRange" [.py v, ofOptInt lo, ofOptInt hi, ofInv inv, ofEmp emp]
      = liftPy (Conv.convertToIntRange parseInt v lo hi inv emp) := by
  simp only [link_7, run, runKw, convertToIntRange_ast, Conv.convertToIntRange]
  by_cases he : isNoneOrEmpty v = true
  · rw [if_pos he]
    rcases isNoneOrEmpty_true v he with rfl | rfl <;> cases emp with
    | val l =>
      simp only [ofEmp, handleEmpty, liftPy]
      generalize l.toPy = d
      py_eval
    | invalid =>
      simp only [ofEmp, handleEmpty, ← handleInvalidV_ofInv]
      cases hr : handleInvalidV (ofInv inv) <;> py_eval [hr]
  · rw [if_neg he]
    obtain ⟨h1, h2⟩ := isNoneOrEmpty_false v (by simpa using he)
    have h3 := pyEqV_nil_of_ne v h2
    generalize hr : pyInt parseInt v = r
    cases r with
    | error e =>
      rcases pyInt_error parseInt hpi v e hr with rfl | rfl
      · simp only [← handleInvalidV_ofInv]
        cases hi' : handleInvalidV (ofInv inv) <;> py_eval [h1, h3, hr, hi']
      · py_eval [h1, h3, hr, liftPy]
    | ok n =>
      rcases lo with _ | l
      · rcases hi with _ | h
        · py_eval [h1, h3, hr, ofOptInt, liftPy]
        · by_cases hh : n > h
          · cases hi' : handleInvalidV (ofInv inv) <;> py_eval [h1, h3, hr, hi', ← handleInvalidV_ofInv, ofOptInt, hh]
          · py_eval [h1, h3, hr, ofOptInt, liftPy, hh]
      · by_cases hl : n < l
        · cases hi' : handleInvalidV (ofInv inv) <;> py_eval [h1, h3, hr, hi', ← handleInvalidV_ofInv, ofOptInt, hl]
        · rcases hi with _ | h
          · py_eval [h1, h3, hr, ofOptInt, liftPy, hl]
          · by_cases hh : n > h
            · cases hi' : handleInvalidV (ofInv inv) <;> py_eval [h1, h3, hr, hi', ← handleInvalidV_ofInv, ofOptInt, hl, hh]
            · py_eval [h1, h3, hr, ofOptInt, liftPy, hl, hh]

/-- `convertToIntRangeCapped(v, minValue, maxValue, invalidDefault, emptyValue)` — bounds `None` or an integer. -/
theorem convertToIntRangeCapped_code_eq_model (parseInt : Str → Except PyErr Int) (hpi : ValueErrorOnly parseInt) (v : PyV)
    (lo hi : Option Int) (inv : Inv) (emp : Emp) :
    runModule parseInt conversions "convertToIntRangeCapped" [.py v, ofOptInt lo, ofOptInt hi, ofInv inv, ofEmp emp]
      = liftPy (Conv.convertToIntRangeCapped parseInt v lo hi inv emp) := by
  simp only [link_8, run, runKw, convertToIntRangeCapped_ast, Conv.convertToIntRangeCapped]
  by_cases he : isNoneOrEmpty v = true
  · rw [if_pos he]
    rcases isNoneOrEmpty_true v he with rfl | rfl <;> cases emp with
    | val l =>
      simp only [ofEmp, handleEmpty, liftPy]
      generalize l.toPy = d
      py_eval
    | invalid =>
      simp only [ofEmp, handleEmpty, ← handleInvalidV_ofInv]
      cases hr : handleInvalidV (ofInv inv) <;> py_eval [hr]
  · rw [if_neg he]
    obtain ⟨h1, h2⟩ := isNoneOrEmpty_false v (by simpa using he)
    have h3 := pyEqV_nil_of_ne v h2
    generalize hr : pyInt parseInt v = r
    cases r with
    | error e =>
      rcases pyInt_error parseInt hpi v e hr with rfl | rfl
      · simp only [← handleInvalidV_ofInv]
        cases hi' : handleInvalidV (ofInv inv) <;> py_eval [h1, h3, hr, hi']
      · py_eval [h1, h3, hr, liftPy]
    | ok n =>
      rcases lo with _ | l
      · rcases hi with _ | h
        · py_eval [h1, h3, hr, ofOptInt, liftPy, clampLo, clampHi]
        · by_cases hh : n > h <;> py_eval [h1, h3, hr, ofOptInt, liftPy, clampLo, clampHi, hh]
      · by_cases hl : n < l
        · rcases hi with _ | h
          · py_eval [h1, h3, hr, ofOptInt, liftPy, clampLo, clampHi, hl]
          · by_cases hh : l > h <;> py_eval [h1, h3, hr, ofOptInt, liftPy, clampLo, clampHi, hl, hh]
        · rcases hi with _ | h
          · py_eval [h1, h3, hr, ofOptInt, liftPy, clampLo, clampHi, hl]
          · by_cases hh : n > h <;> py_eval [h1, h3, hr, ofOptInt, liftPy, clampLo, clampHi, hl, hh]

/-! ### the default `emptyValue=''` of the three converters -/

theorem convertPossibleValues_code_default (parseInt : Str → Except PyErr Int) (v : PyV) (ms : List String) (inv : Inv) :
    runModule parseInt conversions "convertPossibleValues" [.py v, ofMembers ms, ofInv inv]
      = liftPy (Conv.convertPossibleValues v ms inv (.val (.str ""))) := by
  have h := convertPossibleValues_code_eq_model parseInt v ms inv (.val (.str ""))
  simp only [link_6, run, runKw, convertPossibleValues_ast] at h ⊢
  simpa [bindArgs, eval, Lit.toPy, ofEmp] using h

theorem convertToIntRange_code_default (parseInt : Str → Except PyErr Int) (hpi : ValueErrorOnly parseInt) (v : PyV)
    (lo hi : Option Int) (inv : Inv) :
    runModule parseInt conversions "convertToIntRange" [.py v, ofOptInt lo, ofOptInt hi, ofInv inv]
      = liftPy (Conv.convertToIntRange parseInt v lo hi inv (.val (.str ""))) := by
  have h := convertToIntRange_code_eq_model parseInt hpi v lo hi inv (.val (.str ""))
  simp only [link_7, run, runKw, convertToIntRange_ast] at h ⊢
  simpa [bindArgs, eval, Lit.toPy, ofEmp] using h

theorem convertToIntRangeCapped_code_default (parseInt : Str → Except PyErr Int) (hpi : ValueErrorOnly parseInt) (v : PyV)
    (lo hi : Option Int) (inv : Inv) :
    runModule parseInt conversions "convertToIntRangeCapped" [.py v, ofOptInt lo, ofOptInt hi, ofInv inv]
      = liftPy (Conv.convertToIntRangeCapped parseInt v lo hi inv (.val (.str ""))) := by
  have h := convertToIntRangeCapped_code_eq_model parseInt hpi v lo hi inv (.val (.str ""))
  simp only [link_8, run, runKw, convertToIntRangeCapped_ast] at h ⊢
  simpa [bindArgs, eval, Lit.toPy, ofEmp] using h

/-- A call with too few arguments is a `TypeError`, not a value (the interpreter does not totalise). -/
example (parseInt : Str → Except PyErr Int) :
    runModule parseInt conversions "convertToIntRange" [.py (.int 1)] = .error .typeError := by
  simp [link_7, run, runKw, convertToIntRange_ast, bindArgs]

/-! ### non-vacuity: concrete runs of the dumped code through the interpreter (with the driver's `int()`), values
off the trivial path; `pyIntOfStr` meets the hypothesis of the two range theorems -/

theorem pyIntOfStr_valueErrorOnly : ValueErrorOnly pyIntOfStr := by
  intro s err h
  unfold pyIntOfStr at h
  simp only at h
  split at h
  · cases h; rfl
  · split at h
    · cases h
    · cases h; rfl

example : runModule pyIntOfStr conversions "convertToIntOrNegativeOneIfUnset" [.py (.str " 12 ".toList)] = .ok (.py (.int 12)) := by
  rfl
example : runModule pyIntOfStr conversions "convertToIntOrNegativeOneIfUnset" [.py (.str "x".toList)] = .ok (.py (.int 0)) := by
  rfl
example : runModule pyIntOfStr conversions "convertToBooleanString" [.py (.str "FALSE".toList)]
    = .ok (.py (.str "false".toList)) := by
  rfl
example : runModule pyIntOfStr conversions "convertBooleanStringToBoolean" [.py (.str "False".toList)]
    = .ok (.py (.bool false)) := by
  rfl
example : runModule pyIntOfStr conversions "convertToPositiveInt" [.py (.str "-3".toList), .py (Lit.int 20).toPy]
    = .ok (.py (.int 20)) := by
  rfl
example : runModule pyIntOfStr conversions "_handleInvalid" [ofInv (.raise "IndexSizeErrorException")]
    = .error .indexSizeError := by
  rfl
example : runModule pyIntOfStr conversions "_handleInvalid" [.excInst "ValueError"] = .error .valueError := by
  rfl
example : runModule pyIntOfStr conversions "convertPossibleValues"
    [.py (.str "POST".toList), ofMembers ["get", "post"], ofInv (.val (.str "get")), ofEmp .invalid]
    = .ok (.py (.str "post".toList)) := by
  rfl
example : runModule pyIntOfStr conversions "convertToIntRange"
    [.py (.str "-1".toList), ofOptInt (some 0), ofOptInt none, ofInv (.raise "IndexSizeErrorException"), ofEmp (.val (.int 0))]
    = .error .indexSizeError := by
  rfl
example : runModule pyIntOfStr conversions "convertToIntRange"
    [.py (.tokens []), ofOptInt (some 0), ofOptInt none, ofInv (.val (.int 7)), ofEmp (.val (.int 0))]
    = .error .typeError := by
  rfl
-- (a failing `decide +kernel` explains itself with the elaborator's evaluator, which is very slow here: the small budget
-- makes a broken example fail at once; the kernel check of a correct one does not consume it)
set_option maxHeartbeats 2000 in
example : runModule pyIntOfStr conversions "convertToIntRangeCapped"
    [.py (.str "70000".toList), ofOptInt (some 1), ofOptInt (some 1000), ofInv (.val (.int 1)), ofEmp .invalid]
    = .ok (.py (.int 1000)) := by
  decide +kernel

/-! ## constants.py: the `_special_value_*` helpers (the dump `Gen.Code.constants`, run after conversions.py)

The hand model does not model these functions one by one: `translate_props.py` recognises their SHAPE and turns each into a
`Gen.Rule`, which `Conv.evalRule` interprets.  The theorems say that the code itself, run on an element, gives what
`evalRule` gives for the generated rule of that dot name — for every element (the element's own methods `tagName`,
`getAttribute`, `hasAttribute` being the hand model's).  They check the shape recognition of the table translator against
the code, for all elements.  The proofs name the literal arguments of today's source: an edit of a literal in the source
changes table and dump alike and breaks them (as it breaks the C19c table obligations). -/

theorem special_value_rows_code_eq_model (parseInt : Str → Except PyErr Int) (hpi : ValueErrorOnly parseInt) (e : Elem)
    (r : Rule) (hr : Gen.specialRules.lookup "rows" = some r) :
    runModule parseInt constants_scope "_special_value_rows" [.elem e] = liftPy (evalRule genTables parseInt e r) := by
  have hr' : r = (.byTag "textarea" (.conv (.intRange (some 1) none (.val (.int 2)) .invalid) "rows" (.int 2))
      (.conv .raw "rows" (.str ""))) := by
    have : Gen.specialRules.lookup "rows" = some (.byTag "textarea"
        (.conv (.intRange (some 1) none (.val (.int 2)) .invalid) "rows" (.int 2)) (.conv .raw "rows" (.str ""))) := rfl
    rw [this] at hr; exact (Option.some.inj hr).symm
  subst hr'
  have h1 := fun v => convertToIntRange_code_eq_model parseInt hpi v (some 1) none (.val (.int 2)) .invalid
  simp only [link_7, ofOptInt, ofInv, ofEmp, Lit.toPy] at h1
  simp only [linkC_1, run, runKw, _special_value_rows_ast, evalRule, evalConv]
  by_cases ht : e.tag = "textarea"
  · py_eval [ht, getAttr, cxC_intRange, intRange_kw, h1]
    generalize liftPy _ = res
    cases res <;> rfl
  · have ht' : e.tag.toList ≠ ['t', 'e', 'x', 't', 'a', 'r', 'e', 'a'] :=
      fun h => ht ((toList_eq_iff e.tag "textarea").mp h)
    py_eval [ht, ht', getAttr, liftPy]

theorem special_value_cols_code_eq_model (parseInt : Str → Except PyErr Int) (hpi : ValueErrorOnly parseInt) (e : Elem)
    (r : Rule) (hr : Gen.specialRules.lookup "cols" = some r) :
    runModule parseInt constants_scope "_special_value_cols" [.elem e] = liftPy (evalRule genTables parseInt e r) := by
  have hr' : r = (.byTag "textarea" (.conv (.intRange (some 1) none (.val (.int 20)) .invalid) "cols" (.int 20))
      (.conv .raw "cols" (.str ""))) := by
    have : Gen.specialRules.lookup "cols" = some (.byTag "textarea"
        (.conv (.intRange (some 1) none (.val (.int 20)) .invalid) "cols" (.int 20)) (.conv .raw "cols" (.str ""))) := rfl
    rw [this] at hr; exact (Option.some.inj hr).symm
  subst hr'
  have h1 := fun v => convertToIntRange_code_eq_model parseInt hpi v (some 1) none (.val (.int 20)) .invalid
  simp only [link_7, ofOptInt, ofInv, ofEmp, Lit.toPy] at h1
  simp only [linkC_2, run, runKw, _special_value_cols_ast, evalRule, evalConv]
  by_cases ht : e.tag = "textarea"
  · py_eval [ht, getAttr, cxC_intRange, intRange_kw, h1]
    generalize liftPy _ = res
    cases res <;> rfl
  · have ht' : e.tag.toList ≠ ['t', 'e', 'x', 't', 'a', 'r', 'e', 'a'] :=
      fun h => ht ((toList_eq_iff e.tag "textarea").mp h)
    py_eval [ht, ht', getAttr, liftPy]

theorem special_value_autocomplete_code_eq_model (parseInt : Str → Except PyErr Int) (e : Elem)
    (r : Rule) (hr : Gen.specialRules.lookup "autocomplete" = some r) :
    runModule parseInt constants_scope "_special_value_autocomplete" [.elem e]
      = liftPy (evalRule genTables parseInt e r) := by
  have hr' : r = (.byTag "form" (.conv (.possible ["on", "off"] (.val (.str "on")) .invalid) "autocomplete" (.str "on"))
      (.conv (.possible ["on", "off"] (.val (.str "")) (.val (.str ""))) "autocomplete" (.str ""))) := by
    have : Gen.specialRules.lookup "autocomplete" = some (.byTag "form"
        (.conv (.possible ["on", "off"] (.val (.str "on")) .invalid) "autocomplete" (.str "on"))
        (.conv (.possible ["on", "off"] (.val (.str "")) (.val (.str ""))) "autocomplete" (.str ""))) := rfl
    rw [this] at hr; exact (Option.some.inj hr).symm
  subst hr'
  have h1 := fun v => convertPossibleValues_code_eq_model parseInt v ["on", "off"] (.val (.str "on")) .invalid
  have h2 := fun v => convertPossibleValues_code_eq_model parseInt v ["on", "off"] (.val (.str "")) (.val (.str ""))
  simp [link_6, ofMembers, ofInv, ofEmp, Lit.toPy] at h1 h2
  simp only [linkC_3, run, runKw, _special_value_autocomplete_ast, evalRule, evalConv]
  by_cases ht : e.tag = "form"
  · py_eval [ht, getAttr, cxC_possible, possible_kw, h1]
    generalize liftPy _ = res
    cases res <;> rfl
  · have ht' : e.tag.toList ≠ ['f', 'o', 'r', 'm'] := fun h => ht ((toList_eq_iff e.tag "form").mp h)
    py_eval [ht, ht', getAttr, cxC_possible, possible_kw, h2]
    generalize liftPy _ = res
    cases res <;> rfl

theorem special_value_size_code_eq_model (parseInt : Str → Except PyErr Int) (e : Elem)
    (r : Rule) (hr : Gen.specialRules.lookup "size" = some r) :
    runModule parseInt constants_scope "_special_value_size" [.elem e] = liftPy (evalRule genTables parseInt e r) := by
  have hr' : r = (.byTag "input" (.conv (.positiveInt (.int 20)) "size" (.int 20)) (.conv .raw "size" (.str ""))) := by
    have : Gen.specialRules.lookup "size" = some (.byTag "input" (.conv (.positiveInt (.int 20)) "size" (.int 20))
        (.conv .raw "size" (.str ""))) := rfl
    rw [this] at hr; exact (Option.some.inj hr).symm
  subst hr'
  have h1 := fun v => convertToPositiveInt_code_eq_model parseInt v (.int 20)
  simp only [link_4, Lit.toPy] at h1
  simp only [linkC_4, run, runKw, _special_value_size_ast, evalRule, evalConv]
  by_cases ht : e.tag = "input"
  · py_eval [ht, getAttr, cxC_positiveInt, positiveInt_kw, h1, liftPy]
  · have ht' : e.tag.toList ≠ ['i', 'n', 'p', 'u', 't'] := fun h => ht ((toList_eq_iff e.tag "input").mp h)
    py_eval [ht, ht', getAttr, liftPy]

/-- `_special_value_maxLength(em)` — reading. -/
theorem special_value_maxLength_code_eq_model (parseInt : Str → Except PyErr Int) (hpi : ValueErrorOnly parseInt) (e : Elem)
    (r : Rule) (hr : Gen.specialRules.lookup "maxLength" = some r) :
    runModule parseInt constants_scope "_special_value_maxLength" [.elem e] = liftPy (evalRule genTables parseInt e r) := by
  have hr' : r = (.maxLength "maxlength" (.int (-1)) (.str "-1") (some 0) none (.val (.int 0)) (.val (.int (-1)))
      (.raise "IndexSizeErrorException")) := by
    have : Gen.specialRules.lookup "maxLength" = some (.maxLength "maxlength" (.int (-1)) (.str "-1") (some 0) none
        (.val (.int 0)) (.val (.int (-1))) (.raise "IndexSizeErrorException")) := rfl
    rw [this] at hr; exact (Option.some.inj hr).symm
  subst hr'
  have h1 := fun v => convertToIntRange_code_eq_model parseInt hpi v (some 0) none (.val (.int (-1))) (.val (.int 0))
  simp only [link_7, ofOptInt, ofInv, ofEmp, Lit.toPy] at h1
  simp only [linkC_5, run, runKw, _special_value_maxLength_ast, evalRule]
  by_cases ha : e.hasAttribute "maxlength" = true
  · py_eval [ha, cxC_intRange, intRange_kw', h1]
    generalize liftPy _ = res
    cases res <;> rfl
  · py_eval [ha, liftPy]

/-- `_special_value_maxLength(em, newValue)` — the validation run before an assignment. -/
theorem special_value_maxLength_validate_code_eq_model (parseInt : Str → Except PyErr Int) (hpi : ValueErrorOnly parseInt)
    (e : Elem) (v : PyV) (r : Rule) (hr : Gen.validatedProps.lookup "maxLength" = some r) :
    (match runModule parseInt constants_scope "_special_value_maxLength" [.elem e, .py v] with
      | .ok _ => .ok () | .error err => .error err) = validateRule parseInt v r := by
  have hr' : r = (.maxLength "maxlength" (.int (-1)) (.str "-1") (some 0) none (.val (.int 0)) (.val (.int (-1)))
      (.raise "IndexSizeErrorException")) := by
    have : Gen.validatedProps.lookup "maxLength" = some (.maxLength "maxlength" (.int (-1)) (.str "-1") (some 0) none
        (.val (.int 0)) (.val (.int (-1))) (.raise "IndexSizeErrorException")) := rfl
    rw [this] at hr; exact (Option.some.inj hr).symm
  subst hr'
  have h1 := convertToIntRange_code_eq_model parseInt hpi v (some 0) none (.raise "IndexSizeErrorException") (.val (.int 0))
  simp only [link_7, ofOptInt, ofInv, ofEmp, Lit.toPy] at h1
  simp only [linkC_5, run, runKw, _special_value_maxLength_ast, validateRule]
  py_eval [cxC_intRange, intRange_kw', h1]
  generalize convertToIntRange _ _ _ _ _ _ = res
  cases res <;> rfl

/-! non-vacuity: the generated rules exist, and concrete elements run through the dumped helpers -/

example : (∃ r, Gen.specialRules.lookup "rows" = some r) ∧ (∃ r, Gen.specialRules.lookup "cols" = some r)
    ∧ (∃ r, Gen.specialRules.lookup "autocomplete" = some r) ∧ (∃ r, Gen.specialRules.lookup "size" = some r)
    ∧ (∃ r, Gen.specialRules.lookup "maxLength" = some r) ∧ (∃ r, Gen.validatedProps.lookup "maxLength" = some r) :=
  ⟨⟨_, rfl⟩, ⟨_, rfl⟩, ⟨_, rfl⟩, ⟨_, rfl⟩, ⟨_, rfl⟩, ⟨_, rfl⟩⟩

private def ta : Elem := { Elem.new "textarea" with attrs := [("rows", some "7".toList)] }
example : runModule pyIntOfStr constants_scope "_special_value_rows" [.elem ta] = .ok (.py (.int 7)) := by rfl
example : runModule pyIntOfStr constants_scope "_special_value_rows"
    [.elem { ta with attrs := [("rows", some "0".toList)] }] = .ok (.py (.int 2)) := by rfl
example : runModule pyIntOfStr constants_scope "_special_value_rows" [.elem { ta with tag := "frameset" }]
    = .ok (.py (.str "7".toList)) := by rfl
example : runModule pyIntOfStr constants_scope "_special_value_autocomplete"
    [.elem { Elem.new "form" with attrs := [("autocomplete", some "OFF".toList)] }] = .ok (.py (.str "off".toList)) := by rfl
example : runModule pyIntOfStr constants_scope "_special_value_size"
    [.elem { Elem.new "input" with attrs := [("size", some "-4".toList)] }] = .ok (.py (.int 20)) := by rfl
example : runModule pyIntOfStr constants_scope "_special_value_maxLength" [.elem (Elem.new "input")]
    = .ok (.py (.int (-1))) := by rfl
example : runModule pyIntOfStr constants_scope "_special_value_maxLength"
    [.elem { Elem.new "input" with attrs := [("maxlength", some "12".toList)] }] = .ok (.py (.int 12)) := by rfl
example : runModule pyIntOfStr constants_scope "_special_value_maxLength" [.elem (Elem.new "input"), .py (.str "-1".toList)]
    = .error .indexSizeError := by rfl

/-! ## utils.escapeQuotes / unescapeQuotes (the dump `Gen.Code.utils`) -/

/-- `escapeQuotes(s)` on a text is the hand model of the serialisers (`Fmt.escapeQuotes`, the formatter's copy). -/
theorem escapeQuotes_code_eq_model (parseInt : Str → Except PyErr Int) (s : Str) :
    runModule parseInt utils "escapeQuotes" [.py (.str s)] = .ok (.py (.str (Fmt.escapeQuotes s))) := by
  have h : runModule parseInt utils "escapeQuotes" [.py (.str s)]
      = run { parseInt := parseInt, funs := callIn parseInt [] } escapeQuotes_ast [.py (.str s)] := rfl
  rw [h]
  simp [run, runKw, escapeQuotes_ast, bindArgs, execL, execS, eval, evalList, List.lookup, callMethod, Lit.toPy,
    replaceAll_quote, fmt_escapeQuotes, resultOf]

/-- The five hand-written copies of `escapeQuotes` (formatter, DOM view, tree serialiser, pickle, attribute stores)
are the same function, so the theorem above ties all of them to the code. -/
theorem escapeQuotes_models_agree (s : Str) :
    Dom.escapeQuotes s = Fmt.escapeQuotes s ∧ AHP.escQ s = Fmt.escapeQuotes s ∧ Pk.escQ s = Fmt.escapeQuotes s
      ∧ Attrs.escQ s = Fmt.escapeQuotes s := by
  simp only [fmt_escapeQuotes, dom_escapeQuotes, tree_escQ, pk_escQ, attrs_escQ, and_self]

/-- `escapeQuotes(v)` on anything that is not a text raises `AttributeError` (no `replace`). -/
theorem escapeQuotes_code_nontext (parseInt : Str → Except PyErr Int) (v : PyV) (hv : ∀ s, v ≠ .str s) :
    runModule parseInt utils "escapeQuotes" [.py v] = .error (.other "AttributeError") := by
  have h : runModule parseInt utils "escapeQuotes" [.py v]
      = run { parseInt := parseInt, funs := callIn parseInt [] } escapeQuotes_ast [.py v] := rfl
  rw [h]
  cases v <;> first
    | exact absurd rfl (hv _)
    | simp [run, runKw, escapeQuotes_ast, bindArgs, execL, execS, eval, evalList, List.lookup, callMethod, Lit.toPy, resultOf]

/-- `unescapeQuotes(s)` on a text: every `&quot;`, left to right, becomes `"` (no hand model uses it; the library does
not call it either). -/
theorem unescapeQuotes_code (parseInt : Str → Except PyErr Int) (s : Str) :
    runModule parseInt utils "unescapeQuotes" [.py (.str s)]
      = .ok (.py (.str (replaceAll "&quot;".toList ['"'] s))) := by
  have h : runModule parseInt utils "unescapeQuotes" [.py (.str s)]
      = run { parseInt := parseInt, funs := callIn parseInt [escapeQuotes_ast] } unescapeQuotes_ast [.py (.str s)] := rfl
  rw [h]
  simp [run, runKw, unescapeQuotes_ast, bindArgs, execL, execS, eval, evalList, List.lookup, callMethod, Lit.toPy, resultOf]

example : runModule pyIntOfStr utils "escapeQuotes" [.py (.str "a\"b".toList)] = .ok (.py (.str "a&quot;b".toList)) := by
  rfl
example : runModule pyIntOfStr utils "unescapeQuotes" [.py (.str "a&quot;b&quot".toList)] = .ok (.py (.str "a\"b&quot".toList)) := by
  rfl

end AHP.C19Code
