/-
  C19 — the code tie: the Python functions of conversions.py THEMSELVES (dumped node by node into `Gen.Code` by
  harness/ahpcheck/translate_code.py on every run, interpreted by `AHP.PyAst`) compute what the hand-written model
  `Model/Conv.lean` computes — for every argument value, every `parseInt`.  One theorem per function.

  An edit of a function changes the dump and breaks the theorem of that function, for ALL inputs (the differential
  correspondence check of the C19 stream only sees the generated cases).
-/
import AHP.Lemmas.PyAst
namespace AHP.C19Code
open AHP AHP.Gen AHP.Conv AHP.PyAst AHP.Gen.Code

/-- `convertToIntOrNegativeOneIfUnset(v)` -/
theorem convertToIntOrNegativeOneIfUnset_code_eq_model (parseInt : Str → Except PyErr Int) (v : PyV) :
    runModule parseInt conversions "convertToIntOrNegativeOneIfUnset" [.py v]
      = .ok (.py (Conv.convertToIntOrNegativeOneIfUnset parseInt v)) := by
  simp only [link_1, run, convertToIntOrNegativeOneIfUnset_ast]
  rcases v with _ | s | n | b | ws | i | w
  case str =>
    rcases s with _ | ⟨c, r⟩
    · py_eval; simp [Conv.convertToIntOrNegativeOneIfUnset, isNoneOrEmpty]
    · py_eval; simp only [Conv.convertToIntOrNegativeOneIfUnset, isNoneOrEmpty, pyInt]
      cases parseInt (c :: r) <;> simp
  all_goals (py_eval; simp [Conv.convertToIntOrNegativeOneIfUnset, isNoneOrEmpty, pyInt])

/-- `convertToIntOrNegativeOneIfUnset()` — the default argument. -/
theorem convertToIntOrNegativeOneIfUnset_code_default (parseInt : Str → Except PyErr Int) :
    runModule parseInt conversions "convertToIntOrNegativeOneIfUnset" []
      = .ok (.py (Conv.convertToIntOrNegativeOneIfUnset parseInt .none)) := by
  simp only [link_1, run, convertToIntOrNegativeOneIfUnset_ast]
  py_eval; simp [Conv.convertToIntOrNegativeOneIfUnset, isNoneOrEmpty]

/-- `convertToBooleanString(v)` -/
theorem convertToBooleanString_code_eq_model (parseInt : Str → Except PyErr Int) (v : PyV) :
    runModule parseInt conversions "convertToBooleanString" [.py v]
      = .ok (.py (.str (Conv.convertToBooleanString v))) := by
  simp only [link_2, run, convertToBooleanString_ast]
  rcases v with _ | s | n | b | ws | i | w
  case str =>
    py_eval [Conv.convertToBooleanString, str]
    by_cases h1 : lower s = ['f', 'a', 'l', 's', 'e'] <;> by_cases h2 : lower s = ['0'] <;> simp [h1, h2]
  case int =>
    py_eval [Conv.convertToBooleanString, str]
    by_cases h : n = 0 <;> simp [h]
  case bool =>
    cases b <;> py_eval [Conv.convertToBooleanString, str]
  case tokens =>
    py_eval [Conv.convertToBooleanString, str]
    by_cases h : ws = [] <;> simp [h]
  all_goals py_eval [Conv.convertToBooleanString, str]

/-- `convertToBooleanString()` — the default argument. -/
theorem convertToBooleanString_code_default (parseInt : Str → Except PyErr Int) :
    runModule parseInt conversions "convertToBooleanString" []
      = .ok (.py (.str (Conv.convertToBooleanString .none))) := by
  simp only [link_2, run, convertToBooleanString_ast]
  py_eval [Conv.convertToBooleanString, str]

/-- `convertBooleanStringToBoolean(v)` -/
theorem convertBooleanStringToBoolean_code_eq_model (parseInt : Str → Except PyErr Int) (v : PyV) :
    runModule parseInt conversions "convertBooleanStringToBoolean" [.py v]
      = .ok (.py (.bool (Conv.convertBooleanStringToBoolean v))) := by
  simp only [link_3, run, convertBooleanStringToBoolean_ast]
  rcases v with _ | s | n | b | ws | i | w
  case str =>
    rcases s with _ | ⟨c, r⟩
    · py_eval [Conv.convertBooleanStringToBoolean, str]
    · py_eval [Conv.convertBooleanStringToBoolean, str]
      by_cases h : lower (c :: r) = ['f', 'a', 'l', 's', 'e'] <;> simp [h]
  case int =>
    py_eval [Conv.convertBooleanStringToBoolean, str]
    by_cases h : n = 0 <;> simp [h]
  case bool =>
    cases b <;> py_eval [Conv.convertBooleanStringToBoolean, str]
  case tokens =>
    py_eval [Conv.convertBooleanStringToBoolean, str]
    by_cases h : ws = [] <;> simp [h]
  all_goals py_eval [Conv.convertBooleanStringToBoolean, str]

end AHP.C19Code
