/-
  C13 — the code tie of the validating parser's end-tag handler: `Validator.ValidatingAdvancedHTMLParser.handle_endtag` ITSELF
  (dumped node by node into `Gen.Code.validator` by harness/ahpcheck/translate_code.py on every run, interpreted by `AHP.PyAst`)
  has, on the list of open elements `self._inTag`, the three outcomes of the hand-written model's end-tag step (`vStepT s (.end_ n)`
  of `Model/Builder.lean`, the model of the C13 theorems) — for EVERY stack and EVERY name:

    * no open element, or none of that name: `InvalidCloseException`, nothing changed;
    * the name is open but the innermost open element has another name: `MissedCloseException`, nothing changed;
    * the innermost open element has the name: it is popped (`pop1`), the call returns `None`.

  Object, elements, the two representations of the stack: as in `Props/C02Code.lean` (an element is a number, `tagOf u` is its
  `tagName`; `r` = the open elements innermost first, `self._inTag` = `r.reverse`).  The arguments of the exception constructors
  (`tagName`, `[]`, `inTag`, `[x for x in inTag[-1 * (i+1):]]`) are evaluated — an error there would be the error of the call — and
  then dropped: an exception is its class (`PyAst.callValue`; the constructors only format a message).

  The `while i >= 0` search runs on fuel: `r.length + 1` iterations suffice (one more than the stack length: the test that ends
  the search of an absent name).
-/
import AHP.Props.C02Code
import AHP.Props.C08Code
namespace AHP.C13Code
open AHP AHP.Gen AHP.Conv AHP.PyAst AHP.Gen.Code AHP.PyAstParser

/-- What the dumped method does, from the open elements `r` (innermost first): the object afterwards and the result. -/
def vEnd (tagOf : Nat → Str) (n : Str) (fs : List (String × Field)) :
    List Nat → Option (List (String × Field)) × Except PyErr Val
  | [] => (some fs, .error (.other "InvalidCloseException"))
  | u :: d =>
    if n ∈ (u :: d).map tagOf then
      if tagOf u = n then (some (assocSet fs "_inTag" (.list (embU d.reverse))), .ok (.py .none))
      else (some fs, .error (.other "MissedCloseException"))
    else (some fs, .error (.other "InvalidCloseException"))

/-- What the hand model's outcome is as a run of the method: the object and the result (`r`: the open elements before). -/
def ofOutcome (fs : List (String × Field)) (r : List Nat) : Outcome TState → Option (List (String × Field)) × Except PyErr Val
  | .ok _ => (some (assocSet fs "_inTag" (.list (embU (r.drop 1).reverse))), .ok (.py .none))
  | .invalidClose => (some fs, .error (.other "InvalidCloseException"))
  | .missedClose => (some fs, .error (.other "MissedCloseException"))
  | .multipleRoot => (some fs, .error (.other "MultipleRootNodeException"))
  | .invalidAttr => (some fs, .error (.other "InvalidAttributeNameException"))

/-- the statements of the dump, in the pieces the lemmas are about -/
theorem v_handle_endtag_body : ValidatingAdvancedHTMLParser_handle_endtag_ast.body =
    [.alias "inTag" "self" "_inTag",
     .ifS (.cmp .eq (.call "len" [.avar "inTag"]) (.const (.int 0)))
       [.raise (.callv (.excClass "InvalidCloseException") [.var "tagName", .newList])] [],
     .assign "foundIt" (.const (.bool false)),
     .assign "i" (.binop .sub (.call "len" [.avar "inTag"]) (.const (.int 1))),
     .whileS backCond backBody,
     .ifS (.not (.var "foundIt")) [.raise (.callv (.excClass "InvalidCloseException") [.var "tagName", .avar "inTag"])] [],
     .ifS topCond
       [.raise (.callv (.excClass "MissedCloseException")
          [.var "tagName",
           .compFor "x" (.var "x")
             (.sliceFrom (.avar "inTag") (.binop .mul (.const (.int (-1))) (.binop .add (.var "i") (.const (.int 1)))))])] [],
     .refCall "inTag" "pop" []] := rfl

theorem exc_invalid : excOf "InvalidCloseException" = .other "InvalidCloseException" := by decide
theorem exc_missed : excOf "MissedCloseException" = .other "MissedCloseException" := by decide

/-- `handle_endtag(self, tagName)` of the validating parser for every list of open elements (`r`: innermost first), every name and
every object around the list, with more than `r.length` iterations for the `while`: the run is `vEnd`. -/
theorem v_handle_endtag_run (tagOf : Nat → Str) (fuel : Nat) (r : List Nat) (fs : List (String × Field)) (n : Str)
    (hf : fs.lookup "_inTag" = some (.list (embU r.reverse))) (hfuel : r.length < fuel) :
    runMeth (parserCx tagOf fuel) ValidatingAdvancedHTMLParser_handle_endtag_ast fs [.py (.str n)] = vEnd tagOf n fs r := by
  have hparams : ValidatingAdvancedHTMLParser_handle_endtag_ast.params = [("self", none), ("tagName", none)] := rfl
  have h1 : execS (parserCx tagOf fuel) [("self", .obj fs), ("tagName", .py (.str n))] (.alias "inTag" "self" "_inTag")
      = ([("self", .obj fs), ("tagName", .py (.str n)), ("inTag", .ref "self" "_inTag")], .next) := by
    simp [execS, getField, List.lookup, hf, assocSet]
  cases r with
  | nil =>
    have h2 : execS (parserCx tagOf fuel) [("self", .obj fs), ("tagName", .py (.str n)), ("inTag", .ref "self" "_inTag")]
        (.ifS (.cmp .eq (.call "len" [.avar "inTag"]) (.const (.int 0)))
          [.raise (.callv (.excClass "InvalidCloseException") [.var "tagName", .newList])] [])
        = ([("self", .obj fs), ("tagName", .py (.str n)), ("inTag", .ref "self" "_inTag")],
           .exc (.other "InvalidCloseException")) := by
      simp [execS, execL, eval, evalList, List.lookup, getField, hf, Field.toVal, parserCx_funs, builtin, pyLen, embU, Lit.toPy,
        pyCompare, compareB, pyEq, pyEqV, Val.truthy, truthy, callValue, raiseOf, exc_invalid]
    simp only [runMeth, hparams, bindArgs, List.lookup, Option.isSome, Bool.false_eq_true, if_false, List.isEmpty,
      if_true, v_handle_endtag_body, execL_cons_next _ _ _ _ _ h1, execL_cons_exc _ _ _ _ _ _ h2, PyAst.resultOf, vEnd]
    rfl
  | cons u d =>
    have hlen : (embU (d.reverse ++ [u])).length = d.length + 1 := by simp [embU]
    have h2 : execS (parserCx tagOf fuel) [("self", .obj fs), ("tagName", .py (.str n)), ("inTag", .ref "self" "_inTag")]
        (.ifS (.cmp .eq (.call "len" [.avar "inTag"]) (.const (.int 0)))
          [.raise (.callv (.excClass "InvalidCloseException") [.var "tagName", .newList])] [])
        = ([("self", .obj fs), ("tagName", .py (.str n)), ("inTag", .ref "self" "_inTag")], .next) := by
      have hne : ¬ ((d.length : Int) + 1 = 0) := by omega
      simp [execS, execL, eval, evalList, List.lookup, getField, hf, Field.toVal, parserCx_funs, builtin, pyLen, hlen, Lit.toPy,
        pyCompare, compareB, pyEq, pyEqV, Val.truthy, truthy, hne]
    have h3 : execS (parserCx tagOf fuel) [("self", .obj fs), ("tagName", .py (.str n)), ("inTag", .ref "self" "_inTag")]
        (.assign "foundIt" (.const (.bool false)))
        = ([("self", .obj fs), ("tagName", .py (.str n)), ("inTag", .ref "self" "_inTag"), ("foundIt", .py (.bool false))],
           .next) := by
      simp [execS, eval, aliasOK, Val.mutable, Lit.toPy, assocSet]
    have h4 : execS (parserCx tagOf fuel)
        [("self", .obj fs), ("tagName", .py (.str n)), ("inTag", .ref "self" "_inTag"), ("foundIt", .py (.bool false))]
        (.assign "i" (.binop .sub (.call "len" [.avar "inTag"]) (.const (.int 1))))
        = ([("self", .obj fs), ("tagName", .py (.str n)), ("inTag", .ref "self" "_inTag"), ("foundIt", .py (.bool false)),
            ("i", .py (.int (Int.ofNat (u :: d).length - 1)))], .next) := by
      simp [execS, eval, evalList, List.lookup, getField, hf, Field.toVal, parserCx_funs, builtin, pyLen, hlen, Lit.toPy,
        pyBinop, numOf, aliasOK, Val.mutable, assocSet, Int.ofNat_eq_natCast]
    have hv4 : Vars [("self", .obj fs), ("tagName", .py (.str n)), ("inTag", .ref "self" "_inTag"),
        ("foundIt", .py (.bool false)), ("i", .py (.int (Int.ofNat (u :: d).length - 1)))] fs n false := ⟨rfl, rfl, rfl, rfl⟩
    obtain ⟨env5, h5, hv5, k, hk⟩ := backLoop_run tagOf fuel n fs (u :: d) [] fuel _ (by simpa using hf) hv4 rfl hfuel
    have h5' : execS (parserCx tagOf fuel) [("self", .obj fs), ("tagName", .py (.str n)), ("inTag", .ref "self" "_inTag"),
        ("foundIt", .py (.bool false)), ("i", .py (.int (Int.ofNat (u :: d).length - 1)))] (.whileS backCond backBody)
        = (env5, .next) := by
      simp only [execS, parserCx_fuel]; exact h5
    have hlist : eval (parserCx tagOf fuel) env5 (.avar "inTag") = .ok (.list (embU (u :: d).reverse)) := by
      simp only [eval, hv5.inTag, getField, hv5.self, hf, Field.toVal]
    by_cases hm : n ∈ (u :: d).map tagOf
    · simp only [hm, decide_true] at hv5
      have h6 : execS (parserCx tagOf fuel) env5
          (.ifS (.not (.var "foundIt")) [.raise (.callv (.excClass "InvalidCloseException") [.var "tagName", .avar "inTag"])] [])
          = (env5, .next) := by
        simp [execS, eval, hv5.found, Val.truthy, truthy, execL]
      have hitem : seqItem (embU (u :: d).reverse) (-1) = some (.ancestor u) := by
        rw [List.reverse_cons, embU_append]; exact seqItem_last _ _
      have hcond : eval (parserCx tagOf fuel) env5 topCond = .ok (.py (.bool (!decide (tagOf u = n)))) := by
        simp only [topCond, eval, hv5.inTag, getField, hv5.self, hf, Field.toVal, Lit.toPy, pyIndex, hitem, parserCx_tag,
          hv5.tag, pyCompare, compareB, pyEq, pyEqV, bnot]
      by_cases hu : tagOf u = n
      · -- the innermost open element has the name: pop
        have h7 : execS (parserCx tagOf fuel) env5 (.ifS topCond
            [.raise (.callv (.excClass "MissedCloseException")
              [.var "tagName",
               .compFor "x" (.var "x")
                 (.sliceFrom (.avar "inTag") (.binop .mul (.const (.int (-1))) (.binop .add (.var "i") (.const (.int 1)))))])] [])
            = (env5, .next) := by
          simp only [execS, hcond]
          simp [hu, Val.truthy, truthy, execL]
        have h8 := pop_run (parserCx tagOf fuel) u d fs env5 hv5.self hv5.inTag hf
        have hres : vEnd tagOf n fs (u :: d) = (some (assocSet fs "_inTag" (.list (embU d.reverse))), .ok (.py .none)) := by
          simp only [vEnd, hm, hu, if_true]
        rw [hres]
        simp only [runMeth, hparams, bindArgs, List.lookup, Option.isSome, Bool.false_eq_true, if_false, List.isEmpty,
          if_true, v_handle_endtag_body, execL_cons_next _ _ _ _ _ h1, execL_cons_next _ _ _ _ _ h2,
          execL_cons_next _ _ _ _ _ h3, execL_cons_next _ _ _ _ _ h4, execL_cons_next _ _ _ _ _ h5',
          execL_cons_next _ _ _ _ _ h6, execL_cons_next _ _ _ _ _ h7, execL_cons_next _ _ _ _ _ h8, execL_nil,
          lookup_assocSet_eq, PyAst.resultOf]
      · -- another element is innermost: MissedCloseException
        have hslice : eval (parserCx tagOf fuel) env5
            (.sliceFrom (.avar "inTag") (.binop .mul (.const (.int (-1))) (.binop .add (.var "i") (.const (.int 1)))))
            = .ok (.list (Cache.sliceFrom (embU (u :: d).reverse) (-1 * (k + 1)))) := by
          simp only [eval, hv5.inTag, getField, hv5.self, hf, Field.toVal, hk, Lit.toPy, pyBinop, numOf, pySlice]
          rfl
        have hcomp : eval (parserCx tagOf fuel) env5
            (.compFor "x" (.var "x")
              (.sliceFrom (.avar "inTag") (.binop .mul (.const (.int (-1))) (.binop .add (.var "i") (.const (.int 1))))))
            = .ok (.list (Cache.sliceFrom (embU (u :: d).reverse) (-1 * (k + 1)))) := by
          rw [eval, hslice]
          simp only [collectPy_id]
        have h7 : execS (parserCx tagOf fuel) env5 (.ifS topCond
            [.raise (.callv (.excClass "MissedCloseException")
              [.var "tagName",
               .compFor "x" (.var "x")
                 (.sliceFrom (.avar "inTag") (.binop .mul (.const (.int (-1))) (.binop .add (.var "i") (.const (.int 1)))))])] [])
            = (env5, .exc (.other "MissedCloseException")) := by
          simp only [execS, hcond]
          generalize (Expr.compFor "x" (.var "x")
              (.sliceFrom (.avar "inTag") (.binop .mul (.const (.int (-1))) (.binop .add (.var "i") (.const (.int 1)))))) = E
            at hcomp ⊢
          simp [hu, Val.truthy, truthy, execL, execS, eval, evalList, hv5.tag, hcomp, callValue, raiseOf, exc_missed]
        have hres : vEnd tagOf n fs (u :: d) = (some fs, .error (.other "MissedCloseException")) := by
          simp only [vEnd, hm, hu, if_true, if_false]
        rw [hres]
        simp only [runMeth, hparams, bindArgs, List.lookup, Option.isSome, Bool.false_eq_true, if_false, List.isEmpty,
          if_true, v_handle_endtag_body, execL_cons_next _ _ _ _ _ h1, execL_cons_next _ _ _ _ _ h2,
          execL_cons_next _ _ _ _ _ h3, execL_cons_next _ _ _ _ _ h4, execL_cons_next _ _ _ _ _ h5',
          execL_cons_next _ _ _ _ _ h6, execL_cons_exc _ _ _ _ _ _ h7, hv5.self, PyAst.resultOf]
    · -- no open element of that name: InvalidCloseException
      simp only [hm, decide_false] at hv5
      have h6 : execS (parserCx tagOf fuel) env5
          (.ifS (.not (.var "foundIt")) [.raise (.callv (.excClass "InvalidCloseException") [.var "tagName", .avar "inTag"])] [])
          = (env5, .exc (.other "InvalidCloseException")) := by
        generalize (Expr.avar "inTag") = E at hlist ⊢
        simp [execS, eval, evalList, hv5.found, hv5.tag, hlist, Val.truthy, truthy, execL, callValue, raiseOf, exc_invalid]
      have hres : vEnd tagOf n fs (u :: d) = (some fs, .error (.other "InvalidCloseException")) := by
        simp only [vEnd, hm, if_false]
      rw [hres]
      simp only [runMeth, hparams, bindArgs, List.lookup, Option.isSome, Bool.false_eq_true, if_false, List.isEmpty,
        if_true, v_handle_endtag_body, execL_cons_next _ _ _ _ _ h1, execL_cons_next _ _ _ _ _ h2,
        execL_cons_next _ _ _ _ _ h3, execL_cons_next _ _ _ _ _ h4, execL_cons_next _ _ _ _ _ h5',
        execL_cons_exc _ _ _ _ _ _ h6, hv5.self, PyAst.resultOf]

/-- the hand model's end-tag step on a non-empty stack, as one nested `if` -/
theorem vStepT_end_cons (s : TState) (f : Frame) (st : List Frame) (n : Str) (hs : s.stack = f :: st) :
    vStepT s (.end_ n)
      = if ((f :: st).map (·.name)).contains n = true then (if f.name = n then .ok (pop1 s) else .missedClose)
        else .invalidClose := by
  cases hc : ((f :: st).map (·.name)).contains n <;> by_cases hfn : f.name = n <;>
    simp only [vStepT, hs, hc, hfn, Bool.not_true, Bool.not_false, Bool.false_eq_true, if_true, if_false, ne_eq,
      not_true_eq_false, not_false_eq_true]

/-- **The code tie of C13's end-tag step.**  For every state `s` of the hand model, every list `r` of open elements (innermost first;
`self._inTag` is `r.reverse`) whose names are the names of the model's stack, every name `n`, every object `fs` around the list and
every fuel above the stack length: the dumped `handle_endtag` of the validating parser raises `InvalidCloseException` /
`MissedCloseException` exactly when `vStepT s (.end_ n)` is `.invalidClose` / `.missedClose` (the object unchanged), and otherwise
returns `None` having popped the innermost element — the names of the elements left are the names of the model's stack after the
step.  (`vStepT` on an end tag has no other outcome.) -/
theorem v_handle_endtag_code_eq_model (tagOf : Nat → Str) (fuel : Nat) (s : TState) (r : List Nat) (fs : List (String × Field))
    (n : Str) (hrep : r.map tagOf = s.stack.map (·.name))
    (hf : fs.lookup "_inTag" = some (.list (embU r.reverse))) (hfuel : s.stack.length < fuel) :
    runMeth (parserCx tagOf fuel) ValidatingAdvancedHTMLParser_handle_endtag_ast fs [.py (.str n)]
      = ofOutcome fs r (vStepT s (.end_ n))
    ∧ (∀ s', vStepT s (.end_ n) = .ok s' → (r.drop 1).map tagOf = s'.stack.map (·.name))
    ∧ vStepT s (.end_ n) ≠ .multipleRoot ∧ vStepT s (.end_ n) ≠ .invalidAttr := by
  have hlen : r.length = s.stack.length := by
    have := congrArg List.length hrep; simpa using this
  rw [v_handle_endtag_run tagOf fuel r fs n hf (by omega)]
  cases hs : s.stack with
  | nil =>
    have hr : r = [] := by
      rw [hs] at hlen; exact List.eq_nil_of_length_eq_zero hlen
    subst hr
    simp [vStepT, hs, vEnd, ofOutcome]
  | cons f st =>
    cases r with
    | nil => rw [hs] at hlen; simp at hlen
    | cons u d =>
      rw [hs] at hrep
      rw [vStepT_end_cons s f st n hs]
      have hu : tagOf u = f.name := by
        have := congrArg List.head? hrep; simpa using this
      have hd : d.map tagOf = st.map (·.name) := by
        have := congrArg List.tail hrep; simpa using this
      have hmem : (n ∈ (u :: d).map tagOf) ↔ ((f :: st).map (·.name)).contains n = true := by
        rw [hrep, List.contains_iff_mem]
      by_cases hm : n ∈ (u :: d).map tagOf
      · have hc := hmem.mp hm
        by_cases hfn : f.name = n
        · have hun : tagOf u = n := hu.trans hfn
          have hp : names (pop1 s) = st.map (·.name) := by
            rw [C02Code.names_pop1]; simp [names, hs]
          simp only [vEnd, if_pos hm, if_pos hc, if_pos hun, if_pos hfn, ofOutcome, List.drop_succ_cons, List.drop_zero]
          refine ⟨trivial, ?_, by simp, by simp⟩
          intro s' h
          have h' : pop1 s = s' := by simpa using h
          rw [← h', hd]; exact hp.symm
        · have hun : ¬ tagOf u = n := fun e => hfn (hu.symm.trans e)
          simp only [vEnd, if_pos hm, if_pos hc, if_neg hun, if_neg hfn, ofOutcome]
          exact ⟨trivial, by simp, by simp, by simp⟩
      · have hc : ¬ ((f :: st).map (·.name)).contains n = true := fun h => hm (hmem.mpr h)
        simp only [vEnd, if_neg hm, if_neg hc, ofOutcome]
        exact ⟨trivial, by simp, by simp, by simp⟩

/-! ### `handle_starttag`: the attribute names are checked, then the base class is called -/

/-- the attribute list a start-tag callback receives: (name, value) pairs, a value being a text or `None` -/
def embA (a : List Attr) : List (PyV × PyV) :=
  a.map (fun p => (PyV.str p.1, match p.2 with | some v => PyV.str v | none => PyV.none))

/-- What `handle_starttag` runs in: `isValidAttributeName` is the dumped function of Tags.py (`Gen.Code.tags`, tied to
`validAttrName` by `C08Code.isValidAttributeName_code_eq_model`), `AdvancedHTMLParser.handle_starttag(self, …)` is the parameter
`base` (what it does to the object and what it returns). -/
def vCx (parseInt : Str → Except PyErr Int) (base : MethSem) : Ctx :=
  { parseInt := parseInt
    funs := callIn parseInt tags.reverse
    baseMeth := fun m => if m = "handle_starttag" then some base else none }

theorem vCx_base (parseInt : Str → Except PyErr Int) (base : MethSem) :
    (vCx parseInt base).baseMeth "handle_starttag" = some base := rfl

/-- the call `isValidAttributeName(attrName)` inside the method is the hand model's predicate -/
theorem vCx_valid (parseInt : Str → Except PyErr Int) (base : MethSem) (env : Env) (k : Str)
    (h : env.lookup "attrName" = some (.py (.str k))) :
    eval (vCx parseInt base) env (.call "isValidAttributeName" [.var "attrName"]) = .ok (.py (.bool (validAttrName k))) := by
  have := C08Code.isValidAttributeName_code_eq_model parseInt k
  simp only [eval, evalList, h]
  exact this

/-- the body of the loop, as dumped -/
def checkBody : List Stmt :=
  [.ifS (.cmp .is (.call "isValidAttributeName" [.var "attrName"]) (.const (.bool false)))
     [.raise (.callv (.excClass "InvalidAttributeNameException") [.var "tagName", .var "attrName", .var "attrValue"])] []]

theorem exc_attr : excOf "InvalidAttributeNameException" = .other "InvalidAttributeNameException" := by decide

/-- how the loop ends: normally when every name is valid, with the exception at the first invalid one -/
def checkRes (a : List Attr) : Res :=
  if a.all (fun p => validAttrName p.1) then .next else .exc (.other "InvalidAttributeNameException")

/-- The loop over the attribute list: it ends as `checkRes` says and changes no variable but its own two. -/
theorem checkLoop_run (parseInt : Str → Except PyErr Int) (base : MethSem) (same : Env → Bool) (V T : Val)
    (hsame : ∀ env, env.lookup "attributeList" = some V → same env = true) :
    ∀ (a : List Attr) (env : Env), env.lookup "attributeList" = some V → env.lookup "tagName" = some T →
    ∃ env', forLoop (fun env v => match v with
              | .tuple [x, y] => assocSet (assocSet env "attrName" (.py x)) "attrValue" (.py y) | _ => env)
          (fun env => execL (vCx parseInt base) env checkBody) same ((embA a).map (fun p => Val.tuple [p.1, p.2])) env
        = (env', checkRes a)
      ∧ ∀ x, x ≠ "attrName" → x ≠ "attrValue" → env'.lookup x = env.lookup x := by
  intro a
  induction a with
  | nil => intro env _ _; exact ⟨env, by simp [embA, forLoop, checkRes], fun _ _ _ => rfl⟩
  | cons p r ih =>
    intro env hV hT
    obtain ⟨k, w⟩ := p
    generalize hw : (match w with | some v => PyV.str v | none => PyV.none) = w'
    have hkeep : ∀ x, x ≠ "attrName" → x ≠ "attrValue" →
        (assocSet (assocSet env "attrName" (.py (.str k))) "attrValue" (.py w')).lookup x = env.lookup x := by
      intro x h1 h2
      rw [lookup_assocSet_ne _ _ _ _ h2, lookup_assocSet_ne _ _ _ _ h1]
    have hn : (assocSet (assocSet env "attrName" (.py (.str k))) "attrValue" (.py w')).lookup "attrName" = some (.py (.str k)) := by
      rw [lookup_assocSet_ne _ _ _ _ (by decide), lookup_assocSet_eq]
    have hc := vCx_valid parseInt base _ k hn
    have hitems : (embA ((k, w) :: r)).map (fun p => Val.tuple [p.1, p.2])
        = .tuple [.str k, w'] :: (embA r).map (fun p => Val.tuple [p.1, p.2]) := by
      simp only [embA, List.map_cons, hw]
    rw [hitems, forLoop]
    by_cases hk : validAttrName k = true
    · have hstep : execL (vCx parseInt base) (assocSet (assocSet env "attrName" (.py (.str k))) "attrValue" (.py w')) checkBody
          = (assocSet (assocSet env "attrName" (.py (.str k))) "attrValue" (.py w'), .next) := by
        simp only [checkBody, execL, execS]
        generalize (Expr.call "isValidAttributeName" [.var "attrName"]) = E at hc ⊢
        simp [eval, hc, hk, Lit.toPy, pyCompare, compareB, pyIs, Val.unique, Val.truthy, truthy, execL]
      simp only [hstep]
      rw [hsame _ (by rw [hkeep _ (by decide) (by decide), hV]), if_pos rfl]
      obtain ⟨env', h1, h2⟩ := ih _ (by rw [hkeep _ (by decide) (by decide), hV]) (by rw [hkeep _ (by decide) (by decide), hT])
      refine ⟨env', ?_, fun x hx1 hx2 => by rw [h2 x hx1 hx2, hkeep x hx1 hx2]⟩
      have : checkRes ((k, w) :: r) = checkRes r := by
        simp only [checkRes, List.all_cons, hk, Bool.true_and]
      rw [this]; exact h1
    · have hk' : validAttrName k = false := by simpa using hk
      have hstep : execL (vCx parseInt base) (assocSet (assocSet env "attrName" (.py (.str k))) "attrValue" (.py w')) checkBody
          = (assocSet (assocSet env "attrName" (.py (.str k))) "attrValue" (.py w'),
             .exc (.other "InvalidAttributeNameException")) := by
        simp only [checkBody, execL, execS]
        generalize (Expr.call "isValidAttributeName" [.var "attrName"]) = E at hc ⊢
        simp [eval, evalList, hc, hk', Lit.toPy, pyCompare, compareB, pyIs, Val.unique, Val.truthy, truthy, execL, execS, hn,
          lookup_assocSet_eq, hkeep "tagName" (by decide) (by decide), hT, callValue, raiseOf, exc_attr]
      simp only [hstep]
      refine ⟨_, ?_, hkeep⟩
      have : checkRes ((k, w) :: r) = .exc (.other "InvalidAttributeNameException") := by simp [checkRes, hk']
      rw [this]

theorem v_handle_starttag_body : ValidatingAdvancedHTMLParser_handle_starttag_ast.body =
    [.forPair "attrName" "attrValue" (.var "attributeList") checkBody,
     .retBase "self" "handle_starttag" [.var "tagName", .var "attributeList", .var "isSelfClosing"]] := rfl

/-- `handle_starttag(self, tagName, attributeList, isSelfClosing)` of the validating parser, for every attribute list, every
object and every base-class method: with an invalid attribute name `InvalidAttributeNameException` before the base class is
called (the object unchanged); otherwise exactly what `AdvancedHTMLParser.handle_starttag(self, tagName, attributeList,
isSelfClosing)` does and returns. -/
theorem v_handle_starttag_run (parseInt : Str → Except PyErr Int) (base : MethSem) (fs : List (String × Field)) (tag : Str)
    (a : List Attr) (sc : Bool) :
    (a.all (fun p => validAttrName p.1) = false →
      runMeth (vCx parseInt base) ValidatingAdvancedHTMLParser_handle_starttag_ast fs
          [.py (.str tag), .pairs (embA a), .py (.bool sc)]
        = (some fs, .error (.other "InvalidAttributeNameException")))
    ∧ (a.all (fun p => validAttrName p.1) = true →
      ∀ fs' res, base fs [.py (.str tag), .pairs (embA a), .py (.bool sc)] = (some fs', res) →
      runMeth (vCx parseInt base) ValidatingAdvancedHTMLParser_handle_starttag_ast fs
          [.py (.str tag), .pairs (embA a), .py (.bool sc)] = (some fs', res)) := by
  have hparams : ValidatingAdvancedHTMLParser_handle_starttag_ast.params
      = [("self", none), ("tagName", none), ("attributeList", none), ("isSelfClosing", some (.const (.bool false)))] := rfl
  have hV : ([("self", Val.obj fs), ("tagName", .py (.str tag)), ("attributeList", .pairs (embA a)),
      ("isSelfClosing", .py (.bool sc))] : Env).lookup "attributeList" = some (.pairs (embA a)) := rfl
  obtain ⟨env1, h1, hkeep⟩ := checkLoop_run parseInt base
    (fun env' => decide (eval (vCx parseInt base) env' (.var "attributeList") = .ok (.pairs (embA a)))) (.pairs (embA a))
    (.py (.str tag)) (by intro env h; simp [eval, h]) a _ hV rfl
  have hfor : execS (vCx parseInt base) [("self", Val.obj fs), ("tagName", .py (.str tag)), ("attributeList", .pairs (embA a)),
      ("isSelfClosing", .py (.bool sc))] (.forPair "attrName" "attrValue" (.var "attributeList") checkBody)
      = (env1, checkRes a) := by
    rw [execS]
    simp only [eval, hV, Expr.isVar, if_true]
    exact h1
  have hs : env1.lookup "self" = some (.obj fs) := by rw [hkeep "self" (by decide) (by decide)]; rfl
  have ht : env1.lookup "tagName" = some (.py (.str tag)) := by rw [hkeep "tagName" (by decide) (by decide)]; rfl
  have hl : env1.lookup "attributeList" = some (.pairs (embA a)) := by rw [hkeep "attributeList" (by decide) (by decide)]; rfl
  have hc : env1.lookup "isSelfClosing" = some (.py (.bool sc)) := by rw [hkeep "isSelfClosing" (by decide) (by decide)]; rfl
  constructor
  · intro hall
    have hres : checkRes a = .exc (.other "InvalidAttributeNameException") := by simp [checkRes, hall]
    rw [hres] at hfor
    simp only [runMeth, hparams, bindArgs, List.lookup, Option.isSome, Bool.false_eq_true, if_false, List.isEmpty,
      if_true, v_handle_starttag_body, execL_cons_exc _ _ _ _ _ _ hfor, hs, PyAst.resultOf]
  · intro hall fs' res hb
    have hres : checkRes a = .next := by simp [checkRes, hall]
    rw [hres] at hfor
    cases res with
    | ok v =>
      have h2 : execS (vCx parseInt base) env1
          (.retBase "self" "handle_starttag" [.var "tagName", .var "attributeList", .var "isSelfClosing"])
          = (assocSet env1 "self" (.obj fs'), .ret v) := by
        simp [execS, evalList, eval, hs, ht, hl, hc, vCx_base, hb]
      simp only [runMeth, hparams, bindArgs, List.lookup, Option.isSome, Bool.false_eq_true, if_false, List.isEmpty,
        if_true, v_handle_starttag_body, execL_cons_next _ _ _ _ _ hfor, execL_cons_ret _ _ _ _ _ _ h2, lookup_assocSet_eq,
        PyAst.resultOf]
    | error e =>
      have h2 : execS (vCx parseInt base) env1
          (.retBase "self" "handle_starttag" [.var "tagName", .var "attributeList", .var "isSelfClosing"])
          = (assocSet env1 "self" (.obj fs'), .exc e) := by
        simp [execS, evalList, eval, hs, ht, hl, hc, vCx_base, hb]
      simp only [runMeth, hparams, bindArgs, List.lookup, Option.isSome, Bool.false_eq_true, if_false, List.isEmpty,
        if_true, v_handle_starttag_body, execL_cons_next _ _ _ _ _ hfor, execL_cons_exc _ _ _ _ _ _ h2, lookup_assocSet_eq,
        PyAst.resultOf]

/-- **The code tie of C13's start-tag step.**  The dumped `handle_starttag` raises `InvalidAttributeNameException` (object
unchanged, base class not called) exactly when the hand model's `vStepT` answers `.invalidAttr` to the start tag — and to the
self-closing start tag, which reaches the same method through `handle_startendtag` —, and otherwise is the base class's
`handle_starttag` on the same arguments, as `vStepT` is the plain parser's `stepT`. -/
theorem v_handle_starttag_code_eq_model (parseInt : Str → Except PyErr Int) (base : MethSem) (fs : List (String × Field))
    (s : TState) (tag : Str) (a : List Attr) (sc : Bool) :
    (a.all (fun p => validAttrName p.1) = false →
      runMeth (vCx parseInt base) ValidatingAdvancedHTMLParser_handle_starttag_ast fs
          [.py (.str tag), .pairs (embA a), .py (.bool sc)]
        = (some fs, .error (.other "InvalidAttributeNameException"))
      ∧ vStepT s (.start tag a) = .invalidAttr ∧ vStepT s (.startend tag a) = .invalidAttr)
    ∧ (a.all (fun p => validAttrName p.1) = true →
      (∀ fs' res, base fs [.py (.str tag), .pairs (embA a), .py (.bool sc)] = (some fs', res) →
        runMeth (vCx parseInt base) ValidatingAdvancedHTMLParser_handle_starttag_ast fs
          [.py (.str tag), .pairs (embA a), .py (.bool sc)] = (some fs', res))
      ∧ vStepT s (.start tag a) = stepT s (.start tag a) ∧ vStepT s (.startend tag a) = stepT s (.startend tag a)) := by
  obtain ⟨h1, h2⟩ := v_handle_starttag_run parseInt base fs tag a sc
  constructor
  · intro hall
    exact ⟨h1 hall, by simp [vStepT, hall], by simp [vStepT, hall]⟩
  · intro hall
    exact ⟨h2 hall, by simp [vStepT, stepT, hall], by simp [vStepT, stepT, hall]⟩

/-! ### the theorems are not vacuous, and the interpreter runs the dump -/

-- A small budget, so that a broken example fails at once instead of searching; `decide +kernel` evaluates in the kernel and
-- does not consume it.
set_option maxHeartbeats 2000

private def tg : Nat → Str := fun u => if u = 1 then "div".toList else if u = 2 then "b".toList else "i".toList
private def obj (us : List Nat) : List (String × Field) := [("root", .py .none), ("_inTag", .list (embU us)), ("doctype", .py .none)]
private def fr (n : String) : Frame := ⟨n.toList, AttrState.empty, []⟩

/-- `</i>` with `div > b > i` open: the innermost element is popped -/
example : runMeth (parserCx tg 4) ValidatingAdvancedHTMLParser_handle_endtag_ast (obj [1, 2, 3]) [.py (.str "i".toList)]
    = (some (obj [1, 2]), .ok (.py .none)) := by decide +kernel
/-- `</b>` with `div > b > i` open: `MissedCloseException`, nothing changed -/
example : runMeth (parserCx tg 4) ValidatingAdvancedHTMLParser_handle_endtag_ast (obj [1, 2, 3]) [.py (.str "b".toList)]
    = (some (obj [1, 2, 3]), .error (.other "MissedCloseException")) := by decide +kernel
/-- `</p>` with `div > b > i` open: `InvalidCloseException` (the search runs to `i = -1`: four tests) -/
example : runMeth (parserCx tg 4) ValidatingAdvancedHTMLParser_handle_endtag_ast (obj [1, 2, 3]) [.py (.str "p".toList)]
    = (some (obj [1, 2, 3]), .error (.other "InvalidCloseException")) := by decide +kernel
/-- no open element: `InvalidCloseException` before any search -/
example : runMeth (parserCx tg 0) ValidatingAdvancedHTMLParser_handle_endtag_ast (obj []) [.py (.str "p".toList)]
    = (some (obj []), .error (.other "InvalidCloseException")) := by decide +kernel
/-- the fuel bound is sharp: three iterations do not suffice to find that a name is absent from a stack of three -/
example : (runMeth (parserCx tg 3) ValidatingAdvancedHTMLParser_handle_endtag_ast (obj [1, 2, 3]) [.py (.str "p".toList)]).2
    = .error (unsupported "while: out of fuel") := by decide +kernel
/-- the hand model on the same stacks -/
example : (match vStepT ⟨[fr "i", fr "b", fr "div"], none⟩ (.end_ "i".toList) with | .ok s' => s'.stack.map (·.name) | _ => [])
      = ["b".toList, "div".toList]
    ∧ (match vStepT ⟨[fr "i", fr "b", fr "div"], none⟩ (.end_ "b".toList) with | .missedClose => true | _ => false) = true
    ∧ (match vStepT ⟨[fr "i", fr "b", fr "div"], none⟩ (.end_ "p".toList) with | .invalidClose => true | _ => false) = true
    ∧ [3, 2, 1].map tg = (⟨[fr "i", fr "b", fr "div"], none⟩ : TState).stack.map (·.name) := by decide +kernel

/-- a base-class method for the examples: it notes the tag name in a field and returns the number of attributes -/
private def baseEx : MethSem := fun fs args =>
  match args with
  | [.py (.str t), .pairs kvs, .py (.bool _)] => (some (assocSet fs "last" (.py (.str t))), .ok (.py (.int kvs.length)))
  | _ => (some fs, .error .typeError)
private def pI : Str → Except PyErr Int := fun _ => .error .valueError

/-- valid names (a value may be `None`): the base class runs, on the same arguments -/
example : runMeth (vCx pI baseEx) ValidatingAdvancedHTMLParser_handle_starttag_ast (obj [1])
      [.py (.str "p".toList), .pairs (embA [("id".toList, some "x".toList), ("data-k".toList, none)]), .py (.bool false)]
    = (some (assocSet (obj [1]) "last" (.py (.str "p".toList))), .ok (.py (.int 2))) := by decide +kernel
/-- the second name is invalid: `InvalidAttributeNameException`, the base class is not called (no field `last`) -/
example : runMeth (vCx pI baseEx) ValidatingAdvancedHTMLParser_handle_starttag_ast (obj [1])
      [.py (.str "p".toList), .pairs (embA [("id".toList, some "x".toList), ("1a".toList, none)]), .py (.bool false)]
    = (some (obj [1]), .error (.other "InvalidAttributeNameException")) := by decide +kernel
/-- `isSelfClosing` has the default `False` -/
example : runMeth (vCx pI baseEx) ValidatingAdvancedHTMLParser_handle_starttag_ast (obj [])
      [.py (.str "br".toList), .pairs (embA [])]
    = (some (assocSet (obj []) "last" (.py (.str "br".toList))), .ok (.py (.int 0))) := by decide +kernel
/-- the hand model on the same attribute lists -/
example : (match vStepT ⟨[], none⟩ (.start "p".toList [("id".toList, some "x".toList), ("1a".toList, none)]) with
      | .invalidAttr => true | _ => false) = true
    ∧ (match vStepT ⟨[], none⟩ (.start "p".toList [("id".toList, some "x".toList), ("data-k".toList, none)]) with
      | .ok _ => true | _ => false) = true := by decide +kernel

end AHP.C13Code
