/-
  C10 — The style attribute and the style object are one state seen three ways.

  Property theorems only.  Model: AHP/Model/Attrs.lean (executed by the native driver); lemmas:
  AHP/Lemmas/AttrsStyle.lean (parse ∘ render), AttrsStyleInv.lean (writers, invariants), Attrs*.lean.

  The one state is `e.sty`, the ordered name → value map of the element's style object.  C10a: every read path
  (`style.<camelCase>`, `getStyle`, `str(style)`, `getAttribute('style')`, the mapping, `items()`,
  `getAttributesList()`, the rendered start tag read back) is a projection of it; camelCase and dash names address
  one key.  C10b: an empty value removes; the attribute is present / rendered iff the map is non-empty — in every
  reachable state and through every presence test.  C10c: `styleToDict ∘ asStr = id` on the maps the element can
  hold, hence re-parse and copies reproduce the map; a style string parses to what its rendering parses to.
  C10d: equality ignores order.  C10e: assigning another element's style copies the map.
-/
import AHP.Lemmas.AttrsStyleAmp
import AHP.Lemmas.AttrsWriteRead
namespace AHP.C10
open AHP AHP.Attrs

def Reach (T : Tables) (e : El) : Prop :=
  ∃ tag sc attrs ops, e = run T (mk T tag sc attrs) ops

/-- `style` is not in `TAG_ITEM_BINARY_ATTRIBUTES` (checked on constants.py by the harness on every run) -/
def StylePlain (T : Tables) : Prop := T.binary.contains styleK = false

theorem reach_inv {T : Tables} {e : El} (h : Reach T e) : DictInv e := by
  obtain ⟨tag, sc, attrs, ops, rfl⟩ := h
  exact dictInv_run T ops (dictInv_mk T tag sc attrs)

/-! ### C10a — one ordered map, seen through every read path -/

/-- `str(element.style)` -/
theorem view_str (e : El) : styleStr e = asStr e.sty := rfl

/-- `element.style.<name>`: the value under `camelCaseToDashName(name)`, `''` when unset -/
theorem view_dot (n : Str) (e : El) : styleDotGet n e = (aget (camelToDash n) e.sty).getD [] := styleDotGet_eq n e

/-- `getStyle(name)`: the value under `name.lower()` -/
theorem view_getStyle (n : Str) (e : El) : getStyle n e = (aget (lower n) e.sty).getD [] := getStyle_eq n e

/-- camelCase and dash names address the same property: writing `style.<camel>` (or `setStyle(camel, …)`) is
    writing `setProperty(dash, …)`, and what `style.<camel>` reads is what `getStyle(dash)` reads -/
theorem camel_dash_one_key (n : Str) (v : Option Str) (e : El) :
    styleDotSet n v e = setProperty (camelToDash n) v e ∧ setStyle n v e = setProperty (camelToDash n) v e ∧
    styleDotGet n e = getStyle (camelToDash n) e := by
  refine ⟨rfl, rfl, ?_⟩
  rw [view_dot, view_getStyle, lower_of_noUpper (camelToDash_noUpper n)]

example : camelToDash ['p', 'a', 'd', 'd', 'i', 'n', 'g', 'T', 'o', 'p'] = ['p', 'a', 'd', 'd', 'i', 'n', 'g', '-', 't', 'o', 'p'] := by
  decide

/-- names written in a style string are lower-cased (and trimmed, and pairwise distinct) -/
theorem string_names_lowercase (s : Str) : ∀ k ∈ akeys (styleToDict s), lower k = k ∧ strip k = k := by
  intro k hk
  obtain ⟨p, hp, rfl⟩ := List.mem_map.mp hk
  have := (styRT_styleToDict s).2 p hp
  exact ⟨this.nameLower, this.nameTrim⟩

/-- `attributes['style']`, `attributes.get('style')`, `getAttribute('style')` (any spelling): the style object itself -/
theorem view_getitem (T : Tables) {k : Str} (hk : lower k = styleK) (e : El) : getitem T k e = .style (asStr e.sty) := by
  unfold getitem
  simp only [hk, if_true]

theorem view_mapGet (T : Tables) {k : Str} (hk : lower k = styleK) (d : PyVal) (e : El) :
    mapGet T k d e = (.style (asStr e.sty), e) := by
  unfold mapGet
  simp only [hk]
  simp [view_getitem T lower_styleK, styleK_ne_classK]

theorem view_getAttribute (T : Tables) {k : Str} (hk : lower k = styleK) (hb : T.binary.contains k = false)
    (d : PyVal) (e : El) : getAttribute T k d e = (.style (asStr e.sty), e) := by
  unfold getAttribute
  rw [hb]
  exact view_mapGet T hk d e

/-- `attributes.items()` -/
theorem view_items (e : El) :
    aget styleK (items e).1 = if e.sty.isEmpty then none else some (.style (asStr e.sty)) := by
  rw [aget_items, aget_style_sync]
  split <;> rfl

/-- `getAttributesList()` / `getAttributesDict()` -/
theorem view_attrsList (e : El) :
    aget styleK (viewList e) = if e.sty.isEmpty then none else some (some (asStr e.sty)) := viewList_style e

/-- the rendered start tag, read back: `style="…"` carries `escapeQuotes(str(style))` -/
theorem view_startTag (T : Tables) (e : El) :
    aget styleK (readBack (startTagItems T e).1)
      = if e.sty.isEmpty then none else some (some (unescQ (escQ (asStr e.sty)))) := by
  rw [aget_readBack, view_items]
  split
  · rfl
  · next hne =>
    have h1 : asStr e.sty ≠ [] := asStr_ne_nil (by simpa using hne)
    simp [Option.bind, readBackVal, renderItem, PyVal.falsy, PyVal.tostrOpt, h1]

/-! ### C10b — empty value removes; rendered / present iff a property remains -/

/-- writing an empty value (`''` or `None`) through any of the three property writers removes the property … -/
theorem write_empty_removes (n : Str) {v : Option Str} (hv : emptyVal v = true) (e : El) :
    aget (camelToDash n) (styleDotSet n v e).sty = none ∧ aget (camelToDash n) (setStyle n v e).sty = none ∧
    aget n (setProperty n v e).sty = none := by
  refine ⟨?_, ?_, ?_⟩
  · rw [styleDotSet_sty, hv]; exact aget_adel_same _ _
  · show aget (camelToDash n) (styleDotSet n v e).sty = none
    rw [styleDotSet_sty, hv]; exact aget_adel_same _ _
  · rw [setProperty_sty, hv]; exact aget_adel_same _ _

/-- … a non-empty value is what is read back under that property, and no writer touches any other property -/
theorem write_sets (n : Str) {s : Str} (hs : s ≠ []) (e : El) :
    aget (camelToDash n) (styleDotSet n (some s) e).sty = some s ∧ aget n (setProperty n (some s) e).sty = some s := by
  have hv : emptyVal (some s) = false := by simpa [emptyVal] using hs
  refine ⟨?_, ?_⟩
  · rw [styleDotSet_sty, hv]; exact aget_aset_same _ _ _
  · rw [setProperty_sty, hv]; exact aget_aset_same _ _ _

theorem write_frame (n : Str) (v : Option Str) (e : El) {k : Str} (hk : k ≠ n) :
    aget k (setProperty n v e).sty = aget k e.sty := by
  rw [setProperty_sty]
  split
  · exact aget_adel_ne hk _
  · exact aget_aset_ne hk _ _

/-- in every reachable state the `style` key of the dict is present iff the map is non-empty: `in` … -/
theorem presence_contains {T : Tables} {e : El} (h : Reach T e) {k : Str} (hk : lower k = styleK) :
    contains k e = !e.sty.isEmpty := by
  unfold contains
  simp only [hk]
  rw [if_neg styleK_ne_classK]
  exact (reach_inv h).style

/-- … `hasAttribute('style')`, any spelling … -/
theorem presence_hasAttribute {T : Tables} {e : El} (h : Reach T e) {k : Str} (hk : lower k = styleK) :
    hasAttribute k e = !e.sty.isEmpty := by
  unfold hasAttribute
  exact presence_contains h (by rw [lower_idem, hk])

/-- … `keys()`, the DOM node map, the rendered start tag -/
theorem presence_keys (e : El) : styleK ∈ (keys e).1 ↔ e.sty ≠ [] := by
  rw [keys_fst, ← ahas_iff_mem]
  unfold ahas
  rw [aget_style_sync]
  cases h : e.sty with
  | nil => simp
  | cons a r => simp

theorem presence_startTag (T : Tables) (e : El) : styleK ∈ akeys (readBack (startTagItems T e).1) ↔ e.sty ≠ [] := by
  rw [akeys_readBack]
  exact presence_keys e

theorem presence_domItem (T : Tables) {e : El} (h : Reach T e) :
    domItem T styleK e = if e.sty.isEmpty then none else some (styleK, .style (asStr e.sty)) := by
  unfold domItem
  simp only [lower_styleK, presence_contains h lower_styleK, view_getitem T lower_styleK]
  cases e.sty.isEmpty <;> rfl

/-! ### C10c — parse ∘ render -/

/-- `styleToDict (asStr m) = m` on maps with distinct, trimmed, lower-case, `:`/`;`-free names and trimmed `;`-free values -/
theorem parse_render {m : AL Str} (h : StyRT m) : styleToDict (asStr m) = m := styleToDict_asStr h

/-- every style string parses to such a map … -/
theorem parse_is_roundtrippable (s : Str) : StyRT (styleToDict s) := styRT_styleToDict s

/-- … so a style string parses to the same mapping that its rendering parses to -/
theorem parse_render_parse (s : Str) : styleToDict (asStr (styleToDict s)) = styleToDict s := styleToDict_render_idem s

/-- in every state reached by the writers of the property (names and values of its domain: trimmed, `;`-free;
    whole-style strings arbitrary) the element's map is round-trippable -/
theorem reach_roundtrippable (T : Tables) (tag : Str) (sc : Bool) (attrs : List (Str × Option Str)) (ops : List Op)
    (ho : ∀ op ∈ ops, GoodStyOp op) : StyRT (run T (mk T tag sc attrs) ops).sty :=
  styInv_run T ops ho (styInv_mk T tag sc attrs)

/-- re-parsing the rendered start tag yields the same map (the rendered value must be free of `&`) -/
theorem view_reparse (T : Tables) {e : El} (hr : Reach T e) (h : StyRT e.sty) (hamp : '&' ∉ asStr e.sty) :
    (reparse T e).1.sty = e.sty := by
  unfold reparse
  simp only
  rw [mk_sty T _ _ _ (goodKeys_of_sync (reach_inv hr) (akeys_readBack T e)), view_startTag, unescQ_escQ hamp]
  cases hs : e.sty with
  | nil => rfl
  | cons a r =>
    simp only [List.isEmpty_cons, Bool.false_eq_true, if_false, Option.getD_some]
    rw [← hs, parse_render h, parse_render h]

/-- `NoAmp` (no property name and no value contains `&`) is an invariant of all histories whose operands are free
    of `&` (`AmpFreeAttrs`: the `style` value in the constructor's list; `AmpFreeOp`: names, values and whole-style
    strings handed to the style writers, and the value written to a `style` attribute through any attribute
    writer; operations that do not address `style` are unrestricted) … -/
theorem reach_amp_free (T : Tables) (tag : Str) (sc : Bool) (attrs : List (Str × Option Str)) (ops : List Op)
    (ha : AmpFreeAttrs attrs) (ho : ∀ op ∈ ops, AmpFreeOp T op) : NoAmp (run T (mk T tag sc attrs) ops).sty :=
  ampInv_run T ops ho (ampInv_mk T tag sc attrs ha)

/-- … one step at a time … -/
theorem amp_free_step (T : Tables) (op : Op) (hop : AmpFreeOp T op) {e : El} (h : NoAmp e.sty) : NoAmp (step T e op).2.sty :=
  ampInv_step T op hop h

/-- … and then the rendered `style` value contains no `&` -/
theorem rendering_amp_free {m : AL Str} (h : NoAmp m) : '&' ∉ asStr m := amp_not_mem_asStr h

/-- `view_reparse` with the hypotheses on the operands only: after any history whose style operands are inside
    the property's domain (`GoodStyOp`: trimmed, `;`-free names and values) and free of `&` (`AmpFreeOp`,
    `AmpFreeAttrs`), re-parsing the rendered start tag yields the same style map. -/
theorem view_reparse_history (T : Tables) (tag : Str) (sc : Bool) (attrs : List (Str × Option Str)) (ops : List Op)
    (hg : ∀ op ∈ ops, GoodStyOp op) (ha : AmpFreeAttrs attrs) (ho : ∀ op ∈ ops, AmpFreeOp T op) :
    (reparse T (run T (mk T tag sc attrs) ops)).1.sty = (run T (mk T tag sc attrs) ops).sty :=
  view_reparse T ⟨tag, sc, attrs, ops, rfl⟩ (reach_roundtrippable T tag sc attrs ops hg)
    (rendering_amp_free (reach_amp_free T tag sc attrs ops ha ho))

/-- cloneNode, copy, unpickling, `eval(repr(tag))` reproduce the map -/
theorem view_clone (T : Tables) {e : El} (hr : Reach T e) (h : StyRT e.sty) : (clone T e).1.sty = e.sty := by
  unfold clone
  simp only
  have := view_attrsList e
  unfold viewList at this
  rw [mk_sty T _ _ _ (goodKeys_of_sync (reach_inv hr) (akeys_attrsList e)), this]
  cases hs : e.sty with
  | nil => rfl
  | cons a r =>
    simp only [List.isEmpty_cons, Bool.false_eq_true, if_false, Option.getD_some]
    rw [← hs, parse_render h, parse_render h]

/-- the seven whole-style strings of the property: what they parse to -/
example : styleToDict [] = [] := by decide
example : styleToDict "display: block".toList = [("display".toList, "block".toList)] := by decide
example : styleToDict "color:red;float:left".toList = [("color".toList, "red".toList), ("float".toList, "left".toList)] := by decide
example : styleToDict " padding-top : 5px ; ".toList = [("padding-top".toList, "5px".toList)] := by decide
example : styleToDict "a:b;a:c".toList = [("a".toList, "c".toList)] := by decide
example : styleToDict "Color: RED".toList = [("color".toList, "RED".toList)] := by decide
example : styleToDict "display: none;;".toList = [("display".toList, "none".toList)] := by decide

/-! ### C10d — equality ignores order -/

/-- `==` on two style objects is extensional equality of the two maps … -/
theorem eq_iff_same_mapping (a b : AL Str) : styleEq a b = true ↔ ∀ k, aget k a = aget k b := styleEq_iff_ext a b

/-- … hence blind to the order of the properties -/
theorem eq_ignores_order {a b : AL Str} (hp : a.Perm b) (hn : (akeys a).Nodup) : styleEq a b = true :=
  styleEq_of_perm hp hn

/-! ### C10e — assigning another element's style copies it -/

/-- `b.style = a.style` gives `b` a map equal to `a`'s (a copy through `str()` and `styleToDict`), attached to `b` … -/
theorem assign_copies {m : AL Str} (h : StyRT m) (b : El) :
    (assignStyleFrom m b).sty = m ∧ (ahas styleK (assignStyleFrom m b).dict = !m.isEmpty) := by
  have h1 : (assignStyleFrom m b).sty = m := by rw [assignStyleFrom_sty, parse_render h]
  refine ⟨h1, ?_⟩
  unfold assignStyleFrom assignStyle
  have h2 : styleToDict ((some (asStr m)).getD []) = m := parse_render h
  rw [h2]
  unfold ensureStyle
  split
  · next he => simp only at he; rw [ahas_adel_same, he]; rfl
  · next he => simp only at he; rw [ahas_aset_same]; simp at he; simp [he]

/- C10e, "copying a style between elements never aliases them": NOT a theorem here.  The clause is about Python
   object identity (after `b.style = a.style` the two elements do not share one `StyleAttribute` object).  The model's
   elements are values: "an operation on `a` leaves `b` alone" is `x = x` for two variables (the former
   `assign_no_alias` was exactly that, proved by `⟨rfl, rfl⟩`, and has been removed after the review of the statements,
   design.d/reviews/review-A-C01-C10.md row 3).  What IS proved: the assignment copies the map (`assign_copies`,
   `write_read_map` below).  The clause itself is checked on the real code only: oracle
   `harness/ahpcheck/props/c10.py`, failure kind `aliased` (five kinds of receiving element — new, clone, deepcopy,
   unpickled, unpickled through setAttribute — write to the copy / to the source, read the other), every history. -/

/-- interleavings: every operation that does not address the style attribute (other attributes, class writers,
    readers) leaves the style map exactly as it was -/
theorem other_operations_keep_style (T : Tables) (op : Op) (h : KeepsStyle T op) (e : El) : (step T e op).2.sty = e.sty :=
  step_sty_frame T op h e

/-! ### C10f — WRITE → READ and FRAME for the style writers

  Property writers: `style.<camel> = v`, `setStyle`, `setStyles`, `style.setProperty`.  Whole-style writers:
  `style = <string>`, `style = other.style`, `setAttribute('style', v)`, `attributes['style'] = v`,
  `removeAttribute('style')`, `del attributes['style']` (any spelling of the key). -/

theorem validName_of_style {k : Str} (hk : lower k = styleK) : validName k = true := by
  rw [← validName_lower, hk]; decide

/-- one property write on a map: an empty value (`''`, `None`) removes, any other value sets (existing property keeps
    its place, a new one goes last) -/
def writeProp (m : AL Str) (n : Str) (v : Option Str) : AL Str :=
  if emptyVal v then adel n m else aset n (v.getD []) m

/-- WRITE → READ, the map, property writers: `style.<camel> = v` and `setStyle(camel, v)` write the dash name,
    `setProperty(name, v)` the name as given; `setStyles` is the sequence of `setStyle` calls -/
theorem write_read_property (n : Str) (v : Option Str) (l : List (Str × Option Str)) (e : El) :
    (styleDotSet n v e).sty = writeProp e.sty (camelToDash n) v ∧ (setStyle n v e).sty = writeProp e.sty (camelToDash n) v ∧
    (setProperty n v e).sty = writeProp e.sty n v ∧
    (setStyles l e).sty = l.foldl (fun m p => writeProp m (camelToDash p.1) p.2) e.sty := by
  refine ⟨styleDotSet_sty n v e, styleDotSet_sty n v e, setProperty_sty n v e, ?_⟩
  induction l generalizing e with
  | nil => rfl
  | cons p l ih =>
    unfold setStyles
    simp only [List.foldl_cons]
    have := ih (setStyle p.1 p.2 e)
    unfold setStyles at this
    rw [this]
    show List.foldl _ (styleDotSet p.1 p.2 e).sty l = _
    rw [styleDotSet_sty]
    rfl

/-- reading the written property back, and every other property unchanged -/
theorem writeProp_read (m : AL Str) (n : Str) (v : Option Str) (k : Str) :
    aget k (writeProp m n v) = if k = n then (if emptyVal v then none else some (v.getD [])) else aget k m := by
  unfold writeProp
  by_cases hk : k = n
  · subst hk
    simp only [if_true]
    split
    · exact aget_adel_same _ _
    · exact aget_aset_same _ _ _
  · simp only [hk, if_false]
    split
    · exact aget_adel_ne hk _
    · exact aget_aset_ne hk _ _

/-- WRITE → READ through the property readers: after `setStyle(n, s)` (`s` non-empty) `style.<n>` and
    `getStyle(dash name)` give `s`; after an empty value they give `''`; any other property reads as before -/
theorem write_read_setStyle (n : Str) (v : Option Str) (e : El) :
    styleDotGet n (setStyle n v e) = (if emptyVal v then [] else v.getD []) ∧
    getStyle (camelToDash n) (setStyle n v e) = (if emptyVal v then [] else v.getD []) ∧
    (∀ n', camelToDash n' ≠ camelToDash n → styleDotGet n' (setStyle n v e) = styleDotGet n' e) := by
  have hs := (write_read_property n v [] e).2.1
  refine ⟨?_, ?_, ?_⟩
  · rw [view_dot, hs, writeProp_read, if_pos rfl]
    split <;> rfl
  · rw [view_getStyle, lower_of_noUpper (camelToDash_noUpper n), hs, writeProp_read, if_pos rfl]
    split <;> rfl
  · intro n' hne
    rw [view_dot, view_dot, hs, writeProp_read, if_neg hne]

/-- WRITE → READ, the map, whole-style writers: the map becomes `styleToDict` of the assigned string (`None`: the empty
    map) — through `setAttribute` / the mapping as well, although those copy the parsed style once more through its
    text (`styleToDict_render_idem`); assigning another element's style (`src` = what was assigned to it) likewise;
    the removers empty it -/
theorem write_read_map (T : Tables) {k : Str} (hk : lower k = styleK) (v : Option Str) (src : Str) (e : El) :
    (assignStyle v e).sty = styleToDict (v.getD []) ∧
    (setAttribute T k v e).2.sty = styleToDict (v.getD []) ∧ (setAttribute T k v e).1 = .ok ∧
    (mapSet T k v e).2.sty = styleToDict (v.getD []) ∧
    (assignStyleFrom (styleToDict src) e).sty = styleToDict src ∧
    (removeAttribute k e).sty = [] ∧ (mapDel k e).sty = [] := by
  have hv := validName_of_style hk
  refine ⟨assignStyle_sty v e, ?_, setAttribute_valid T hv v e, ?_, ?_, ?_, ?_⟩
  · rw [setAttribute_eq_mapSet T hv, mapSet_style T hk]; exact ensureStyle_sty _
  · rw [mapSet_style T hk]; exact ensureStyle_sty _
  · rw [assignStyleFrom_eq]; exact ensureStyle_sty _
  · unfold removeAttribute
    rw [mapDel_style (by rw [lower_idem]; exact hk)]; exact ensureStyle_sty _
  · rw [mapDel_style hk]; exact ensureStyle_sty _

/-- WRITE → READ, every view: in a reachable state whose map is `m` — the state each writer above leaves —
    `str(style)`, `attributes['style']`, `getAttribute('style')`, the presence tests and the one list of C08 read
    `m` / its rendering back -/
theorem write_read_views (T : Tables) (hT : StylePlain T) (m : AL Str) {e' : El} (hr : Reach T e') (h : e'.sty = m)
    (d : PyVal) :
    styleStr e' = asStr m ∧ getitem T styleK e' = .style (asStr m) ∧
    (getAttribute T styleK d e').1 = .style (asStr m) ∧
    hasAttribute styleK e' = !m.isEmpty ∧ contains styleK e' = !m.isEmpty ∧
    aget styleK (viewList e') = (if m.isEmpty then none else some (some (asStr m))) := by
  refine ⟨?_, ?_, ?_, ?_, ?_, ?_⟩
  · rw [view_str, h]
  · rw [view_getitem T lower_styleK, h]
  · rw [view_getAttribute T lower_styleK hT, h]
  · rw [presence_hasAttribute hr lower_styleK, h]
  · rw [presence_contains hr lower_styleK, h]
  · rw [view_attrsList, h]

/-- reachability is closed under every operation -/
theorem reach_step {T : Tables} {e : El} (h : Reach T e) (op : Op) : Reach T (step T e op).2 := by
  obtain ⟨tag, sc, attrs, ops, rfl⟩ := h
  refine ⟨tag, sc, attrs, ops ++ [op], ?_⟩
  unfold run
  rw [List.foldl_append]
  rfl

/-- e.g. `setAttribute('style', s)` then the views: the composite -/
theorem write_read_setAttribute (T : Tables) (hT : StylePlain T) {e : El} (hr : Reach T e) (s : Str) (d : PyVal) :
    styleStr (setAttribute T styleK (some s) e).2 = asStr (styleToDict s) ∧
    (getAttribute T styleK d (setAttribute T styleK (some s) e).2).1 = .style (asStr (styleToDict s)) ∧
    hasAttribute styleK (setAttribute T styleK (some s) e).2 = !(styleToDict s).isEmpty :=
  have h := write_read_views T hT (styleToDict s) (reach_step hr (.setAttr styleK (some s)))
    ((write_read_map T lower_styleK (some s) [] e).2.1) d
  ⟨h.1, h.2.2.1, h.2.2.2.1⟩

/-- FRAME: a style writer leaves every other key of the mapping — `class` included — listed as it was, and the class
    list untouched.  `op` ranges over the operations that address `style` only. -/
theorem write_frame_other_keys (T : Tables) (op : Op) (hop : addresses T op = [styleK]) {e : El} (h : DictInv e)
    {k : Str} (hk : k ≠ styleK) :
    aget k (viewList (step T e op).2) = aget k (viewList e) ∧ (step T e op).2.cls = e.cls := by
  refine ⟨frame_lookup T op h (by rw [hop]; simpa using hk), step_cls_of_addresses T op e ?_⟩
  rw [hop]
  simpa using classK_ne_styleK

/-- the style writers are such operations (any spelling of the key) -/
theorem style_writers_address_style (T : Tables) {k : Str} (hk : lower k = styleK) (n src : Str) (v : Option Str)
    (l : List (Str × Option Str)) :
    addresses T (.styDot n v) = [styleK] ∧ addresses T (.styProp n v) = [styleK] ∧ addresses T (.setStyle n v) = [styleK] ∧
    addresses T (.setStyles l) = [styleK] ∧ addresses T (.styAssign v) = [styleK] ∧ addresses T (.styCopy src) = [styleK] ∧
    addresses T (.setAttr k v) = [styleK] ∧ addresses T (.rmAttr k) = [styleK] ∧ addresses T (.mapSet k v) = [styleK] ∧
    addresses T (.mapDel k) = [styleK] := by
  simp [addresses, hk]

/-- every style writer is "replace the map, then `_ensureHtmlAttribute`" -/
theorem writers_shape (T : Tables) {k : Str} (hk : lower k = styleK) (n src : Str) (v : Option Str) (e : El) :
    styleDotSet n v e = ensureStyle { e with sty := writeProp e.sty (camelToDash n) v } ∧
    setProperty n v e = ensureStyle { e with sty := writeProp e.sty n v } ∧
    assignStyle v e = ensureStyle { e with sty := styleToDict (v.getD []) } ∧
    assignStyleFrom (styleToDict src) e = ensureStyle { e with sty := styleToDict src } ∧
    (mapSet T k v e).2 = ensureStyle { e with sty := styleToDict (v.getD []) } ∧
    mapDel k e = ensureStyle { e with sty := [] } :=
  ⟨rfl, rfl, rfl, assignStyleFrom_eq src e, by rw [mapSet_style T hk], mapDel_style hk e⟩

/-- **The list as a LIST.**  Replacing the style map by `m` and running `_ensureHtmlAttribute` (`writers_shape`) is
    `d['style'] = str(style)` — `del d['style']` for an empty `m` — on the one list: the entry keeps its place when
    `style` was listed, goes last when it was not, every other entry stays where it is.  Hypothesis `ClassSynced`:
    the state any list-shaped reader leaves (C08 `write_list_set_after_read`). -/
theorem write_list_style {e : El} (h : DictInv e) (hs : ClassSynced e) (m : AL Str) :
    viewList (ensureStyle { e with sty := m }) =
      if m.isEmpty then adel styleK (viewList e) else aset styleK (some (asStr m)) (viewList e) :=
  viewList_set_sty h hs.mpr m

/-- in every state: the same on the list without its `class` entry -/
theorem write_list_style_general {e : El} (h : DictInv e) (m : AL Str) :
    adel classK (viewList (ensureStyle { e with sty := m })) =
      if m.isEmpty then adel styleK (adel classK (viewList e))
      else aset styleK (some (asStr m)) (adel classK (viewList e)) := viewList_style_general h m

/-! ### non-vacuity -/

def T0 : Tables := { binary := [], binStr := [], links := [] }

example : StylePlain T0 := rfl

/-- `style.paddingTop = '5px'`, `setStyle('display', 'block')`, `style.setProperty('padding-top', '')` -/
example : (run T0 (mk T0 ['d', 'i', 'v'] false [])
      [.styDot "paddingTop".toList (some "5px".toList), .setStyle "display".toList (some "block".toList),
       .styProp "padding-top".toList (some [])]).sty = [("display".toList, "block".toList)] := by decide

example : GoodStyName "padding-top".toList := ⟨by decide, by decide, by decide, by decide⟩

/-- the operand conditions are satisfiable: the history above is inside `GoodStyOp` and `AmpFreeOp`, and re-parsing
    reproduces its map -/
def exOps : List Op :=
  [.styDot "paddingTop".toList (some "5px".toList), .setStyle "display".toList (some "block".toList),
   .styProp "padding-top".toList (some []), .setAttr "title".toList (some "a&b".toList),
   .styAssign (some "color: red; float:left".toList)]

example : ∀ op ∈ exOps, AmpFreeOp T0 op := by
  intro op h
  simp only [exOps, List.mem_cons, List.not_mem_nil, or_false] at h
  rcases h with rfl | rfl | rfl | rfl | rfl
  · exact ⟨by decide, fun s hs => by cases hs; decide⟩
  · exact ⟨by decide, fun s hs => by cases hs; decide⟩
  · exact ⟨by decide, fun s hs => by cases hs; decide⟩
  · exact fun hk => absurd hk (by decide)
  · exact fun s hs => by cases hs; decide

example : AmpFreeAttrs [("style".toList, some "top: 1px".toList), ("title".toList, some "a&b".toList)] := by
  intro p hp
  simp only [List.mem_cons, List.not_mem_nil, or_false] at hp
  rcases hp with rfl | rfl
  · exact fun _ s hs => by cases hs; decide
  · exact fun hk => absurd hk (by decide)

example : (run T0 (mk T0 ['d', 'i', 'v'] false [("style".toList, some "top: 1px".toList)]) exOps).sty
    = [("color".toList, "red".toList), ("float".toList, "left".toList)] := by decide

/-- outside the operand condition the re-parse does change the map: `&quot;` in a value is read back as `"` -/
example : (reparse T0 (run T0 (mk T0 ['d', 'i', 'v'] false []) [.styProp "content".toList (some "&quot;".toList)])).1.sty
    ≠ (run T0 (mk T0 ['d', 'i', 'v'] false []) [.styProp "content".toList (some "&quot;".toList)]).sty := by decide

/-! non-vacuity of C10f -/

/-- `setAttribute('STYLE', 'Color: RED; junk; top : 1px')` replaces the map by what the string parses to -/
example : ((setAttribute T0 "STYLE".toList (some "Color: RED; junk; top : 1px".toList)
      (run T0 (mk T0 ['d', 'i', 'v'] false []) [.styProp "float".toList (some "left".toList)])).2).sty
    = [("color".toList, "RED".toList), ("top".toList, "1px".toList)] := by decide
/-- `setStyles` is the sequence of `setStyle` calls; an empty value removes -/
example : (setStyles [("paddingTop".toList, some "5px".toList), ("float".toList, none), ("color".toList, some "red".toList)]
      (run T0 (mk T0 ['d', 'i', 'v'] false []) [.styProp "float".toList (some "left".toList)])).sty
    = [("padding-top".toList, "5px".toList), ("color".toList, "red".toList)] := by decide
/-- a `ClassSynced` state with a class and an attribute: a style write puts `style` last, a second one rewrites it in
    place, emptying the style deletes the entry; nothing else moves -/
def eS : El := run T0 (mk T0 ['d', 'i', 'v'] false [(classK, some ['a']), ("id".toList, some ['i'])]) [.sync]
example : DictInv eS ∧ ClassSynced eS := ⟨reach_inv ⟨_, _, _, _, rfl⟩, by unfold ClassSynced; decide⟩
example : viewList (setStyle "top".toList (some "1px".toList) eS)
    = [("id".toList, some ['i']), (classK, some ['a']), (styleK, some "top: 1px".toList)] := by decide
example : viewList (setAttribute T0 "title".toList (some ['t']) (setStyle "top".toList (some "1px".toList) eS)).2
    = [("id".toList, some ['i']), (classK, some ['a']), (styleK, some "top: 1px".toList), ("title".toList, some ['t'])] := by decide
example : viewList (assignStyle (some "top: 2px; left: 0".toList)
      (setAttribute T0 "title".toList (some ['t']) (setStyle "top".toList (some "1px".toList) eS)).2)
    = [("id".toList, some ['i']), (classK, some ['a']), (styleK, some "top: 2px; left: 0".toList), ("title".toList, some ['t'])] := by
  decide
example : viewList (removeAttribute styleK (setStyle "top".toList (some "1px".toList) eS))
    = [("id".toList, some ['i']), (classK, some ['a'])] := by decide

end AHP.C10
