/- C10 — property theorems (stub: the property is not claimed yet). -/
namespace AHP.C10
end AHP.C10
