/-
  C18 — Identity is by uid; TagCollection is an ordered set closed under its operators.

  Property theorems only (helper lemmas: AHP/Lemmas/Coll.lean; model: AHP/Model/Coll.lean).
  `firstOcc seen xs` is the specification of "the operands not yet present, first occurrence wins,
  order kept" — characterised by `mem_firstOcc`, `nodup_firstOcc`, `firstOcc_sublist`.
-/
import AHP.Lemmas.Coll
import AHP.Lemmas.CollIdent
namespace AHP.C18
open AHP AHP.Coll AHP.Ident

/-! #### Identity

  `Elem`, `Elem.eq`, `Elem.ne`, `Elem.hash`, `Elem.isTagEqual` and the Python list primitives on elements (`pyIn`, `pyIndex`,
  `pyRemove`) live in the MODEL (AHP/Model/Coll.lean, namespace `Ident`; until review B, H3 the first four were defined
  in this file).  What a model can say about identity:

  * `==` / `!=` / `hash` are *defined* on the uid (that is the code: `self.uid == other.uid`, `hash(self.uid)`), so
    `eq_iff_uid`, `ne_iff_not_eq`, `hash_of_eq` unfold the model — they record the reading, the harness's identity oracle
    (originals, clones, copies, unpickled copies, look-alikes) decides it on the library;
  * the content lies in what identity is *used for*: the collection model stores uids, and `pyIn_by_uid`,
    `pyIndex_by_uid`, `pyRemove_by_uid` prove that the list primitives a `TagCollection` relies on, run on ELEMENTS
    with `Elem.eq`, are the `Nat` primitives on the uid lists, whatever names, attributes and contents the elements
    carry;
  * "hash alike exactly when they are the same element": the direction equal ⇒ same hash holds for any hash function;
    the converse is injectivity of Python's `hash` on uid values — an ASSUMPTION (`hinj` below; a 64-bit hash of a
    128-bit uuid cannot be injective, the harness treats a collision as not a realistic event). -/

/-- C18a: equality is identity of uid, whatever the name, attributes or content; `!=` is its negation;
    equal elements hash alike. -/
theorem eq_iff_uid (a b : Elem) : a.eq b = true ↔ a.uid = b.uid := by simp [Elem.eq]
theorem ne_iff_not_eq (a b : Elem) : a.ne b = !(a.eq b) := by simp [Elem.ne, Elem.eq, bne]
theorem hash_of_eq (h : Nat → Nat) (a b : Elem) (e : a.eq b = true) : a.hash h = b.hash h := by
  simp [Elem.eq] at e; simp [Elem.hash, e]

/-- C18a: "regardless of name, attributes or content" — elements that share the uid are equal and hash alike whatever
    else they carry; elements with different uids are unequal although everything else is the same. -/
theorem eq_regardless (u : Nat) (n1 n2 : Str) (a1 a2 : List (Str × Option Str)) (c1 c2 : List Nat) (h : Nat → Nat) :
    (Elem.mk u n1 a1 c1).eq (Elem.mk u n2 a2 c2) = true ∧ (Elem.mk u n1 a1 c1).ne (Elem.mk u n2 a2 c2) = false ∧
    (Elem.mk u n1 a1 c1).hash h = (Elem.mk u n2 a2 c2).hash h := by
  simp [Elem.eq, Elem.ne, Elem.hash]

theorem ne_of_uid_ne (u1 u2 : Nat) (n : Str) (a : List (Str × Option Str)) (c : List Nat) (hu : u1 ≠ u2) :
    (Elem.mk u1 n a c).eq (Elem.mk u2 n a c) = false ∧ (Elem.mk u1 n a c).ne (Elem.mk u2 n a c) = true := by
  simp [Elem.eq, Elem.ne, hu]

/-- C18a, both directions of "hash alike exactly when the same element": ⇐ for every hash function; ⇒ under the
    assumption that the hash function is injective on uids (see the header). -/
theorem hash_eq_iff (h : Nat → Nat) (hinj : ∀ x y, h x = h y → x = y) (a b : Elem) :
    a.hash h = b.hash h ↔ a.eq b = true := by
  constructor
  · intro e
    exact (eq_iff_uid a b).2 (hinj _ _ e)
  · exact hash_of_eq h a b

/-- the converse really is an assumption: a constant hash function equates all elements -/
example : (Elem.mk 1 [] [] []).hash (fun _ => 0) = (Elem.mk 2 [] [] []).hash (fun _ => 0) ∧
    (Elem.mk 1 [] [] []).eq (Elem.mk 2 [] [] []) = false := by decide

/-- C18a: the list primitives of a `TagCollection` (`x in c`, `c.index(x)`, `c.remove(x)` — they compare with `==`),
    run on elements, are the primitives of the collection model run on the uids: `list.__contains__` is `contains`,
    `list.index` the first position of the uid, `list.remove` is `erase` (ValueError exactly when the uid is absent). -/
theorem list_primitives_by_uid (l : List Elem) (x : Elem) :
    pyIn l x = (l.map (·.uid)).contains x.uid ∧
    pyIndex l x = natIndex (l.map (·.uid)) x.uid ∧
    (pyRemove l x).map (List.map (·.uid)) =
      (if (l.map (·.uid)).contains x.uid then some ((l.map (·.uid)).erase x.uid) else none) :=
  ⟨pyIn_by_uid l x, pyIndex_by_uid l x, pyRemove_by_uid l x⟩

/-- a look-alike (same name, attributes, content; other uid) is not found, a renamed element with the uid is -/
example : pyIn [⟨1, "a".toList, [], []⟩, ⟨2, "b".toList, [], []⟩] ⟨3, "a".toList, [], []⟩ = false ∧
    pyIn [⟨1, "a".toList, [], []⟩, ⟨2, "b".toList, [], []⟩] ⟨2, "zzz".toList, [("k".toList, none)], [7]⟩ = true ∧
    (pyRemove [⟨1, "a".toList, [], []⟩, ⟨2, "b".toList, [], []⟩] ⟨1, "q".toList, [], []⟩).map (List.map (·.uid)) = some [2] := by
  decide

/-! #### isTagEqual -/

/-- C18a **"isTagEqual compares name and attributes only"**: on attribute dictionaries (pairwise distinct names — the
    store is a `dict`) `isTagEqual` is true exactly when the tag names are equal and the two elements carry the same
    set of (attribute name, value) pairs (`SameTag`, AHP/Lemmas/CollIdent.lean; a value-less attribute is the pair with
    value `none`, different from a missing one). -/
theorem isTagEqual_iff_same (n1 n2 : Str) (a1 a2 : List (Str × Option Str)) (h1 : IsDict a1) (h2 : IsDict a2) :
    isTagEqual n1 a1 n2 a2 = true ↔ (n1 = n2 ∧ ∀ k v, (k, v) ∈ a1 ↔ (k, v) ∈ a2) :=
  isTagEqual_iff n1 n2 a1 a2 h1 h2

/-- … hence neither the order of the attributes, nor the uid, nor the content matters, and it is symmetric. -/
theorem isTagEqual_invariant (a b a' b' : Elem) (ha : IsDict a.attrs) (hb : IsDict b.attrs)
    (ha' : IsDict a'.attrs) (hb' : IsDict b'.attrs)
    (hna : a'.name = a.name) (hnb : b'.name = b.name)
    (hpa : ∀ k v, (k, v) ∈ a'.attrs ↔ (k, v) ∈ a.attrs) (hpb : ∀ k v, (k, v) ∈ b'.attrs ↔ (k, v) ∈ b.attrs) :
    a'.isTagEqual b' = a.isTagEqual b ∧ a.isTagEqual b = b.isTagEqual a := by
  have key : ∀ (x y : Elem), IsDict x.attrs → IsDict y.attrs →
      (x.isTagEqual y = true ↔ SameTag x.name x.attrs y.name y.attrs) :=
    fun x y hx hy => isTagEqual_iff _ _ _ _ hx hy
  constructor
  · rw [Bool.eq_iff_iff, key a' b' ha' hb', key a b ha hb]
    simp only [SameTag, hna, hnb, hpa, hpb]
  · rw [Bool.eq_iff_iff, key a b ha hb, key b a hb ha]
    simp only [SameTag]
    constructor
    · rintro ⟨e, h⟩; exact ⟨e.symm, fun k v => (h k v).symm⟩
    · rintro ⟨e, h⟩; exact ⟨e.symm, fun k v => (h k v).symm⟩

/-- reordered attributes, another uid and other children: still tag-equal; a value-less attribute against a missing
    one, or against the empty string: not -/
example :
    (Elem.mk 1 "a".toList [("k".toList, some "v".toList), ("b".toList, none)] [5]).isTagEqual
      (Elem.mk 2 "a".toList [("b".toList, none), ("k".toList, some "v".toList)] []) = true ∧
    (Elem.mk 1 "a".toList [("b".toList, none)] []).isTagEqual (Elem.mk 1 "a".toList [] []) = false ∧
    (Elem.mk 1 "a".toList [("b".toList, none)] []).isTagEqual (Elem.mk 1 "a".toList [("b".toList, some [])] []) = false ∧
    IsDict [("k".toList, some "v".toList), ("b".toList, (none : Option Str))] := by
  refine ⟨by decide, by decide, by decide, ?_⟩
  unfold IsDict
  decide

/-! #### The collection is an ordered set closed under its operators -/

/-- The operators of the property. -/
inductive Op where
  | ctor (xs : List Nat)      -- `c = TagCollection(xs)`
  | add (xs : List Nat)       -- `c = c + xs`
  | iadd (xs : List Nat)      -- `c += xs`
  | sub (xs : List Nat)       -- `c = c - xs`
  | isub (xs : List Nat)      -- `c -= xs`
  | append1 (x : Nat)         -- `c += [x]` through `append` when absent (the library's own use of `append`)
  deriving Repr

/-- One operator; `none` = the call raises. -/
def step (c : Coll) : Op → Option Coll
  | .ctor xs => some (ofList xs)
  | .add xs => some (c.add xs)
  | .iadd xs => some (c.iadd xs)
  | .sub xs => c.sub xs
  | .isub xs => c.isub xs
  | .append1 x => some (if c.hasTag x then c else c.append x)

def run : Coll → List Op → Option Coll
  | c, [] => some c
  | c, op :: ops => (step c op).bind (fun c' => run c' ops)

/-- C18b (constructor): any operand list gives a duplicate-free collection in first-occurrence order. -/
theorem ctor_spec (xs : List Nat) : Inv (ofList xs) ∧ (ofList xs).items = firstOcc [] xs :=
  ofList_spec xs

/-- C18b (`+=`): invariant kept; result = old items followed by the new operands, first occurrence wins. -/
theorem iadd_spec' {c : Coll} (h : Inv c) (xs : List Nat) :
    Inv (c.iadd xs) ∧ (c.iadd xs).items = c.items ++ firstOcc c.items xs := iadd_spec h xs

/-- C18b (`+`): same law for the fresh collection `a + xs`, for operands with duplicates, overlaps … -/
theorem add_spec {c : Coll} (h : Inv c) (xs : List Nat) :
    Inv (c.add xs) ∧ (c.add xs).items = c.items ++ firstOcc c.items xs := by
  have h0 := ofList_spec c.items
  have hi : (ofList c.items).items = c.items := ofList_of_nodup h.nodup
  have := iadd_spec h0.1 xs
  simp only [add]
  rw [hi] at this
  exact this

/-- C18b (`-=`): never raises (repeated or absent operands included), keeps the invariant and
    removes exactly the named elements, order of the rest unchanged. -/
theorem isub_spec' {c : Coll} (h : Inv c) (xs : List Nat) :
    ∃ r, c.isub xs = some r ∧ Inv r ∧ r.items = c.items.filter (fun y => !xs.contains y) := isub_spec h xs

/-- C18b (`-`). -/
theorem sub_spec {c : Coll} (h : Inv c) (xs : List Nat) :
    ∃ r, c.sub xs = some r ∧ Inv r ∧ r.items = c.items.filter (fun y => !xs.contains y) := by
  have h0 := ofList_spec c.items
  have hi : (ofList c.items).items = c.items := ofList_of_nodup h.nodup
  obtain ⟨r, hr, hinv, hit⟩ := isub_spec h0.1 xs
  exact ⟨r, by simpa [sub] using hr, hinv, by rw [hit, hi]⟩

/-- C18b (histories): no sequence of operators, with any operands, raises or breaks the invariant. -/
theorem run_inv (ops : List Op) : ∀ {c : Coll}, Inv c → ∃ r, run c ops = some r ∧ Inv r := by
  induction ops with
  | nil => intro c h; exact ⟨c, rfl, h⟩
  | cons op ops ih =>
    intro c h
    have hstep : ∃ c', step c op = some c' ∧ Inv c' := by
      cases op with
      | ctor xs => exact ⟨_, rfl, (ofList_spec xs).1⟩
      | add xs => exact ⟨_, rfl, (add_spec h xs).1⟩
      | iadd xs => exact ⟨_, rfl, (iadd_spec h xs).1⟩
      | sub xs => obtain ⟨r, hr, hi, _⟩ := sub_spec h xs; exact ⟨r, hr, hi⟩
      | isub xs => obtain ⟨r, hr, hi, _⟩ := isub_spec h xs; exact ⟨r, hr, hi⟩
      | append1 x =>
        refine ⟨_, rfl, ?_⟩
        by_cases hx : x ∈ c.items
        · have : c.hasTag x = true := (hasTag_iff h x).mpr hx
          simpa [this] using h
        · have hf : c.hasTag x = false := by
            cases hc : c.hasTag x
            · rfl
            · exact absurd ((hasTag_iff h x).mp hc) hx
          simpa [hf] using append_inv h hx
    obtain ⟨c', hc', hinv'⟩ := hstep
    obtain ⟨r, hr, hinvr⟩ := ih hinv'
    exact ⟨r, by simp [run, hc', hr], hinvr⟩

theorem run_from_empty (ops : List Op) : ∃ r, run Coll.empty ops = some r ∧ Inv r := run_inv ops inv_empty

/-- C18c: the membership test and the uid bookkeeping agree with the actual contents. -/
theorem mem_iff (c : Coll) (x : Nat) : c.mem x = true ↔ x ∈ c.items := by simp [mem]
theorem hasTag_iff_mem {c : Coll} (h : Inv c) (x : Nat) : c.hasTag x = c.mem x := by
  have a := hasTag_iff h x
  have b := mem_iff c x
  cases h1 : c.hasTag x <;> cases h2 : c.mem x <;> simp_all

/-- C18c: `getAllNodes` lists each member and each descendant exactly once, in order of discovery. -/
theorem getAllNodes_spec (f : Forest) (c : Coll) :
    Inv (c.getAllNodes f) ∧ (c.getAllNodes f).items = firstOcc [] (c.items.flatMap f.selfAndDesc) := by
  have key : ∀ (xs : List Nat) (r : Coll), Inv r →
      Inv (xs.foldl (fun r x => iadd r (f.selfAndDesc x)) r) ∧
      (xs.foldl (fun r x => iadd r (f.selfAndDesc x)) r).items
        = r.items ++ firstOcc r.items (xs.flatMap f.selfAndDesc) := by
    intro xs
    induction xs with
    | nil => intro r hr; simp [firstOcc, hr]
    | cons x xs ih =>
      intro r hr
      have h1 := iadd_spec hr (f.selfAndDesc x)
      have h2 := ih _ h1.1
      simp only [List.foldl_cons, List.flatMap_cons]
      refine ⟨h2.1, ?_⟩
      rw [h2.2, h1.2, firstOcc_append, List.append_assoc]
      congr 2
      apply firstOcc_congr
      intro y
      simp only [List.mem_append]
      exact Or.comm
  have := key c.items Coll.empty inv_empty
  simpa [getAllNodes, Coll.empty] using this

/-- C18c: `getAllNodeUids` is the same set as `getAllNodes`. -/
theorem getAllNodeUids_same (f : Forest) (c : Coll) (y : Nat) :
    y ∈ c.getAllNodeUids f ↔ y ∈ (c.getAllNodes f).items := by
  rw [(getAllNodes_spec f c).2, mem_firstOcc]
  simp [getAllNodeUids]

/-- C18c: element-level `contains`/`containsUid` is membership in "itself and its descendants". -/
theorem elem_containsUid_iff (t : UTree) (y : Nat) : t.containsUid y = true ↔ y ∈ t.selfAndDesc :=
  UTree.containsUid_iff t y

/-- C18c **`contains` / `containsUid` of a collection** are consistent with the trees below its members: true exactly
    when some member has the element at or below it (`Forest.Below`: the inductive "itself, or below one of its
    element children, at any depth" on the tree the member names) — equivalently when the uid is listed by
    `getAllNodeUids`, equivalently when the element is in `getAllNodes`; `contains(em)` is `containsUid(em.uid)` and
    looks at nothing else of `em`. -/
theorem coll_containsUid_iff (f : Forest) (c : Coll) (y : Nat) :
    (c.containsUid f y = true ↔ ∃ x ∈ c.items, f.Below x y) ∧
    (c.containsUid f y = true ↔ y ∈ c.getAllNodeUids f) ∧
    (c.containsUid f y = true ↔ y ∈ (c.getAllNodes f).items) ∧
    (∀ em : Elem, c.contains f em = c.containsUid f em.uid) := by
  have h1 := Coll.containsUid_iff f c y
  have h2 : c.containsUid f y = true ↔ y ∈ c.getAllNodeUids f := by
    rw [h1]
    simp only [getAllNodeUids, List.mem_flatMap, Forest.mem_selfAndDesc_iff_below]
  exact ⟨h1, h2, h2.trans (getAllNodeUids_same f c y), fun _ => rfl⟩

/-- C18c: "below" for one tree is the relation one expects — the element-level `containsUid` decides it. -/
theorem elem_containsUid_iff_has (t : UTree) (y : Nat) : t.containsUid y = true ↔ t.Has y :=
  UTree.containsUid_iff_has t y

/-- C18c: `uniqueTags` returns the distinct elements in order. -/
theorem uniqueTags_spec (xs : List Nat) :
    (uniqueTags xs).items = firstOcc [] xs ∧ (uniqueTags xs).items.Nodup :=
  ⟨(ofList_spec xs).2, (ofList_spec xs).1.nodup⟩

/-- What `firstOcc` means (so the statements above can be read without the helper file). -/
theorem firstOcc_meaning (seen xs : List Nat) :
    (firstOcc seen xs).Nodup ∧ (firstOcc seen xs).Sublist xs ∧
    ∀ y, y ∈ firstOcc seen xs ↔ (y ∈ xs ∧ y ∉ seen) :=
  ⟨nodup_firstOcc seen xs, firstOcc_sublist seen xs, fun _ => mem_firstOcc⟩

/-! #### Non-vacuity: concrete non-trivial states meet the hypotheses -/
example : Inv (ofList [3, 1, 3, 2, 1]) ∧ (ofList [3, 1, 3, 2, 1]).items = [3, 1, 2] := by
  refine ⟨(ofList_spec _).1, by decide⟩
example : (ofList [3, 1, 2]).sub [1, 1, 7] = some ⟨[3, 2], [3, 2]⟩ := by decide
example : ((ofList [0, 2]).getAllNodes [.node 0 [.node 1 [.node 2 []]], .node 3 []]).items = [0, 1, 2] := by decide
/-- a member's grandchild is contained, a sibling tree's root is not -/
example : (ofList [0]).containsUid [.node 0 [.node 1 [.node 2 []]], .node 3 []] 2 = true ∧
    (ofList [0]).containsUid [.node 0 [.node 1 [.node 2 []]], .node 3 []] 3 = false ∧
    Forest.Below [.node 0 [.node 1 [.node 2 []]], .node 3 []] 0 2 :=
  ⟨by decide, by decide, (Forest.containsUid_iff_below _ 0 2).1 (by decide)⟩

end AHP.C18
