/-
  C18 — Identity is by uid; TagCollection is an ordered set closed under its operators.

  Property theorems only (helper lemmas: AHP/Lemmas/Coll.lean; model: AHP/Model/Coll.lean).
  `firstOcc seen xs` is the specification of "the operands not yet present, first occurrence wins,
  order kept" — characterised by `mem_firstOcc`, `nodup_firstOcc`, `firstOcc_sublist`.
-/
import AHP.Lemmas.Coll
namespace AHP.C18
open AHP AHP.Coll

/-! #### Identity -/

/-- What `==`, `!=` and `hash` look at: the uid only (`AdvancedTag.__eq__/__ne__/__hash__`). -/
structure Elem where
  uid : Nat
  name : Str
  attrs : List (Str × Option Str)
  content : List Nat

def Elem.eq (a b : Elem) : Bool := a.uid == b.uid
def Elem.ne (a b : Elem) : Bool := a.uid != b.uid
def Elem.hash (h : Nat → Nat) (a : Elem) : Nat := h a.uid

/-- C18a: equality is identity of uid, whatever the name, attributes or content; `!=` is its negation;
    equal elements hash alike. -/
theorem eq_iff_uid (a b : Elem) : a.eq b = true ↔ a.uid = b.uid := by simp [Elem.eq]
theorem ne_iff_not_eq (a b : Elem) : a.ne b = !(a.eq b) := by simp [Elem.ne, Elem.eq, bne]
theorem hash_of_eq (h : Nat → Nat) (a b : Elem) (e : a.eq b = true) : a.hash h = b.hash h := by
  simp [Elem.eq] at e; simp [Elem.hash, e]

/-! #### The collection is an ordered set closed under its operators -/

/-- The operators of the property. -/
inductive Op where
  | ctor (xs : List Nat)      -- `c = TagCollection(xs)`
  | add (xs : List Nat)       -- `c = c + xs`
  | iadd (xs : List Nat)      -- `c += xs`
  | sub (xs : List Nat)       -- `c = c - xs`
  | isub (xs : List Nat)      -- `c -= xs`
  | append1 (x : Nat)         -- `c += [x]` through `append` when absent (the library's own use of `append`)
  deriving Repr

/-- One operator; `none` = the call raises. -/
def step (c : Coll) : Op → Option Coll
  | .ctor xs => some (ofList xs)
  | .add xs => some (c.add xs)
  | .iadd xs => some (c.iadd xs)
  | .sub xs => c.sub xs
  | .isub xs => c.isub xs
  | .append1 x => some (if c.hasTag x then c else c.append x)

def run : Coll → List Op → Option Coll
  | c, [] => some c
  | c, op :: ops => (step c op).bind (fun c' => run c' ops)

/-- C18b (constructor): any operand list gives a duplicate-free collection in first-occurrence order. -/
theorem ctor_spec (xs : List Nat) : Inv (ofList xs) ∧ (ofList xs).items = firstOcc [] xs :=
  ofList_spec xs

/-- C18b (`+=`): invariant kept; result = old items followed by the new operands, first occurrence wins. -/
theorem iadd_spec' {c : Coll} (h : Inv c) (xs : List Nat) :
    Inv (c.iadd xs) ∧ (c.iadd xs).items = c.items ++ firstOcc c.items xs := iadd_spec h xs

/-- C18b (`+`): same law for the fresh collection `a + xs`, for operands with duplicates, overlaps … -/
theorem add_spec {c : Coll} (h : Inv c) (xs : List Nat) :
    Inv (c.add xs) ∧ (c.add xs).items = c.items ++ firstOcc c.items xs := by
  have h0 := ofList_spec c.items
  have hi : (ofList c.items).items = c.items := ofList_of_nodup h.nodup
  have := iadd_spec h0.1 xs
  simp only [add]
  rw [hi] at this
  exact this

/-- C18b (`-=`): never raises (repeated or absent operands included), keeps the invariant and
    removes exactly the named elements, order of the rest unchanged. -/
theorem isub_spec' {c : Coll} (h : Inv c) (xs : List Nat) :
    ∃ r, c.isub xs = some r ∧ Inv r ∧ r.items = c.items.filter (fun y => !xs.contains y) := isub_spec h xs

/-- C18b (`-`). -/
theorem sub_spec {c : Coll} (h : Inv c) (xs : List Nat) :
    ∃ r, c.sub xs = some r ∧ Inv r ∧ r.items = c.items.filter (fun y => !xs.contains y) := by
  have h0 := ofList_spec c.items
  have hi : (ofList c.items).items = c.items := ofList_of_nodup h.nodup
  obtain ⟨r, hr, hinv, hit⟩ := isub_spec h0.1 xs
  exact ⟨r, by simpa [sub] using hr, hinv, by rw [hit, hi]⟩

/-- C18b (histories): no sequence of operators, with any operands, raises or breaks the invariant. -/
theorem run_inv (ops : List Op) : ∀ {c : Coll}, Inv c → ∃ r, run c ops = some r ∧ Inv r := by
  induction ops with
  | nil => intro c h; exact ⟨c, rfl, h⟩
  | cons op ops ih =>
    intro c h
    have hstep : ∃ c', step c op = some c' ∧ Inv c' := by
      cases op with
      | ctor xs => exact ⟨_, rfl, (ofList_spec xs).1⟩
      | add xs => exact ⟨_, rfl, (add_spec h xs).1⟩
      | iadd xs => exact ⟨_, rfl, (iadd_spec h xs).1⟩
      | sub xs => obtain ⟨r, hr, hi, _⟩ := sub_spec h xs; exact ⟨r, hr, hi⟩
      | isub xs => obtain ⟨r, hr, hi, _⟩ := isub_spec h xs; exact ⟨r, hr, hi⟩
      | append1 x =>
        refine ⟨_, rfl, ?_⟩
        by_cases hx : x ∈ c.items
        · have : c.hasTag x = true := (hasTag_iff h x).mpr hx
          simpa [this] using h
        · have hf : c.hasTag x = false := by
            cases hc : c.hasTag x
            · rfl
            · exact absurd ((hasTag_iff h x).mp hc) hx
          simpa [hf] using append_inv h hx
    obtain ⟨c', hc', hinv'⟩ := hstep
    obtain ⟨r, hr, hinvr⟩ := ih hinv'
    exact ⟨r, by simp [run, hc', hr], hinvr⟩

theorem run_from_empty (ops : List Op) : ∃ r, run Coll.empty ops = some r ∧ Inv r := run_inv ops inv_empty

/-- C18c: the membership test and the uid bookkeeping agree with the actual contents. -/
theorem mem_iff (c : Coll) (x : Nat) : c.mem x = true ↔ x ∈ c.items := by simp [mem]
theorem hasTag_iff_mem {c : Coll} (h : Inv c) (x : Nat) : c.hasTag x = c.mem x := by
  have a := hasTag_iff h x
  have b := mem_iff c x
  cases h1 : c.hasTag x <;> cases h2 : c.mem x <;> simp_all

/-- C18c: `getAllNodes` lists each member and each descendant exactly once, in order of discovery. -/
theorem getAllNodes_spec (f : Forest) (c : Coll) :
    Inv (c.getAllNodes f) ∧ (c.getAllNodes f).items = firstOcc [] (c.items.flatMap f.selfAndDesc) := by
  have key : ∀ (xs : List Nat) (r : Coll), Inv r →
      Inv (xs.foldl (fun r x => iadd r (f.selfAndDesc x)) r) ∧
      (xs.foldl (fun r x => iadd r (f.selfAndDesc x)) r).items
        = r.items ++ firstOcc r.items (xs.flatMap f.selfAndDesc) := by
    intro xs
    induction xs with
    | nil => intro r hr; simp [firstOcc, hr]
    | cons x xs ih =>
      intro r hr
      have h1 := iadd_spec hr (f.selfAndDesc x)
      have h2 := ih _ h1.1
      simp only [List.foldl_cons, List.flatMap_cons]
      refine ⟨h2.1, ?_⟩
      rw [h2.2, h1.2, firstOcc_append, List.append_assoc]
      congr 2
      apply firstOcc_congr
      intro y
      simp only [List.mem_append]
      exact Or.comm
  have := key c.items Coll.empty inv_empty
  simpa [getAllNodes, Coll.empty] using this

/-- C18c: `getAllNodeUids` is the same set as `getAllNodes`. -/
theorem getAllNodeUids_same (f : Forest) (c : Coll) (y : Nat) :
    y ∈ c.getAllNodeUids f ↔ y ∈ (c.getAllNodes f).items := by
  rw [(getAllNodes_spec f c).2, mem_firstOcc]
  simp [getAllNodeUids]

/-- C18c: element-level `contains`/`containsUid` is membership in "itself and its descendants". -/
theorem elem_containsUid_iff (t : UTree) (y : Nat) : t.containsUid y = true ↔ y ∈ t.selfAndDesc :=
  UTree.containsUid_iff t y

/-- C18c: `uniqueTags` returns the distinct elements in order. -/
theorem uniqueTags_spec (xs : List Nat) :
    (uniqueTags xs).items = firstOcc [] xs ∧ (uniqueTags xs).items.Nodup :=
  ⟨(ofList_spec xs).2, (ofList_spec xs).1.nodup⟩

/-- What `firstOcc` means (so the statements above can be read without the helper file). -/
theorem firstOcc_meaning (seen xs : List Nat) :
    (firstOcc seen xs).Nodup ∧ (firstOcc seen xs).Sublist xs ∧
    ∀ y, y ∈ firstOcc seen xs ↔ (y ∈ xs ∧ y ∉ seen) :=
  ⟨nodup_firstOcc seen xs, firstOcc_sublist seen xs, fun _ => mem_firstOcc⟩

/-! #### Non-vacuity: concrete non-trivial states meet the hypotheses -/
example : Inv (ofList [3, 1, 3, 2, 1]) ∧ (ofList [3, 1, 3, 2, 1]).items = [3, 1, 2] := by
  refine ⟨(ofList_spec _).1, by decide⟩
example : (ofList [3, 1, 2]).sub [1, 1, 7] = some ⟨[3, 2], [3, 2]⟩ := by decide
example : ((ofList [0, 2]).getAllNodes [.node 0 [.node 1 [.node 2 []]], .node 3 []]).items = [0, 1, 2] := by decide

end AHP.C18
