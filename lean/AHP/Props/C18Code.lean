/-
  C18 — the code tie of `Tags.TagCollection`: the methods THEMSELVES (`_hasTag`, `append`, `remove`, `all`, `__iadd__`,
  `__isub__`, `__init__`, `__add__`, `__sub__`, and the module function `uniqueTags`; dumped node by node into
  `Gen.Code.tag_collection` / `tag_collection_funs` by harness/ahpcheck/translate_code.py on every run, interpreted by
  `AHP.PyAst`) do to the collection object what the hand-written model `Model/Coll.lean` (`Coll.hasTag/append/remove/iadd/isub/
  ofList/add/sub`, `uniqueTags`: the model of every C18 theorem) does to its state — for EVERY receiver state (no invariant is
  needed) and EVERY operand list (the `for other in others` loops: induction on the list, no fuel), including whether the call
  raises and with which exception.

  The object: `ofColl c` = the list the object is (its elements) and the field `uids` (a set), holding `c.items` / `c.uids`.
  An element is its uid (`PyAst.elemV u`: an `AdvancedTag` identified by the number `u`; `tag.uid` / `tag.getUid()` is `u`;
  `==` between elements, which `list.remove` uses, is equality of the uids — `AdvancedTag.__eq__`, `Ident.Elem.eq` of the hand
  model; the translator checks that `__eq__` and `getUid` are exactly that).  Calls between the methods (`self.append(x)`,
  `hasTag = ret._hasTag; hasTag(x)`, `TagCollection(self[:])`) go through the table of the dumped methods (`Ctx.meths`,
  `tcCx k`: the first `k` methods of the dependency order), so an edit of `append` also breaks the theorems of its callers.
-/
import AHP.Lemmas.PyAstColl
namespace AHP.C18Code
open AHP AHP.Gen AHP.Conv AHP.PyAst AHP.Gen.Code

/-- an operand list (any Python list of elements) -/
def operands (xs : List Nat) : Val := .list (embE xs)

/-! ### the leaf methods -/

/-- `_hasTag(self, tag)`: `Coll.hasTag`; the object is unchanged. -/
theorem hasTag_code_eq_model (c : Coll) (x : Nat) :
    runMeth (tcCx 0) TagCollection_hasTag_ast (ofColl c) [.py (elemV x)]
      = (some (ofColl c), .ok (.py (.bool (c.hasTag x)))) := hasTag_run _ c x

/-- `append(self, tag)`: `Coll.append` (the list gets the element also when it is there already; the set only a new uid). -/
theorem append_code_eq_model (c : Coll) (x : Nat) :
    runMeth (tcCx 1) TagCollection_append_ast (ofColl c) [.py (elemV x)]
      = (some (ofColl (c.append x)), .ok (.py .none)) := append_run _ c x

/-- `remove(self, toRemove)`: `Coll.remove`, `none` being a raise — `ValueError` from `list.remove` when the element is not in
the list (nothing changed), `KeyError` from `set.remove` when its uid is not in the set (the list has lost the element). -/
theorem remove_code_eq_model (c : Coll) (x : Nat) :
    (∀ c', c.remove x = some c' →
        runMeth (tcCx 2) TagCollection_remove_ast (ofColl c) [.py (elemV x)] = (some (ofColl c'), .ok (.py .none)))
    ∧ (c.remove x = none →
        (x ∉ c.items ∧ runMeth (tcCx 2) TagCollection_remove_ast (ofColl c) [.py (elemV x)]
            = (some (ofColl c), .error .valueError))
        ∨ (x ∈ c.items ∧ x ∉ c.uids ∧ runMeth (tcCx 2) TagCollection_remove_ast (ofColl c) [.py (elemV x)]
            = (some (ofColl ⟨c.items.erase x, c.uids⟩), .error .keyError))) := by
  rw [remove_run]
  unfold Coll.remove removeRun
  by_cases h1 : x ∈ c.items <;> by_cases h2 : x ∈ c.uids <;> simp [h1, h2]

/-- `all(self)`: a plain list of the elements; the object is unchanged. -/
theorem all_code_eq_model (c : Coll) :
    runMeth (tcCx 3) TagCollection_all_ast (ofColl c) [] = (some (ofColl c), .ok (.list (embE c.items))) := by
  simp [runMeth, TagCollection_all_ast, bindArgs, execL, execS, eval, evalList, List.lookup, tcCx_funs, builtin, ofColl,
    listPart, resultOf]

/-! ### `__iadd__` -/

/-- the body of `__iadd__` on the environment of the call: how it ends, and what the variables hold then -/
theorem iadd_exec (c : Coll) (xs : List Nat) :
    ∃ env', execL (tcCx 4) [("self", .obj (ofColl c)), ("others", operands xs)] TagCollection_iadd_ast.body
        = (env', .ret (.obj (ofColl (c.iadd xs))))
      ∧ env'.lookup "self" = some (.obj (ofColl (c.iadd xs))) ∧ env'.lookup "others" = some (operands xs) := by
  have L := leaves_tcCx 4 (by omega) (by omega)
  obtain ⟨env', h1, h2, h3⟩ := addFor_stmt (tcCx 4) L "self" (by decide) (by decide) xs
    [("self", .obj (ofColl c)), ("others", operands xs), ("hasTag", .bound "self" "_hasTag")] c
    (by simp [List.lookup]) (by simp [List.lookup]) (by simp [List.lookup, operands])
  have hn : (ofColl c).lookup "_hasTag" = none := ofColl_lookup_name c _ (by decide) (by decide)
  have hV : env'.lookup "others" = some (operands xs) := by rw [h3 _ (by decide) (by decide)]; simp [List.lookup]
  refine ⟨env', ?_, h2, hV⟩
  simp only [addBody] at h1
  py_straight [TagCollection_iadd_ast, tcCx_hasTag 4 (by omega) (by omega), hn, aliasOK, Val.mutable, assocSet, h1, h2]

/-- `__iadd__(self, others)` for every state and every operand list: the object becomes `Coll.iadd`, and is returned. -/
theorem iadd_code_eq_model (c : Coll) (xs : List Nat) :
    runMeth (tcCx 4) TagCollection_iadd_ast (ofColl c) [operands xs]
      = (some (ofColl (c.iadd xs)), .ok (.obj (ofColl (c.iadd xs)))) := by
  obtain ⟨env', h1, h2, _⟩ := iadd_exec c xs
  simp only [TagCollection_iadd_ast] at h1
  simp [runMeth, TagCollection_iadd_ast, bindArgs, List.lookup, h1, h2, resultOf]

/-- what the method table holds for `__iadd__` (the operand list is left as it was: the guard of `callMeth`) -/
theorem iadd_call (c : Coll) (xs : List Nat) :
    callMeth (tcCx 4) TagCollection_iadd_ast (ofColl c) [operands xs]
      = (some (ofColl (c.iadd xs)), .ok (.obj (ofColl (c.iadd xs)))) := by
  obtain ⟨env', h1, _, h3⟩ := iadd_exec c xs
  have hb : bindArgs (tcCx 4) TagCollection_iadd_ast.params [.obj (ofColl c), operands xs] []
      = some (.ok [("self", .obj (ofColl c)), ("others", operands xs)]) := by
    simp [TagCollection_iadd_ast, bindArgs, List.lookup]
  have hk : argsKept (TagCollection_iadd_ast.params.drop 1) [operands xs] env' = true := by
    simp [TagCollection_iadd_ast, argsKept, h3]
  simp only [callMeth, hb, h1, hk, if_true, iadd_code_eq_model, Val.isBound, Bool.false_eq_true, if_false]

/-! ### `__isub__` -/

/-- `__isub__(self, others)` for every state and every operand list, as the run `isubRun` (operand by operand, stopping at
the first `remove` that raises): the state reached, and either the object returned or the `ValueError`. -/
theorem isub_code_eq_run (c : Coll) (xs : List Nat) :
    runMeth (tcCx 5) TagCollection_isub_ast (ofColl c) [operands xs]
      = (some (ofColl (isubRun c xs).1),
         if (isubRun c xs).2 then .error .valueError else .ok (.obj (ofColl (isubRun c xs).1))) := by
  have L := leaves_tcCx 5 (by omega) (by omega)
  obtain ⟨env', h1, h2, _⟩ := subFor_stmt (tcCx 5) L "self" (by decide) (by decide) xs
    [("self", .obj (ofColl c)), ("others", operands xs), ("hasTag", .bound "self" "_hasTag")] c
    (by simp [List.lookup]) (by simp [List.lookup]) (by simp [List.lookup, operands])
  have hn : (ofColl c).lookup "_hasTag" = none := ofColl_lookup_name c _ (by decide) (by decide)
  simp only [subBody] at h1
  simp only [runMeth, TagCollection_isub_ast, bindArgs, List.lookup, Option.isSome, List.isEmpty, Bool.false_eq_true, if_false,
    if_true]
  by_cases hr : (isubRun c xs).2 = true
  · simp only [hr, if_true] at h1
    py_straight [tcCx_hasTag 5 (by omega) (by omega), hn, aliasOK, Val.mutable, assocSet, h1, h2, hr]
  · have hr' : (isubRun c xs).2 = false := by simpa using hr
    simp only [hr', Bool.false_eq_true, if_false] at h1
    py_straight [tcCx_hasTag 5 (by omega) (by omega), hn, aliasOK, Val.mutable, assocSet, h1, h2, hr']

/-- `__isub__` against the hand model: `Coll.isub = some c'` — the object becomes `c'` and is returned; `Coll.isub = none` —
the call raises `ValueError` (an operand whose uid is in the set while the element is not in the list). -/
theorem isub_code_eq_model (c : Coll) (xs : List Nat) :
    (∀ c', c.isub xs = some c' →
        runMeth (tcCx 5) TagCollection_isub_ast (ofColl c) [operands xs] = (some (ofColl c'), .ok (.obj (ofColl c'))))
    ∧ (c.isub xs = none →
        (runMeth (tcCx 5) TagCollection_isub_ast (ofColl c) [operands xs]).2 = .error .valueError) := by
  rw [isub_code_eq_run, isub_eq_run]
  by_cases hr : (isubRun c xs).2 = true
  · simp [hr]
  · have hr' : (isubRun c xs).2 = false := by simpa using hr
    simp only [hr', Bool.false_eq_true, if_false, Option.some.injEq, reduceCtorEq, false_implies, and_true]
    intro c' h; rw [h]

/-! ### `__init__` (the constructor) -/

/-- `TagCollection.__init__(self)` / `__init__(self, None)` on a new object: the empty collection. -/
theorem init_code_empty :
    runMeth (tcCx 6) TagCollection_init_ast [] [] = (some (ofColl Coll.empty), .ok (.py .none))
    ∧ runMeth (tcCx 6) TagCollection_init_ast [] [.py .none] = (some (ofColl Coll.empty), .ok (.py .none)) := by
  constructor <;>
    simp [runMeth, TagCollection_init_ast, bindArgs, execL, execS, eval, evalList, List.lookup, baseCall, putField, assocSet,
      Val.toField, aliasOK, Expr.makesNew, pyCompare, compareB, bnot, pyIs, Val.unique, Lit.toPy, Val.truthy, truthy, resultOf,
      ofColl, Coll.empty, embE, embU, listPart]

/-- the body of `__init__` on a new object and a list of values -/
theorem init_exec (xs : List Nat) :
    execL (tcCx 6) [("self", .obj []), ("values", operands xs)] TagCollection_init_ast.body
      = ([("self", .obj (ofColl (Coll.ofList xs))), ("values", operands xs)], .next) := by
  have hn : (ofColl Coll.empty).lookup "__iadd__" = none := ofColl_lookup_name _ _ (by decide) (by decide)
  have he : [(listPart, Field.list []), ("uids", Field.set [])] = ofColl Coll.empty := rfl
  have hlp : ¬ (listPart = "uids") := by decide
  have := iadd_call Coll.empty xs
  simp only [operands] at this
  simp [TagCollection_init_ast, execL, execS, eval, evalList, List.lookup, baseCall, putField, assocSet,
    Val.toField, aliasOK, Expr.makesNew, pyCompare, compareB, bnot, pyIs, Val.unique, Lit.toPy, Val.truthy, truthy, operands, he,
    hlp, objCall, hn, Val.isBound, tcCx_iadd 6 (by omega) (by omega), this, Coll.ofList]

/-- `TagCollection.__init__(self, values)` on a new object, for every list of values: `Coll.ofList`. -/
theorem init_code_eq_model (xs : List Nat) :
    runMeth (tcCx 6) TagCollection_init_ast [] [operands xs] = (some (ofColl (Coll.ofList xs)), .ok (.py .none)) := by
  have h := init_exec xs
  simp only [TagCollection_init_ast] at h
  simp [runMeth, TagCollection_init_ast, bindArgs, List.lookup, h, resultOf]

theorem init_call (xs : List Nat) :
    callMeth (tcCx 6) TagCollection_init_ast [] [operands xs] = (some (ofColl (Coll.ofList xs)), .ok (.py .none)) := by
  have hb : bindArgs (tcCx 6) TagCollection_init_ast.params [.obj [], operands xs] []
      = some (.ok [("self", .obj []), ("values", operands xs)]) := by
    simp [TagCollection_init_ast, bindArgs, List.lookup]
  have hk : argsKept (TagCollection_init_ast.params.drop 1) [operands xs]
      [("self", .obj (ofColl (Coll.ofList xs))), ("values", operands xs)] = true := by
    simp [TagCollection_init_ast, argsKept, List.lookup]
  simp only [callMeth, hb, init_exec, hk, if_true, init_code_eq_model, Val.isBound, Bool.false_eq_true, if_false]

/-- `TagCollection(values)` as an expression of a later method (or of `uniqueTags`): a new object holding `Coll.ofList`. -/
theorem construct_run (k : Nat) (h1 : 7 ≤ k) (h2 : k ≤ 9) (xs : List Nat) :
    construct (tcCx k) "TagCollection" [operands xs] = .ok (.obj (ofColl (Coll.ofList xs))) := by
  have := init_call xs
  simp only [operands] at this
  simp [construct, tcCx_cls, tcCx_init k h1 h2, this, operands, Val.isBound]

/-! ### `__add__`, `__sub__`: a new collection from a copy of the list, then as the in-place operators on the copy -/

/-- the first two statements of `__add__` / `__sub__` at method `k` of the order: `ret = TagCollection(self[:])`,
`hasTag = ret._hasTag` -/
theorem copy_exec (k : Nat) (h1 : 7 ≤ k) (h2 : k ≤ 9) (c : Coll) (xs : List Nat) (rest : List Stmt) :
    execL (tcCx k) [("self", .obj (ofColl c)), ("others", operands xs)]
        (.assign "ret" (.construct "TagCollection" [(.sliceAll (.var "self"))])
          :: .assign "hasTag" (.boundMeth "ret" "_hasTag") :: rest)
      = execL (tcCx k) [("self", .obj (ofColl c)), ("others", operands xs), ("ret", .obj (ofColl (Coll.ofList c.items))),
          ("hasTag", .bound "ret" "_hasTag")] rest := by
  have hn : (ofColl (Coll.ofList c.items)).lookup "_hasTag" = none := ofColl_lookup_name _ _ (by decide) (by decide)
  have hs : pySliceAll (.obj (ofColl c)) = .ok (operands c.items) := by simp [pySliceAll, ofColl, List.lookup, operands]
  have hc := construct_run k h1 h2 c.items
  simp only [operands] at hs hc
  simp [execL, execS, eval, evalList, List.lookup, hs, hc, aliasOK, Expr.makesNew, Val.mutable, assocSet,
    tcCx_hasTag k (by omega) h2, hn]

/-- `__add__(self, others)` for every state and every operand list: the receiver is unchanged, the result is a new object
holding `Coll.add`. -/
theorem add_code_eq_model (c : Coll) (xs : List Nat) :
    runMeth (tcCx 7) TagCollection_add_ast (ofColl c) [operands xs]
      = (some (ofColl c), .ok (.obj (ofColl (c.add xs)))) := by
  have L := leaves_tcCx 7 (by omega) (by omega)
  obtain ⟨env', h1, h2, h3⟩ := addFor_stmt (tcCx 7) L "ret" (by decide) (by decide) xs
    [("self", .obj (ofColl c)), ("others", operands xs), ("ret", .obj (ofColl (Coll.ofList c.items))),
      ("hasTag", .bound "ret" "_hasTag")] (Coll.ofList c.items)
    (by simp [List.lookup]) (by simp [List.lookup]) (by simp [List.lookup, operands])
  have hS : env'.lookup "self" = some (.obj (ofColl c)) := by rw [h3 _ (by decide) (by decide)]; simp [List.lookup]
  simp only [addBody] at h1
  simp only [runMeth, TagCollection_add_ast, bindArgs, List.lookup, Option.isSome, List.isEmpty, Bool.false_eq_true, if_false,
    if_true, copy_exec 7 (by omega) (by omega)]
  py_straight [h1, h2, hS, Coll.add]

/-- `__sub__(self, others)` as the run `isubRun` on the copy: the receiver is unchanged; the new object is returned, or the
`ValueError` of a `remove` propagates. -/
theorem sub_code_eq_run (c : Coll) (xs : List Nat) :
    runMeth (tcCx 8) TagCollection_sub_ast (ofColl c) [operands xs]
      = (some (ofColl c),
         if (isubRun (Coll.ofList c.items) xs).2 then .error .valueError
         else .ok (.obj (ofColl (isubRun (Coll.ofList c.items) xs).1))) := by
  have L := leaves_tcCx 8 (by omega) (by omega)
  obtain ⟨env', h1, h2, h3⟩ := subFor_stmt (tcCx 8) L "ret" (by decide) (by decide) xs
    [("self", .obj (ofColl c)), ("others", operands xs), ("ret", .obj (ofColl (Coll.ofList c.items))),
      ("hasTag", .bound "ret" "_hasTag")] (Coll.ofList c.items)
    (by simp [List.lookup]) (by simp [List.lookup]) (by simp [List.lookup, operands])
  have hS : env'.lookup "self" = some (.obj (ofColl c)) := by rw [h3 _ (by decide) (by decide)]; simp [List.lookup]
  simp only [subBody] at h1
  simp only [runMeth, TagCollection_sub_ast, bindArgs, List.lookup, Option.isSome, List.isEmpty, Bool.false_eq_true, if_false,
    if_true, copy_exec 8 (by omega) (by omega)]
  by_cases hr : (isubRun (Coll.ofList c.items) xs).2 = true
  · simp only [hr, if_true] at h1
    py_straight [h1, h2, hS, hr]
  · have hr' : (isubRun (Coll.ofList c.items) xs).2 = false := by simpa using hr
    simp only [hr', Bool.false_eq_true, if_false] at h1
    py_straight [h1, h2, hS, hr']

/-- `__sub__` against the hand model: `Coll.sub = some d` — a new object holding `d` is returned; `Coll.sub = none` — the call
raises `ValueError`; the receiver is unchanged either way. -/
theorem sub_code_eq_model (c : Coll) (xs : List Nat) :
    (∀ d, c.sub xs = some d →
        runMeth (tcCx 8) TagCollection_sub_ast (ofColl c) [operands xs] = (some (ofColl c), .ok (.obj (ofColl d))))
    ∧ (c.sub xs = none →
        runMeth (tcCx 8) TagCollection_sub_ast (ofColl c) [operands xs] = (some (ofColl c), .error .valueError)) := by
  rw [sub_code_eq_run, Coll.sub, isub_eq_run]
  by_cases hr : (isubRun (Coll.ofList c.items) xs).2 = true
  · simp [hr]
  · have hr' : (isubRun (Coll.ofList c.items) xs).2 = false := by simpa using hr
    simp only [hr', Bool.false_eq_true, if_false, Option.some.injEq, reduceCtorEq, false_implies, and_true]
    intro d h; rw [h]

/-! ### `uniqueTags` (module level): the loop never fills `alreadyAdded`, the constructor de-duplicates -/

/-- the body of the loop of `uniqueTags`, as dumped -/
def uniqBody : List Stmt :=
  [.assign "myUid" (.meth (.var "tag") "getUid" []),
   .ifS (.cmp .isIn (.var "myUid") (.var "alreadyAdded")) [.cont] [],
   .varCall "ret" "append" [(.var "tag")]]

theorem uniqBody_run (cx : Ctx) (env : Env) (x : Nat) (acc : List PyV) (hR : env.lookup "ret" = some (.list acc))
    (hA : env.lookup "alreadyAdded" = some (.set [])) :
    execL cx (assocSet env "tag" (.py (elemV x))) uniqBody
      = (assocSet (assocSet (assocSet env "tag" (.py (elemV x))) "myUid" (.py (uidV x))) "ret" (.list (acc ++ [elemV x])),
         .next) := by
  have n1 : ∀ (e : Env) (w : Val), (assocSet e "myUid" w).lookup "tag" = e.lookup "tag" :=
    fun e w => lookup_assocSet_ne e _ _ w (by decide)
  have n2 : ∀ (e : Env) (w : Val), (assocSet e "myUid" w).lookup "alreadyAdded" = e.lookup "alreadyAdded" :=
    fun e w => lookup_assocSet_ne e _ _ w (by decide)
  have n3 : ∀ (e : Env) (w : Val), (assocSet e "tag" w).lookup "alreadyAdded" = e.lookup "alreadyAdded" :=
    fun e w => lookup_assocSet_ne e _ _ w (by decide)
  have n4 : ∀ (e : Env) (w : Val), (assocSet e "myUid" w).lookup "ret" = e.lookup "ret" :=
    fun e w => lookup_assocSet_ne e _ _ w (by decide)
  have n5 : ∀ (e : Env) (w : Val), (assocSet e "tag" w).lookup "ret" = e.lookup "ret" :=
    fun e w => lookup_assocSet_ne e _ _ w (by decide)
  simp [uniqBody, execL, execS, eval, evalList, lookup_assocSet_eq, n1, n2, n3, n4, n5, hR, hA, callMethod, elemV, uidV, aliasOK,
    Val.mutable, pyCompare, compareB, pyIn, hashable, sMem, Val.truthy, truthy, Val.toField, mutCall, Field.toVal]

/-- the whole loop: `ret` receives every element of the list, in order (duplicates included) -/
theorem uniqLoop_run (cx : Ctx) (V : Val) (same : Env → Bool) (hsame : ∀ env, env.lookup "tagList" = some V → same env = true) :
    ∀ (xs : List Nat) (env : Env) (acc : List PyV),
    env.lookup "ret" = some (.list acc) → env.lookup "alreadyAdded" = some (.set []) → env.lookup "tagList" = some V →
    ∃ env', forLoop (fun env v => assocSet env "tag" v) (fun env => execL cx env uniqBody) same ((embE xs).map Val.py) env
        = (env', .next)
      ∧ env'.lookup "ret" = some (.list (acc ++ embE xs))
  | [], env, acc, hR, _, _ => ⟨env, by simp [embE, forLoop], by simpa [embE] using hR⟩
  | x :: r, env, acc, hR, hA, hV => by
    have hstep := uniqBody_run cx env x acc hR hA
    generalize he1 : assocSet (assocSet (assocSet env "tag" (.py (elemV x))) "myUid" (.py (uidV x))) "ret"
      (.list (acc ++ [elemV x])) = env1 at hstep
    have hne : ∀ z, z ≠ "ret" → z ≠ "myUid" → z ≠ "tag" → env1.lookup z = env.lookup z := by
      intro z h1 h2 h3
      rw [← he1, lookup_assocSet_ne _ _ _ _ h1, lookup_assocSet_ne _ _ _ _ h2, lookup_assocSet_ne _ _ _ _ h3]
    have hR1 : env1.lookup "ret" = some (.list (acc ++ [elemV x])) := by rw [← he1, lookup_assocSet_eq]
    have hA1 : env1.lookup "alreadyAdded" = some (.set []) := by rw [hne _ (by decide) (by decide) (by decide), hA]
    have hV1 : env1.lookup "tagList" = some V := by rw [hne _ (by decide) (by decide) (by decide), hV]
    obtain ⟨env', h1, h2⟩ := uniqLoop_run cx V same hsame r env1 (acc ++ [elemV x]) hR1 hA1 hV1
    refine ⟨env', ?_, ?_⟩
    · simp only [embE, List.map_cons, forLoop, hstep, hsame _ hV1, if_true]
      exact h1
    · rw [h2]; simp [embE]

/-- `uniqueTags(tagList)` for every list of elements: a new collection holding `AHP.uniqueTags` (= `Coll.ofList`). -/
theorem uniqueTags_code_eq_model (xs : List Nat) :
    run (tcCx 9) uniqueTags_ast [operands xs] = .ok (.obj (ofColl (uniqueTags xs))) := by
  simp only [run, runKw, uniqueTags_ast, bindArgs, List.lookup, Option.isSome, List.isEmpty, Bool.false_eq_true, if_false,
    if_true]
  have hfor : ∃ env', execS (tcCx 9) [("tagList", operands xs), ("ret", .list []), ("alreadyAdded", .set [])]
        (.forS "tag" (.var "tagList")
          [.assign "myUid" (.meth (.var "tag") "getUid" []),
           .ifS (.cmp .isIn (.var "myUid") (.var "alreadyAdded")) [.cont] [],
           .varCall "ret" "append" [(.var "tag")]]) = (env', .next)
      ∧ env'.lookup "ret" = some (operands xs) := by
    have hv : eval (tcCx 9) [("tagList", operands xs), ("ret", .list []), ("alreadyAdded", .set [])] (.var "tagList")
        = .ok (.list (embE xs)) := by simp [eval, List.lookup, operands]
    obtain ⟨env', h1, h2⟩ := uniqLoop_run (tcCx 9) (.list (embE xs))
      (fun env' => !(Val.list (embE xs)).mutable || !(Expr.var "tagList").isVar
        || decide (eval (tcCx 9) env' (.var "tagList") = .ok (.list (embE xs))))
      (by intro e h; simp [eval, h]) xs
      [("tagList", operands xs), ("ret", .list []), ("alreadyAdded", .set [])] []
      (by simp [List.lookup]) (by simp [List.lookup]) (by simp [List.lookup, operands])
    refine ⟨env', ?_, by simpa [operands] using h2⟩
    rw [execS, hv]
    simp only [iterItems, Expr.isVar, Bool.or_true, Bool.true_or, if_true]
    exact h1
  obtain ⟨env', hf1, hf2⟩ := hfor
  have hc := construct_run 9 (by omega) (by omega) xs
  py_straight [aliasOK, Expr.makesNew, Val.mutable, assocSet, hf1, hf2, hc, uniqueTags]

/-! ### non-vacuity: concrete runs of the dump through the interpreter (kernel evaluation), off the trivial paths -/

-- A failing `decide +kernel` explains itself by re-evaluating the proposition with the elaborator, which is very slow on
-- runs of the interpreter (minutes, gigabytes): the small budget makes a broken example fail at once.  The kernel check of
-- a correct example does not consume it.
set_option maxHeartbeats 2000

private def c12 : Coll := ⟨[1, 2], [1, 2]⟩

/-- `__iadd__`: operands already present and repeated operands are skipped, order of first occurrence -/
example : runMeth (tcCx 4) TagCollection_iadd_ast (ofColl c12) [operands [2, 3, 3, 1, 4]]
    = (some (ofColl ⟨[1, 2, 3, 4], [1, 2, 3, 4]⟩), .ok (.obj (ofColl ⟨[1, 2, 3, 4], [1, 2, 3, 4]⟩))) := by decide +kernel
/-- the theorems hold off the invariant too: a state whose set lacks a uid of the list (`2` is appended again) -/
example : runMeth (tcCx 4) TagCollection_iadd_ast (ofColl ⟨[1, 2], [1]⟩) [operands [2]]
    = (some (ofColl ⟨[1, 2, 2], [1, 2]⟩), .ok (.obj (ofColl ⟨[1, 2, 2], [1, 2]⟩)))
    ∧ Coll.iadd ⟨[1, 2], [1]⟩ [2] = ⟨[1, 2, 2], [1, 2]⟩ := by decide +kernel
/-- `__isub__`: present operands leave, absent and repeated ones are skipped -/
example : runMeth (tcCx 5) TagCollection_isub_ast (ofColl ⟨[1, 2, 3], [1, 2, 3]⟩) [operands [3, 5, 1, 3]]
    = (some (ofColl ⟨[2], [2]⟩), .ok (.obj (ofColl ⟨[2], [2]⟩)))
    ∧ Coll.isub ⟨[1, 2, 3], [1, 2, 3]⟩ [3, 5, 1, 3] = some ⟨[2], [2]⟩ := by decide +kernel
/-- `__isub__` raising: the uid is in the set, the element is not in the list — `ValueError` from `list.remove`, after the
operands before it were removed; the hand model says `none` -/
example : runMeth (tcCx 5) TagCollection_isub_ast (ofColl ⟨[2, 3], [1, 2, 3]⟩) [operands [3, 1, 2]]
    = (some (ofColl ⟨[2], [1, 2]⟩), .error .valueError)
    ∧ Coll.isub ⟨[2, 3], [1, 2, 3]⟩ [3, 1, 2] = none := by decide +kernel
/-- `remove` raising `KeyError`: the element is in the list, its uid is not in the set; the list has lost it -/
example : runMeth (tcCx 2) TagCollection_remove_ast (ofColl ⟨[1, 2], [2]⟩) [.py (elemV 1)]
    = (some (ofColl ⟨[2], [2]⟩), .error .keyError) ∧ Coll.remove ⟨[1, 2], [2]⟩ 1 = none := by decide +kernel
/-- `remove` takes the FIRST equal element of the list -/
example : runMeth (tcCx 2) TagCollection_remove_ast (ofColl ⟨[1, 2, 1], [1, 2]⟩) [.py (elemV 1)]
    = (some (ofColl ⟨[2, 1], [2]⟩), .ok (.py .none)) := by decide +kernel
/-- `__init__` with values: de-duplicated -/
example : runMeth (tcCx 6) TagCollection_init_ast [] [operands [3, 1, 3, 2, 1]]
    = (some (ofColl ⟨[3, 1, 2], [3, 1, 2]⟩), .ok (.py .none)) := by decide +kernel
/-- `__add__`: the receiver is unchanged, the result is a new object built from a copy of the list (so a duplicate in the
receiver's list is dropped by the constructor) -/
example : runMeth (tcCx 7) TagCollection_add_ast (ofColl ⟨[1, 1, 2], [1, 2]⟩) [operands [2, 3]]
    = (some (ofColl ⟨[1, 1, 2], [1, 2]⟩), .ok (.obj (ofColl ⟨[1, 2, 3], [1, 2, 3]⟩))) := by decide +kernel
/-- `__sub__` -/
example : runMeth (tcCx 8) TagCollection_sub_ast (ofColl ⟨[1, 2, 3], [1, 2, 3]⟩) [operands [2, 9]]
    = (some (ofColl ⟨[1, 2, 3], [1, 2, 3]⟩), .ok (.obj (ofColl ⟨[1, 3], [1, 3]⟩))) := by decide +kernel
/-- `__sub__` consults the uid set of the COPY (repair 378a6a9): an operand whose uid is only in the receiver's stale set is
skipped, not removed from a list that does not have it -/
example : runMeth (tcCx 8) TagCollection_sub_ast (ofColl ⟨[1], [1, 2]⟩) [operands [2]]
    = (some (ofColl ⟨[1], [1, 2]⟩), .ok (.obj (ofColl ⟨[1], [1]⟩))) := by decide +kernel
/-- `uniqueTags` -/
example : run (tcCx 9) uniqueTags_ast [operands [3, 1, 3, 2, 1]] = .ok (.obj (ofColl ⟨[3, 1, 2], [3, 1, 2]⟩)) := by
  decide +kernel
/-- `all` -/
example : runMeth (tcCx 3) TagCollection_all_ast (ofColl c12) [] = (some (ofColl c12), .ok (operands [1, 2])) := by
  decide +kernel
/-- an operand that cannot be iterated over: `TypeError` -/
example : (runMeth (tcCx 4) TagCollection_iadd_ast (ofColl c12) [.py (.int 3)]).2 = .error .typeError := by decide +kernel
/-- the method table fails closed: without `append` in it (`tcCx 1`), `self.append(other)` is an `AttributeError`, never a value;
with nothing in it (`tcCx 0`) already `self._hasTag` is -/
example : (runMeth (tcCx 1) TagCollection_iadd_ast (ofColl c12) [operands [3]]).2 = .error (.other "AttributeError")
    ∧ (runMeth (tcCx 0) TagCollection_iadd_ast (ofColl c12) [operands [3]]).2 = .error (.other "AttributeError") := by
  decide +kernel
/-- a constructor of another class is a `NameError` -/
example : construct (tcCx 9) "TagCollection2" [] = .error (.other "NameError") := by decide +kernel

end AHP.C18Code
