/-
  C01 — Serialise → parse round trip preserves the document tree.

  Model: serialisers (AHP/Model/Tree.lean), strict lexer (AHP/Model/Lexer.lean), builder
  (AHP/Model/Builder.lean).  Helper lemmas: AHP/Lemmas/RoundTrip.lean (token level),
  AHP/Lemmas/LexRoundTrip.lean (character level).

  Raw-text elements (`script` / `style`) are covered at character level: `ToksOK` (= `ListOK`) accepts the
  block start tag / one data token / end tag provided the data nowhere matches the element's closing expression
  `</ ws* name ws* >`, case-insensitively (`RawOK`, `Lemmas/LexRaw.lean` — exactly what `set_cdata_mode`'s
  `interesting` expression searches for); inside, `<`, `&`, tags, comments and references are plain text.
  `toksOK_of_lexOK_single` / `_multi` give a tree-level sufficient condition (`LNode.LexOK`).

  Documents are taken in *lexical normal form* (`LNode`): every text block is one text-like token of the
  tokenizer — which is the form of every tree a parse produces (`parsed_lexical_normal_form`).  For trees built
  through the API with other text segmentations (several adjacent text blocks, empty text blocks)
  `serialisation_ignores_text_segmentation` says only that the serialisation does not depend on the segmentation;
  the round trip itself for such trees is `roundtrip_single_any_segmentation`: a tree `t` that is a lexical normal
  form `l` up to text segmentation (`t.norm = l.toNode.norm`) serialises to the same text as `l`, and the parse of
  that text is `t` with its stores re-read, up to text segmentation (`norm`).

  Attribute preservation is PROVED, not assumed: `intake_viewStable` — every store `AdvancedTag.__init__` builds
  from ANY raw attribute list (class, style, spellcheck, duplicates, upper case, invalid names) lists the same
  name/value pairs after being re-read from its own listing; `parsed_stable` / `constructed_stable` — every tree a
  parse produces and every tree built through the constructor from raw lists is `Stable`; the `…_parsed` /
  `…_constructed` forms of the round-trip theorems have lexical hypotheses only.
-/
import AHP.Lemmas.RoundTrip
import AHP.Lemmas.LexRoundTrip
import AHP.Lemmas.LexRawTree
import AHP.Lemmas.IntakeStableTree
import AHP.Lemmas.IntakeStableNorm
namespace AHP.C01
open AHP AHP.Spec

/-! #### the serialiser writes the rendering of the tree's token sequence -/

theorem textlike_render (t : Token) (h : (Spec.textOf t).isSome) : textOfD t = renderTok t := by
  cases t with
  | data d =>
    by_cases hd : d.isEmpty = true
    · simp [Spec.textOf, hd] at h
    · simp [textOfD, Spec.textOf, hd, renderTok]
  | entity e => simp [textOfD, Spec.textOf, renderTok]
  | charref e => simp [textOfD, Spec.textOf, renderTok]
  | comment e => simp [textOfD, Spec.textOf, renderTok]
  | decl d => simp [Spec.textOf] at h
  | unknownDecl d => simp [Spec.textOf] at h
  | pi d => simp [Spec.textOf] at h
  | start n a => simp [Spec.textOf] at h
  | startend n a => simp [Spec.textOf] at h
  | end_ n => simp [Spec.textOf] at h

mutual
theorem html_eq_render (t : LNode) (h : t.WF) : t.toNode.html = renderToks t.toks := by
  match t, h with
  | .tok tk, h =>
    simp only [LNode.WF] at h
    simp [LNode.toNode, Node.html, LNode.toks, renderToks, textlike_render tk h]
  | .elem n a sc kids, h =>
    simp only [LNode.WF] at h
    obtain ⟨_, _, hsc, hk⟩ := h
    cases hs : sc with
    | true =>
      have : kids = [] := hsc hs
      subst this
      simp [LNode.toNode, Node.html, LNode.toks, renderToks, startTag, startTagI, endTag, renderTok]
    | false =>
      have ih := htmlL_eq_render kids hk
      simp [LNode.toNode, Node.html, LNode.toks, renderToks, startTag, startTagI, endTag, renderTok,
        renderToks_append, ih]
theorem htmlL_eq_render (ks : List LNode) (h : WFLL ks) : htmlL (toNodeL ks) = renderToks (toksL ks) := by
  match ks, h with
  | [], _ => rfl
  | k :: ks, h =>
    simp only [WFLL] at h
    simp [toNodeL, htmlL, toksL, renderToks_append, html_eq_render k h.1, htmlL_eq_render ks h.2]
end

/-- well-formedness of a document in terms of its token sequence: every token is in the serialiser's image
    and is followed by something that keeps it a token of its own (`ListOK`; `listOK_of_noAdjData` gives the
    simple sufficient condition "no two data runs adjacent" when the data singletons `<` / `&` do not occur) -/
def ToksOK (ts : List Token) : Prop := ListOK ts

/-! #### C01c — values come back unchanged -/

/-- Quotes, angle brackets, non-ASCII, anything: a value written by `escapeQuotes` between double quotes
    is read back exactly, provided no `&` in it starts a reference. -/
theorem value_roundtrip (v rest : Str) (h : ValueOK v) :
    (readUntil '"' (escQ v ++ '"' :: rest)).bind (fun p => (unescValue (p.1.length + 1) p.1).map (fun w => (w, p.2)))
      = some (v, rest) := by
  rw [readUntil_append '"' (escQ v) rest (escQ_no_quote v)]
  simp [unesc_esc v h _ (Nat.lt_succ_self _)]

/-- the serialisation depends only on the concatenation of adjacent text blocks -/
theorem serialisation_ignores_text_segmentation (t : Node) : t.norm.html = t.html := html_norm t

/-! #### C01a — single-root documents -/

/-- the root element built from the initial state -/
theorem root_rt (n : Str) (a : AttrState) (sc : Bool) (kids : List LNode) (h : (LNode.elem n a sc kids).WF) :
    runT TState.init (LNode.elem n a sc kids).toks
      = .ok ⟨[], some (LNode.elem n a sc kids).toNode.reintake⟩ := by
  simp only [LNode.WF] at h
  obtain ⟨hl, hv, hsc, hk⟩ := h
  unfold LNode.toks
  cases hs : sc with
  | true =>
    have : kids = [] := hsc hs
    subst this
    simp [runT, stepT, handleStart, TState.init, TState.hasRoot, addNode, hl, LNode.toNode, toNodeL,
      Node.reintake, reintakeL, reintakeA]
  | false =>
    have hnv : AHP.isVoid n = false := by
      cases hvv : AHP.isVoid n with
      | false => rfl
      | true => have := hv hvv; simp_all
    have hstart : stepT TState.init (.start n a.view) = .ok ⟨[⟨n, reintakeA a, []⟩], none⟩ := by
      simp [stepT, handleStart, TState.init, TState.hasRoot, hl, hnv, reintakeA]
    simp only [Bool.false_eq_true, if_false, runT, hstart]
    rw [runT_append, lforest_rt kids hk ⟨n, reintakeA a, []⟩ [] none]
    simp [runT, stepT, handleEnd, popTo, pop1, addNode, Frame.close, LNode.toNode, Node.reintake]

mutual
theorem decl_not_in (t : LNode) (h : t.WF) (x : Str) : Token.decl x ∉ t.toks := by
  match t, h with
  | .tok tk, h =>
    simp only [LNode.WF] at h
    simp only [LNode.toks, List.mem_singleton]
    intro e; rw [← e] at h; simp [Spec.textOf] at h
  | .elem n a sc kids, h =>
    simp only [LNode.WF] at h
    unfold LNode.toks
    split
    · simp
    · simp only [List.mem_cons, List.mem_append, List.mem_singleton, not_or]
      exact ⟨by simp, decl_not_inL kids h.2.2.2 x, by simp⟩
theorem decl_not_inL (ks : List LNode) (h : WFLL ks) (x : Str) : Token.decl x ∉ toksL ks := by
  match ks, h with
  | [], _ => simp [toksL]
  | k :: ks, h =>
    simp only [WFLL] at h
    simp only [toksL, List.mem_append, not_or]
    exact ⟨decl_not_in k h.1 x, decl_not_inL ks h.2 x⟩
end

/-- tokens of the doctype line `<!d>\n` -/
def doctypeToks (dt : Option Str) : List Token :=
  match dt with
  | some d => if d.isEmpty then [] else [.decl d, .data ['\n']]
  | none => []

theorem docHTML_single (dt : Option Str) (n : Str) (a : AttrState) (sc : Bool) (kids : List LNode)
    (h : (LNode.elem n a sc kids).WF) (hw : n ≠ wrapperName) :
    docHTML dt (LNode.elem n a sc kids).toNode = renderToks (doctypeToks dt ++ (LNode.elem n a sc kids).toks) := by
  have hh := html_eq_render (.elem n a sc kids) h
  rw [renderToks_append, ← hh]
  cases dt with
  | none => simp [docHTML, LNode.toNode, hw, doctypeToks, renderToks]
  | some d =>
    by_cases hd : d.isEmpty = true
    · simp [docHTML, LNode.toNode, hw, doctypeToks, renderToks, hd]
    · simp [docHTML, LNode.toNode, hw, doctypeToks, renderToks, hd, renderTok]

/-- **C01a (single root).** For every single-root document in lexical normal form whose tokens are in the
    serialiser's image — any size, any depth — `parse (getHTML d)` is the document with its attribute stores
    re-read from their rendering: same names, nesting, self-closing flags, text, doctype. -/
theorem roundtrip_single (dt : Option Str) (n : Str) (a : AttrState) (sc : Bool) (kids : List LNode)
    (hwf : (LNode.elem n a sc kids).WF) (hw : n ≠ wrapperName)
    (hok : ToksOK (doctypeToks dt ++ (LNode.elem n a sc kids).toks)) :
    ∃ toks, lexStrict (docHTML dt (LNode.elem n a sc kids).toNode) = some toks ∧
      feedTokens toks = .doc ⟨(doctypeToks dt).foldl stepD none, some (LNode.elem n a sc kids).toNode.reintake⟩ false := by
  refine ⟨doctypeToks dt ++ (LNode.elem n a sc kids).toks, ?_, ?_⟩
  · rw [docHTML_single dt n a sc kids hwf hw]
    exact lexStrict_renderToks _ hok
  · have hroot := root_rt n a sc kids hwf
    have hpre : runT TState.init (doctypeToks dt ++ (LNode.elem n a sc kids).toks)
        = runT TState.init (LNode.elem n a sc kids).toks := by
      unfold doctypeToks
      cases dt with
      | none => rfl
      | some d =>
        by_cases hd : d.isEmpty = true
        · simp [hd]
        · have h1 : stepT TState.init (.data ['\n']) = .ok TState.init := by
            simp [stepT, TState.init, isBlank, strip, lstrip, rstrip, isWs]
          have h2 : stepT TState.init (.decl d) = .ok TState.init := rfl
          simp only [hd, Bool.false_eq_true, if_false, List.cons_append, List.nil_append, runT, h1, h2]
    have hrun := run_eq (doctypeToks dt ++ (LNode.elem n a sc kids).toks) BState.init
    unfold feedTokens
    rw [hrun]
    simp only [BState.init]
    rw [hpre, hroot]
    simp only [Outcome.map, FeedResult.ofPass, BState.doc, finish_nil, List.foldl_append]
    -- the element's own tokens do not touch the doctype
    have hnd : ∀ (ts : List Token) (d0 : Option Str), (∀ t ∈ ts, ∀ x, t ≠ .decl x ∧ t ≠ .unknownDecl x) →
        ts.foldl stepD d0 = d0 := by
      intro ts
      induction ts with
      | nil => intro _ _; rfl
      | cons t ts ih =>
        intro d0 hall
        have ht := hall t (by simp)
        simp only [List.foldl_cons]
        have : stepD d0 t = d0 := by
          cases t <;> simp [stepD]
          · exact absurd rfl (ht _).1
          · exact absurd rfl (ht _).2
        rw [this]
        exact ih d0 (fun t' ht' => hall t' (List.mem_cons_of_mem _ ht'))
    have hno : ∀ t ∈ (LNode.elem n a sc kids).toks, ∀ x, t ≠ .decl x ∧ t ≠ .unknownDecl x := by
      intro t ht x
      constructor
      · intro e; subst e
        -- a declaration among the element's tokens would have to be a text-like token of the tree: it is not
        exact decl_not_in _ hwf x ht
      · intro e; subst e; exact ListOK.no_unknownDecl hok x (List.mem_append_right _ ht)
    rw [hnd _ _ hno]

/-! #### C01b — the second serialisation is identical -/

theorem doctype_of_line (dt : Option Str) :
    docHTML ((doctypeToks dt).foldl stepD none) = docHTML dt := by
  funext root
  cases dt with
  | none => rfl
  | some d =>
    by_cases hd : d.isEmpty = true
    · have : d = [] := by simpa using hd
      subst this
      simp [doctypeToks, docHTML]
    · simp [doctypeToks, hd, stepD]

/-- **C01b.** Serialising the re-parsed document returns the identical string, for stores whose rendering
    is stable under re-reading.  The hypothesis is DISCHARGED for every tree a parse produces and every tree built
    through the constructor from raw attribute lists (class / style / spellcheck included) by `parsed_stable` /
    `constructed_stable`: see `second_serialisation_identical_parsed` / `_constructed` below, which have no
    `Stable` hypothesis.  (`plain_viewStable` is the earlier special case of stores without class/style/spellcheck.) -/
theorem second_serialisation_identical (dt : Option Str) (n : Str) (a : AttrState) (sc : Bool) (kids : List LNode)
    (hst : (LNode.elem n a sc kids).toNode.Stable) :
    docHTML ((doctypeToks dt).foldl stepD none) (LNode.elem n a sc kids).toNode.reintake
      = docHTML dt (LNode.elem n a sc kids).toNode := by
  rw [doctype_of_line]
  have h := html_reintake _ hst
  simp only [LNode.toNode, Node.reintake] at h ⊢
  simp only [docHTML]
  split
  · simp only [Node.innerHTML]
    have hst2 : StableL (toNodeL kids) := by
      simp only [LNode.toNode, Node.Stable] at hst; exact hst.2
    rw [htmlL_reintake _ hst2]
  · rw [h]

/-! #### C01a — multi-root documents (no doctype: the white space after the doctype of a multi-root
       document is outside the property's domain) -/

theorem roundtrip_multi (ks : List LNode) (hwf : WFLL ks) (hok : ToksOK (toksL ks))
    (hmulti : run BState.init (toksL ks) = .multipleRoot) :
    ∃ toks, lexStrict (docHTML none (.elem wrapperName AttrState.empty false (toNodeL ks))) = some toks ∧
      feedTokens toks
        = .doc ⟨none, some (.elem wrapperName AttrState.empty false (reintakeL (toNodeL ks)))⟩ true := by
  refine ⟨toksL ks, ?_, ?_⟩
  · have : docHTML none (.elem wrapperName AttrState.empty false (toNodeL ks)) = renderToks (toksL ks) := by
      simp [docHTML, Node.innerHTML, htmlL_eq_render ks hwf]
    rw [this]
    exact lexStrict_renderToks _ hok
  · unfold feedTokens
    rw [hmulti]
    simp only
    have hlead : leadDoctype (toksL ks) = none := by
      unfold leadDoctype
      split
      · rename_i d r heq
        exact absurd (by rw [heq]; simp) (decl_not_inL ks hwf d)
      · rename_i ws d r heq
        exact absurd (by rw [heq]; simp) (decl_not_inL ks hwf d)
      · rfl
    have hwrap : wrapToks (toksL ks) = .start wrapperName [] :: toksL ks ++ [.end_ wrapperName] := by
      simp [wrapToks, hlead]
    rw [hwrap, run_eq]
    simp only [BState.init]
    have hs : stepT TState.init (.start wrapperName []) = .ok ⟨[⟨wrapperName, AttrState.empty, []⟩], none⟩ := by
      simp [stepT, handleStart, TState.init, TState.hasRoot, wrapper_lower, wrapper_not_void, intake]
    have hrun : runT TState.init (.start wrapperName [] :: toksL ks ++ [.end_ wrapperName])
        = .ok ⟨[], some (.elem wrapperName AttrState.empty false (reintakeL (toNodeL ks)))⟩ := by
      simp only [List.cons_append, runT, hs]
      rw [runT_append, lforest_rt ks hwf ⟨wrapperName, AttrState.empty, []⟩ [] none]
      simp [runT, stepT, handleEnd, popTo, pop1, addNode, Frame.close]
    rw [hrun]
    simp only [Outcome.map, FeedResult.ofPass, BState.doc, finish_nil]
    -- no declaration among the tokens: the doctype stays empty
    have hnd : ∀ (ts : List Token) (d0 : Option Str), (∀ t ∈ ts, ∀ x, t ≠ .decl x ∧ t ≠ .unknownDecl x) →
        ts.foldl stepD d0 = d0 := by
      intro ts
      induction ts with
      | nil => intro _ _; rfl
      | cons t ts ih =>
        intro d0 hall
        have ht := hall t (by simp)
        simp only [List.foldl_cons]
        have : stepD d0 t = d0 := by
          cases t <;> simp [stepD]
          · exact absurd rfl (ht _).1
          · exact absurd rfl (ht _).2
        rw [this]
        exact ih d0 (fun t' ht' => hall t' (List.mem_cons_of_mem _ ht'))
    have hno : ∀ t ∈ (Token.start wrapperName [] :: toksL ks ++ [Token.end_ wrapperName]), ∀ x,
        t ≠ .decl x ∧ t ≠ .unknownDecl x := by
      intro t ht x
      simp only [List.cons_append, List.mem_cons, List.mem_append, List.mem_singleton] at ht
      rcases ht with e | ht | e
      · subst e; simp
      · constructor
        · intro e; subst e; exact decl_not_inL ks hwf x ht
        · intro e; subst e; exact ListOK.no_unknownDecl hok x ht
      · rcases e with e | e
        · subst e; simp
        · simp at e
    rw [hnd _ _ hno]

/-! #### a tree-level sufficient condition for `ToksOK`, raw-text elements included -/

/-- doctype text the serialiser's doctype line lexes back from -/
def DoctypeOK (dt : Option Str) : Prop :=
  match dt with
  | some d => d.isEmpty = true ∨ (lower (d.take 7) = "doctype".toList ∧ '>' ∉ d)
  | none => True

/-- **C01 (side condition, single root).** A single-root document whose tree meets `LNode.LexOK` — text blocks
    are well-formed text-like tokens, no two data runs adjacent, names and attribute views well formed, and the
    content of every `script` / `style` element is at most ONE data token in which the element's closing
    expression does not occur (it may contain `<`, `&`, `</div>`, comments …) — meets the hypothesis `ToksOK` of
    `roundtrip_single`. -/
theorem toksOK_of_lexOK_single (dt : Option Str) (n : Str) (a : AttrState) (sc : Bool) (kids : List LNode)
    (hwf : (LNode.elem n a sc kids).WF) (hlex : (LNode.elem n a sc kids).LexOK) (hdt : DoctypeOK dt) :
    ToksOK (doctypeToks dt ++ (LNode.elem n a sc kids).toks) := by
  have hroot : ListOK ((LNode.elem n a sc kids).toks ++ []) :=
    lnode_listOK _ hwf hlex [] .nil (fun h => by simp [isDataTok] at h)
  rw [List.append_nil] at hroot
  unfold ToksOK doctypeToks
  cases dt with
  | none => simpa using hroot
  | some d =>
    by_cases hd : d.isEmpty = true
    · simpa [hd] using hroot
    · simp only [hd, Bool.false_eq_true, if_false, List.cons_append, List.nil_append]
      have hd' : lower (d.take 7) = "doctype".toList ∧ '>' ∉ d := by
        rcases hdt with h | h
        · exact absurd h hd
        · exact h
      refine .cons hd' trivial (.cons (Or.inr (Or.inr ⟨by simp, by decide⟩)) ?_ hroot)
      -- the newline of the doctype line is followed by the root's start tag
      have hne1 : (['\n'] : Str) ≠ ['<'] := by decide
      have hne2 : (['\n'] : Str) ≠ ['&'] := by decide
      simp only [Follows, hne1, hne2, if_false]
      right
      unfold LNode.toks
      cases sc with
      | true => exact ⟨_, Or.inl (by simp [renderToks, renderTok]; rfl)⟩
      | false => exact ⟨_, Or.inl (by simp [renderToks, renderTok]; rfl)⟩

/-- **C01 (side condition, multi-root).** The same for a forest of top-level blocks. -/
theorem toksOK_of_lexOK_multi (ks : List LNode) (hwf : WFLL ks) (hlex : LexOKL ks) (hadj : NoAdjL ks) :
    ToksOK (toksL ks) := by
  have := lforest_listOK ks hwf hlex hadj [] .nil (Or.inl rfl)
  rw [List.append_nil] at this
  exact this

/-! #### attribute stores without class / style / spellcheck are stable under re-reading -/

def plainKey (k : Str) : Prop :=
  validAttrName k = true ∧ lower k = k ∧ k ≠ "class".toList ∧ k ≠ "style".toList ∧ k ≠ "spellcheck".toList

theorem dictSet_fresh {β : Type} (d : List (Str × β)) (k : Str) (v : β) (h : ∀ p ∈ d, p.1 ≠ k) :
    dictSet d k v = d ++ [(k, v)] := by
  induction d with
  | nil => rfl
  | cons p d ih =>
    obtain ⟨k', v'⟩ := p
    have hk : k' ≠ k := h (k', v') (by simp)
    simp only [dictSet, hk, if_false, List.cons_append]
    rw [ih (fun q hq => h q (List.mem_cons_of_mem _ hq))]

theorem intake_plain (xs : List Attr) : ∀ (acc : List Attr),
    (∀ p ∈ xs, plainKey p.1) → (xs.map (·.1)).Nodup → (∀ p ∈ acc, ∀ q ∈ xs, p.1 ≠ q.1) →
    intake xs ⟨acc, [], []⟩ = ⟨acc ++ xs, [], []⟩ := by
  induction xs with
  | nil => intro acc _ _ _; simp [intake]
  | cons x xs ih =>
    intro acc hp hn hd
    obtain ⟨k, v⟩ := x
    have hk := hp (k, v) (by simp)
    obtain ⟨hv, hl, h1, h2, h3⟩ := hk
    have hfresh : ∀ p ∈ acc, p.1 ≠ k := fun p hp' => hd p hp' (k, v) (by simp)
    simp only [intake, hl, hv, if_true, AttrState.set, h1, h2, h3, if_false]
    rw [dictSet_fresh acc k v hfresh]
    have hn' : k ∉ xs.map (·.1) ∧ (xs.map (·.1)).Nodup := by
      have := hn; simp only [List.map_cons, List.nodup_cons] at this; exact this
    rw [ih (acc ++ [(k, v)]) (fun p hp' => hp p (List.mem_cons_of_mem _ hp')) hn'.2 ?_]
    · simp
    · intro p hp' q hq
      rcases List.mem_append.mp hp' with h | h
      · exact hd p h q (List.mem_cons_of_mem _ hq)
      · simp at h; subst h
        intro e
        exact hn'.1 (by simp only [List.mem_map]; exact ⟨q, hq, e.symm⟩)

/-- **C01 (plain stores).** An attribute store holding only plain attributes (distinct, valid, lower-case
    names other than class / style / spellcheck; any values, including missing ones) is re-read exactly. -/
theorem plain_viewStable (d : List Attr) (hp : ∀ p ∈ d, plainKey p.1) (hn : (d.map (·.1)).Nodup) :
    ViewStable ⟨d, [], []⟩ := by
  have hview : (⟨d, [], []⟩ : AttrState).view = d := by
    have h1 : dictDel d "class".toList = d := by
      unfold dictDel
      apply List.filter_eq_self.mpr
      intro p hp'
      have := (hp p hp').2.2.1
      simpa using this
    have h2 : dictDel d "style".toList = d := by
      unfold dictDel
      apply List.filter_eq_self.mpr
      intro p hp'
      have := (hp p hp').2.2.2.1
      simpa using this
    have hc : ("class".toList : Str) = ['c', 'l', 'a', 's', 's'] := rfl
    have hs : ("style".toList : Str) = ['s', 't', 'y', 'l', 'e'] := rfl
    simp only [AttrState.view, List.isEmpty_nil, if_true, h1, h2]
  unfold ViewStable reintakeA
  rw [hview]
  have := intake_plain d [] hp hn (by simp)
  simp only [AttrState.empty, List.nil_append] at this ⊢
  rw [this, hview]

/-! #### Non-vacuity: a concrete document meets the hypotheses of `roundtrip_single` -/
example : lexStrict "<div id=\"a&quot;b\" checked >x&amp;y<br /><!--c--></div>".toList =
    some [.start "div".toList [("id".toList, some "a\"b".toList), ("checked".toList, none)],
          .data "x".toList, .entity "amp".toList, .data "y".toList, .startend "br".toList [],
          .comment "c".toList, .end_ "div".toList] := by decide

example : lexStrict "<p >1 < 2 & 3&#x41;&#65;</p>".toList =
    some [.start "p".toList [], .data "1 ".toList, .data "<".toList, .data " 2 ".toList, .data "&".toList,
          .data " 3".toList, .charref "x41".toList, .charref "65".toList, .end_ "p".toList] := by decide

/-! #### Non-vacuity with raw text: a `<script>` whose content has `<`, `&`, `</div>`, a comment opener and an
       unfinished closing sequence, and a `<style>` with `>` and `&` — the hypotheses of `roundtrip_single`
       hold, so its conclusion does -/

/-- `<div ><script type="module" >if (a < b && c) { s = "</div>" + '</scr' + 'ipt>'; } <!-- &amp;</script><style >p > a { content: "&<" }</style><p >x</p></div>` -/
def exRawKids : List LNode :=
  [ .elem "script".toList ⟨[("type".toList, some "module".toList)], [], []⟩ false
      [.tok (.data "if (a < b && c) { s = \"</div>\" + '</scr' + 'ipt>'; } <!-- &amp;".toList)],
    .elem "style".toList AttrState.empty false [.tok (.data "p > a { content: \"&<\" }".toList)],
    .elem "p".toList AttrState.empty false [.tok (.data "x".toList)] ]

theorem exRaw_wf : (LNode.elem "div".toList AttrState.empty false exRawKids).WF := by
  simp only [LNode.WF, WFLL, exRawKids, Spec.textOf]
  decide

theorem exRaw_lexOK : (LNode.elem "div".toList AttrState.empty false exRawKids).LexOK := by
  simp only [LNode.LexOK, LexOKL, NoAdjL, RawKidsOK, exRawKids, isDataTok]
  decide

example : ∃ toks,
    lexStrict (docHTML (some "DOCTYPE html".toList) (LNode.elem "div".toList AttrState.empty false exRawKids).toNode)
      = some toks ∧
    feedTokens toks = .doc ⟨some "DOCTYPE html".toList,
      some (LNode.elem "div".toList AttrState.empty false exRawKids).toNode.reintake⟩ false :=
  roundtrip_single (some "DOCTYPE html".toList) "div".toList AttrState.empty false exRawKids exRaw_wf (by decide)
    (toksOK_of_lexOK_single _ _ _ _ _ exRaw_wf exRaw_lexOK (Or.inr (by decide)))

-- the serialisation in question, spelled out
set_option maxRecDepth 8192 in
example : docHTML none (LNode.elem "div".toList AttrState.empty false exRawKids).toNode
    = ("<div ><script type=\"module\" >if (a < b && c) { s = \"</div>\" + '</scr' + 'ipt>'; } <!-- &amp;</script>"
       ++ "<style >p > a { content: \"&<\" }</style><p >x</p></div>").toList := by decide

/-- the side condition is needed: with the closing expression inside the content the text comes back cut -/
example : lexStrict "<script >a</ SCRIPT >b</script>".toList
    = some [.start "script".toList [], .data "a".toList, .end_ "script".toList, .data "b".toList,
            .end_ "script".toList] := by decide

/-- a multi-root forest with an empty `<script>` and a `<style>`: hypotheses of `roundtrip_multi` -/
example : ToksOK (toksL [.elem "script".toList AttrState.empty false [],
    .elem "style".toList AttrState.empty false [.tok (.data "a<b".toList)]]) :=
  toksOK_of_lexOK_multi _ (by simp only [WFLL, LNode.WF, Spec.textOf]; decide)
    (by simp only [LexOKL, LNode.LexOK, RawKidsOK, NoAdjL]; decide) (by simp [NoAdjL, isDataTok])

/-! #### C01 — attribute preservation, PROVED for every parsed / constructed tree

  Review finding (C01-1): `roundtrip_single` concludes with the tree whose stores are *re-read from their rendering*
  (`reintake`); "same attribute name/value pairs" and "second serialisation identical" need `ViewStable` of every
  store, which was a hypothesis.  It is a theorem for every store the constructor builds. -/

/-- **C01 (attribute stores).** For EVERY raw attribute list `l` — `class`, `style`, `spellcheck`, duplicate names,
    upper-case names, invalid names included — the store `AdvancedTag.__init__` builds from `l`, rendered by
    `getStartTag` and read again by a parse, lists the same name/value pairs in the same order. -/
theorem intake_viewStable (l : List Attr) : ViewStable (intake l AttrState.empty) := intake_view_stable l

/-- the same, spelled out -/
theorem intake_view_fixed (l : List Attr) :
    (intake (intake l AttrState.empty).view AttrState.empty).view = (intake l AttrState.empty).view :=
  intake_view_stable l

/-- Why "built through the DOM API" is read as *constructed* (`CNode`) in the theorems above, and the recorded finding
    `C01-class-position-after-look` in the model's terms: a store in which `class` was materialised by a look and a NEW
    attribute was added afterwards lists `class` before that attribute; it renders that way, and the store the constructor
    builds from the rendering lists `class` last — same pairs, another order, so the second serialisation is another string.
    (The library does exactly this: `t.addClass('k'); t.outerHTML; t.setAttribute('href', 'x')`; the check's `late` variant
    replays it and reports it as the known finding.) -/
def lateStore : AttrState := ⟨[("class".toList, some "k".toList), ("href".toList, some "x".toList)], ["k".toList], []⟩

theorem late_attribute_not_viewStable :
    ¬ ViewStable lateStore ∧
    startTag "span".toList lateStore false = "<span class=\"k\" href=\"x\" >".toList ∧
    startTag "span".toList (intake lateStore.view AttrState.empty) false = "<span href=\"x\" class=\"k\" >".toList ∧
    (intake lateStore.view AttrState.empty).view.map (·.1) = ["href".toList, "class".toList] := by
  refine ⟨by unfold ViewStable; decide, by decide, by decide, by decide⟩

/-- a re-read store is re-read exactly ever after (any number of round trips) -/
theorem reintake_viewStable (a : AttrState) : ViewStable (reintakeA a) := isIntake_stable_reintake a

/-- **C01 (every parsed tree is `Stable`).** Whatever the token list — any order, however nested, first pass or
    wrapped second pass — every attribute store of the tree `feedTokens` builds is re-read exactly. -/
theorem parsed_stable (toks : List Token) (d : Doc) (second : Bool) (h : feedTokens toks = .doc d second) :
    ∀ r, d.root = some r → r.Stable := feedTokens_stable toks d second h

/-- **C01 (every constructed tree is `Stable`).** A tree built through `AdvancedTag(name, attrList, isSelfClosing)`
    and `appendBlock` from RAW attribute lists (`CNode`, `CNode.build`). -/
theorem constructed_stable (c : CNode) : c.build.toNode.Stable := cnode_stable c

/-- **C01 (every parsed tree is in lexical normal form)** — the class `LNode` / `LNode.WF` of the round-trip
    theorems contains every tree a parse produces: no empty text block, lower-case names, void names self-closing,
    self-closing elements empty. -/
theorem parsed_lexical_normal_form (toks : List Token) (d : Doc) (second : Bool) (h : feedTokens toks = .doc d second)
    (l : LNode) (hl : d.root = some l.toNode) : l.WF :=
  wf_of_lex l (feedTokens_lex toks d second h _ hl)

/-- what the API shows of a `Stable` tree in lexical normal form is what it shows of the tree re-read by a parse:
    same names, same attribute name/value pairs in the same order, same self-closing flags, same text blocks -/
theorem reparsed_shows_same (l : LNode) (hwf : l.WF) (hst : l.toNode.Stable) : l.toNode.reintake.obs = l.toNode.obs :=
  lnode_obs_reintake l hwf hst

/-! ##### single root, without the `Stable` hypothesis -/

/-- `roundtrip_single` + `second_serialisation_identical` + attribute preservation for a root all of whose stores
    are constructor images (`Node.Built`): the common core of the `_parsed` and `_constructed` forms -/
theorem roundtrip_single_built (dt : Option Str) (n : Str) (a : AttrState) (sc : Bool) (kids : List LNode)
    (hb : (LNode.elem n a sc kids).toNode.Built)
    (hwf : (LNode.elem n a sc kids).WF) (hw : n ≠ wrapperName)
    (hok : ToksOK (doctypeToks dt ++ (LNode.elem n a sc kids).toks)) :
    ∃ toks dt' parsed,
      lexStrict (docHTML dt (LNode.elem n a sc kids).toNode) = some toks ∧
      feedTokens toks = .doc ⟨dt', some parsed⟩ false ∧
      parsed.obs = (LNode.elem n a sc kids).toNode.obs ∧
      docHTML dt' parsed = docHTML dt (LNode.elem n a sc kids).toNode := by
  obtain ⟨toks, h1, h2⟩ := roundtrip_single dt n a sc kids hwf hw hok
  have hst := built_stable _ hb
  exact ⟨toks, _, _, h1, h2, lnode_obs_reintake _ hwf hst, second_serialisation_identical dt n a sc kids hst⟩

/-- **C01a/b (single root, constructed).** For every tree handed to the public constructor with RAW attribute
    lists — the only hypotheses are the lexical ones (`WF`: void names self-closing …; `ToksOK`: the tokens are in the
    serialiser's image) — `parse (getHTML d)` answers, has the same names, the same attribute name/value pairs in
    the same order (class, style, spellcheck included), the same flags and text blocks, and serialises to the
    identical string. -/
theorem roundtrip_single_constructed (dt : Option Str) (n : Str) (l : List Attr) (sc : Bool) (kids : List CNode)
    (hwf : (CNode.elem n l sc kids).build.WF) (hw : lower n ≠ wrapperName)
    (hok : ToksOK (doctypeToks dt ++ (CNode.elem n l sc kids).build.toks)) :
    ∃ toks dt' parsed,
      lexStrict (docHTML dt (CNode.elem n l sc kids).build.toNode) = some toks ∧
      feedTokens toks = .doc ⟨dt', some parsed⟩ false ∧
      parsed.obs = (CNode.elem n l sc kids).build.toNode.obs ∧
      docHTML dt' parsed = docHTML dt (CNode.elem n l sc kids).build.toNode := by
  have hb := cnode_built (CNode.elem n l sc kids)
  simp only [CNode.build] at hb hwf hok ⊢
  exact roundtrip_single_built dt _ _ _ _ hb hwf hw hok

/-- **C01a/b (single root, parsed).** For every tree obtained from a previous parse (`hp`; any tokens) — only
    lexical hypotheses: the root is not the wrapper, the tokens are in the serialiser's image; `WF` is a consequence
    of `hp` — the same conclusions.  `dt` is the document's doctype at serialisation time (the parsed one, or one set
    through `setDoctype`). -/
theorem roundtrip_single_parsed (toks0 : List Token) (dt0 : Option Str) (second0 : Bool)
    (dt : Option Str) (n : Str) (a : AttrState) (sc : Bool) (kids : List LNode)
    (hp : feedTokens toks0 = .doc ⟨dt0, some (LNode.elem n a sc kids).toNode⟩ second0)
    (hw : n ≠ wrapperName) (hok : ToksOK (doctypeToks dt ++ (LNode.elem n a sc kids).toks)) :
    ∃ toks dt' parsed,
      lexStrict (docHTML dt (LNode.elem n a sc kids).toNode) = some toks ∧
      feedTokens toks = .doc ⟨dt', some parsed⟩ false ∧
      parsed.obs = (LNode.elem n a sc kids).toNode.obs ∧
      docHTML dt' parsed = docHTML dt (LNode.elem n a sc kids).toNode :=
  roundtrip_single_built dt n a sc kids (feedTokens_built toks0 _ second0 hp _ rfl)
    (parsed_lexical_normal_form toks0 _ second0 hp _ rfl) hw hok

/-- **C01b without hypothesis (constructed).** -/
theorem second_serialisation_identical_constructed (dt : Option Str) (n : Str) (l : List Attr) (sc : Bool)
    (kids : List CNode) :
    docHTML ((doctypeToks dt).foldl stepD none) (CNode.elem n l sc kids).build.toNode.reintake
      = docHTML dt (CNode.elem n l sc kids).build.toNode := by
  have hst := cnode_stable (CNode.elem n l sc kids)
  simp only [CNode.build] at hst ⊢
  exact second_serialisation_identical dt _ _ _ _ hst

/-- **C01b without hypothesis (parsed).** -/
theorem second_serialisation_identical_parsed (toks0 : List Token) (dt0 : Option Str) (second0 : Bool)
    (dt : Option Str) (n : Str) (a : AttrState) (sc : Bool) (kids : List LNode)
    (hp : feedTokens toks0 = .doc ⟨dt0, some (LNode.elem n a sc kids).toNode⟩ second0) :
    docHTML ((doctypeToks dt).foldl stepD none) (LNode.elem n a sc kids).toNode.reintake
      = docHTML dt (LNode.elem n a sc kids).toNode :=
  second_serialisation_identical dt n a sc kids (parsed_stable toks0 _ second0 hp _ rfl)

/-! ##### multi-root, without the `Stable` hypothesis -/

theorem roundtrip_multi_built (ks : List LNode) (hb : BuiltL (toNodeL ks)) (hwf : WFLL ks) (hok : ToksOK (toksL ks))
    (hmulti : run BState.init (toksL ks) = .multipleRoot) :
    ∃ toks kids',
      lexStrict (docHTML none (.elem wrapperName AttrState.empty false (toNodeL ks))) = some toks ∧
      feedTokens toks = .doc ⟨none, some (.elem wrapperName AttrState.empty false kids')⟩ true ∧
      obsL kids' = obsL (toNodeL ks) ∧
      docHTML none (.elem wrapperName AttrState.empty false kids')
        = docHTML none (.elem wrapperName AttrState.empty false (toNodeL ks)) := by
  obtain ⟨toks, h1, h2⟩ := roundtrip_multi ks hwf hok hmulti
  have hst := builtL_stable _ hb
  refine ⟨toks, _, h1, h2, lforest_obs_reintake ks hwf hst, ?_⟩
  simp only [docHTML, Node.innerHTML, if_true, Bool.false_eq_true, if_false]
  rw [htmlL_reintake _ hst]

/-- **C01a/b (multi-root, constructed).** Top-level blocks built through the constructor from raw lists, shown
    under the invisible wrapper: lexical hypotheses only. -/
theorem roundtrip_multi_constructed (cs : List CNode) (hwf : WFLL (buildCL cs)) (hok : ToksOK (toksL (buildCL cs)))
    (hmulti : run BState.init (toksL (buildCL cs)) = .multipleRoot) :
    ∃ toks kids',
      lexStrict (docHTML none (.elem wrapperName AttrState.empty false (toNodeL (buildCL cs)))) = some toks ∧
      feedTokens toks = .doc ⟨none, some (.elem wrapperName AttrState.empty false kids')⟩ true ∧
      obsL kids' = obsL (toNodeL (buildCL cs)) ∧
      docHTML none (.elem wrapperName AttrState.empty false kids')
        = docHTML none (.elem wrapperName AttrState.empty false (toNodeL (buildCL cs))) :=
  roundtrip_multi_built _ (cnodeL_built cs) hwf hok hmulti

/-- **C01a/b (multi-root, parsed).** A wrapped document obtained from a previous parse: `WF` follows from `hp`. -/
theorem roundtrip_multi_parsed (toks0 : List Token) (dt0 : Option Str) (second0 : Bool) (ks : List LNode)
    (hp : feedTokens toks0 = .doc ⟨dt0, some (.elem wrapperName AttrState.empty false (toNodeL ks))⟩ second0)
    (hok : ToksOK (toksL ks)) (hmulti : run BState.init (toksL ks) = .multipleRoot) :
    ∃ toks kids',
      lexStrict (docHTML none (.elem wrapperName AttrState.empty false (toNodeL ks))) = some toks ∧
      feedTokens toks = .doc ⟨none, some (.elem wrapperName AttrState.empty false kids')⟩ true ∧
      obsL kids' = obsL (toNodeL ks) ∧
      docHTML none (.elem wrapperName AttrState.empty false kids')
        = docHTML none (.elem wrapperName AttrState.empty false (toNodeL ks)) := by
  have hb := feedTokens_built toks0 _ second0 hp _ rfl
  have hl := feedTokens_lex toks0 _ second0 hp _ rfl
  simp only [Node.Built] at hb
  simp only [Node.Lex] at hl
  exact roundtrip_multi_built ks hb.2 (wfL_of_lex ks hl.2.2.2) hok hmulti

/-! #### C01a at `norm` level — API-built trees with arbitrary text segmentation

  Review finding (C01-2): the header cited a theorem that did not exist.  What holds: -/

/-- `getHTML` depends only on the normal form of the tree (adjacent text blocks merged, empty ones dropped) -/
theorem getHTML_ignores_text_segmentation (dt : Option Str) (t : Node) : docHTML dt t.norm = docHTML dt t :=
  docHTML_norm dt t

/-- **C01a (any text segmentation).** `t` is ANY tree — text blocks split or empty as the DOM API leaves them —
    that equals a lexical normal form `l` up to text segmentation.  Then `getHTML t` is `getHTML l`, it lexes, and the
    parse of it is `t` with its stores re-read, up to text segmentation; if moreover every store of `t` is re-read
    exactly (`Stable`: e.g. `Built`), the parse shows the same names, attribute pairs, flags and merged text as `t`. -/
theorem roundtrip_single_any_segmentation (dt : Option Str) (t : Node) (n : Str) (a : AttrState) (sc : Bool)
    (kids : List LNode) (hnorm : t.norm = (LNode.elem n a sc kids).toNode.norm)
    (hwf : (LNode.elem n a sc kids).WF) (hw : n ≠ wrapperName)
    (hok : ToksOK (doctypeToks dt ++ (LNode.elem n a sc kids).toks)) :
    ∃ toks dt' parsed,
      lexStrict (docHTML dt t) = some toks ∧
      feedTokens toks = .doc ⟨dt', some parsed⟩ false ∧
      parsed.norm = t.reintake.norm ∧
      (t.Stable → parsed.norm.obs = t.norm.obs) := by
  obtain ⟨toks, h1, h2⟩ := roundtrip_single dt n a sc kids hwf hw hok
  have hhtml : docHTML dt t = docHTML dt (LNode.elem n a sc kids).toNode := by
    rw [← docHTML_norm dt t, hnorm, docHTML_norm]
  have hn : (LNode.elem n a sc kids).toNode.reintake.norm = t.reintake.norm := by
    rw [norm_reintake, ← hnorm, ← norm_reintake]
  refine ⟨toks, _, _, by rw [hhtml]; exact h1, h2, hn, ?_⟩
  intro hst
  rw [hn, norm_reintake, obs_reintake_norm t hst]

/-! #### Non-vacuity with class / style / spellcheck, duplicates, upper case, invalid names -/

/-- `AdvancedTag('DIV', [('CLASS','  a   b '), ('style','COLOR : red;; margin:0'), ('id','x'), ('ID','y'), ('1bad','z'),
      ('spellcheck','yes'), ('hidden', None)])` with a text block, a `<br>` and a `<p class>` (no class names) inside -/
def exStyledAttrs : List Attr :=
  [("CLASS".toList, some "  a   b ".toList), ("style".toList, some "COLOR : red;; margin:0".toList),
   ("id".toList, some "x".toList), ("ID".toList, some "y".toList), ("1bad".toList, some "z".toList),
   ("spellcheck".toList, some "yes".toList), ("hidden".toList, none)]

def exStyledKids : List CNode :=
  [.tok (.data "t".toList), .elem "br".toList [] false [],
   .elem "P".toList [("class".toList, none), ("style".toList, some "top: 1px".toList)] false [.tok (.entity "amp".toList)]]

def exStyled : CNode := .elem "DIV".toList exStyledAttrs false exStyledKids

/-- what the constructor made of the raw list: names lower-cased, the invalid name dropped, the last `id` at the
    position of the first, class words joined by single blanks, the style re-rendered, spellcheck as boolean string;
    `class` listed last, `style` at its dict position -/
example : (intake exStyledAttrs AttrState.empty).view =
    [("style".toList, some "color: red; margin: 0".toList), ("id".toList, some "y".toList),
     ("spellcheck".toList, some "true".toList), ("hidden".toList, none), ("class".toList, some "a b".toList)] := by
  decide

theorem exStyled_wf : exStyled.build.WF := by
  simp only [exStyled, exStyledKids, CNode.build, buildCL, LNode.WF, WFLL, Spec.textOf]
  decide

set_option maxRecDepth 8192 in
theorem exStyled_lexOK : exStyled.build.LexOK := by
  simp only [exStyled, exStyledKids, exStyledAttrs, CNode.build, buildCL, LNode.LexOK, LexOKL, NoAdjL, RawKidsOK, isDataTok]
  decide

/-- `roundtrip_single_constructed` applies to it: the hypotheses are satisfiable with class and style present -/
example : ∃ toks dt' parsed,
    lexStrict (docHTML (some "DOCTYPE html".toList) exStyled.build.toNode) = some toks ∧
    feedTokens toks = .doc ⟨dt', some parsed⟩ false ∧
    parsed.obs = exStyled.build.toNode.obs ∧
    docHTML dt' parsed = docHTML (some "DOCTYPE html".toList) exStyled.build.toNode :=
  roundtrip_single_constructed (some "DOCTYPE html".toList) "DIV".toList exStyledAttrs false exStyledKids
    exStyled_wf (by decide)
    (by
      have hwf := exStyled_wf
      have hlex := exStyled_lexOK
      simp only [exStyled, CNode.build] at hwf hlex ⊢
      exact toksOK_of_lexOK_single _ _ _ _ _ hwf hlex (Or.inr (by decide)))

/-- `second_serialisation_identical` (the original theorem, hypothesis `Stable`) instantiated on it: the hypothesis
    is met by `constructed_stable` -/
example : docHTML ((doctypeToks (some "DOCTYPE html".toList)).foldl stepD none) exStyled.build.toNode.reintake
    = docHTML (some "DOCTYPE html".toList) exStyled.build.toNode := by
  have hst := constructed_stable exStyled
  simp only [exStyled, CNode.build] at hst ⊢
  exact second_serialisation_identical _ _ _ _ _ hst

-- the serialisation in question, spelled out
set_option maxRecDepth 8192 in
example : docHTML none exStyled.build.toNode
    = ("<div style=\"color: red; margin: 0\" id=\"y\" spellcheck=\"true\" hidden class=\"a b\" >t<br />"
       ++ "<p style=\"top: 1px\" >&amp;</p></div>").toList := by decide

/-- a multi-root forest with class and style attributes: two `<p>` built from raw lists -/
def exForest : List CNode :=
  [.elem "p".toList [("class".toList, some "x  y".toList)] false [.tok (.data "a".toList)],
   .tok (.comment "c".toList),
   .elem "P".toList [("STYLE".toList, some "color:red".toList), ("class".toList, some "z".toList)] false []]

theorem exForest_wf : WFLL (buildCL exForest) := by
  simp only [exForest, CNode.build, buildCL, LNode.WF, WFLL, Spec.textOf]
  decide

set_option maxRecDepth 8192 in
theorem exForest_lexOK : LexOKL (buildCL exForest) := by
  simp only [exForest, CNode.build, buildCL, LNode.LexOK, LexOKL, NoAdjL, RawKidsOK, isDataTok]
  decide

theorem exForest_noAdj : NoAdjL (buildCL exForest) := by
  simp [exForest, CNode.build, buildCL, NoAdjL, isDataTok]

set_option maxRecDepth 8192 in
theorem exForest_multi : run BState.init (toksL (buildCL exForest)) = .multipleRoot := by rfl

/-- `roundtrip_multi` (the original theorem) instantiated: `hmulti` and `ToksOK` hold for the forest -/
example : ∃ toks, lexStrict (docHTML none (.elem wrapperName AttrState.empty false (toNodeL (buildCL exForest)))) = some toks ∧
    feedTokens toks
      = .doc ⟨none, some (.elem wrapperName AttrState.empty false (reintakeL (toNodeL (buildCL exForest))))⟩ true :=
  roundtrip_multi (buildCL exForest) exForest_wf
    (toksOK_of_lexOK_multi _ exForest_wf exForest_lexOK exForest_noAdj) exForest_multi

/-- …and the form without `Stable`: same attribute pairs, identical second serialisation -/
example : ∃ toks kids',
    lexStrict (docHTML none (.elem wrapperName AttrState.empty false (toNodeL (buildCL exForest)))) = some toks ∧
    feedTokens toks = .doc ⟨none, some (.elem wrapperName AttrState.empty false kids')⟩ true ∧
    obsL kids' = obsL (toNodeL (buildCL exForest)) ∧
    docHTML none (.elem wrapperName AttrState.empty false kids')
      = docHTML none (.elem wrapperName AttrState.empty false (toNodeL (buildCL exForest))) :=
  roundtrip_multi_constructed exForest exForest_wf
    (toksOK_of_lexOK_multi _ exForest_wf exForest_lexOK exForest_noAdj) exForest_multi

/-- a parsed instance: the tokens of `<p class="a  b" CLASS=c>x</p>` (duplicate `class`: the last one wins) give a
    tree to which `roundtrip_single_parsed` applies -/
def exParsedToks : List Token :=
  [.start "p".toList [("class".toList, some "a  b".toList), ("CLASS".toList, some "c".toList)], .data "x".toList,
   .end_ "p".toList]

def exParsedRoot : LNode :=
  .elem "p".toList (intake [("class".toList, some "a  b".toList), ("CLASS".toList, some "c".toList)] AttrState.empty)
    false [.tok (.data "x".toList)]

theorem exParsed_feed : feedTokens exParsedToks = .doc ⟨none, some exParsedRoot.toNode⟩ false := by rfl

example : ∃ toks dt' parsed,
    lexStrict (docHTML none exParsedRoot.toNode) = some toks ∧
    feedTokens toks = .doc ⟨dt', some parsed⟩ false ∧
    parsed.obs = exParsedRoot.toNode.obs ∧
    docHTML dt' parsed = docHTML none exParsedRoot.toNode :=
  roundtrip_single_parsed exParsedToks none false none _ _ _ _ exParsed_feed (by decide)
    (toksOK_of_lexOK_single none _ _ _ _
      (parsed_lexical_normal_form exParsedToks _ false exParsed_feed exParsedRoot rfl)
      (by simp only [exParsedRoot, LNode.LexOK, LexOKL, NoAdjL, RawKidsOK, isDataTok]; decide) trivial)

/-- an API-built tree with the text of `exParsedRoot` split up and empty blocks around it -/
def exSplit : Node :=
  .elem "p".toList (intake [("class".toList, some "a  b".toList), ("CLASS".toList, some "c".toList)] AttrState.empty) false
    [.text [], .text "x".toList, .text []]

/-- it equals `exParsedRoot` up to text segmentation … -/
theorem exSplit_norm : exSplit.norm = exParsedRoot.toNode.norm := by
  simp [exSplit, Node.norm, normL, exParsedRoot, LNode.toNode, toNodeL, textOfD, Spec.textOf]

/-- … so `roundtrip_single_any_segmentation` applies: its hypotheses are satisfiable by a tree that is NOT in
    lexical normal form -/
example : ∃ toks dt' parsed,
    lexStrict (docHTML none exSplit) = some toks ∧
    feedTokens toks = .doc ⟨dt', some parsed⟩ false ∧
    parsed.norm = exSplit.reintake.norm ∧
    (exSplit.Stable → parsed.norm.obs = exSplit.norm.obs) :=
  roundtrip_single_any_segmentation none exSplit _ _ _ _ exSplit_norm
    (parsed_lexical_normal_form exParsedToks _ false exParsed_feed exParsedRoot rfl) (by decide)
    (toksOK_of_lexOK_single none _ _ _ _
      (parsed_lexical_normal_form exParsedToks _ false exParsed_feed exParsedRoot rfl)
      (by simp only [exParsedRoot, LNode.LexOK, LexOKL, NoAdjL, RawKidsOK, isDataTok]; decide) trivial)

end AHP.C01
