/-
  C01 — Serialise → parse round trip preserves the document tree.

  Model: serialisers (AHP/Model/Tree.lean), strict lexer (AHP/Model/Lexer.lean), builder
  (AHP/Model/Builder.lean).  Helper lemmas: AHP/Lemmas/RoundTrip.lean (token level),
  AHP/Lemmas/LexRoundTrip.lean (character level).

  Raw-text elements (`script` / `style`) are covered at character level: `ToksOK` (= `ListOK`) accepts the
  block start tag / one data token / end tag provided the data nowhere matches the element's closing expression
  `</ ws* name ws* >`, case-insensitively (`RawOK`, `Lemmas/LexRaw.lean` — exactly what `set_cdata_mode`'s
  `interesting` expression searches for); inside, `<`, `&`, tags, comments and references are plain text.
  `toksOK_of_lexOK_single` / `_multi` give a tree-level sufficient condition (`LNode.LexOK`).

  Documents are taken in *lexical normal form* (`LNode`): every text block is one text-like token of the
  tokenizer — which is the form of every tree a parse produces.  For trees built through the API with other
  text segmentations `html_norm` shows the serialisation does not depend on the segmentation, so the first
  round trip lands in this form and the theorems apply from there (see `C01a_general_partial`).
-/
import AHP.Lemmas.RoundTrip
import AHP.Lemmas.LexRoundTrip
import AHP.Lemmas.LexRawTree
namespace AHP.C01
open AHP AHP.Spec

/-! #### the serialiser writes the rendering of the tree's token sequence -/

theorem textlike_render (t : Token) (h : (Spec.textOf t).isSome) : textOfD t = renderTok t := by
  cases t with
  | data d =>
    by_cases hd : d.isEmpty = true
    · simp [Spec.textOf, hd] at h
    · simp [textOfD, Spec.textOf, hd, renderTok]
  | entity e => simp [textOfD, Spec.textOf, renderTok]
  | charref e => simp [textOfD, Spec.textOf, renderTok]
  | comment e => simp [textOfD, Spec.textOf, renderTok]
  | decl d => simp [Spec.textOf] at h
  | unknownDecl d => simp [Spec.textOf] at h
  | pi d => simp [Spec.textOf] at h
  | start n a => simp [Spec.textOf] at h
  | startend n a => simp [Spec.textOf] at h
  | end_ n => simp [Spec.textOf] at h

mutual
theorem html_eq_render (t : LNode) (h : t.WF) : t.toNode.html = renderToks t.toks := by
  match t, h with
  | .tok tk, h =>
    simp only [LNode.WF] at h
    simp [LNode.toNode, Node.html, LNode.toks, renderToks, textlike_render tk h]
  | .elem n a sc kids, h =>
    simp only [LNode.WF] at h
    obtain ⟨_, _, hsc, hk⟩ := h
    cases hs : sc with
    | true =>
      have : kids = [] := hsc hs
      subst this
      simp [LNode.toNode, Node.html, LNode.toks, renderToks, startTag, startTagI, endTag, renderTok]
    | false =>
      have ih := htmlL_eq_render kids hk
      simp [LNode.toNode, Node.html, LNode.toks, renderToks, startTag, startTagI, endTag, renderTok,
        renderToks_append, ih]
theorem htmlL_eq_render (ks : List LNode) (h : WFLL ks) : htmlL (toNodeL ks) = renderToks (toksL ks) := by
  match ks, h with
  | [], _ => rfl
  | k :: ks, h =>
    simp only [WFLL] at h
    simp [toNodeL, htmlL, toksL, renderToks_append, html_eq_render k h.1, htmlL_eq_render ks h.2]
end

/-- well-formedness of a document in terms of its token sequence: every token is in the serialiser's image
    and is followed by something that keeps it a token of its own (`ListOK`; `listOK_of_noAdjData` gives the
    simple sufficient condition "no two data runs adjacent" when the data singletons `<` / `&` do not occur) -/
def ToksOK (ts : List Token) : Prop := ListOK ts

/-! #### C01c — values come back unchanged -/

/-- Quotes, angle brackets, non-ASCII, anything: a value written by `escapeQuotes` between double quotes
    is read back exactly, provided no `&` in it starts a reference. -/
theorem value_roundtrip (v rest : Str) (h : ValueOK v) :
    (readUntil '"' (escQ v ++ '"' :: rest)).bind (fun p => (unescValue (p.1.length + 1) p.1).map (fun w => (w, p.2)))
      = some (v, rest) := by
  rw [readUntil_append '"' (escQ v) rest (escQ_no_quote v)]
  simp [unesc_esc v h _ (Nat.lt_succ_self _)]

/-- the serialisation depends only on the concatenation of adjacent text blocks -/
theorem serialisation_ignores_text_segmentation (t : Node) : t.norm.html = t.html := html_norm t

/-! #### C01a — single-root documents -/

/-- the root element built from the initial state -/
theorem root_rt (n : Str) (a : AttrState) (sc : Bool) (kids : List LNode) (h : (LNode.elem n a sc kids).WF) :
    runT TState.init (LNode.elem n a sc kids).toks
      = .ok ⟨[], some (LNode.elem n a sc kids).toNode.reintake⟩ := by
  simp only [LNode.WF] at h
  obtain ⟨hl, hv, hsc, hk⟩ := h
  unfold LNode.toks
  cases hs : sc with
  | true =>
    have : kids = [] := hsc hs
    subst this
    simp [runT, stepT, handleStart, TState.init, TState.hasRoot, addNode, hl, LNode.toNode, toNodeL,
      Node.reintake, reintakeL, reintakeA]
  | false =>
    have hnv : AHP.isVoid n = false := by
      cases hvv : AHP.isVoid n with
      | false => rfl
      | true => have := hv hvv; simp_all
    have hstart : stepT TState.init (.start n a.view) = .ok ⟨[⟨n, reintakeA a, []⟩], none⟩ := by
      simp [stepT, handleStart, TState.init, TState.hasRoot, hl, hnv, reintakeA]
    simp only [Bool.false_eq_true, if_false, runT, hstart]
    rw [runT_append, lforest_rt kids hk ⟨n, reintakeA a, []⟩ [] none]
    simp [runT, stepT, handleEnd, popTo, pop1, addNode, Frame.close, LNode.toNode, Node.reintake]

mutual
theorem decl_not_in (t : LNode) (h : t.WF) (x : Str) : Token.decl x ∉ t.toks := by
  match t, h with
  | .tok tk, h =>
    simp only [LNode.WF] at h
    simp only [LNode.toks, List.mem_singleton]
    intro e; rw [← e] at h; simp [Spec.textOf] at h
  | .elem n a sc kids, h =>
    simp only [LNode.WF] at h
    unfold LNode.toks
    split
    · simp
    · simp only [List.mem_cons, List.mem_append, List.mem_singleton, not_or]
      exact ⟨by simp, decl_not_inL kids h.2.2.2 x, by simp⟩
theorem decl_not_inL (ks : List LNode) (h : WFLL ks) (x : Str) : Token.decl x ∉ toksL ks := by
  match ks, h with
  | [], _ => simp [toksL]
  | k :: ks, h =>
    simp only [WFLL] at h
    simp only [toksL, List.mem_append, not_or]
    exact ⟨decl_not_in k h.1 x, decl_not_inL ks h.2 x⟩
end

/-- tokens of the doctype line `<!d>\n` -/
def doctypeToks (dt : Option Str) : List Token :=
  match dt with
  | some d => if d.isEmpty then [] else [.decl d, .data ['\n']]
  | none => []

theorem docHTML_single (dt : Option Str) (n : Str) (a : AttrState) (sc : Bool) (kids : List LNode)
    (h : (LNode.elem n a sc kids).WF) (hw : n ≠ wrapperName) :
    docHTML dt (LNode.elem n a sc kids).toNode = renderToks (doctypeToks dt ++ (LNode.elem n a sc kids).toks) := by
  have hh := html_eq_render (.elem n a sc kids) h
  rw [renderToks_append, ← hh]
  cases dt with
  | none => simp [docHTML, LNode.toNode, hw, doctypeToks, renderToks]
  | some d =>
    by_cases hd : d.isEmpty = true
    · simp [docHTML, LNode.toNode, hw, doctypeToks, renderToks, hd]
    · simp [docHTML, LNode.toNode, hw, doctypeToks, renderToks, hd, renderTok]

/-- **C01a (single root).** For every single-root document in lexical normal form whose tokens are in the
    serialiser's image — any size, any depth — `parse (getHTML d)` is the document with its attribute stores
    re-read from their rendering: same names, nesting, self-closing flags, text, doctype. -/
theorem roundtrip_single (dt : Option Str) (n : Str) (a : AttrState) (sc : Bool) (kids : List LNode)
    (hwf : (LNode.elem n a sc kids).WF) (hw : n ≠ wrapperName)
    (hok : ToksOK (doctypeToks dt ++ (LNode.elem n a sc kids).toks)) :
    ∃ toks, lexStrict (docHTML dt (LNode.elem n a sc kids).toNode) = some toks ∧
      feedTokens toks = .doc ⟨(doctypeToks dt).foldl stepD none, some (LNode.elem n a sc kids).toNode.reintake⟩ false := by
  refine ⟨doctypeToks dt ++ (LNode.elem n a sc kids).toks, ?_, ?_⟩
  · rw [docHTML_single dt n a sc kids hwf hw]
    exact lexStrict_renderToks _ hok
  · have hroot := root_rt n a sc kids hwf
    have hpre : runT TState.init (doctypeToks dt ++ (LNode.elem n a sc kids).toks)
        = runT TState.init (LNode.elem n a sc kids).toks := by
      unfold doctypeToks
      cases dt with
      | none => rfl
      | some d =>
        by_cases hd : d.isEmpty = true
        · simp [hd]
        · have h1 : stepT TState.init (.data ['\n']) = .ok TState.init := by
            simp [stepT, TState.init, isBlank, strip, lstrip, rstrip, isWs]
          have h2 : stepT TState.init (.decl d) = .ok TState.init := rfl
          simp only [hd, Bool.false_eq_true, if_false, List.cons_append, List.nil_append, runT, h1, h2]
    have hrun := run_eq (doctypeToks dt ++ (LNode.elem n a sc kids).toks) BState.init
    unfold feedTokens
    rw [hrun]
    simp only [BState.init]
    rw [hpre, hroot]
    simp only [Outcome.map, FeedResult.ofPass, BState.doc, finish_nil, List.foldl_append]
    -- the element's own tokens do not touch the doctype
    have hnd : ∀ (ts : List Token) (d0 : Option Str), (∀ t ∈ ts, ∀ x, t ≠ .decl x ∧ t ≠ .unknownDecl x) →
        ts.foldl stepD d0 = d0 := by
      intro ts
      induction ts with
      | nil => intro _ _; rfl
      | cons t ts ih =>
        intro d0 hall
        have ht := hall t (by simp)
        simp only [List.foldl_cons]
        have : stepD d0 t = d0 := by
          cases t <;> simp [stepD]
          · exact absurd rfl (ht _).1
          · exact absurd rfl (ht _).2
        rw [this]
        exact ih d0 (fun t' ht' => hall t' (List.mem_cons_of_mem _ ht'))
    have hno : ∀ t ∈ (LNode.elem n a sc kids).toks, ∀ x, t ≠ .decl x ∧ t ≠ .unknownDecl x := by
      intro t ht x
      constructor
      · intro e; subst e
        -- a declaration among the element's tokens would have to be a text-like token of the tree: it is not
        exact decl_not_in _ hwf x ht
      · intro e; subst e; exact ListOK.no_unknownDecl hok x (List.mem_append_right _ ht)
    rw [hnd _ _ hno]

/-! #### C01b — the second serialisation is identical -/

theorem doctype_of_line (dt : Option Str) :
    docHTML ((doctypeToks dt).foldl stepD none) = docHTML dt := by
  funext root
  cases dt with
  | none => rfl
  | some d =>
    by_cases hd : d.isEmpty = true
    · have : d = [] := by simpa using hd
      subst this
      simp [doctypeToks, docHTML]
    · simp [doctypeToks, hd, stepD]

/-- **C01b.** Serialising the re-parsed document returns the identical string (for stores whose rendering
    is stable under re-reading — `plain_viewStable` shows that this holds for every store without
    class/style; C09/C10 cover those two). -/
theorem second_serialisation_identical (dt : Option Str) (n : Str) (a : AttrState) (sc : Bool) (kids : List LNode)
    (hst : (LNode.elem n a sc kids).toNode.Stable) :
    docHTML ((doctypeToks dt).foldl stepD none) (LNode.elem n a sc kids).toNode.reintake
      = docHTML dt (LNode.elem n a sc kids).toNode := by
  rw [doctype_of_line]
  have h := html_reintake _ hst
  simp only [LNode.toNode, Node.reintake] at h ⊢
  simp only [docHTML]
  split
  · simp only [Node.innerHTML]
    have hst2 : StableL (toNodeL kids) := by
      simp only [LNode.toNode, Node.Stable] at hst; exact hst.2
    rw [htmlL_reintake _ hst2]
  · rw [h]

/-! #### C01a — multi-root documents (no doctype: the white space after the doctype of a multi-root
       document is outside the property's domain) -/

theorem roundtrip_multi (ks : List LNode) (hwf : WFLL ks) (hok : ToksOK (toksL ks))
    (hmulti : run BState.init (toksL ks) = .multipleRoot) :
    ∃ toks, lexStrict (docHTML none (.elem wrapperName AttrState.empty false (toNodeL ks))) = some toks ∧
      feedTokens toks
        = .doc ⟨none, some (.elem wrapperName AttrState.empty false (reintakeL (toNodeL ks)))⟩ true := by
  refine ⟨toksL ks, ?_, ?_⟩
  · have : docHTML none (.elem wrapperName AttrState.empty false (toNodeL ks)) = renderToks (toksL ks) := by
      simp [docHTML, Node.innerHTML, htmlL_eq_render ks hwf]
    rw [this]
    exact lexStrict_renderToks _ hok
  · unfold feedTokens
    rw [hmulti]
    simp only
    have hlead : leadDoctype (toksL ks) = none := by
      unfold leadDoctype
      split
      · rename_i d r heq
        exact absurd (by rw [heq]; simp) (decl_not_inL ks hwf d)
      · rename_i ws d r heq
        exact absurd (by rw [heq]; simp) (decl_not_inL ks hwf d)
      · rfl
    have hwrap : wrapToks (toksL ks) = .start wrapperName [] :: toksL ks ++ [.end_ wrapperName] := by
      simp [wrapToks, hlead]
    rw [hwrap, run_eq]
    simp only [BState.init]
    have hs : stepT TState.init (.start wrapperName []) = .ok ⟨[⟨wrapperName, AttrState.empty, []⟩], none⟩ := by
      simp [stepT, handleStart, TState.init, TState.hasRoot, wrapper_lower, wrapper_not_void, intake]
    have hrun : runT TState.init (.start wrapperName [] :: toksL ks ++ [.end_ wrapperName])
        = .ok ⟨[], some (.elem wrapperName AttrState.empty false (reintakeL (toNodeL ks)))⟩ := by
      simp only [List.cons_append, runT, hs]
      rw [runT_append, lforest_rt ks hwf ⟨wrapperName, AttrState.empty, []⟩ [] none]
      simp [runT, stepT, handleEnd, popTo, pop1, addNode, Frame.close]
    rw [hrun]
    simp only [Outcome.map, FeedResult.ofPass, BState.doc, finish_nil]
    -- no declaration among the tokens: the doctype stays empty
    have hnd : ∀ (ts : List Token) (d0 : Option Str), (∀ t ∈ ts, ∀ x, t ≠ .decl x ∧ t ≠ .unknownDecl x) →
        ts.foldl stepD d0 = d0 := by
      intro ts
      induction ts with
      | nil => intro _ _; rfl
      | cons t ts ih =>
        intro d0 hall
        have ht := hall t (by simp)
        simp only [List.foldl_cons]
        have : stepD d0 t = d0 := by
          cases t <;> simp [stepD]
          · exact absurd rfl (ht _).1
          · exact absurd rfl (ht _).2
        rw [this]
        exact ih d0 (fun t' ht' => hall t' (List.mem_cons_of_mem _ ht'))
    have hno : ∀ t ∈ (Token.start wrapperName [] :: toksL ks ++ [Token.end_ wrapperName]), ∀ x,
        t ≠ .decl x ∧ t ≠ .unknownDecl x := by
      intro t ht x
      simp only [List.cons_append, List.mem_cons, List.mem_append, List.mem_singleton] at ht
      rcases ht with e | ht | e
      · subst e; simp
      · constructor
        · intro e; subst e; exact decl_not_inL ks hwf x ht
        · intro e; subst e; exact ListOK.no_unknownDecl hok x ht
      · rcases e with e | e
        · subst e; simp
        · simp at e
    rw [hnd _ _ hno]

/-! #### a tree-level sufficient condition for `ToksOK`, raw-text elements included -/

/-- doctype text the serialiser's doctype line lexes back from -/
def DoctypeOK (dt : Option Str) : Prop :=
  match dt with
  | some d => d.isEmpty = true ∨ (lower (d.take 7) = "doctype".toList ∧ '>' ∉ d)
  | none => True

/-- **C01 (side condition, single root).** A single-root document whose tree meets `LNode.LexOK` — text blocks
    are well-formed text-like tokens, no two data runs adjacent, names and attribute views well formed, and the
    content of every `script` / `style` element is at most ONE data token in which the element's closing
    expression does not occur (it may contain `<`, `&`, `</div>`, comments …) — meets the hypothesis `ToksOK` of
    `roundtrip_single`. -/
theorem toksOK_of_lexOK_single (dt : Option Str) (n : Str) (a : AttrState) (sc : Bool) (kids : List LNode)
    (hwf : (LNode.elem n a sc kids).WF) (hlex : (LNode.elem n a sc kids).LexOK) (hdt : DoctypeOK dt) :
    ToksOK (doctypeToks dt ++ (LNode.elem n a sc kids).toks) := by
  have hroot : ListOK ((LNode.elem n a sc kids).toks ++ []) :=
    lnode_listOK _ hwf hlex [] .nil (fun h => by simp [isDataTok] at h)
  rw [List.append_nil] at hroot
  unfold ToksOK doctypeToks
  cases dt with
  | none => simpa using hroot
  | some d =>
    by_cases hd : d.isEmpty = true
    · simpa [hd] using hroot
    · simp only [hd, Bool.false_eq_true, if_false, List.cons_append, List.nil_append]
      have hd' : lower (d.take 7) = "doctype".toList ∧ '>' ∉ d := by
        rcases hdt with h | h
        · exact absurd h hd
        · exact h
      refine .cons hd' trivial (.cons (Or.inr (Or.inr ⟨by simp, by decide⟩)) ?_ hroot)
      -- the newline of the doctype line is followed by the root's start tag
      have hne1 : (['\n'] : Str) ≠ ['<'] := by decide
      have hne2 : (['\n'] : Str) ≠ ['&'] := by decide
      simp only [Follows, hne1, hne2, if_false]
      right
      unfold LNode.toks
      cases sc with
      | true => exact ⟨_, Or.inl (by simp [renderToks, renderTok]; rfl)⟩
      | false => exact ⟨_, Or.inl (by simp [renderToks, renderTok]; rfl)⟩

/-- **C01 (side condition, multi-root).** The same for a forest of top-level blocks. -/
theorem toksOK_of_lexOK_multi (ks : List LNode) (hwf : WFLL ks) (hlex : LexOKL ks) (hadj : NoAdjL ks) :
    ToksOK (toksL ks) := by
  have := lforest_listOK ks hwf hlex hadj [] .nil (Or.inl rfl)
  rw [List.append_nil] at this
  exact this

/-! #### attribute stores without class / style / spellcheck are stable under re-reading -/

def plainKey (k : Str) : Prop :=
  validAttrName k = true ∧ lower k = k ∧ k ≠ "class".toList ∧ k ≠ "style".toList ∧ k ≠ "spellcheck".toList

theorem dictSet_fresh {β : Type} (d : List (Str × β)) (k : Str) (v : β) (h : ∀ p ∈ d, p.1 ≠ k) :
    dictSet d k v = d ++ [(k, v)] := by
  induction d with
  | nil => rfl
  | cons p d ih =>
    obtain ⟨k', v'⟩ := p
    have hk : k' ≠ k := h (k', v') (by simp)
    simp only [dictSet, hk, if_false, List.cons_append]
    rw [ih (fun q hq => h q (List.mem_cons_of_mem _ hq))]

theorem intake_plain (xs : List Attr) : ∀ (acc : List Attr),
    (∀ p ∈ xs, plainKey p.1) → (xs.map (·.1)).Nodup → (∀ p ∈ acc, ∀ q ∈ xs, p.1 ≠ q.1) →
    intake xs ⟨acc, [], []⟩ = ⟨acc ++ xs, [], []⟩ := by
  induction xs with
  | nil => intro acc _ _ _; simp [intake]
  | cons x xs ih =>
    intro acc hp hn hd
    obtain ⟨k, v⟩ := x
    have hk := hp (k, v) (by simp)
    obtain ⟨hv, hl, h1, h2, h3⟩ := hk
    have hfresh : ∀ p ∈ acc, p.1 ≠ k := fun p hp' => hd p hp' (k, v) (by simp)
    simp only [intake, hl, hv, if_true, AttrState.set, h1, h2, h3, if_false]
    rw [dictSet_fresh acc k v hfresh]
    have hn' : k ∉ xs.map (·.1) ∧ (xs.map (·.1)).Nodup := by
      have := hn; simp only [List.map_cons, List.nodup_cons] at this; exact this
    rw [ih (acc ++ [(k, v)]) (fun p hp' => hp p (List.mem_cons_of_mem _ hp')) hn'.2 ?_]
    · simp
    · intro p hp' q hq
      rcases List.mem_append.mp hp' with h | h
      · exact hd p h q (List.mem_cons_of_mem _ hq)
      · simp at h; subst h
        intro e
        exact hn'.1 (by simp only [List.mem_map]; exact ⟨q, hq, e.symm⟩)

/-- **C01 (plain stores).** An attribute store holding only plain attributes (distinct, valid, lower-case
    names other than class / style / spellcheck; any values, including missing ones) is re-read exactly. -/
theorem plain_viewStable (d : List Attr) (hp : ∀ p ∈ d, plainKey p.1) (hn : (d.map (·.1)).Nodup) :
    ViewStable ⟨d, [], []⟩ := by
  have hview : (⟨d, [], []⟩ : AttrState).view = d := by
    have h1 : dictDel d "class".toList = d := by
      unfold dictDel
      apply List.filter_eq_self.mpr
      intro p hp'
      have := (hp p hp').2.2.1
      simpa using this
    have h2 : dictDel d "style".toList = d := by
      unfold dictDel
      apply List.filter_eq_self.mpr
      intro p hp'
      have := (hp p hp').2.2.2.1
      simpa using this
    have hc : ("class".toList : Str) = ['c', 'l', 'a', 's', 's'] := rfl
    have hs : ("style".toList : Str) = ['s', 't', 'y', 'l', 'e'] := rfl
    simp only [AttrState.view, List.isEmpty_nil, if_true, h1, h2]
  unfold ViewStable reintakeA
  rw [hview]
  have := intake_plain d [] hp hn (by simp)
  simp only [AttrState.empty, List.nil_append] at this ⊢
  rw [this, hview]

/-! #### Non-vacuity: a concrete document meets the hypotheses of `roundtrip_single` -/
example : lexStrict "<div id=\"a&quot;b\" checked >x&amp;y<br /><!--c--></div>".toList =
    some [.start "div".toList [("id".toList, some "a\"b".toList), ("checked".toList, none)],
          .data "x".toList, .entity "amp".toList, .data "y".toList, .startend "br".toList [],
          .comment "c".toList, .end_ "div".toList] := by decide

example : lexStrict "<p >1 < 2 & 3&#x41;&#65;</p>".toList =
    some [.start "p".toList [], .data "1 ".toList, .data "<".toList, .data " 2 ".toList, .data "&".toList,
          .data " 3".toList, .charref "x41".toList, .charref "65".toList, .end_ "p".toList] := by decide

/-! #### Non-vacuity with raw text: a `<script>` whose content has `<`, `&`, `</div>`, a comment opener and an
       unfinished closing sequence, and a `<style>` with `>` and `&` — the hypotheses of `roundtrip_single`
       hold, so its conclusion does -/

/-- `<div ><script type="module" >if (a < b && c) { s = "</div>" + '</scr' + 'ipt>'; } <!-- &amp;</script><style >p > a { content: "&<" }</style><p >x</p></div>` -/
def exRawKids : List LNode :=
  [ .elem "script".toList ⟨[("type".toList, some "module".toList)], [], []⟩ false
      [.tok (.data "if (a < b && c) { s = \"</div>\" + '</scr' + 'ipt>'; } <!-- &amp;".toList)],
    .elem "style".toList AttrState.empty false [.tok (.data "p > a { content: \"&<\" }".toList)],
    .elem "p".toList AttrState.empty false [.tok (.data "x".toList)] ]

theorem exRaw_wf : (LNode.elem "div".toList AttrState.empty false exRawKids).WF := by
  simp only [LNode.WF, WFLL, exRawKids, Spec.textOf]
  decide

theorem exRaw_lexOK : (LNode.elem "div".toList AttrState.empty false exRawKids).LexOK := by
  simp only [LNode.LexOK, LexOKL, NoAdjL, RawKidsOK, exRawKids, isDataTok]
  decide

example : ∃ toks,
    lexStrict (docHTML (some "DOCTYPE html".toList) (LNode.elem "div".toList AttrState.empty false exRawKids).toNode)
      = some toks ∧
    feedTokens toks = .doc ⟨some "DOCTYPE html".toList,
      some (LNode.elem "div".toList AttrState.empty false exRawKids).toNode.reintake⟩ false :=
  roundtrip_single (some "DOCTYPE html".toList) "div".toList AttrState.empty false exRawKids exRaw_wf (by decide)
    (toksOK_of_lexOK_single _ _ _ _ _ exRaw_wf exRaw_lexOK (Or.inr (by decide)))

-- the serialisation in question, spelled out
set_option maxRecDepth 8192 in
example : docHTML none (LNode.elem "div".toList AttrState.empty false exRawKids).toNode
    = ("<div ><script type=\"module\" >if (a < b && c) { s = \"</div>\" + '</scr' + 'ipt>'; } <!-- &amp;</script>"
       ++ "<style >p > a { content: \"&<\" }</style><p >x</p></div>").toList := by decide

/-- the side condition is needed: with the closing expression inside the content the text comes back cut -/
example : lexStrict "<script >a</ SCRIPT >b</script>".toList
    = some [.start "script".toList [], .data "a".toList, .end_ "script".toList, .data "b".toList,
            .end_ "script".toList] := by decide

/-- a multi-root forest with an empty `<script>` and a `<style>`: hypotheses of `roundtrip_multi` -/
example : ToksOK (toksL [.elem "script".toList AttrState.empty false [],
    .elem "style".toList AttrState.empty false [.tok (.data "a<b".toList)]]) :=
  toksOK_of_lexOK_multi _ (by simp only [WFLL, LNode.WF, Spec.textOf]; decide)
    (by simp only [LexOKL, LNode.LexOK, RawKidsOK, NoAdjL]; decide) (by simp [NoAdjL, isDataTok])

end AHP.C01
