/- C01 — property theorems (stub: the property is not claimed yet). -/
namespace AHP.C01
end AHP.C01
