/-
  C20 — fragment APIs build what the document parser would build, attached where asked.

  Model: AHP/Model/Fragment.lean (constructors), AHP/Model/Dom.lean (`createBlocks`, `World.appendInnerHTML`).
  The document parser is an input: `p : Parsed` is what the tree builder produced for the fragment
  text — `single r` (one root element; the first pass succeeded) or `multi tops` (the first pass raised
  MultipleRootNodeException; `tops` are the blocks of the invisible wrapper of the second pass).
  `p.build doc n` is the element tree the temporary parser holds; `sfragment n p` (AHP/Lemmas/DomSpec) is
  the list of top-level nodes of that parse as plain trees: `[root]`, resp. the wrapper's blocks.
  The theorems are stated over this input so that they compose with the tree-builder theorems (C02).
-/
import AHP.Lemmas.DomAppend
namespace AHP.C20
open AHP AHP.Dom AHP.Dom.Spec

/-! ## C20a — createElementFromHTML -/

/-- C20a. With exactly one root the result is the root the parser built (consistent, without parent);
    it never raises. -/
theorem createElementFromHTML_single (doc n : Nat) (r : FN) :
    createElementFromHTML doc n (.single r) = .ok ((Parsed.single r).build doc n).1 ∧
    OK none (some doc) ((Parsed.single r).build doc n).1 :=
  ⟨rfl, mk_OK none (some doc) r n⟩

/-- C20a. It raises MultipleRootNodeException exactly when the parser needed the wrapper, i.e. when
    there is more than one top-level node. -/
theorem createElementFromHTML_raises_iff (doc n : Nat) (p : Parsed) :
    createElementFromHTML doc n p = .error "MultipleRootNodeException" ↔ ∃ tops, p = .multi tops := by
  cases p with
  | single r => simp [createElementFromHTML]
  | multi tops => simp [createElementFromHTML]

/-! ## C20c — createBlocksFromHTML -/

/-- C20c. The blocks are exactly the top-level nodes of the parse, in order: the single root *itself*
    (not its contents), or the blocks of the wrapper — nothing else, no other text. -/
theorem createBlocksFromHTML_top_level (doc n : Nat) (p : Parsed) (hp : Parsed.plain p) :
    absL (createBlocksFromHTML doc n p) = (sfragment n p).1 :=
  (abs_createBlocks p hp doc n).1

/-- C20c. Every element handed out is a consistent root (no parent; children / text caches right;
    one ownerDocument throughout), uids are fresh and distinct. -/
theorem createBlocksFromHTML_roots (doc n : Nat) (p : Parsed) :
    (∀ r ∈ (createBlocksFromHTML doc n p).filter DN.isEl, RootOK r) ∧
    (idsL ((createBlocksFromHTML doc n p).filter DN.isEl)).Nodup ∧
    (∀ i ∈ idsL ((createBlocksFromHTML doc n p).filter DN.isEl), n ≤ i) := by
  obtain ⟨k, hok, hids, _⟩ := build_spec p doc n
  obtain ⟨h1, h2, h3⟩ := createBlocks_roots _ hok hids
  exact ⟨h1, h2, fun i hi => (h3 i hi).1⟩

/-- C20c. With several top-level nodes the elements handed out are detached from the wrapper:
    parentNode None and ownerDocument None throughout. -/
theorem createBlocksFromHTML_multi_detached (doc n : Nat) (tops : List FN) :
    ∀ r ∈ (createBlocksFromHTML doc n (.multi tops)).filter DN.isEl, Detached r := by
  obtain ⟨k, hok, _, _⟩ := build_spec (.multi tops) doc n
  simp only [createBlocksFromHTML, Parsed.build] at hok ⊢
  simp only [createBlocks, wrapperName, if_true]
  simp only [OK_el] at hok
  exact detachTop_roots _ _ hok.2.2.2.2.2 (fun i hi => hi)

/-! ## C20b — createElementsFromHTML -/

/-- C20b. The result is the list of top-level elements of `createBlocksFromHTML`, in order (with
    several top-level nodes: every one of them, detached, none missing). -/
theorem createElementsFromHTML_eq (doc n : Nat) (p : Parsed) (hp : Parsed.plain p) :
    (createElementsFromHTML doc n p).map (Option.map abs) = ((sfragment n p).1.filter SN.isEl).map some := by
  cases p with
  | single r =>
    have := abs_mk none (some doc) r n
    cases r with
    | text s => simp [createElementsFromHTML, Parsed.build, sfragment, smk, List.filter, SN.isEl]
    | el name attrs sc kids =>
      simp only [Parsed.plain] at hp
      simp only [createElementsFromHTML, Parsed.build, sfragment]
      rw [mk_el] at this ⊢
      simp only [if_neg hp, List.map_cons, List.map_nil, Option.map_some]
      rw [this.1]
      simp [smk, List.filter, SN.isEl]
  | multi tops =>
    obtain ⟨k, hok, hids, _⟩ := build_spec (.multi tops) doc n
    have hb := abs_createBlocks (.multi tops) trivial doc n
    simp only [createElementsFromHTML, Parsed.build, wrapperName, if_true] at hok hids hb ⊢
    simp only [OK_el] at hok
    have hnd : (elemIds (mkL (some n) (some doc) tops (n + 1)).1).Nodup := by
      have h0 : (elemIds (DN.text [] :: (mkL (some n) (some doc) tops (n + 1)).1)).Nodup := by
        apply elemIds_nodup
        have := range'_nodup n k
        rw [← hids] at this
        simp only [ids_el, List.nodup_cons] at this
        exact this.2
      simpa using h0
    rw [locRemoveChildren_all (elemIds (mkL (some n) (some doc) tops (n + 1)).1) _
      (DN.text [] :: (mkL (some n) (some doc) tops (n + 1)).1) rfl (by simp) hnd]
    rw [← hb.1]
    simp only [createBlocks, wrapperName, if_true, List.map_map]
    generalize (DN.text [] :: (mkL (some n) (some doc) tops (n + 1)).1) = l
    generalize elemIds (mkL (some n) (some doc) tops (n + 1)).1 = ch
    induction l with
    | nil => simp [List.filter]
    | cons b bs ih =>
      cases b with
      | text s => simpa [List.filter, DN.isEl, SN.isEl, detachTop] using ih
      | el m k =>
        simp only [List.filter, DN.isEl, List.map_cons, Function.comp, Option.map_some, detach, abs_reown, abs_setParent]
        simp only [absL_cons, abs_detachTop, abs_el, SN.isEl, List.filter, List.map_cons]
        exact congrArg _ ih

/-! ## C20d — appendInnerHTML -/

/-- C20d. `appendInnerHTML(h)` is `appendBlock` folded over `createBlocksFromHTML(h)` (whose new
    elements have joined the world as detached roots). -/
theorem appendInnerHTML_is_fold (w : World) (t : Nat) (p : Parsed) :
    w.appendInnerHTML t p =
      (World.appendBlocksLoop
        { roots := w.roots ++ (createBlocksFromHTML w.nextDoc w.next p).filter DN.isEl,
          next := (p.build w.nextDoc w.next).2, nextDoc := w.nextDoc + 1 }
        t ((createBlocksFromHTML w.nextDoc w.next p).map toBlk)).map (fun w' => (w', .none)) := rfl

/-- C20d. It keeps the world invariant of C04 — so afterwards every new element's parentNode is the
    element whose block it is, and its ownerDocument (and that of everything below it) is the
    target's document. -/
theorem appendInnerHTML_keeps_inv (w w' : World) (t : Nat) (p : Parsed) (v : Val) (hw : Inv w)
    (h : w.appendInnerHTML t p = some (w', v)) : Inv w' :=
  appendInnerHTML_Inv hw h

/-- C20d. On the reference document: appendInnerHTML is the documented append of the parse's
    top-level nodes, one by one. -/
theorem appendInnerHTML_refines (w : World) (t : Nat) (p : Parsed) (hw : Inv w) (hp : Parsed.plain p) :
    (w.appendInnerHTML t p).map absR = (absW w).appendInnerHTML t p :=
  abs_appendInnerHTML hw t p hp

theorem createBlocks_ne_nil (p : Parsed) (d n : Nat) : createBlocks (p.build d n).1 ≠ [] := by
  cases p with
  | single r =>
    cases r with
    | text s => simp [Parsed.build, createBlocks]
    | el name attrs sc kids =>
      simp only [Parsed.build]; rw [mk_el]; simp only [createBlocks]; split <;> simp
  | multi tops => simp [Parsed.build, createBlocks, wrapperName]

/-- C20d. After `appendInnerHTML(h)` the target's blocks are the previous blocks followed by the
    top-level nodes of the parse, and its innerHTML is the previous innerHTML followed by the
    serialisation of those nodes (also when the target was self-closing before: then the previous
    innerHTML is empty and the flag is cleared). -/
theorem appendInnerHTML_innerHTML (w w' : World) (t : Nat) (p : Parsed) (v : Val) (m : Meta) (bs : List DN)
    (hw : Inv w) (hp : Parsed.plain p) (hf : w.find? t = some (m, bs)) (h : w.appendInnerHTML t p = some (w', v)) :
    ∃ m' bs', w'.find? t = some (m', bs') ∧ absL bs' = absL bs ++ (sfragment w.next p).1 ∧
      innerHTML m' bs' = innerHTML m bs ++ shtmlL (sfragment w.next p).1 := by
  simp only [World.appendInnerHTML, Option.map_eq_some_iff] at h
  obtain ⟨w1, h1, he⟩ := h
  simp only [Prod.mk.injEq] at he
  obtain ⟨m', bs', hf', hb, hsc, _⟩ := appendLoop_blocks t (createBlocks (p.build w.nextDoc w.next).1) w.roots _ _ m bs w1 hf
    (fragment_world_Inv p hw) h1
  have hcb := (abs_createBlocks p hp w.nextDoc w.next).1
  rw [hcb] at hb
  refine ⟨m', bs', he.1 ▸ hf', hb, ?_⟩
  have hsc' : m'.sc = false := hsc (createBlocks_ne_nil p _ _)
  obtain ⟨par, own, hk⟩ := findL?_roots_OK t w.roots hw.roots hf
  simp only [OK_el] at hk
  have hold : innerHTML m bs = shtmlL (absL bs) := by
    simp only [innerHTML]
    split
    · rename_i hs
      rw [← innerL_abs, noContent_innerL bs (hk.2.2.2.2.1 hs)]
    · exact innerL_abs bs
  rw [hold]
  simp only [innerHTML, hsc']
  rw [innerL_abs, hb, shtmlL_append]
  simp

/-! ## C20e — createElement -/

/-- C20e. `createElement(name)` is detached (no parent, no ownerDocument), lower-cased, without
    attributes, children or text (its only block is the empty indent string); it is self-closing
    exactly for the void tag names. -/
theorem createElement_fresh (name : Str) (n : Nat) :
    createElement name n = .el ⟨n, lower name, [], isVoid (lower name), [], [], none, none⟩ [.text []] ∧
    Detached (createElement name n) := by
  refine ⟨by simp [createElement, mk_el], ?_⟩
  obtain ⟨m, bs, h, _, _⟩ := mk_isEl none none (lower name) [] false [] n
  exact ⟨m, bs, h, mk_OK none none _ n⟩

/-! ## Non-vacuity -/

def exFrag : Parsed := .multi [.text "hi ".toList, .el "b".toList [] false [.text "x".toList], .el "br".toList [] false []]
example : Parsed.plain exFrag := trivial
example : (createBlocksFromHTML 1 5 exFrag).length = 4 := by decide
example : ((initWorld true (.el "div".toList [] false []) []).appendInnerHTML 0 exFrag).isSome = true := by decide

end AHP.C20
