/-
  C20 — fragment APIs build what the document parser would build, attached where asked.

  Model: AHP/Model/Fragment.lean (constructors), AHP/Model/Dom.lean (`createBlocks`, `World.appendInnerHTML`).
  The document parser is an input: `p : Parsed` is what the tree builder produced for the fragment
  text — `single r` (one root element; the first pass succeeded) or `multi tops` (the first pass raised
  MultipleRootNodeException; `tops` are the blocks of the invisible wrapper of the second pass).
  `p.build doc n` is the element tree the temporary parser holds; `sfragment n p` (AHP/Lemmas/DomSpec) is
  the list of top-level nodes of that parse as plain trees: `[root]`, resp. the wrapper's blocks.
  The theorems are stated over this input so that they compose with the tree-builder theorems (C02).
-/
import AHP.Lemmas.DomAppend
import AHP.Lemmas.FragmentTokens
import AHP.Props.C02
import AHP.Props.C04
import AHP.Lemmas.DomAppendNew
import AHP.Lemmas.FragmentText
namespace AHP.C20
open AHP AHP.Dom AHP.Dom.Spec

/-! ## C20a — createElementFromHTML -/

/-- C20a. With exactly one root the result is the root the parser built (consistent, without parent);
    it never raises. -/
theorem createElementFromHTML_single (doc n : Nat) (r : FN) :
    createElementFromHTML doc n (.single r) = .ok ((Parsed.single r).build doc n).1 ∧
    OK none (some doc) ((Parsed.single r).build doc n).1 :=
  ⟨rfl, mk_OK none (some doc) r n⟩

/-- C20a. It raises MultipleRootNodeException exactly when the parser needed the wrapper, i.e. when
    there is more than one top-level node. -/
theorem createElementFromHTML_raises_iff (doc n : Nat) (p : Parsed) :
    createElementFromHTML doc n p = .error "MultipleRootNodeException" ↔ ∃ tops, p = .multi tops := by
  cases p with
  | single r => simp [createElementFromHTML]
  | multi tops => simp [createElementFromHTML]

/-! ## C20c — createBlocksFromHTML -/

/-- C20c. The blocks are exactly the top-level nodes of the parse, in order: the single root *itself*
    (not its contents), or the blocks of the wrapper — nothing else, no other text. -/
theorem createBlocksFromHTML_top_level (doc n : Nat) (p : Parsed) (hp : Parsed.plain p) :
    absL (createBlocksFromHTML doc n p) = (sfragment n p).1 :=
  (abs_createBlocks p hp doc n).1

/-- C20c. Every element handed out is a consistent root (no parent; children / text caches right;
    one ownerDocument throughout), uids are fresh and distinct. -/
theorem createBlocksFromHTML_roots (doc n : Nat) (p : Parsed) :
    (∀ r ∈ (createBlocksFromHTML doc n p).filter DN.isEl, RootOK r) ∧
    (idsL ((createBlocksFromHTML doc n p).filter DN.isEl)).Nodup ∧
    (∀ i ∈ idsL ((createBlocksFromHTML doc n p).filter DN.isEl), n ≤ i) := by
  obtain ⟨k, hok, hids, _⟩ := build_spec p doc n
  obtain ⟨h1, h2, h3⟩ := createBlocks_roots _ hok hids
  exact ⟨h1, h2, fun i hi => (h3 i hi).1⟩

/-- C20c. With several top-level nodes the elements handed out are detached from the wrapper:
    parentNode None and ownerDocument None throughout. -/
theorem createBlocksFromHTML_multi_detached (doc n : Nat) (tops : List FN) :
    ∀ r ∈ (createBlocksFromHTML doc n (.multi tops)).filter DN.isEl, Detached r := by
  obtain ⟨k, hok, _, _⟩ := build_spec (.multi tops) doc n
  simp only [createBlocksFromHTML, Parsed.build] at hok ⊢
  simp only [createBlocks, Dom.wrapperName, if_true]
  simp only [OK_el] at hok
  exact detachTop_roots _ _ hok.2.2.2.2.2 (fun i hi => hi)

/-! ## C20b — createElementsFromHTML -/

/-- C20b. The result is the list of top-level elements of `createBlocksFromHTML`, in order (with
    several top-level nodes: every one of them, detached, none missing). -/
theorem createElementsFromHTML_eq (doc n : Nat) (p : Parsed) (hp : Parsed.plain p) :
    (createElementsFromHTML doc n p).map (Option.map abs) = ((sfragment n p).1.filter SN.isEl).map some := by
  cases p with
  | single r =>
    have := abs_mk none (some doc) r n
    cases r with
    | text s => simp [createElementsFromHTML, Parsed.build, sfragment, smk, List.filter, SN.isEl]
    | el name attrs sc kids =>
      simp only [Parsed.plain] at hp
      simp only [createElementsFromHTML, Parsed.build, sfragment]
      rw [mk_el] at this ⊢
      simp only [if_neg hp, List.map_cons, List.map_nil, Option.map_some]
      rw [this.1]
      simp [smk, List.filter, SN.isEl]
  | multi tops =>
    obtain ⟨k, hok, hids, _⟩ := build_spec (.multi tops) doc n
    have hb := abs_createBlocks (.multi tops) trivial doc n
    simp only [createElementsFromHTML, Parsed.build, Dom.wrapperName, if_true] at hok hids hb ⊢
    simp only [OK_el] at hok
    have hnd : (elemIds (mkL (some n) (some doc) tops (n + 1)).1).Nodup := by
      have h0 : (elemIds (DN.text [] :: (mkL (some n) (some doc) tops (n + 1)).1)).Nodup := by
        apply elemIds_nodup
        have := range'_nodup n k
        rw [← hids] at this
        simp only [ids_el, List.nodup_cons] at this
        exact this.2
      simpa using h0
    rw [locRemoveChildren_all (elemIds (mkL (some n) (some doc) tops (n + 1)).1) _
      (DN.text [] :: (mkL (some n) (some doc) tops (n + 1)).1) rfl (by simp) hnd]
    rw [← hb.1]
    simp only [createBlocks, Dom.wrapperName, if_true, List.map_map]
    generalize (DN.text [] :: (mkL (some n) (some doc) tops (n + 1)).1) = l
    generalize elemIds (mkL (some n) (some doc) tops (n + 1)).1 = ch
    induction l with
    | nil => simp [List.filter]
    | cons b bs ih =>
      cases b with
      | text s => simpa [List.filter, DN.isEl, SN.isEl, detachTop] using ih
      | el m k =>
        simp only [List.filter, DN.isEl, List.map_cons, Function.comp, Option.map_some, detach, abs_reown, abs_setParent]
        simp only [absL_cons, abs_detachTop, abs_el, SN.isEl, List.filter, List.map_cons]
        exact congrArg _ ih

/-! ## C20d — appendInnerHTML -/

/-- C20d. `appendInnerHTML(h)` is `appendBlock` folded over `createBlocksFromHTML(h)` (whose new
    elements have joined the world as detached roots). -/
theorem appendInnerHTML_is_fold (w : World) (t : Nat) (p : Parsed) :
    w.appendInnerHTML t p =
      (World.appendBlocksLoop
        { roots := w.roots ++ (createBlocksFromHTML w.nextDoc w.next p).filter DN.isEl,
          next := (p.build w.nextDoc w.next).2, nextDoc := w.nextDoc + 1 }
        t ((createBlocksFromHTML w.nextDoc w.next p).map toBlk)).map (fun w' => (w', .none)) := rfl

/-- C20d. It keeps the world invariant of C04 — so afterwards every new element's parentNode is the
    element whose block it is, and its ownerDocument (and that of everything below it) is the
    target's document. -/
theorem appendInnerHTML_keeps_inv (w w' : World) (t : Nat) (p : Parsed) (v : Val) (hw : Inv w)
    (h : w.appendInnerHTML t p = some (w', v)) : Inv w' :=
  appendInnerHTML_Inv hw h

/-- C20d. On the reference document: appendInnerHTML is the documented append of the parse's
    top-level nodes, one by one. -/
theorem appendInnerHTML_refines (w : World) (t : Nat) (p : Parsed) (hw : Inv w) (hp : Parsed.plain p) :
    (w.appendInnerHTML t p).map absR = (absW w).appendInnerHTML t p :=
  abs_appendInnerHTML hw t p hp

theorem createBlocks_ne_nil (p : Parsed) (d n : Nat) : createBlocks (p.build d n).1 ≠ [] := by
  cases p with
  | single r =>
    cases r with
    | text s => simp [Parsed.build, createBlocks]
    | el name attrs sc kids =>
      simp only [Parsed.build]; rw [mk_el]; simp only [createBlocks]; split <;> simp
  | multi tops => simp [Parsed.build, createBlocks, Dom.wrapperName]

/-- C20d. After `appendInnerHTML(h)` the target's blocks are the previous blocks followed by the
    top-level nodes of the parse, and its innerHTML is the previous innerHTML followed by the
    serialisation of those nodes (also when the target was self-closing before: then the previous
    innerHTML is empty and the flag is cleared). -/
theorem appendInnerHTML_innerHTML (w w' : World) (t : Nat) (p : Parsed) (v : Val) (m : Meta) (bs : List DN)
    (hw : Inv w) (hp : Parsed.plain p) (hf : w.find? t = some (m, bs)) (h : w.appendInnerHTML t p = some (w', v)) :
    ∃ m' bs', w'.find? t = some (m', bs') ∧ absL bs' = absL bs ++ (sfragment w.next p).1 ∧
      innerHTML m' bs' = innerHTML m bs ++ shtmlL (sfragment w.next p).1 := by
  simp only [World.appendInnerHTML, Option.map_eq_some_iff] at h
  obtain ⟨w1, h1, he⟩ := h
  simp only [Prod.mk.injEq] at he
  obtain ⟨m', bs', hf', hb, hsc, _⟩ := appendLoop_blocks t (createBlocks (p.build w.nextDoc w.next).1) w.roots _ _ m bs w1 hf
    (fragment_world_Inv p hw) h1
  have hcb := (abs_createBlocks p hp w.nextDoc w.next).1
  rw [hcb] at hb
  refine ⟨m', bs', he.1 ▸ hf', hb, ?_⟩
  have hsc' : m'.sc = false := hsc (createBlocks_ne_nil p _ _)
  obtain ⟨par, own, hk⟩ := findL?_roots_OK t w.roots hw.roots hf
  simp only [OK_el] at hk
  have hold : innerHTML m bs = shtmlL (absL bs) := by
    simp only [innerHTML]
    split
    · rename_i hs
      rw [← innerL_abs, noContent_innerL bs (hk.2.2.2.2.1 hs)]
    · exact innerL_abs bs
  rw [hold]
  simp only [innerHTML, hsc']
  rw [innerL_abs, hb, shtmlL_append]
  simp


/-! ## C20 on token lists — which of `single` / `multi` the document parser produces

  Above, the parse of the fragment text is an input `p : Parsed`.  Here it is computed: `parsed toks` is what the
  MODEL of the document parser (`feedTokens`, AHP/Model/Builder.lean — first pass, wrapper fallback) hands to the
  fragment constructors for the token list `toks` of the fragment text.  With C02's `feed_eq_spec` it is read off
  the recursive-descent specification: `topNodes toks` are the top-level nodes of the fragment, a node is
  *significant* when it is an element or text that is not blank, and the parser produces

    * `single r`            when the only significant top-level node is the element `r`,
    * `multi (topNodes …)`  when there are two or more significant top-level nodes, or exactly one that is text,
    * nothing (`root is None`; the fragment APIs then raise `AttributeError` — outside the property's domain)
      when there is no significant node at all. -/

/-- what the document parser hands to the fragment constructors for the tokens of the fragment text -/
def parsed (toks : List Token) : Option Parsed := parsedOf (feedTokens toks)

/-- **which of single / multi**, for every token list that does not mention the reserved wrapper name. -/
theorem parsed_of_tokens (toks : List Token) (hw : C02.NoWrapper toks) :
    parsed toks =
      match oneRoot (sigNodes (topNodes toks)) with
      | some (some r) => some (.single r.toFN)
      | some none => none
      | none => some (.multi (toFNL (topNodes toks))) := by
  unfold parsed
  rw [C02.feed_eq_spec toks hw]
  unfold Spec.build
  rw [single_eq_oneRoot_top]
  cases h : oneRoot (sigNodes (topNodes toks)) with
  | none => rfl
  | some r =>
    cases r with
    | none => rfl
    | some r => rfl

/-- exactly one significant top-level node and it is an element ⇒ `single` with that element -/
theorem parsed_single (toks : List Token) (hw : C02.NoWrapper toks) (r : Node)
    (h : sigNodes (topNodes toks) = [r]) (hr : r.isText = false) : parsed toks = some (.single r.toFN) := by
  rw [parsed_of_tokens toks hw, h]
  cases r with
  | text s => simp [Node.isText] at hr
  | elem n a sc kids => rfl

/-- two or more significant top-level nodes, or a single one that is text ⇒ `multi` with all top-level nodes
    (blank text between them included) -/
theorem parsed_multi (toks : List Token) (hw : C02.NoWrapper toks)
    (h : 2 ≤ (sigNodes (topNodes toks)).length ∨ ∃ s, sigNodes (topNodes toks) = [.text s]) :
    parsed toks = some (.multi (toFNL (topNodes toks))) := by
  rw [parsed_of_tokens toks hw, (oneRoot_multi_iff _).mpr h]

/-- no significant top-level node ⇒ nothing is parsed -/
theorem parsed_none_iff (toks : List Token) (hw : C02.NoWrapper toks) :
    parsed toks = none ↔ sigNodes (topNodes toks) = [] := by
  rw [parsed_of_tokens toks hw]
  constructor
  · intro h
    cases ho : oneRoot (sigNodes (topNodes toks)) with
    | none => rw [ho] at h; cases h
    | some r =>
      cases r with
      | none => exact (oneRoot_none_iff _).mp ho
      | some r => rw [ho] at h; cases h
  · intro h; rw [h]; rfl

/-- the single root the parser hands over is not the wrapper (the fragment does not mention its name) -/
theorem parsed_plain (toks : List Token) (hw : C02.NoWrapper toks) (p : Parsed) (hp : parsed toks = some p) :
    Parsed.plain p := by
  rw [parsed_of_tokens toks hw] at hp
  cases ho : oneRoot (sigNodes (topNodes toks)) with
  | none => rw [ho] at hp; simp only [Option.some.injEq] at hp; rw [← hp]; trivial
  | some r =>
    cases r with
    | none => rw [ho] at hp; cases hp
    | some r =>
      rw [ho] at hp
      simp only [Option.some.injEq] at hp
      rw [← hp]
      -- the root was opened by a start tag of the input
      have hs : Spec.single (toks.length + 1) toks = some (some r) := by rw [single_eq_oneRoot_top, ho]
      obtain ⟨n, a', sc, kids, e, a, hm⟩ := single_root_name _ toks r hs
      subst e
      simp only [Node.toFN, Parsed.plain]
      have hne : lower n ≠ AHP.wrapperName := by
        rcases hm with hm | hm
        · have := hw _ hm; simpa [Spec.mentionsWrapper] using this
        · have := hw _ hm; simpa [Spec.mentionsWrapper] using this
      exact hne

/-- **C20a on token lists.** `createElementFromHTML` raises `MultipleRootNodeException` exactly when the
    significant top-level nodes (elements and non-blank text) of the fragment are not a single element — i.e.
    there are two or more of them, or the only one is text; with exactly one element (and any blank text,
    declarations, stray end tags around it) it never raises and returns that element. -/
theorem createElement_raises_iff (toks : List Token) (hw : C02.NoWrapper toks) (doc n : Nat) (p : Parsed)
    (hp : parsed toks = some p) :
    (createElementFromHTML doc n p = .error "MultipleRootNodeException" ↔
      (2 ≤ (sigNodes (topNodes toks)).length ∨ ∃ s, sigNodes (topNodes toks) = [.text s])) ∧
    (∀ r, sigNodes (topNodes toks) = [r] → r.isText = false →
      createElementFromHTML doc n p = .ok ((Parsed.single r.toFN).build doc n).1) := by
  constructor
  · rw [createElementFromHTML_raises_iff, ← oneRoot_multi_iff]
    rw [parsed_of_tokens toks hw] at hp
    constructor
    · rintro ⟨tops, e⟩
      subst e
      cases ho : oneRoot (sigNodes (topNodes toks)) with
      | none => rfl
      | some r =>
        rw [ho] at hp
        cases r with
        | none => cases hp
        | some r => simp at hp
    · intro ho
      rw [ho] at hp
      simp only [Option.some.injEq] at hp
      exact ⟨_, hp.symm⟩
  · intro r h hr
    have := parsed_single toks hw r h hr
    rw [this] at hp
    simp only [Option.some.injEq] at hp
    rw [← hp]
    rfl

/-- **C20c on token lists.** `createBlocksFromHTML` returns exactly the top-level nodes of the parse, in order —
    and which they are is decided by the tokens: the single root ITSELF when the only significant top-level node is
    an element, else every top-level node of the fragment (elements, text — blank text included —, references,
    comments) as the blocks of the wrapper. -/
theorem createBlocks_of_tokens (toks : List Token) (hw : C02.NoWrapper toks) (doc n : Nat) (p : Parsed)
    (hp : parsed toks = some p) :
    absL (createBlocksFromHTML doc n p) = (sfragment n p).1 ∧
    ((∃ r, sigNodes (topNodes toks) = [r] ∧ r.isText = false ∧ p = .single r.toFN) ∨
     ((2 ≤ (sigNodes (topNodes toks)).length ∨ ∃ s, sigNodes (topNodes toks) = [.text s]) ∧
       p = .multi (toFNL (topNodes toks)))) := by
  refine ⟨createBlocksFromHTML_top_level doc n p (parsed_plain toks hw p hp), ?_⟩
  have hp' := hp
  rw [parsed_of_tokens toks hw] at hp'
  cases ho : oneRoot (sigNodes (topNodes toks)) with
  | none =>
    rw [ho] at hp'
    simp only [Option.some.injEq] at hp'
    exact Or.inr ⟨(oneRoot_multi_iff _).mp ho, hp'.symm⟩
  | some r =>
    cases r with
    | none => rw [ho] at hp'; cases hp'
    | some r =>
      rw [ho] at hp'
      simp only [Option.some.injEq] at hp'
      obtain ⟨h1, h2⟩ := oneRoot_some _ r ho
      exact Or.inl ⟨r, h1, h2, hp'.symm⟩

/-- **C20b on token lists**: the elements `createElementsFromHTML` returns are the element nodes among those -/
theorem createElements_of_tokens (toks : List Token) (hw : C02.NoWrapper toks) (doc n : Nat) (p : Parsed)
    (hp : parsed toks = some p) :
    (createElementsFromHTML doc n p).map (Option.map abs) = ((sfragment n p).1.filter SN.isEl).map some :=
  createElementsFromHTML_eq doc n p (parsed_plain toks hw p hp)

/-! non-vacuity: the shapes of the property's quantifier text, decided on tokens -/
def fragOne : List Token :=
  [.data " \n".toList, .start "div".toList [("id".toList, some "a".toList)], .data "x".toList, .start "br".toList [],
   .end_ "div".toList, .data "  ".toList]
def fragTwo : List Token :=
  [.data "hi ".toList, .start "b".toList [], .data "x".toList, .end_ "b".toList, .data " ".toList, .startend "i".toList []]
def fragText : List Token := [.data "just text".toList, .entity "amp".toList]

private theorem noWrapper_of_dec (toks : List Token) (h : toks.all (fun t => !Spec.mentionsWrapper t) = true) :
    C02.NoWrapper toks := by
  intro t ht
  have := List.all_eq_true.mp h t ht
  simpa using this

example : C02.NoWrapper fragOne := noWrapper_of_dec _ (by decide)
/-- white space around a single element: single, the element itself -/
example : ∃ r, sigNodes (topNodes fragOne) = [r] ∧ r.isText = false ∧ parsed fragOne = some (.single r.toFN) := by
  refine ⟨(sigNodes (topNodes fragOne)).head!, by rfl, by decide, ?_⟩
  exact parsed_single fragOne (noWrapper_of_dec _ (by decide)) _ (by rfl) (by decide)
/-- text + element + blank text + element: multi, all four top-level nodes -/
example : (sigNodes (topNodes fragTwo)).length = 3 ∧ (topNodes fragTwo).length = 4 := by decide
example : parsed fragTwo = some (.multi (toFNL (topNodes fragTwo))) :=
  parsed_multi fragTwo (noWrapper_of_dec _ (by decide)) (Or.inl (by decide))
/-- text only: multi (so `createElementFromHTML` raises) -/
example : (createElementFromHTML 1 5 (.multi (toFNL (topNodes fragText))) = .error "MultipleRootNodeException") := rfl
example : parsed fragText = some (.multi (toFNL (topNodes fragText))) :=
  parsed_multi fragText (noWrapper_of_dec _ (by decide)) (Or.inl (by decide))

/-! ## C20d, directly about the NEW elements — and without a definedness hypothesis (review B, M6) -/

/-- C20d **never undefined, and what the new elements look like.**  For every element `t` of an invariant world and
    every fragment, `appendInnerHTML` is defined (`C04.appendInnerHTML_defined`: the elements `createBlocksFromHTML` creates
    are distinct detached roots with fresh uids, so the domain of the appending loop holds by construction) and
    afterwards:

    * the target's blocks are EXACTLY the old blocks followed by the blocks of `createBlocksFromHTML`, each element
      block attached (`attachBlk`: `parentNode` set, `ownerDocument` rewritten below it), text blocks as they are;
    * the target keeps its uid, name, attributes, parent and owner;
    * **every new top-level element's `parentNode` is the target, and the `ownerDocument` of it and of every element
      below it is the target's owner**; its uid is fresh (≥ the world's counter before the call);
    * the world invariant holds. -/
theorem appendInnerHTML_new_elements (w : World) (t : Nat) (p : Parsed) (m : Meta) (bs : List DN)
    (hw : Inv w) (hf : w.find? t = some (m, bs)) :
    ∃ w' m', w.appendInnerHTML t p = some (w', .none) ∧ Inv w' ∧
      w'.find? t = some (m', bs ++ (createBlocksFromHTML w.nextDoc w.next p).map (attachBlk m)) ∧
      (m'.id = t ∧ m'.name = m.name ∧ m'.attrs = m.attrs ∧ m'.parent = m.parent ∧ m'.owner = m.owner) ∧
      ∀ mc kc, DN.el mc kc ∈ (createBlocksFromHTML w.nextDoc w.next p).map (attachBlk m) →
        mc.parent = some t ∧ w.next ≤ mc.id ∧ ∀ e ∈ elems (.el mc kc), e.1.owner = m.owner := by
  have hd := C04.appendInnerHTML_defined w hw t (by simp [hf]) p
  simp only [Dom.step] at hd
  cases hr : w.appendInnerHTML t p with
  | none => rw [hr] at hd; simp at hd
  | some r =>
    have hinv' : Inv r.1 := appendInnerHTML_Inv (w' := r.1) (v := r.2) hw hr
    simp only [World.appendInnerHTML, Option.map_eq_some_iff] at hr
    obtain ⟨w1, h1, he⟩ := hr
    subst he
    obtain ⟨m', hfind, hk⟩ := appendLoop_exact t (createBlocks (p.build w.nextDoc w.next).1) w.roots _ _ m bs w1 hf
      (fragment_world_Inv p hw) h1
    have hid : m.id = t := find?_id t w.roots hf hw.roots
    obtain ⟨hroots, _, hfresh⟩ := createBlocksFromHTML_roots w.nextDoc w.next p
    refine ⟨w1, m', rfl, hinv', hfind, ⟨hk.1.trans hid, hk.2.1, hk.2.2.1, hk.2.2.2.1, hk.2.2.2.2⟩, ?_⟩
    intro mc kc hmem
    obtain ⟨b, hb, e⟩ := mem_map_attachBlk_el m _ hmem
    obtain ⟨h1', h2', h3'⟩ := attachBlk_el_spec m b (hroots b hb) e
    refine ⟨by rw [h1', hid], ?_, h3'⟩
    apply hfresh
    rw [h2']
    obtain ⟨m0, k0, rfl, _⟩ := hroots b hb
    exact el_mem_idsL _ hb

/-! ## C20c — "no text that is not in the fragment"

  `sfragment n (.multi tops)` (AHP/Lemmas/DomSpec.lean) starts with an EMPTY text block: that is the behaviour of the code
  written into the specification (`createBlocksFromHTML('hi <b>x</b>')` is `['', 'hi ', <b>]` on the library — the
  wrapper element's `blocks` start with the empty indent string every element is created with, and the function copies
  that list), not something the property asks for.  The property's wording is about text that is NOT in the fragment; it is
  proved on top of it: every NON-EMPTY text block returned is a top-level text node of the parse, i.e. the text of one
  text-like token (data, entity / character reference, comment) of the fragment. -/

/-- C20c at the level of the parse: a text block handed out is empty (the leading `''` of a multi-node fragment) or a
    top-level text node of the parse. -/
theorem createBlocks_text_in_parse (doc n : Nat) (p : Parsed) (hp : Parsed.plain p) (s : Str)
    (h : DN.text s ∈ createBlocksFromHTML doc n p) (hs : s ≠ []) :
    (∃ tops, p = .multi tops ∧ FN.text s ∈ tops) ∨ p = .single (.text s) := by
  rcases createBlocks_text_parsed doc n p hp s h with h0 | h1
  · exact absurd h0 hs
  · exact h1

/-- C20c **every non-empty text block returned occurs in the fragment's token list**: for the tokens `toks` of a
    fragment that does not mention the reserved wrapper name and the parse `p` the document parser hands over, a
    non-empty text block of `createBlocksFromHTML` is `Spec.textOf t` for some token `t` of `toks` — a data token's text,
    `&name;` / `&#n;` of a reference, `<!--…-->` of a comment.  (The only text block that is not: the empty one.) -/
theorem createBlocks_text_in_fragment (toks : List Token) (hw : C02.NoWrapper toks) (doc n : Nat) (p : Parsed)
    (hp : parsed toks = some p) (s : Str) (h : DN.text s ∈ createBlocksFromHTML doc n p) (hs : s ≠ []) :
    ∃ t ∈ toks, Spec.textOf t = some s := by
  have hplain := parsed_plain toks hw p hp
  rcases createBlocks_text_in_parse doc n p hplain s h hs with ⟨tops, rfl, hm⟩ | rfl
  · rcases (createBlocks_of_tokens toks hw doc n _ hp).2 with ⟨r, _, _, e⟩ | ⟨_, e⟩
    · cases e
    · simp only [Parsed.multi.injEq] at e
      rw [e] at hm
      exact topNodes_text_from_token toks s (toFNL_text_mem _ s hm)
  · rcases (createBlocks_of_tokens toks hw doc n _ hp).2 with ⟨r, _, hr, e⟩ | ⟨_, e⟩
    · simp only [Parsed.single.injEq] at e
      cases r with
      | text s' => simp [Node.isText] at hr
      | elem nm a sc kids => simp [Node.toFN] at e
    · cases e

/-! ## C20e — createElement -/

/-- C20e. `createElement(name)` is detached (no parent, no ownerDocument), lower-cased, without
    attributes, children or text (its only block is the empty indent string); it is self-closing
    exactly for the void tag names. -/
theorem createElement_fresh (name : Str) (n : Nat) :
    createElement name n = .el ⟨n, lower name, [], Dom.isVoid (lower name), [], [], none, none⟩ [.text []] ∧
    Detached (createElement name n) := by
  refine ⟨by simp [createElement, mk_el], ?_⟩
  obtain ⟨m, bs, h, _, _⟩ := mk_isEl none none (lower name) [] false [] n
  exact ⟨m, bs, h, mk_OK none none _ n⟩

/-! ## Non-vacuity -/

def exFrag : Parsed := .multi [.text "hi ".toList, .el "b".toList [] false [.text "x".toList], .el "br".toList [] false []]
example : Parsed.plain exFrag := trivial
example : (createBlocksFromHTML 1 5 exFrag).length = 4 := by decide
example : ((initWorld true (.el "div".toList [] false []) []).appendInnerHTML 0 exFrag).isSome = true := by decide
/-- the hypotheses of `appendInnerHTML_new_elements` on a concrete world, and what it says there: the `<div>` gets the
    four blocks `'' 'hi ' <b> <br>`, the two new elements have uids 2 and 3 (fresh), parent 0 and the document 0 -/
example : Inv (initWorld true (.el "div".toList [] false []) []) :=
  C04.initial_world_inv true _ [] (by decide) (by decide)
example : ((initWorld true (.el "div".toList [] false []) []).appendInnerHTML 0 exFrag).map
      (fun r => ((r.1.find? 0).map (fun e => e.2.map (fun b => match b with
        | .text s => (s, none, none)
        | .el mc _ => (mc.name, mc.parent, mc.owner)))))
    = some (some [([], none, none), ([], none, none), ("hi ".toList, none, none), ("b".toList, some 0, some 0),
        ("br".toList, some 0, some 0)]) := by decide
/-- `createBlocks_text_in_fragment` on `fragTwo` (`hi <b>x</b> <i/>`): the non-empty text blocks are the two data tokens -/
example : (createBlocksFromHTML 1 5 (.multi (toFNL (topNodes fragTwo)))).filterMap (fun b => match b with
      | .text s => some s
      | _ => none) = [[], "hi ".toList, " ".toList] := by decide

end AHP.C20
