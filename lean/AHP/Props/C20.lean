/- C20 — property theorems (stub: the property is not claimed yet). -/
namespace AHP.C20
end AHP.C20
