/-
  C13 — the validating parser raises exactly on nesting / attribute-name errors, else builds the same tree.

  Model: `vStepT`/`vRun`/`vFeedTokens` in AHP/Model/Builder.lean (Validator.py).  Specification:
  AHP/Spec/Validate.lean (`classify`: a scan over names only; `Bal`: the grammar of balanced documents).
-/
import AHP.Lemmas.BuilderTop
import AHP.Spec.Validate
namespace AHP.C13
open AHP AHP.Spec

def vRunT (s : TState) : List Token → Outcome TState
  | [] => .ok s
  | t :: ts => match vStepT s t with
    | .ok s' => vRunT s' ts
    | .multipleRoot => .multipleRoot
    | .invalidClose => .invalidClose
    | .missedClose => .missedClose
    | .invalidAttr => .invalidAttr

def outClass {σ : Type} : Outcome σ → Option Exc
  | .ok _ => none
  | .multipleRoot => some .multipleRoot
  | .invalidClose => some .invalidClose
  | .missedClose => some .missedClose
  | .invalidAttr => some .invalidAttr

/-- the validating run of the model is the tree run `vRunT` paired with the doctype fold -/
theorem vRun_eq (ts : List Token) : ∀ s : BState,
    vRun s ts = (vRunT s.tree ts).map (fun tr => ⟨tr, ts.foldl stepD s.doctype⟩) := by
  induction ts with
  | nil => intro s; rfl
  | cons t ts ih =>
    intro s
    simp only [vRun, vRunT, vStep]
    cases h : vStepT s.tree t <;> simp [Outcome.map, ih]

private theorem names_isEmpty (s : TState) : (names s).isEmpty = s.stack.isEmpty := by
  unfold names; cases s.stack <;> rfl

private theorem hasRoot_addNode (s : TState) (c : Node) : (addNode s c).hasRoot = true := by
  unfold addNode TState.hasRoot
  cases s.stack <;> simp

private theorem hasRoot_of_stack {s : TState} (h : s.stack ≠ []) : s.hasRoot = true := by
  unfold TState.hasRoot; cases hs : s.stack with
  | nil => exact absurd hs h
  | cons f fs => simp

/-- **C13a.** Which exception the validating parser raises — if any — is what the names-only scan says:
    the first stray close, skipped close or illegal attribute name, whichever comes first (or the
    several-top-level-nodes condition that triggers the wrapper retry). -/
theorem vRunT_classify (ts : List Token) : ∀ s : TState,
    outClass (vRunT s ts) = classify (names s) s.hasRoot ts := by
  induction ts with
  | nil => intro s; rfl
  | cons t ts ih =>
    intro s
    have hE := names_isEmpty s
    have hskip : vStepT s t = .ok s → classify (names s) s.hasRoot (t :: ts) = classify (names s) s.hasRoot ts →
        outClass (vRunT s (t :: ts)) = classify (names s) s.hasRoot (t :: ts) := by
      intro h1 h2; simp only [vRunT, h1, h2]; exact ih s
    have htext : ∀ txt : Str, vStepT s t = addTextStrict s txt →
        classify (names s) s.hasRoot (t :: ts) =
          (if (names s).isEmpty then some .multipleRoot else classify (names s) s.hasRoot ts) →
        outClass (vRunT s (t :: ts)) = classify (names s) s.hasRoot (t :: ts) := by
      intro txt h1 h2
      rw [h2, hE]
      simp only [vRunT, h1, addTextStrict]
      by_cases he : s.stack.isEmpty = true
      · simp [he, outClass]
      · simp only [he, Bool.false_eq_true, if_false]
        have hne : s.stack ≠ [] := by intro e; rw [e] at he; simp at he
        have := ih (addNode s (.text txt))
        rw [names_addNode, hasRoot_addNode, ← hasRoot_of_stack hne] at this
        exact this
    have hstart : ∀ (n : Str) (a : List Attr) (sc : Bool),
        vStepT s t = (if a.all (fun p => validAttrName p.1) then handleStart s n a sc else .invalidAttr) →
        classify (names s) s.hasRoot (t :: ts) =
          (if !legalAttrs a then some .invalidAttr
           else if s.hasRoot && (names s).isEmpty then some .multipleRoot
           else if sc || Spec.isVoid (lower n) then classify (names s) true ts
           else classify (lower n :: names s) true ts) →
        outClass (vRunT s (t :: ts)) = classify (names s) s.hasRoot (t :: ts) := by
      intro n a sc h1 h2
      rw [h2, hE]
      simp only [vRunT, h1, legalAttrs]
      by_cases hl : a.all (fun p => validAttrName p.1) = true
      · simp only [hl, if_true, Bool.not_true, Bool.false_eq_true, if_false]
        unfold handleStart
        by_cases hc : (s.hasRoot && s.stack.isEmpty) = true
        · have : (!s.hasRoot || !s.stack.isEmpty) = false := by
            simp only [Bool.and_eq_true] at hc; simp [hc.1, hc.2]
          simp [this, hc, outClass]
        · have : (!s.hasRoot || !s.stack.isEmpty) = true := by
            cases h1 : s.hasRoot <;> cases h2 : s.stack.isEmpty <;> simp_all
          simp only [this, if_true, hc, Bool.false_eq_true, if_false, isVoid_eq]
          by_cases hv : (sc || Spec.isVoid (lower n)) = true
          · simp only [hv, if_true]
            have := ih (addNode s (.elem (lower n) (intake a AttrState.empty) true []))
            rw [names_addNode, hasRoot_addNode] at this
            exact this
          · simp only [hv, Bool.false_eq_true, if_false]
            have := ih { s with stack := ⟨lower n, intake a AttrState.empty, []⟩ :: s.stack }
            simpa [names, TState.hasRoot] using this
      · simp [hl, outClass]
    cases t with
    | decl d => exact hskip rfl rfl
    | unknownDecl d => exact hskip rfl rfl
    | pi d => exact hskip rfl rfl
    | comment c => exact htext _ rfl (by simp [classify])
    | entity c => exact htext _ rfl (by simp [classify])
    | charref c => exact htext _ rfl (by simp [classify])
    | start n a => exact hstart n a false rfl (by simp [classify])
    | startend n a => exact hstart n a true rfl (by simp [classify])
    | data d =>
      by_cases hd : d.isEmpty = true
      · exact hskip (by simp [vStepT, stepT, hd]) (by simp [classify, hd])
      · by_cases he : s.stack.isEmpty = true
        · by_cases hb : isBlank d = true
          · exact hskip (by simp [vStepT, stepT, hd, he, hb]) (by simp [classify, hd, hE, he, hb])
          · simp [vRunT, vStepT, stepT, hd, he, hb, classify, hE, outClass]
        · have hne : s.stack ≠ [] := by intro e; rw [e] at he; simp at he
          have := ih (addNode s (.text d))
          rw [names_addNode, hasRoot_addNode, ← hasRoot_of_stack hne] at this
          simp only [vRunT, vStepT, stepT, hd, he, classify, hE]
          simpa using this
    | end_ n =>
      cases hs : s.stack with
      | nil => simp [vRunT, vStepT, hs, classify, names, outClass]
      | cons f fs =>
        have hn : names s = f.name :: fs.map (·.name) := by simp [names, hs]
        have hr : s.hasRoot = true := hasRoot_of_stack (by rw [hs]; simp)
        by_cases hc : (f.name :: fs.map (·.name)).contains n = true
        · have hc' : (List.map (fun x => x.name) (f :: fs)).contains n = true := by simpa using hc
          by_cases hm : f.name = n
          · have hv : vStepT s (.end_ n) = .ok (pop1 s) := by
              simp only [vStepT, hs, hc', Bool.not_true, Bool.false_eq_true, if_false, hm, ne_eq,
                not_true_eq_false]
            have hcl : classify (names s) s.hasRoot (.end_ n :: ts) = classify (fs.map (·.name)) true ts := by
              rw [hn, hr]
              have hc3 : (n :: fs.map (·.name)).contains n = true := by simp
              simp only [classify, hm, hc3, Bool.not_true, Bool.false_eq_true, if_false, ne_eq,
                not_true_eq_false]
            have hp : (pop1 s).hasRoot = true := by
              unfold pop1; rw [hs]; exact hasRoot_addNode _ _
            have hpn : names (pop1 s) = fs.map (·.name) := by
              unfold pop1; rw [hs]; simp only [names_addNode]; rfl
            have := ih (pop1 s)
            rw [hpn, hp] at this
            simp only [vRunT, hv, hcl]
            exact this
          · have hv : vStepT s (.end_ n) = .missedClose := by
              simp only [vStepT, hs, hc', Bool.not_true, Bool.false_eq_true, if_false, ne_eq, hm,
                not_false_eq_true, if_true]
            have hcl : classify (names s) s.hasRoot (.end_ n :: ts) = some .missedClose := by
              rw [hn]
              simp only [classify, hc, Bool.not_true, Bool.false_eq_true, if_false, ne_eq, hm,
                not_false_eq_true, if_true]
            simp only [vRunT, hv, hcl, outClass]
        · have hc' : (List.map (fun x => x.name) (f :: fs)).contains n = false := by simpa using hc
          have hc2 : (f.name :: fs.map (·.name)).contains n = false := by simpa using hc
          have hv : vStepT s (.end_ n) = .invalidClose := by
            simp only [vStepT, hs, hc', Bool.not_false, if_true]
          have hcl : classify (names s) s.hasRoot (.end_ n :: ts) = some .invalidClose := by
            rw [hn]
            simp only [classify, hc2, Bool.not_false, if_true]
          simp only [vRunT, hv, hcl, outClass]

/-- **C13c.** When the validating parser does not raise it has built exactly what the plain parser builds. -/
theorem vRunT_ok_same_tree (ts : List Token) : ∀ s s' : TState, vRunT s ts = .ok s' → runT s ts = .ok s' := by
  induction ts with
  | nil => intro s s' h; exact h
  | cons t ts ih =>
    intro s s' h
    simp only [vRunT] at h
    cases hv : vStepT s t with
    | ok s1 =>
      rw [hv] at h
      have hsame : stepT s t = .ok s1 := by
        cases t with
        | start n a =>
          simp only [vStepT] at hv; split at hv
          · exact hv
          · cases hv
        | startend n a =>
          simp only [vStepT] at hv; split at hv
          · exact hv
          · cases hv
        | end_ n =>
          cases hs : s.stack with
          | nil => simp [vStepT, hs] at hv
          | cons f fs =>
            by_cases hc' : (List.map (fun x => x.name) (f :: fs)).contains n = true
            · by_cases hm' : f.name = n
              · have hvv : vStepT s (.end_ n) = .ok (pop1 s) := by
                  simp only [vStepT, hs, hc', Bool.not_true, Bool.false_eq_true, if_false, hm', ne_eq,
                    not_true_eq_false]
                rw [hvv] at hv
                have hc2 : (List.map (fun x => x.name) s.stack).contains n = true := by rw [hs]; exact hc'
                simp only [stepT, handleEnd, hc2, if_true]
                have : popTo n s.stack.length s = pop1 s := by
                  rw [hs]; simp [popTo, hs, hm']
                rw [this]; exact hv
              · have hvv : vStepT s (.end_ n) = .missedClose := by
                  simp only [vStepT, hs, hc', Bool.not_true, Bool.false_eq_true, if_false, ne_eq, hm',
                    not_false_eq_true, if_true]
                rw [hvv] at hv; cases hv
            · have hc2 : (List.map (fun x => x.name) (f :: fs)).contains n = false := by simpa using hc'
              have hvv : vStepT s (.end_ n) = .invalidClose := by
                simp only [vStepT, hs, hc2, Bool.not_false, if_true]
              rw [hvv] at hv; cases hv
        | decl d => exact hv
        | unknownDecl d => exact hv
        | pi d => exact hv
        | comment d => exact hv
        | entity d => exact hv
        | charref d => exact hv
        | data d => exact hv
      simp only [runT, hsame]
      exact ih s1 s' h
    | multipleRoot => rw [hv] at h; cases h
    | invalidClose => rw [hv] at h; cases h
    | missedClose => rw [hv] at h; cases h
    | invalidAttr => rw [hv] at h; cases h

/-- **C13b (inside an open element).** A balanced sequence with legal attribute names is accepted and
    leaves the open elements as they were — proved from the grammar, not from the scan. -/
theorem bal_accepted_inside {ts : List Token} (hb : Bal ts) : ∀ s : TState, s.stack ≠ [] →
    ∃ s', vRunT s ts = .ok s' ∧ names s' = names s := by
  induction hb with
  | nil => intro s _; exact ⟨s, rfl, rfl⟩
  | inert t ts hi _ ih =>
    intro s hne
    have hst : (!s.stack.isEmpty) = true := by
      cases hs : s.stack with
      | nil => exact absurd hs hne
      | cons f fs => simp
    have : ∃ s1, vStepT s t = .ok s1 ∧ names s1 = names s ∧ s1.stack ≠ [] := by
      cases t with
      | start n a => simp [isInert] at hi
      | startend n a => simp [isInert] at hi
      | end_ n => simp [isInert] at hi
      | decl d => exact ⟨s, rfl, rfl, hne⟩
      | unknownDecl d => exact ⟨s, rfl, rfl, hne⟩
      | pi d => exact ⟨s, rfl, rfl, hne⟩
      | comment d => exact ⟨_, by simp only [vStepT, stepT]; exact stepT_text_ok s hne _, names_addNode _ _, stack_ne_of_names hne _⟩
      | entity d => exact ⟨_, by simp only [vStepT, stepT]; exact stepT_text_ok s hne _, names_addNode _ _, stack_ne_of_names hne _⟩
      | charref d => exact ⟨_, by simp only [vStepT, stepT]; exact stepT_text_ok s hne _, names_addNode _ _, stack_ne_of_names hne _⟩
      | data d =>
        by_cases hd : d.isEmpty = true
        · exact ⟨s, by simp [vStepT, stepT, hd], rfl, hne⟩
        · exact ⟨addNode s (.text d), by simp [vStepT, stepT, hd, hst], names_addNode _ _, stack_ne_of_names hne _⟩
    obtain ⟨s1, h1, h2, h3⟩ := this
    obtain ⟨s', h4, h5⟩ := ih s1 h3
    exact ⟨s', by simp only [vRunT, h1]; exact h4, by rw [h5, h2]⟩
  | void n a ts hl hv _ ih =>
    intro s hne
    have h1 : vStepT s (.start n a) = .ok (addNode s (.elem (lower n) (intake a AttrState.empty) true [])) := by
      simp only [vStepT]; rw [handleStart_inside s hne]
      simp only [legalAttrs] at hl; simp [hl, hv]
    obtain ⟨s', h4, h5⟩ := ih _ (stack_ne_of_names hne _)
    exact ⟨s', by simp only [vRunT, h1]; exact h4, by rw [h5, names_addNode]⟩
  | selfClosed n a ts hl _ ih =>
    intro s hne
    have h1 : vStepT s (.startend n a) = .ok (addNode s (.elem (lower n) (intake a AttrState.empty) true [])) := by
      simp only [vStepT]; rw [handleStart_inside s hne]
      simp only [legalAttrs] at hl; simp [hl]
    obtain ⟨s', h4, h5⟩ := ih _ (stack_ne_of_names hne _)
    exact ⟨s', by simp only [vRunT, h1]; exact h4, by rw [h5, names_addNode]⟩
  | elem n a inner ts hl hv _ _ ihi iht =>
    intro s hne
    let s1 : TState := { s with stack := ⟨lower n, intake a AttrState.empty, []⟩ :: s.stack }
    have h1 : vStepT s (.start n a) = .ok s1 := by
      simp only [vStepT]; rw [handleStart_inside s hne]
      simp only [legalAttrs] at hl; simp [hl, hv]; rfl
    obtain ⟨s2, h2, hn2⟩ := ihi s1 (by simp [s1])
    have hn2' : names s2 = lower n :: names s := by rw [hn2]; rfl
    -- the end tag closes exactly this element
    have h3 : vStepT s2 (.end_ (lower n)) = .ok (pop1 s2) := by
      cases hs2 : s2.stack with
      | nil => simp [names, hs2] at hn2'
      | cons f fs =>
        have hf : f.name = lower n := by simp [names, hs2] at hn2'; exact hn2'.1
        simp [vStepT, hs2, hf]
    have hn3 : names (pop1 s2) = names s := by
      cases hs2 : s2.stack with
      | nil => simp [names, hs2] at hn2'
      | cons f fs =>
        have : fs.map (·.name) = names s := by simp [names, hs2] at hn2'; exact hn2'.2
        unfold pop1; rw [hs2]; simp only [names_addNode]; exact this
    have hne3 : (pop1 s2).stack ≠ [] := by
      intro e
      have : names (pop1 s2) = [] := by simp [names, e]
      rw [hn3] at this
      cases hs : s.stack with
      | nil => exact hne hs
      | cons f fs => simp [names, hs] at this
    obtain ⟨s', h4, h5⟩ := iht (pop1 s2) hne3
    refine ⟨s', ?_, by rw [h5, hn3]⟩
    have happ : ∀ (l1 l2 : List Token) (sa sb : TState), vRunT sa l1 = .ok sb → vRunT sa (l1 ++ l2) = vRunT sb l2 := by
      intro l1
      induction l1 with
      | nil => intro l2 sa sb h; simp [vRunT] at h; rw [h]; rfl
      | cons x l1 ihl =>
        intro l2 sa sb h
        simp only [vRunT, List.cons_append] at h ⊢
        cases hx : vStepT sa x <;> rw [hx] at h <;> simp at h ⊢
        exact ihl l2 _ sb h
    simp only [List.cons_append, vRunT, h1]
    rw [happ inner _ s1 s2 h2]
    simp only [vRunT, h3]
    exact h4

/-- **C13b / C13d.** A balanced document placed inside the wrapper — which is how every multi-root
    serialisation is parsed, and how a single-root one is parsed after its root opens — validates. -/
theorem bal_wrapped_validates {ts : List Token} (hb : Bal ts) :
    ∃ s', vRunT TState.init (.start wrapperName [] :: ts ++ [.end_ wrapperName]) = .ok s' := by
  have hw : Bal (.start wrapperName [] :: ts ++ .end_ (lower wrapperName) :: []) :=
    Bal.elem wrapperName [] ts [] (by decide) (by decide) hb Bal.nil
  rw [wrapper_lower] at hw
  -- run the wrapper start from the initial state, then we are inside an open element
  let s1 : TState := ⟨[⟨wrapperName, AttrState.empty, []⟩], none⟩
  have hs : vStepT TState.init (.start wrapperName []) = .ok s1 := by
    simp [vStepT, handleStart, TState.init, TState.hasRoot, wrapper_lower, wrapper_not_void, intake, s1]
  obtain ⟨s2, h2, hn2⟩ := bal_accepted_inside hb s1 (by simp [s1])
  have happ : ∀ (l1 l2 : List Token) (sa sb : TState), vRunT sa l1 = .ok sb → vRunT sa (l1 ++ l2) = vRunT sb l2 := by
    intro l1
    induction l1 with
    | nil => intro l2 sa sb h; simp [vRunT] at h; rw [h]; rfl
    | cons x l1 ihl =>
      intro l2 sa sb h
      simp only [vRunT, List.cons_append] at h ⊢
      cases hx : vStepT sa x <;> rw [hx] at h <;> simp at h ⊢
      exact ihl l2 _ sb h
  have hn2' : names s2 = [wrapperName] := by rw [hn2]; rfl
  have h3 : vStepT s2 (.end_ wrapperName) = .ok (pop1 s2) := by
    cases hs2 : s2.stack with
    | nil => simp [names, hs2] at hn2'
    | cons f fs =>
      have hf : f.name = wrapperName := by simp [names, hs2] at hn2'; exact hn2'.1
      simp [vStepT, hs2, hf]
  refine ⟨pop1 s2, ?_⟩
  simp only [List.cons_append, vRunT, hs]
  rw [happ ts _ s1 s2 h2]
  simp [vRunT, h3]

/-! #### Non-vacuity -/
example : Bal [.start "div".toList [("id".toList, some "a".toList)], .data "x".toList, .start "br".toList [],
    .end_ "div".toList] :=
  Bal.elem "div".toList _ [.data "x".toList, .start "br".toList []] [] (by decide) (by decide)
    (Bal.inert _ _ (by decide) (Bal.void _ _ _ (by decide) (by decide) Bal.nil)) Bal.nil

example : classify [] false [.start "a".toList [], .end_ "b".toList] = some .invalidClose := by decide
example : classify [] false [.start "a".toList [], .start "b".toList [], .end_ "a".toList] = some .missedClose := by decide

end AHP.C13
