/-
  C13 — the validating parser raises exactly on nesting / attribute-name errors, else builds the same tree.

  Model: `vStepT`/`vRun`/`vFeedTokens` in AHP/Model/Builder.lean (Validator.py).  Specification:
  AHP/Spec/Validate.lean (`classify`: a scan over names only; `Bal`: the grammar of balanced documents).
-/
import AHP.Lemmas.BuilderTop
import AHP.Spec.Validate
import AHP.Lemmas.ValidateTree
import AHP.Lemmas.ValidateDoc
import AHP.Lemmas.TotalBuilder
import AHP.Props.C01
namespace AHP.C13
open AHP AHP.Spec

def vRunT (s : TState) : List Token → Outcome TState
  | [] => .ok s
  | t :: ts => match vStepT s t with
    | .ok s' => vRunT s' ts
    | .multipleRoot => .multipleRoot
    | .invalidClose => .invalidClose
    | .missedClose => .missedClose
    | .invalidAttr => .invalidAttr

def outClass {σ : Type} : Outcome σ → Option Exc
  | .ok _ => none
  | .multipleRoot => some .multipleRoot
  | .invalidClose => some .invalidClose
  | .missedClose => some .missedClose
  | .invalidAttr => some .invalidAttr

/-- the validating run of the model is the tree run `vRunT` paired with the doctype fold -/
theorem vRun_eq (ts : List Token) : ∀ s : BState,
    vRun s ts = (vRunT s.tree ts).map (fun tr => ⟨tr, ts.foldl stepD s.doctype⟩) := by
  induction ts with
  | nil => intro s; rfl
  | cons t ts ih =>
    intro s
    simp only [vRun, vRunT, vStep]
    cases h : vStepT s.tree t <;> simp [Outcome.map, ih]

private theorem names_isEmpty (s : TState) : (names s).isEmpty = s.stack.isEmpty := by
  unfold names; cases s.stack <;> rfl

private theorem hasRoot_addNode (s : TState) (c : Node) : (addNode s c).hasRoot = true := by
  unfold addNode TState.hasRoot
  cases s.stack <;> simp

private theorem hasRoot_of_stack {s : TState} (h : s.stack ≠ []) : s.hasRoot = true := by
  unfold TState.hasRoot; cases hs : s.stack with
  | nil => exact absurd hs h
  | cons f fs => simp

/-- **C13a.** Which exception the validating parser raises — if any — is what the names-only scan says:
    the first stray close, skipped close or illegal attribute name, whichever comes first (or the
    several-top-level-nodes condition that triggers the wrapper retry). -/
theorem vRunT_classify (ts : List Token) : ∀ s : TState,
    outClass (vRunT s ts) = classify (names s) s.hasRoot ts := by
  induction ts with
  | nil => intro s; rfl
  | cons t ts ih =>
    intro s
    have hE := names_isEmpty s
    have hskip : vStepT s t = .ok s → classify (names s) s.hasRoot (t :: ts) = classify (names s) s.hasRoot ts →
        outClass (vRunT s (t :: ts)) = classify (names s) s.hasRoot (t :: ts) := by
      intro h1 h2; simp only [vRunT, h1, h2]; exact ih s
    have htext : ∀ txt : Str, vStepT s t = addTextStrict s txt →
        classify (names s) s.hasRoot (t :: ts) =
          (if (names s).isEmpty then some .multipleRoot else classify (names s) s.hasRoot ts) →
        outClass (vRunT s (t :: ts)) = classify (names s) s.hasRoot (t :: ts) := by
      intro txt h1 h2
      rw [h2, hE]
      simp only [vRunT, h1, addTextStrict]
      by_cases he : s.stack.isEmpty = true
      · simp [he, outClass]
      · simp only [he, Bool.false_eq_true, if_false]
        have hne : s.stack ≠ [] := by intro e; rw [e] at he; simp at he
        have := ih (addNode s (.text txt))
        rw [names_addNode, hasRoot_addNode, ← hasRoot_of_stack hne] at this
        exact this
    have hstart : ∀ (n : Str) (a : List Attr) (sc : Bool),
        vStepT s t = (if a.all (fun p => validAttrName p.1) then handleStart s n a sc else .invalidAttr) →
        classify (names s) s.hasRoot (t :: ts) =
          (if !legalAttrs a then some .invalidAttr
           else if s.hasRoot && (names s).isEmpty then some .multipleRoot
           else if sc || Spec.isVoid (lower n) then classify (names s) true ts
           else classify (lower n :: names s) true ts) →
        outClass (vRunT s (t :: ts)) = classify (names s) s.hasRoot (t :: ts) := by
      intro n a sc h1 h2
      rw [h2, hE]
      simp only [vRunT, h1, legalAttrs]
      by_cases hl : a.all (fun p => validAttrName p.1) = true
      · simp only [hl, if_true, Bool.not_true, Bool.false_eq_true, if_false]
        unfold handleStart
        by_cases hc : (s.hasRoot && s.stack.isEmpty) = true
        · have : (!s.hasRoot || !s.stack.isEmpty) = false := by
            simp only [Bool.and_eq_true] at hc; simp [hc.1, hc.2]
          simp [this, hc, outClass]
        · have : (!s.hasRoot || !s.stack.isEmpty) = true := by
            cases h1 : s.hasRoot <;> cases h2 : s.stack.isEmpty <;> simp_all
          simp only [this, if_true, hc, Bool.false_eq_true, if_false, isVoid_eq]
          by_cases hv : (sc || Spec.isVoid (lower n)) = true
          · simp only [hv, if_true]
            have := ih (addNode s (.elem (lower n) (intake a AttrState.empty) true []))
            rw [names_addNode, hasRoot_addNode] at this
            exact this
          · simp only [hv, Bool.false_eq_true, if_false]
            have := ih { s with stack := ⟨lower n, intake a AttrState.empty, []⟩ :: s.stack }
            simpa [names, TState.hasRoot] using this
      · simp [hl, outClass]
    cases t with
    | decl d => exact hskip rfl rfl
    | unknownDecl d => exact hskip rfl rfl
    | pi d => exact hskip rfl rfl
    | comment c => exact htext _ rfl (by simp [classify])
    | entity c => exact htext _ rfl (by simp [classify])
    | charref c => exact htext _ rfl (by simp [classify])
    | start n a => exact hstart n a false rfl (by simp [classify])
    | startend n a => exact hstart n a true rfl (by simp [classify])
    | data d =>
      by_cases hd : d.isEmpty = true
      · exact hskip (by simp [vStepT, stepT, hd]) (by simp [classify, hd])
      · by_cases he : s.stack.isEmpty = true
        · by_cases hb : isBlank d = true
          · exact hskip (by simp [vStepT, stepT, hd, he, hb]) (by simp [classify, hd, hE, he, hb])
          · simp [vRunT, vStepT, stepT, hd, he, hb, classify, hE, outClass]
        · have hne : s.stack ≠ [] := by intro e; rw [e] at he; simp at he
          have := ih (addNode s (.text d))
          rw [names_addNode, hasRoot_addNode, ← hasRoot_of_stack hne] at this
          simp only [vRunT, vStepT, stepT, hd, he, classify, hE]
          simpa using this
    | end_ n =>
      cases hs : s.stack with
      | nil => simp [vRunT, vStepT, hs, classify, names, outClass]
      | cons f fs =>
        have hn : names s = f.name :: fs.map (·.name) := by simp [names, hs]
        have hr : s.hasRoot = true := hasRoot_of_stack (by rw [hs]; simp)
        by_cases hc : (f.name :: fs.map (·.name)).contains n = true
        · have hc' : (List.map (fun x => x.name) (f :: fs)).contains n = true := by simpa using hc
          by_cases hm : f.name = n
          · have hv : vStepT s (.end_ n) = .ok (pop1 s) := by
              simp only [vStepT, hs, hc', Bool.not_true, Bool.false_eq_true, if_false, hm, ne_eq,
                not_true_eq_false]
            have hcl : classify (names s) s.hasRoot (.end_ n :: ts) = classify (fs.map (·.name)) true ts := by
              rw [hn, hr]
              have hc3 : (n :: fs.map (·.name)).contains n = true := by simp
              simp only [classify, hm, hc3, Bool.not_true, Bool.false_eq_true, if_false, ne_eq,
                not_true_eq_false]
            have hp : (pop1 s).hasRoot = true := by
              unfold pop1; rw [hs]; exact hasRoot_addNode _ _
            have hpn : names (pop1 s) = fs.map (·.name) := by
              unfold pop1; rw [hs]; simp only [names_addNode]; rfl
            have := ih (pop1 s)
            rw [hpn, hp] at this
            simp only [vRunT, hv, hcl]
            exact this
          · have hv : vStepT s (.end_ n) = .missedClose := by
              simp only [vStepT, hs, hc', Bool.not_true, Bool.false_eq_true, if_false, ne_eq, hm,
                not_false_eq_true, if_true]
            have hcl : classify (names s) s.hasRoot (.end_ n :: ts) = some .missedClose := by
              rw [hn]
              simp only [classify, hc, Bool.not_true, Bool.false_eq_true, if_false, ne_eq, hm,
                not_false_eq_true, if_true]
            simp only [vRunT, hv, hcl, outClass]
        · have hc' : (List.map (fun x => x.name) (f :: fs)).contains n = false := by simpa using hc
          have hc2 : (f.name :: fs.map (·.name)).contains n = false := by simpa using hc
          have hv : vStepT s (.end_ n) = .invalidClose := by
            simp only [vStepT, hs, hc', Bool.not_false, if_true]
          have hcl : classify (names s) s.hasRoot (.end_ n :: ts) = some .invalidClose := by
            rw [hn]
            simp only [classify, hc2, Bool.not_false, if_true]
          simp only [vRunT, hv, hcl, outClass]

/-- **C13c.** When the validating parser does not raise it has built exactly what the plain parser builds. -/
theorem vRunT_ok_same_tree (ts : List Token) : ∀ s s' : TState, vRunT s ts = .ok s' → runT s ts = .ok s' := by
  induction ts with
  | nil => intro s s' h; exact h
  | cons t ts ih =>
    intro s s' h
    simp only [vRunT] at h
    cases hv : vStepT s t with
    | ok s1 =>
      rw [hv] at h
      have hsame : stepT s t = .ok s1 := by
        cases t with
        | start n a =>
          simp only [vStepT] at hv; split at hv
          · exact hv
          · cases hv
        | startend n a =>
          simp only [vStepT] at hv; split at hv
          · exact hv
          · cases hv
        | end_ n =>
          cases hs : s.stack with
          | nil => simp [vStepT, hs] at hv
          | cons f fs =>
            by_cases hc' : (List.map (fun x => x.name) (f :: fs)).contains n = true
            · by_cases hm' : f.name = n
              · have hvv : vStepT s (.end_ n) = .ok (pop1 s) := by
                  simp only [vStepT, hs, hc', Bool.not_true, Bool.false_eq_true, if_false, hm', ne_eq,
                    not_true_eq_false]
                rw [hvv] at hv
                have hc2 : (List.map (fun x => x.name) s.stack).contains n = true := by rw [hs]; exact hc'
                simp only [stepT, handleEnd, hc2, if_true]
                have : popTo n s.stack.length s = pop1 s := by
                  rw [hs]; simp [popTo, hs, hm']
                rw [this]; exact hv
              · have hvv : vStepT s (.end_ n) = .missedClose := by
                  simp only [vStepT, hs, hc', Bool.not_true, Bool.false_eq_true, if_false, ne_eq, hm',
                    not_false_eq_true, if_true]
                rw [hvv] at hv; cases hv
            · have hc2 : (List.map (fun x => x.name) (f :: fs)).contains n = false := by simpa using hc'
              have hvv : vStepT s (.end_ n) = .invalidClose := by
                simp only [vStepT, hs, hc2, Bool.not_false, if_true]
              rw [hvv] at hv; cases hv
        | decl d => exact hv
        | unknownDecl d => exact hv
        | pi d => exact hv
        | comment d => exact hv
        | entity d => exact hv
        | charref d => exact hv
        | data d => exact hv
      simp only [runT, hsame]
      exact ih s1 s' h
    | multipleRoot => rw [hv] at h; cases h
    | invalidClose => rw [hv] at h; cases h
    | missedClose => rw [hv] at h; cases h
    | invalidAttr => rw [hv] at h; cases h

/-- **C13b (inside an open element).** A balanced sequence with legal attribute names is accepted and
    leaves the open elements as they were — proved from the grammar, not from the scan. -/
theorem bal_accepted_inside {ts : List Token} (hb : Bal ts) : ∀ s : TState, s.stack ≠ [] →
    ∃ s', vRunT s ts = .ok s' ∧ names s' = names s := by
  induction hb with
  | nil => intro s _; exact ⟨s, rfl, rfl⟩
  | inert t ts hi _ ih =>
    intro s hne
    have hst : (!s.stack.isEmpty) = true := by
      cases hs : s.stack with
      | nil => exact absurd hs hne
      | cons f fs => simp
    have : ∃ s1, vStepT s t = .ok s1 ∧ names s1 = names s ∧ s1.stack ≠ [] := by
      cases t with
      | start n a => simp [isInert] at hi
      | startend n a => simp [isInert] at hi
      | end_ n => simp [isInert] at hi
      | decl d => exact ⟨s, rfl, rfl, hne⟩
      | unknownDecl d => exact ⟨s, rfl, rfl, hne⟩
      | pi d => exact ⟨s, rfl, rfl, hne⟩
      | comment d => exact ⟨_, by simp only [vStepT, stepT]; exact stepT_text_ok s hne _, names_addNode _ _, stack_ne_of_names hne _⟩
      | entity d => exact ⟨_, by simp only [vStepT, stepT]; exact stepT_text_ok s hne _, names_addNode _ _, stack_ne_of_names hne _⟩
      | charref d => exact ⟨_, by simp only [vStepT, stepT]; exact stepT_text_ok s hne _, names_addNode _ _, stack_ne_of_names hne _⟩
      | data d =>
        by_cases hd : d.isEmpty = true
        · exact ⟨s, by simp [vStepT, stepT, hd], rfl, hne⟩
        · exact ⟨addNode s (.text d), by simp [vStepT, stepT, hd, hst], names_addNode _ _, stack_ne_of_names hne _⟩
    obtain ⟨s1, h1, h2, h3⟩ := this
    obtain ⟨s', h4, h5⟩ := ih s1 h3
    exact ⟨s', by simp only [vRunT, h1]; exact h4, by rw [h5, h2]⟩
  | void n a ts hl hv _ ih =>
    intro s hne
    have h1 : vStepT s (.start n a) = .ok (addNode s (.elem (lower n) (intake a AttrState.empty) true [])) := by
      simp only [vStepT]; rw [handleStart_inside s hne]
      simp only [legalAttrs] at hl; simp [hl, hv]
    obtain ⟨s', h4, h5⟩ := ih _ (stack_ne_of_names hne _)
    exact ⟨s', by simp only [vRunT, h1]; exact h4, by rw [h5, names_addNode]⟩
  | selfClosed n a ts hl _ ih =>
    intro s hne
    have h1 : vStepT s (.startend n a) = .ok (addNode s (.elem (lower n) (intake a AttrState.empty) true [])) := by
      simp only [vStepT]; rw [handleStart_inside s hne]
      simp only [legalAttrs] at hl; simp [hl]
    obtain ⟨s', h4, h5⟩ := ih _ (stack_ne_of_names hne _)
    exact ⟨s', by simp only [vRunT, h1]; exact h4, by rw [h5, names_addNode]⟩
  | elem n a inner ts hl hv _ _ ihi iht =>
    intro s hne
    let s1 : TState := { s with stack := ⟨lower n, intake a AttrState.empty, []⟩ :: s.stack }
    have h1 : vStepT s (.start n a) = .ok s1 := by
      simp only [vStepT]; rw [handleStart_inside s hne]
      simp only [legalAttrs] at hl; simp [hl, hv]; rfl
    obtain ⟨s2, h2, hn2⟩ := ihi s1 (by simp [s1])
    have hn2' : names s2 = lower n :: names s := by rw [hn2]; rfl
    -- the end tag closes exactly this element
    have h3 : vStepT s2 (.end_ (lower n)) = .ok (pop1 s2) := by
      cases hs2 : s2.stack with
      | nil => simp [names, hs2] at hn2'
      | cons f fs =>
        have hf : f.name = lower n := by simp [names, hs2] at hn2'; exact hn2'.1
        simp [vStepT, hs2, hf]
    have hn3 : names (pop1 s2) = names s := by
      cases hs2 : s2.stack with
      | nil => simp [names, hs2] at hn2'
      | cons f fs =>
        have : fs.map (·.name) = names s := by simp [names, hs2] at hn2'; exact hn2'.2
        unfold pop1; rw [hs2]; simp only [names_addNode]; exact this
    have hne3 : (pop1 s2).stack ≠ [] := by
      intro e
      have : names (pop1 s2) = [] := by simp [names, e]
      rw [hn3] at this
      cases hs : s.stack with
      | nil => exact hne hs
      | cons f fs => simp [names, hs] at this
    obtain ⟨s', h4, h5⟩ := iht (pop1 s2) hne3
    refine ⟨s', ?_, by rw [h5, hn3]⟩
    have happ : ∀ (l1 l2 : List Token) (sa sb : TState), vRunT sa l1 = .ok sb → vRunT sa (l1 ++ l2) = vRunT sb l2 := by
      intro l1
      induction l1 with
      | nil => intro l2 sa sb h; simp [vRunT] at h; rw [h]; rfl
      | cons x l1 ihl =>
        intro l2 sa sb h
        simp only [vRunT, List.cons_append] at h ⊢
        cases hx : vStepT sa x <;> rw [hx] at h <;> simp at h ⊢
        exact ihl l2 _ sb h
    simp only [List.cons_append, vRunT, h1]
    rw [happ inner _ s1 s2 h2]
    simp only [vRunT, h3]
    exact h4

/-- **C13b / C13d.** A balanced document placed inside the wrapper — which is how every multi-root
    serialisation is parsed, and how a single-root one is parsed after its root opens — validates. -/
theorem bal_wrapped_validates {ts : List Token} (hb : Bal ts) :
    ∃ s', vRunT TState.init (.start wrapperName [] :: ts ++ [.end_ wrapperName]) = .ok s' := by
  have hw : Bal (.start wrapperName [] :: ts ++ .end_ (lower wrapperName) :: []) :=
    Bal.elem wrapperName [] ts [] (by decide) (by decide) hb Bal.nil
  rw [wrapper_lower] at hw
  -- run the wrapper start from the initial state, then we are inside an open element
  let s1 : TState := ⟨[⟨wrapperName, AttrState.empty, []⟩], none⟩
  have hs : vStepT TState.init (.start wrapperName []) = .ok s1 := by
    simp [vStepT, handleStart, TState.init, TState.hasRoot, wrapper_lower, wrapper_not_void, intake, s1]
  obtain ⟨s2, h2, hn2⟩ := bal_accepted_inside hb s1 (by simp [s1])
  have happ : ∀ (l1 l2 : List Token) (sa sb : TState), vRunT sa l1 = .ok sb → vRunT sa (l1 ++ l2) = vRunT sb l2 := by
    intro l1
    induction l1 with
    | nil => intro l2 sa sb h; simp [vRunT] at h; rw [h]; rfl
    | cons x l1 ihl =>
      intro l2 sa sb h
      simp only [vRunT, List.cons_append] at h ⊢
      cases hx : vStepT sa x <;> rw [hx] at h <;> simp at h ⊢
      exact ihl l2 _ sb h
  have hn2' : names s2 = [wrapperName] := by rw [hn2]; rfl
  have h3 : vStepT s2 (.end_ wrapperName) = .ok (pop1 s2) := by
    cases hs2 : s2.stack with
    | nil => simp [names, hs2] at hn2'
    | cons f fs =>
      have hf : f.name = wrapperName := by simp [names, hs2] at hn2'; exact hn2'.1
      simp [vStepT, hs2, hf]
  refine ⟨pop1 s2, ?_⟩
  simp only [List.cons_append, vRunT, hs]
  rw [happ ts _ s1 s2 h2]
  simp [vRunT, h3]


/-! ### C13d — the serialisation of any tree produced by this library validates

  Trees are taken as the serialiser's token rendering sees them (`LNode`, `LNode.toks`, `toksL` of
  Lemmas/RoundTrip.lean; `C01.html_eq_render`: `getHTML` writes `renderToks` of these tokens).  `LNode.WF` is the
  serialiser's image (lower-case names, void ⇒ self-closing, self-closing ⇒ empty); `LNode.Legal` says every
  stored attribute name is legal — which holds for every tree the builder builds (`built_trees_legal`), because
  the constructor loop drops illegal names (`stored_names_legal`). -/

/-- **the intake drops illegal names.** Whatever attribute list the tokenizer delivers, the store built from
    it holds legal names only; so does any store after further intake. -/
theorem stored_names_legal (xs : List Attr) :
    (intake xs AttrState.empty).Legal ∧ ∀ st : AttrState, st.Legal → (intake xs st).Legal :=
  ⟨intake_empty_legal xs, intake_legal xs⟩

/-- the attribute pairs `getStartTag` writes have legal names when the stored names are legal -/
theorem written_names_legal (a : AttrState) (h : a.Legal) : legalAttrs a.view = true := view_legal a h

/-- every tree the plain parser builds — any token sequence, first or second pass — has legal stores -/
theorem built_trees_legal (toks : List Token) (d : Doc) (second : Bool) (h : feedTokens toks = .doc d second) :
    ∀ r, d.root = some r → r.LegalN := by
  have key : ∀ (l : List Token) (b : Bool), FeedResult.ofPass b (run BState.init l) = .doc d second →
      ∀ r, d.root = some r → r.LegalN := by
    intro l b hl r hr
    rw [run_eq] at hl
    cases hrun : runT BState.init.tree l with
    | ok s' =>
      rw [hrun] at hl
      simp only [Outcome.map, FeedResult.ofPass, FeedResult.doc.injEq] at hl
      have hleg := finish_legal s' (runT_legal l _ s' TState.init_legal hrun)
      rw [← hl.1] at hr
      exact hleg.2 r hr
    | multipleRoot => rw [hrun] at hl; simp [Outcome.map, FeedResult.ofPass] at hl
    | invalidClose => rw [hrun] at hl; simp [Outcome.map, FeedResult.ofPass] at hl
    | missedClose => rw [hrun] at hl; simp [Outcome.map, FeedResult.ofPass] at hl
    | invalidAttr => rw [hrun] at hl; simp [Outcome.map, FeedResult.ofPass] at hl
  unfold feedTokens at h
  split at h
  · exact key _ _ h
  · exact key _ _ h

/-- every tree the plain parser builds has the element shape of the serialiser's image: lower-case names,
    void ⇒ self-closing, self-closing ⇒ no blocks -/
theorem built_trees_wf (toks : List Token) (d : Doc) (second : Bool) (h : feedTokens toks = .doc d second) :
    ∀ r, d.root = some r → r.WFN := by
  have key : ∀ (l : List Token) (b : Bool), FeedResult.ofPass b (run BState.init l) = .doc d second →
      ∀ r, d.root = some r → r.WFN := by
    intro l b hl r hr
    rw [run_eq] at hl
    cases hrun : runT BState.init.tree l with
    | ok s' =>
      rw [hrun] at hl
      simp only [Outcome.map, FeedResult.ofPass, FeedResult.doc.injEq] at hl
      have hwf := finish_wfs s' (runT_wfs l _ s' TState.init_wfs hrun)
      rw [← hl.1] at hr
      exact hwf.2 r hr
    | multipleRoot => rw [hrun] at hl; simp [Outcome.map, FeedResult.ofPass] at hl
    | invalidClose => rw [hrun] at hl; simp [Outcome.map, FeedResult.ofPass] at hl
    | missedClose => rw [hrun] at hl; simp [Outcome.map, FeedResult.ofPass] at hl
    | invalidAttr => rw [hrun] at hl; simp [Outcome.map, FeedResult.ofPass] at hl
  unfold feedTokens at h
  split at h
  · exact key _ _ h
  · exact key _ _ h

/-- … and so does the tree the round trip of C01 lands in (`reintake`), whatever the original stores held -/
theorem reparsed_tree_legal (t : LNode) : t.toNode.reintake.LegalN := reintake_legalN _

/-- **C13d (tokens of a tree are balanced).** For every tree in the serialiser's image with legal stored names,
    any size and depth, the token list of its serialisation is in the grammar `Bal`: text-like tokens are inert,
    a self-closing element (void or written `<x />`) is a single `startend` leaf, every other element is its
    start tag, the balanced tokens of its blocks, and its own end tag; all attribute names legal. -/
theorem tokens_of_tree_balanced (t : LNode) (h : t.WF) (hl : t.Legal) : Bal t.toks := toks_bal t h hl

theorem tokens_of_forest_balanced (ks : List LNode) (h : WFLL ks) (hl : LegalLL ks) : Bal (toksL ks) :=
  toksL_bal ks h hl

theorem vRunT_append (l1 : List Token) : ∀ (l2 : List Token) (sa sb : TState),
    vRunT sa l1 = .ok sb → vRunT sa (l1 ++ l2) = vRunT sb l2 := by
  induction l1 with
  | nil => intro l2 sa sb h; simp [vRunT] at h; rw [h]; rfl
  | cons x l1 ihl =>
    intro l2 sa sb h
    simp only [vRunT, List.cons_append] at h ⊢
    cases hx : vStepT sa x <;> rw [hx] at h <;> simp at h ⊢
    exact ihl l2 _ sb h

/-- **C13b/c (whole-run form).** On a balanced token list with legal attribute names the validating parser and
    the plain parser do the same thing in every state: same tree, or the same `MultipleRootNodeException`. -/
theorem bal_vRunT_eq_runT {ts : List Token} (hb : Bal ts) : ∀ s : TState, vRunT s ts = runT s ts := by
  induction hb with
  | nil => intro s; rfl
  | inert t ts hi _ ih =>
    intro s
    have hst : vStepT s t = stepT s t := by
      cases t <;> first | rfl | (simp [isInert] at hi)
    simp only [vRunT, runT, hst]
    cases stepT s t <;> simp [ih]
  | void n a ts hl _ _ ih =>
    intro s
    have hst : vStepT s (.start n a) = stepT s (.start n a) := by
      simp only [legalAttrs] at hl; simp [vStepT, stepT, hl]
    simp only [vRunT, runT, hst]
    cases stepT s (.start n a) <;> simp [ih]
  | selfClosed n a ts hl _ ih =>
    intro s
    have hst : vStepT s (.startend n a) = stepT s (.startend n a) := by
      simp only [legalAttrs] at hl; simp [vStepT, stepT, hl]
    simp only [vRunT, runT, hst]
    cases stepT s (.startend n a) <;> simp [ih]
  | elem n a inner ts hl hv hin _ ihi iht =>
    intro s
    have hst : vStepT s (.start n a) = stepT s (.start n a) := by
      simp only [legalAttrs] at hl; simp [vStepT, stepT, hl]
    simp only [List.cons_append, vRunT, runT, hst]
    cases hs1 : stepT s (.start n a) with
    | ok s1 =>
      simp only
      -- the start tag of a non-void element opens a frame
      have hopen : s1.stack = ⟨lower n, intake a AttrState.empty, []⟩ :: s.stack := by
        simp only [stepT, handleStart] at hs1
        rw [isVoid_eq, hv] at hs1
        split at hs1
        · simp at hs1; rw [← hs1]
        · cases hs1
      have hne1 : s1.stack ≠ [] := by rw [hopen]; simp
      obtain ⟨s2, h2, hn2⟩ := bal_accepted_inside hin s1 hne1
      have h2' : runT s1 inner = .ok s2 := by rw [← ihi s1]; exact h2
      rw [vRunT_append inner _ s1 s2 h2, runT_append, h2']
      simp only
      have hn2' : names s2 = lower n :: names s := by rw [hn2]; simp [names, hopen]
      cases hs2 : s2.stack with
      | nil => simp [names, hs2] at hn2'
      | cons f fs =>
        have hf : f.name = lower n := by simp [names, hs2] at hn2'; exact hn2'.1
        have h3 : vStepT s2 (.end_ (lower n)) = .ok (pop1 s2) := by simp [vStepT, hs2, hf]
        have h4 : stepT s2 (.end_ (lower n)) = .ok (pop1 s2) := by
          have hc : (List.map (fun x => x.name) s2.stack).contains (lower n) = true := by
            rw [hs2]; simp [hf]
          simp only [stepT, handleEnd, hc, if_true]
          have : popTo (lower n) s2.stack.length s2 = pop1 s2 := by
            rw [hs2]; simp [popTo, hs2, hf]
          rw [this]
        simp only [vRunT, runT, h3, h4]
        exact iht (pop1 s2)
    | multipleRoot => rfl
    | invalidClose => rfl
    | missedClose => rfl
    | invalidAttr => rfl

theorem bal_vRun_eq_run {ts : List Token} (hb : Bal ts) (s : BState) : vRun s ts = run s ts := by
  rw [vRun_eq, run_eq, bal_vRunT_eq_runT hb]

/-- **C13b/c/d (documents).** A balanced token list with legal attribute names is treated by the validating
    parser exactly as by the plain parser — both passes: same document, same pass, never one of the three
    validator exceptions. -/
theorem bal_vFeed_eq_feed {ts : List Token} (hb : Bal ts) : vFeedTokens ts = feedTokens ts := by
  unfold vFeedTokens feedTokens
  rw [bal_vRun_eq_run hb, bal_vRun_eq_run (bal_wrapToks hb)]

theorem doctypeToks_bal (dt : Option Str) {ts : List Token} (h : Bal ts) : Bal (C01.doctypeToks dt ++ ts) := by
  unfold C01.doctypeToks
  cases dt with
  | none => exact h
  | some d =>
    by_cases hd : d.isEmpty = true
    · simpa [hd] using h
    · simp only [hd, Bool.false_eq_true, if_false, List.cons_append, List.nil_append]
      exact Bal.inert _ _ rfl (Bal.inert _ _ rfl h)

private theorem foldl_stepD_id (ts : List Token) (d0 : Option Str)
    (h : ∀ t ∈ ts, ∀ x, t ≠ .decl x ∧ t ≠ .unknownDecl x) : ts.foldl stepD d0 = d0 := by
  induction ts with
  | nil => rfl
  | cons t ts ih =>
    have ht := h t (by simp)
    simp only [List.foldl_cons]
    have : stepD d0 t = d0 := by
      cases t <;> simp [stepD]
      · exact absurd rfl (ht _).1
      · exact absurd rfl (ht _).2
    rw [this]
    exact ih (fun t' ht' => h t' (List.mem_cons_of_mem _ ht'))

mutual
private theorem no_decl_in (t : LNode) (h : t.WF) (x : Str) :
    Token.decl x ∉ t.toks ∧ Token.unknownDecl x ∉ t.toks := by
  match t, h with
  | .tok tk, h =>
    simp only [LNode.WF] at h
    simp only [LNode.toks, List.mem_singleton]
    constructor <;> (intro e; rw [← e] at h; simp [Spec.textOf] at h)
  | .elem n a sc kids, h =>
    simp only [LNode.WF] at h
    have ih := no_decl_inL kids h.2.2.2 x
    unfold LNode.toks
    split
    · simp
    · simp only [List.mem_cons, List.mem_append, not_or]
      exact ⟨⟨by simp, ih.1, by simp⟩, ⟨by simp, ih.2, by simp⟩⟩
private theorem no_decl_inL (ks : List LNode) (h : WFLL ks) (x : Str) :
    Token.decl x ∉ toksL ks ∧ Token.unknownDecl x ∉ toksL ks := by
  match ks, h with
  | [], _ => simp [toksL]
  | k :: ks, h =>
    simp only [WFLL] at h
    simp only [toksL, List.mem_append, not_or]
    exact ⟨⟨(no_decl_in k h.1 x).1, (no_decl_inL ks h.2 x).1⟩, ⟨(no_decl_in k h.1 x).2, (no_decl_inL ks h.2 x).2⟩⟩
end

/-- the tokens `getHTML` writes for a single-root document: the doctype line, then the root's tokens -/
def docToks (dt : Option Str) (root : LNode) : List Token := C01.doctypeToks dt ++ root.toks

/-- **C13d (single root, tokens).** For every single-root document in the serialiser's image with legal stored
    names — any size, depth, doctype — the validating parser accepts the tokens of `getHTML` in its first pass and
    builds the document the plain parser builds from them: the tree with its stores re-read (C01a). -/
theorem serialisation_validates (dt : Option Str) (n : Str) (a : AttrState) (sc : Bool) (kids : List LNode)
    (hwf : (LNode.elem n a sc kids).WF) (hleg : (LNode.elem n a sc kids).Legal) :
    vFeedTokens (docToks dt (.elem n a sc kids)) = feedTokens (docToks dt (.elem n a sc kids)) ∧
    vFeedTokens (docToks dt (.elem n a sc kids))
      = .doc ⟨(C01.doctypeToks dt).foldl stepD none, some (LNode.elem n a sc kids).toNode.reintake⟩ false := by
  have hbal : Bal (docToks dt (.elem n a sc kids)) :=
    doctypeToks_bal dt (tokens_of_tree_balanced _ hwf hleg)
  have heq := bal_vFeed_eq_feed hbal
  refine ⟨heq, ?_⟩
  rw [heq]
  have hroot := C01.root_rt n a sc kids hwf
  have hpre : runT TState.init (docToks dt (.elem n a sc kids)) = runT TState.init (LNode.elem n a sc kids).toks := by
    unfold docToks C01.doctypeToks
    cases dt with
    | none => rfl
    | some d =>
      by_cases hd : d.isEmpty = true
      · simp [hd]
      · have h1 : stepT TState.init (.data ['\n']) = .ok TState.init := by
          simp [stepT, TState.init, isBlank, strip, lstrip, rstrip, isWs]
        have h2 : stepT TState.init (.decl d) = .ok TState.init := rfl
        simp only [hd, Bool.false_eq_true, if_false, List.cons_append, List.nil_append, runT, h1, h2]
  unfold feedTokens
  rw [run_eq]
  simp only [BState.init]
  rw [hpre, hroot]
  simp only [Outcome.map, FeedResult.ofPass, BState.doc, finish_nil, docToks, List.foldl_append]
  rw [foldl_stepD_id _ _ (fun t ht x => ⟨fun e => (no_decl_in _ hwf x).1 (e ▸ ht), fun e => (no_decl_in _ hwf x).2 (e ▸ ht)⟩)]

/-- **C13d (several top-level nodes, tokens).** A multi-root document (the plain first pass meets a second
    top-level node) with legal stored names: the validating parser raises the same `MultipleRootNodeException`
    in its first pass, accepts the tokens inside the wrapper, and builds the plain parser's document. -/
theorem serialisation_validates_multi (ks : List LNode) (hwf : WFLL ks) (hleg : LegalLL ks)
    (hmulti : run BState.init (toksL ks) = .multipleRoot) :
    vFeedTokens (toksL ks) = feedTokens (toksL ks) ∧
    vFeedTokens (toksL ks)
      = .doc ⟨none, some (.elem wrapperName AttrState.empty false (reintakeL (toNodeL ks)))⟩ true := by
  have hbal : Bal (toksL ks) := tokens_of_forest_balanced ks hwf hleg
  have heq := bal_vFeed_eq_feed hbal
  refine ⟨heq, ?_⟩
  rw [heq]
  unfold feedTokens
  rw [hmulti]
  simp only
  have hlead : leadDoctype (toksL ks) = none := by
    unfold leadDoctype
    split
    · rename_i d r heq'
      exact absurd (by rw [heq']; simp) (no_decl_inL ks hwf d).1
    · rename_i ws d r heq'
      exact absurd (by rw [heq']; simp) (no_decl_inL ks hwf d).1
    · rfl
  have hwrap : wrapToks (toksL ks) = .start wrapperName [] :: toksL ks ++ [.end_ wrapperName] := by
    simp [wrapToks, hlead]
  rw [hwrap, run_eq]
  simp only [BState.init]
  have hs : stepT TState.init (.start wrapperName []) = .ok ⟨[⟨wrapperName, AttrState.empty, []⟩], none⟩ := by
    simp [stepT, handleStart, TState.init, TState.hasRoot, wrapper_lower, wrapper_not_void, intake]
  have hrun : runT TState.init (.start wrapperName [] :: toksL ks ++ [.end_ wrapperName])
      = .ok ⟨[], some (.elem wrapperName AttrState.empty false (reintakeL (toNodeL ks)))⟩ := by
    simp only [List.cons_append, runT, hs]
    rw [runT_append, lforest_rt ks hwf ⟨wrapperName, AttrState.empty, []⟩ [] none]
    simp [runT, stepT, handleEnd, popTo, pop1, addNode, Frame.close]
  rw [hrun]
  simp only [Outcome.map, FeedResult.ofPass, BState.doc, finish_nil]
  have hno : ∀ t ∈ (Token.start wrapperName [] :: toksL ks ++ [Token.end_ wrapperName]), ∀ x,
      t ≠ .decl x ∧ t ≠ .unknownDecl x := by
    intro t ht x
    simp only [List.cons_append, List.mem_cons, List.mem_append] at ht
    rcases ht with e | ht | e
    · subst e; simp
    · exact ⟨fun e => (no_decl_inL ks hwf x).1 (e ▸ ht), fun e => (no_decl_inL ks hwf x).2 (e ▸ ht)⟩
    · rcases e with e | e
      · subst e; simp
      · simp at e
  rw [foldl_stepD_id _ _ hno]

/-- **C13d, closing sentence of the property, for parsed documents.** Take ANY token sequence `toks0`, however
    badly nested; let the plain parser build its document in the first pass; present its root in lexical normal
    form (`root.toNode`, every text block one text-like token).  Then the tokens `getHTML` writes for it are
    accepted by the validating parser, which builds the same document as the plain parser: `WF` and `Legal` are
    not assumed but derived from the builder (`built_trees_wf`, `built_trees_legal`). -/
theorem serialisation_of_parsed_validates (toks0 : List Token) (d : Doc) (second : Bool)
    (h : feedTokens toks0 = .doc d second)
    (n : Str) (a : AttrState) (sc : Bool) (kids : List LNode)
    (hroot : d.root = some (LNode.elem n a sc kids).toNode) (htl : (LNode.elem n a sc kids).TextLike) :
    vFeedTokens (docToks d.doctype (.elem n a sc kids)) = feedTokens (docToks d.doctype (.elem n a sc kids)) ∧
    vFeedTokens (docToks d.doctype (.elem n a sc kids))
      = .doc ⟨(C01.doctypeToks d.doctype).foldl stepD none, some (LNode.elem n a sc kids).toNode.reintake⟩ false :=
  serialisation_validates d.doctype n a sc kids
    (wf_of_toNode _ htl (built_trees_wf toks0 d second h _ hroot))
    (legal_of_toNode _ (built_trees_legal toks0 d second h _ hroot))

/-- **C13d (text level, single root).** With the side condition of the lexer round trip (`ListOK`: every token
    in the serialiser's image and followed by something that keeps it a token of its own), the TEXT `getHTML`
    writes lexes to those tokens, and the validating parser accepts them and builds the plain parser's document. -/
theorem serialisation_validates_text (dt : Option Str) (n : Str) (a : AttrState) (sc : Bool) (kids : List LNode)
    (hwf : (LNode.elem n a sc kids).WF) (hleg : (LNode.elem n a sc kids).Legal) (hw : n ≠ wrapperName)
    (hok : ListOK (docToks dt (.elem n a sc kids))) :
    ∃ toks, lexStrict (docHTML dt (LNode.elem n a sc kids).toNode) = some toks ∧
      vFeedTokens toks = feedTokens toks ∧
      vFeedTokens toks
        = .doc ⟨(C01.doctypeToks dt).foldl stepD none, some (LNode.elem n a sc kids).toNode.reintake⟩ false := by
  refine ⟨docToks dt (.elem n a sc kids), ?_, serialisation_validates dt n a sc kids hwf hleg⟩
  rw [C01.docHTML_single dt n a sc kids hwf hw]
  exact lexStrict_renderToks _ hok

/-- **C13d (text level, several top-level nodes).** -/
theorem serialisation_validates_text_multi (ks : List LNode) (hwf : WFLL ks) (hleg : LegalLL ks)
    (hok : ListOK (toksL ks)) (hmulti : run BState.init (toksL ks) = .multipleRoot) :
    ∃ toks, lexStrict (docHTML none (.elem wrapperName AttrState.empty false (toNodeL ks))) = some toks ∧
      vFeedTokens toks = feedTokens toks ∧
      vFeedTokens toks
        = .doc ⟨none, some (.elem wrapperName AttrState.empty false (reintakeL (toNodeL ks)))⟩ true := by
  refine ⟨toksL ks, ?_, serialisation_validates_multi ks hwf hleg hmulti⟩
  have : docHTML none (.elem wrapperName AttrState.empty false (toNodeL ks)) = renderToks (toksL ks) := by
    simp [docHTML, Node.innerHTML, C01.htmlL_eq_render ks hwf]
  rw [this]
  exact lexStrict_renderToks _ hok

/-- **closing the loop**: what the validating parser built from a serialisation is itself a tree with legal
    stores (`reparsed_tree_legal`), so — being again in the serialiser's image — its own serialisation
    validates again. -/
theorem validated_tree_legal (n : Str) (a : AttrState) (sc : Bool) (kids : List LNode) :
    (LNode.elem n a sc kids).toNode.reintake.LegalN := reparsed_tree_legal _

/-! #### Non-vacuity -/
example : Bal [.start "div".toList [("id".toList, some "a".toList)], .data "x".toList, .start "br".toList [],
    .end_ "div".toList] :=
  Bal.elem "div".toList _ [.data "x".toList, .start "br".toList []] [] (by decide) (by decide)
    (Bal.inert _ _ (by decide) (Bal.void _ _ _ (by decide) (by decide) Bal.nil)) Bal.nil

example : classify [] false [.start "a".toList [], .end_ "b".toList] = some .invalidClose := by decide

/-! non-vacuity of C13d: a nested document with a doctype, an attribute, a void element, a self-closed non-void
    element, text and a reference meets every hypothesis (`WF`, `Legal`, `ListOK`), its serialisation is the
    expected text, and the validating parser accepts it -/
def sampleTree : LNode :=
  .elem "div".toList ⟨[("id".toList, some "a".toList)], [], []⟩ false
    [.tok (.data "x".toList),
     .elem "br".toList AttrState.empty true [],
     .elem "span".toList AttrState.empty true [],
     .elem "p".toList AttrState.empty false [.tok (.entity "amp".toList)]]

theorem sampleTree_wf : sampleTree.WF := by
  simp only [sampleTree, LNode.WF, WFLL, and_true]
  refine ⟨by decide, by decide, by simp, by decide, ⟨by decide, by simp⟩, ⟨by decide, by simp⟩,
    by decide, by decide, by simp, by decide⟩

theorem sampleTree_legal : sampleTree.Legal := by
  simp only [sampleTree, LNode.Legal, LegalLL, and_true, true_and]
  refine ⟨?_, AttrState.empty_legal, AttrState.empty_legal, AttrState.empty_legal⟩
  intro p hp
  simp at hp
  subst hp
  decide

example : docToks (some "DOCTYPE html".toList) sampleTree =
    [.decl "DOCTYPE html".toList, .data "\n".toList,
     .start "div".toList [("id".toList, some "a".toList)], .data "x".toList, .startend "br".toList [],
     .startend "span".toList [], .start "p".toList [], .entity "amp".toList, .end_ "p".toList,
     .end_ "div".toList] := by decide

example : docHTML (some "DOCTYPE html".toList) sampleTree.toNode
    = "<!DOCTYPE html>\n<div id=\"a\" >x<br /><span /><p >&amp;</p></div>".toList := by decide

example : Bal sampleTree.toks := tokens_of_tree_balanced _ sampleTree_wf sampleTree_legal

private theorem tagOK (c : Char) (cs : Str) (h1 : isAlpha c = true) (h2 : ∀ x ∈ c :: cs, isTagCh x = true)
    (h3 : lower (c :: cs) = c :: cs) : TagNameOK (c :: cs) := ⟨⟨c, cs, rfl, h1⟩, h2, h3⟩

theorem sampleTree_listOK : ListOK (docToks (some "DOCTYPE html".toList) sampleTree) := by
  have e : docToks (some "DOCTYPE html".toList) sampleTree =
    [.decl "DOCTYPE html".toList, .data "\n".toList,
     .start "div".toList [("id".toList, some "a".toList)], .data "x".toList, .startend "br".toList [],
     .startend "span".toList [], .start "p".toList [], .entity "amp".toList, .end_ "p".toList,
     .end_ "div".toList] := by decide
  rw [e]
  apply listOK_of_noAdjData
  · intro t ht
    simp only [List.mem_cons, List.mem_nil_iff, or_false] at ht
    rcases ht with rfl | rfl | rfl | rfl | rfl | rfl | rfl | rfl | rfl | rfl
    · exact ⟨by decide, by decide⟩
    · exact Or.inr (Or.inr ⟨by decide, by decide⟩)
    · refine ⟨tagOK 'd' _ (by decide) (by decide) (by decide), by decide, ?_⟩
      intro x hx
      simp only [List.mem_cons, List.mem_nil_iff, or_false] at hx
      subst hx
      exact ⟨⟨by decide, by decide, by decide⟩, by simp [ValueOK], by decide⟩
    · exact Or.inr (Or.inr ⟨by decide, by decide⟩)
    · exact ⟨tagOK 'b' _ (by decide) (by decide) (by decide), fun x hx => by simp at hx⟩
    · exact ⟨tagOK 's' _ (by decide) (by decide) (by decide), fun x hx => by simp at hx⟩
    · exact ⟨tagOK 'p' _ (by decide) (by decide) (by decide), by decide, fun x hx => by simp at hx⟩
    · exact ⟨⟨'a', _, rfl, by decide⟩, by decide⟩
    · exact tagOK 'p' _ (by decide) (by decide) (by decide)
    · exact tagOK 'd' _ (by decide) (by decide) (by decide)
  · intro t ht
    simp only [List.mem_cons, List.mem_nil_iff, or_false] at ht
    rcases ht with rfl | rfl | rfl | rfl | rfl | rfl | rfl | rfl | rfl | rfl <;>
      first | trivial | exact ⟨by decide, by decide⟩
  · simp [NoAdjData, isData]

/-- the sample document's text validates: lexed, accepted in the first pass, same document as the plain parser -/
example : ∃ toks, lexStrict "<!DOCTYPE html>\n<div id=\"a\" >x<br /><span /><p >&amp;</p></div>".toList = some toks ∧
    vFeedTokens toks = feedTokens toks ∧
    vFeedTokens toks = .doc ⟨some "DOCTYPE html".toList, some sampleTree.toNode.reintake⟩ false := by
  have h := serialisation_validates_text (some "DOCTYPE html".toList) _ _ _ _ sampleTree_wf sampleTree_legal
    (by decide) sampleTree_listOK
  have e : docHTML (some "DOCTYPE html".toList) sampleTree.toNode
    = "<!DOCTYPE html>\n<div id=\"a\" >x<br /><span /><p >&amp;</p></div>".toList := by decide
  rw [← e]
  exact h


/-- a badly nested, unclosed token sequence: its parsed document (implicit closes made explicit) validates -/
example : ∃ d, feedTokens [.start "DIV".toList [("ID".toList, some "a".toList), ("1bad".toList, none)],
      .start "b".toList [], .data "x".toList, .start "br".toList [], .end_ "div".toList, .end_ "p".toList] = .doc d false ∧
    d.root = some (LNode.elem "div".toList ⟨[("id".toList, some "a".toList)], [], []⟩ false
      [.elem "b".toList AttrState.empty false [.tok (.data "x".toList), .elem "br".toList AttrState.empty true []]]).toNode :=
  ⟨_, rfl, rfl⟩

/-- a two-root forest (element, text, void element) takes the wrapper pass in both parsers -/
def sampleForest : List LNode :=
  [.elem "a".toList AttrState.empty false [], .tok (.data "x".toList), .elem "br".toList AttrState.empty true []]

example : vFeedTokens (toksL sampleForest)
    = .doc ⟨none, some (.elem wrapperName AttrState.empty false (reintakeL (toNodeL sampleForest)))⟩ true :=
  (serialisation_validates_multi sampleForest
    (by simp only [sampleForest, WFLL, LNode.WF, and_true]
        exact ⟨⟨by decide, by decide, by simp⟩, by decide, by decide, by decide, by simp⟩)
    (by simp only [sampleForest, LegalLL, LNode.Legal, and_true, true_and]
        exact ⟨AttrState.empty_legal, AttrState.empty_legal⟩)
    (by rfl)).2

/-- the hypothesis `Legal` is needed: a store holding an illegal name (which the constructor would never let in)
    serialises to a text the validating parser rejects -/
example : vFeedTokens (LNode.elem "a".toList ⟨[("1x".toList, none)], [], []⟩ false []).toks
    = .raised .invalidAttr := by rfl


example : classify [] false [.start "a".toList [], .start "b".toList [], .end_ "a".toList] = some .missedClose := by decide


/-! ### Document level for ARBITRARY token sequences: the two-pass `vFeedTokens` (after the review of the statements)

`vRunT_classify` and `vRunT_ok_same_tree` are about one pass on a tree state.  The parser of the property is
`vFeedTokens`: first pass; on MultipleRootNodeException the wrapped second pass.  Below: (i) the transfer of
MultipleRootNodeException to the plain parser, (ii) "when it does not raise it builds the same tree" for every
token sequence (multi-root, unclosed tails included), (iii) which exception `vFeedTokens` raises, by `classify`
over the pass that raises, (iv) the plain parser never raises one of the three validator exceptions. -/

/-- one callback: when the validating handler succeeds, the plain handler does the same -/
theorem vStepT_ok_stepT (s s1 : TState) (t : Token) (hv : vStepT s t = .ok s1) : stepT s t = .ok s1 := by
  have := vRunT_ok_same_tree [t] s s1 (by simp [vRunT, hv])
  simp only [runT] at this
  cases hs : stepT s t <;> rw [hs] at this <;> simp at this
  rw [this]

/-- one callback: the validating handler raises MultipleRootNodeException only where the plain handler does -/
theorem vStepT_multipleRoot_stepT (s : TState) (t : Token) (hv : vStepT s t = .multipleRoot) :
    stepT s t = .multipleRoot := by
  cases t with
  | start n a =>
    simp only [vStepT] at hv; split at hv
    · exact hv
    · cases hv
  | startend n a =>
    simp only [vStepT] at hv; split at hv
    · exact hv
    · cases hv
  | end_ n =>
    simp only [vStepT] at hv
    split at hv
    · cases hv
    · split at hv
      · cases hv
      · split at hv <;> cases hv
  | decl d => exact hv
  | unknownDecl d => exact hv
  | pi d => exact hv
  | comment d => exact hv
  | entity d => exact hv
  | charref d => exact hv
  | data d => exact hv

/-- **(i) transfer.**  A validating pass that ends in MultipleRootNodeException: the plain pass ends there too
    (so both parsers take the retry together). -/
theorem vRunT_multipleRoot_transfer (ts : List Token) : ∀ s : TState,
    vRunT s ts = .multipleRoot → runT s ts = .multipleRoot := by
  induction ts with
  | nil => intro s h; cases h
  | cons t ts ih =>
    intro s h
    simp only [vRunT] at h
    cases hv : vStepT s t with
    | ok s1 =>
      rw [hv] at h
      simp only [runT, vStepT_ok_stepT s s1 t hv]
      exact ih s1 h
    | multipleRoot => simp only [runT, vStepT_multipleRoot_stepT s t hv]
    | invalidClose => rw [hv] at h; cases h
    | missedClose => rw [hv] at h; cases h
    | invalidAttr => rw [hv] at h; cases h

/-- **(ii) C13c at document level.**  For EVERY token sequence — multi-root, fragments, unclosed tails —: when the
    validating parser does not raise, the plain parser returns the same document, in the same pass. -/
theorem vFeed_doc_same (ts : List Token) (d : Doc) (b : Bool) (h : vFeedTokens ts = .doc d b) :
    feedTokens ts = .doc d b := by
  unfold vFeedTokens at h
  unfold feedTokens
  rw [vRun_eq] at h
  rw [run_eq]
  cases h1 : vRunT BState.init.tree ts with
  | ok s1 =>
    rw [h1] at h
    rw [vRunT_ok_same_tree ts _ s1 h1]
    exact h
  | multipleRoot =>
    rw [h1] at h
    rw [vRunT_multipleRoot_transfer ts _ h1]
    simp only [Outcome.map] at h ⊢
    rw [vRun_eq] at h
    rw [run_eq]
    cases h2 : vRunT BState.init.tree (wrapToks ts) with
    | ok s2 =>
      rw [h2] at h
      rw [vRunT_ok_same_tree _ _ s2 h2]
      exact h
    | multipleRoot => rw [h2] at h; simp [Outcome.map, FeedResult.ofPass] at h
    | invalidClose => rw [h2] at h; simp [Outcome.map, FeedResult.ofPass] at h
    | missedClose => rw [h2] at h; simp [Outcome.map, FeedResult.ofPass] at h
    | invalidAttr => rw [h2] at h; simp [Outcome.map, FeedResult.ofPass] at h
  | invalidClose => rw [h1] at h; simp [Outcome.map, FeedResult.ofPass] at h
  | missedClose => rw [h1] at h; simp [Outcome.map, FeedResult.ofPass] at h
  | invalidAttr => rw [h1] at h; simp [Outcome.map, FeedResult.ofPass] at h

/-- the class of a whole `feed`: the first pass's; when that is "several top-level nodes", the wrapped pass's -/
def feedClass (ts : List Token) : Option Exc :=
  match classify [] false ts with
  | some .multipleRoot => classify [] false (wrapToks ts)
  | c => c

private theorem classify_init (ts : List Token) : classify [] false ts = outClass (vRunT TState.init ts) :=
  (vRunT_classify ts TState.init).symm

/-- **(iii) which exception, at document level.**  `vFeedTokens` raises `e` exactly when the names-only scan
    reports `e` for the pass that raises: the first pass — or, when the first pass stops at a second top-level
    node, the wrapped second pass (e.g. a stray close AFTER a second root surfaces in pass 2). -/
theorem vFeed_raises_iff (ts : List Token) (e : Exc) : vFeedTokens ts = .raised e ↔ feedClass ts = some e := by
  unfold vFeedTokens feedClass
  rw [vRun_eq, classify_init ts]
  have hi : BState.init.tree = TState.init := rfl
  rw [hi]
  cases h1 : vRunT TState.init ts with
  | ok s1 => simp [Outcome.map, FeedResult.ofPass, outClass]
  | multipleRoot =>
    simp only [Outcome.map, outClass]
    rw [vRun_eq, classify_init (wrapToks ts), hi]
    cases h2 : vRunT TState.init (wrapToks ts) <;>
      simp [Outcome.map, FeedResult.ofPass, outClass, Outcome.exc, eq_comm]
  | invalidClose => simp [Outcome.map, FeedResult.ofPass, outClass, Outcome.exc, eq_comm]
  | missedClose => simp [Outcome.map, FeedResult.ofPass, outClass, Outcome.exc, eq_comm]
  | invalidAttr => simp [Outcome.map, FeedResult.ofPass, outClass, Outcome.exc, eq_comm]

/-- … and it returns a document exactly when the scan accepts; the pass flag says whether the first pass met a
    second top-level node -/
theorem vFeed_doc_iff (ts : List Token) : (∃ d b, vFeedTokens ts = .doc d b) ↔ feedClass ts = none := by
  constructor
  · rintro ⟨d, b, h⟩
    cases hc : feedClass ts with
    | none => rfl
    | some e => rw [(vFeed_raises_iff ts e).mpr hc] at h; cases h
  · intro hc
    cases h : vFeedTokens ts with
    | doc d b => exact ⟨d, b, rfl⟩
    | raised e => rw [(vFeed_raises_iff ts e).mp h] at hc; cases hc

theorem vFeed_second_pass_iff (ts : List Token) (d : Doc) (b : Bool) (h : vFeedTokens ts = .doc d b) :
    b = true ↔ classify [] false ts = some .multipleRoot := by
  unfold vFeedTokens at h
  rw [vRun_eq, classify_init ts] at *
  have hi : BState.init.tree = TState.init := rfl
  rw [hi] at h
  cases h1 : vRunT TState.init ts with
  | ok s1 => rw [h1] at h; simp [Outcome.map, FeedResult.ofPass] at h; simp [outClass, ← h.2]
  | multipleRoot =>
    rw [h1] at h
    simp only [Outcome.map] at h
    rw [vRun_eq, hi] at h
    cases h2 : vRunT TState.init (wrapToks ts) <;> rw [h2] at h <;>
      simp [Outcome.map, FeedResult.ofPass] at h
    simp [outClass, ← h.2]
  | invalidClose => rw [h1] at h; simp [Outcome.map, FeedResult.ofPass] at h
  | missedClose => rw [h1] at h; simp [Outcome.map, FeedResult.ofPass] at h
  | invalidAttr => rw [h1] at h; simp [Outcome.map, FeedResult.ofPass] at h

/-- (iii) in the declarative reading (`Spec.FirstError`: the first token in error, context by the names-only
    fold): one pass -/
theorem vRunT_firstError (ts : List Token) (s : TState) (e : Exc) :
    outClass (vRunT s ts) = some e ↔ FirstError (names s) s.hasRoot ts e := by
  rw [vRunT_classify]; exact classify_some_iff ts _ _ e

/-- … and acceptance: no token in error -/
theorem vRunT_accepts_iff_clean (ts : List Token) (s : TState) :
    (∃ s', vRunT s ts = .ok s') ↔ Clean (names s) s.hasRoot ts := by
  rw [← classify_none_iff, ← vRunT_classify]
  cases vRunT s ts <;> simp [outClass]

/-- **(iv)** the plain parser never ends in one of the three validator exceptions — so "never one of the three
    validator exceptions" for a document on which both parsers agree is a statement about the validating parser -/
theorem feedTokens_never_validator_exception (ts : List Token) :
    feedTokens ts ≠ .raised .invalidClose ∧ feedTokens ts ≠ .raised .missedClose ∧
    feedTokens ts ≠ .raised .invalidAttr := by
  have key : ∀ e, feedTokens ts = .raised e → e = .multipleRoot := by
    intro e h
    unfold feedTokens at h
    rw [run_eq] at h
    rcases runT_ok_or_multipleRoot ts BState.init.tree with ⟨s', h1⟩ | h1
    · rw [h1] at h; simp [Outcome.map, FeedResult.ofPass] at h
    · rw [h1] at h
      simp only [Outcome.map] at h
      rw [run_eq] at h
      rcases runT_ok_or_multipleRoot (wrapToks ts) BState.init.tree with ⟨s2, h2⟩ | h2
      · rw [h2] at h; simp [Outcome.map, FeedResult.ofPass] at h
      · rw [h2] at h; simp [Outcome.map, FeedResult.ofPass, Outcome.exc] at h; exact h.symm
  refine ⟨?_, ?_, ?_⟩ <;> intro h <;> have := key _ h <;> cases this

/-- when the validating parser raises MultipleRootNodeException (the wrapped pass met a further top-level node:
    the input closes the wrapper itself), so does the plain parser -/
theorem vFeed_multipleRoot_same (ts : List Token) (h : vFeedTokens ts = .raised .multipleRoot) :
    feedTokens ts = .raised .multipleRoot := by
  unfold vFeedTokens at h
  unfold feedTokens
  rw [vRun_eq] at h
  rw [run_eq]
  cases h1 : vRunT BState.init.tree ts with
  | ok s1 => rw [h1] at h; simp [Outcome.map, FeedResult.ofPass] at h
  | multipleRoot =>
    rw [h1] at h
    rw [vRunT_multipleRoot_transfer ts _ h1]
    simp only [Outcome.map] at h ⊢
    rw [vRun_eq] at h
    rw [run_eq]
    cases h2 : vRunT BState.init.tree (wrapToks ts) with
    | ok s2 => rw [h2] at h; simp [Outcome.map, FeedResult.ofPass] at h
    | multipleRoot => rw [vRunT_multipleRoot_transfer _ _ h2]; rfl
    | invalidClose => rw [h2] at h; simp [Outcome.map, FeedResult.ofPass, Outcome.exc] at h
    | missedClose => rw [h2] at h; simp [Outcome.map, FeedResult.ofPass, Outcome.exc] at h
    | invalidAttr => rw [h2] at h; simp [Outcome.map, FeedResult.ofPass, Outcome.exc] at h
  | invalidClose => rw [h1] at h; simp [Outcome.map, FeedResult.ofPass, Outcome.exc] at h
  | missedClose => rw [h1] at h; simp [Outcome.map, FeedResult.ofPass, Outcome.exc] at h
  | invalidAttr => rw [h1] at h; simp [Outcome.map, FeedResult.ofPass, Outcome.exc] at h

/-! #### Non-vacuity (document level) -/

/-- a non-balanced multi-root input whose error is in the SECOND pass: `<a></a><b></c>` — the first pass stops
    at the second root `<b>` (MultipleRootNodeException), the wrapped pass meets the stray `</c>` -/
def twoRootsStray : List Token :=
  [.start "a".toList [], .end_ "a".toList, .start "b".toList [], .end_ "c".toList]

example : vRunT TState.init twoRootsStray = .multipleRoot := by rfl
example : vFeedTokens twoRootsStray = .raised .invalidClose := by rfl
example : classify [] false twoRootsStray = some .multipleRoot := by decide
example : feedClass twoRootsStray = some .invalidClose := by decide
/-- the plain parser accepts it (wrapper pass, `b` closed at end of input, `</c>` ignored) -/
example : ∃ d, feedTokens twoRootsStray = .doc d true := ⟨_, rfl⟩

/-- an unclosed tail in a multi-root input: in pass 2 the wrapper's own end tag meets `b` still open — a skipped
    close (MissedCloseException); the plain parser accepts the same input (`vFeed_doc_same` is not vacuous the
    other way round: see the next example) -/
example : vFeedTokens [.start "a".toList [], .end_ "a".toList, .start "b".toList []] = .raised .missedClose := by rfl

/-- … while a multi-root input with every element closed is accepted in pass 2 with the plain parser's document -/
example : ∃ d, vFeedTokens [.start "a".toList [], .end_ "a".toList, .data "x".toList, .start "b".toList [], .end_ "b".toList]
      = .doc d true ∧
    feedTokens [.start "a".toList [], .end_ "a".toList, .data "x".toList, .start "b".toList [], .end_ "b".toList]
      = .doc d true :=
  ⟨_, rfl, rfl⟩

/-- the declarative reading on the same input: the first token in error is the fourth, in the context `[]` -/
example : FirstError [] false twoRootsStray .multipleRoot :=
  (classify_some_iff _ _ _ _).mp (by decide)

end AHP.C13
