/- C13 — property theorems (stub: the property is not claimed yet). -/
namespace AHP.C13
end AHP.C13
