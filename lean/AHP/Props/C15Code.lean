/-
  C15 — the code tie of the compiled-expression cache: the methods of `xpath/_cache.py` THEMSELVES
  (`XPathExpressionCacheType.__init__`, `getCachedExpression`, `setCachedExpression`, dumped node by node into `Gen.Code`
  by harness/ahpcheck/translate_code.py on every run and interpreted by `AHP.PyAst`) do to the cache object what the
  hand-written model `Model/Cache.lean` (`State.empty`, `Cache.get`, `Cache.set`: the model of every C15 theorem) does to its
  state — for every state, key function, expression text, stored value, every `MAX_CACHED_EXPRESSIONS` and
  `CLEAR_AT_ONE_TIME` (the module constants are read at call time), and every `while` fuel above the length of the
  recency list.  The lock is a boolean field: each method is entered with the lock free and leaves it free.

  An edit of a method changes the dump and breaks its theorem for ALL states (the differential check of the C15 stream
  only sees the generated histories).
-/
import AHP.Lemmas.PyAstCache
import AHP.Lemmas.CacheLock
namespace AHP.C15Code
open AHP AHP.Gen AHP.Conv AHP.PyAst AHP.Gen.Code AHP.Cache

/-- `None` for a miss, the stored object for a hit: what `getCachedExpression` returns. -/
def optPy : Option PyV → PyV
  | none => .none
  | some v => v

theorem mem_of_dictGet {m : List (Str × PyV)} {k : Str} {v : PyV} (h : Cache.dictGet m k = some v) : (k, v) ∈ m := by
  induction m with
  | nil => simp [Cache.dictGet] at h
  | cons p r ih =>
    obtain ⟨a, w⟩ := p
    simp only [Cache.dictGet] at h
    by_cases ha : a = k
    · simp only [ha, if_true, Option.some.injEq] at h
      subst ha; subst h; exact List.mem_cons_self ..
    · simp only [ha, if_false] at h
      exact List.mem_cons_of_mem _ (ih h)

/-- `XPathExpressionCacheType.__init__(self)` on a fresh object creates the empty state of the hand model and a free lock. -/
theorem init_code_eq_model (key : Str → Str) (MAX CLEAR fuel : Nat) :
    runMeth (cacheCx key MAX CLEAR fuel) XPathExpressionCacheType_init_ast [] []
      = (some (ofState State.empty false), .ok (.py .none)) := by
  simp [runMeth, XPathExpressionCacheType_init_ast, bindArgs, execL, execS, eval, Val.toField, aliasOK, Expr.makesNew,
    putField, List.lookup, assocSet, resultOf, ofState, State.empty, embD, embK]

/-- `getCachedExpression(self, expressionStr)`: the object afterwards and the value returned are `Cache.get` of the hand
model at the key of the text — for every state none of whose stored objects is `None` (the code reads a stored `None`
as a miss), every `MAX`, `CLEAR`, and every fuel above the length of the recency list. -/
theorem getCachedExpression_code_eq_model (key : Str → Str) (MAX CLEAR fuel : Nat) (s : State Str PyV) (e : Str)
    (hv : ∀ p ∈ s.map, p.2 ≠ .none) (hfuel : s.recent.length < fuel) :
    runMeth (cacheCx key MAX CLEAR fuel) XPathExpressionCacheType_getCachedExpression_ast (ofState s false) [.py (.str e)]
      = (some (ofState (Cache.get s (key e)).1 false), .ok (.py (optPy (Cache.get s (key e)).2))) := by
  simp only [runMeth, XPathExpressionCacheType_getCachedExpression_ast, bindArgs]
  cases hg : Cache.dictGet s.map (key e) with
  | none =>
    py_stmts
    py_cache [ofState, hg, Cache.get, optPy]
  | some v =>
    have hne : v ≠ .none := hv _ (mem_of_dictGet hg)
    have hloop := fun M L a b => rmLoop_get_stmt (cacheCx key MAX CLEAR fuel) (key e) s.recent M L a b hfuel
    py_stmts
    py_cache [ofState, hg, hne, hloop, Cache.get, optPy]

/-- `setCachedExpression(self, expressionStr, xpathExpressionObj)`: the object afterwards is `Cache.set MAX CLEAR` of the
hand model at the key of the text; the call returns `None` — for every state, every value, every `MAX`, `CLEAR` (also the
broken bounds `CLEAR ≥ MAX`: Python's slice rules on both sides), every fuel above the length of the recency list. -/
theorem setCachedExpression_code_eq_model (key : Str → Str) (MAX CLEAR fuel : Nat) (s : State Str PyV) (e : Str) (v : PyV)
    (hfuel : s.recent.length < fuel) :
    runMeth (cacheCx key MAX CLEAR fuel) XPathExpressionCacheType_setCachedExpression_ast (ofState s false)
        [.py (.str e), .py v]
      = (some (ofState (Cache.set MAX CLEAR s (key e) v) false), .ok (.py .none)) := by
  simp only [runMeth, XPathExpressionCacheType_setCachedExpression_ast, bindArgs]
  have hloop := fun M L a b => rmLoop_set_stmt (cacheCx key MAX CLEAR fuel) (key e) s.recent M L a b hfuel
  py_stmts
  by_cases hgt : MAX < (removeAll (key e) s.recent).length + 1
  · have hgtI : (MAX : Int) < ((removeAll (key e) s.recent).length : Int) + 1 := by omega
    py_cache [ofState, hloop, Cache.set, hgt, hgtI, catches]
  · have hgtI : ¬ ((MAX : Int) < ((removeAll (key e) s.recent).length : Int) + 1) := by omega
    py_cache [ofState, hloop, Cache.set, hgt, hgtI, catches]

/-- The fuel does not matter once it exceeds the length of the recency list (both methods; cf. `C14.tokenizer_fuel_suffices`). -/
theorem cache_code_fuel_suffices (key : Str → Str) (MAX CLEAR f₁ f₂ : Nat) (s : State Str PyV) (e : Str) (v : PyV)
    (hv : ∀ p ∈ s.map, p.2 ≠ .none) (h₁ : s.recent.length < f₁) (h₂ : s.recent.length < f₂) :
    runMeth (cacheCx key MAX CLEAR f₁) XPathExpressionCacheType_getCachedExpression_ast (ofState s false) [.py (.str e)]
        = runMeth (cacheCx key MAX CLEAR f₂) XPathExpressionCacheType_getCachedExpression_ast (ofState s false) [.py (.str e)]
    ∧ runMeth (cacheCx key MAX CLEAR f₁) XPathExpressionCacheType_setCachedExpression_ast (ofState s false)
          [.py (.str e), .py v]
        = runMeth (cacheCx key MAX CLEAR f₂) XPathExpressionCacheType_setCachedExpression_ast (ofState s false)
          [.py (.str e), .py v] := by
  rw [getCachedExpression_code_eq_model key MAX CLEAR f₁ s e hv h₁, getCachedExpression_code_eq_model key MAX CLEAR f₂ s e hv h₂,
    setCachedExpression_code_eq_model key MAX CLEAR f₁ s e v h₁, setCachedExpression_code_eq_model key MAX CLEAR f₂ s e v h₂]
  exact ⟨rfl, rfl⟩

/-- With the constants the source ships (regenerated into `Gen.Tables` on every run) the dumped `setCachedExpression` is the
transition `Cache.set Gen.maxCachedExpressions Gen.clearAtOneTime` that `C15.shipped_inv` is about. -/
theorem setCachedExpression_code_shipped (key : Str → Str) (fuel : Nat) (s : State Str PyV) (e : Str) (v : PyV)
    (hfuel : s.recent.length < fuel) :
    runMeth (cacheCx key Gen.maxCachedExpressions Gen.clearAtOneTime fuel) XPathExpressionCacheType_setCachedExpression_ast
        (ofState s false) [.py (.str e), .py v]
      = (some (ofState (Cache.set Gen.maxCachedExpressions Gen.clearAtOneTime s (key e) v) false), .ok (.py .none)) :=
  setCachedExpression_code_eq_model key _ _ fuel s e v hfuel

/-- The methods are critical sections of the lock-level programs of `Model/Cache.lean` (one program point per statement:
acquire, lookup, the removal loop, append, release): from a free lock, the whole of `getCachedExpression`, run alone, is the run
of `lstep` from `getAcquire` to its return — same cache, same result, lock free again. -/
theorem getCachedExpression_code_eq_lsteps (key : Str → Str) (MAX CLEAR fuel : Nat) (s : State Str PyV) (e : Str)
    (hv : ∀ p ∈ s.map, p.2 ≠ .none) (hfuel : s.recent.length < fuel) :
    ∃ sh r, Runs MAX CLEAR ⟨false, s⟩ (.getAcquire (key e)) sh (.done r false)
      ∧ runMeth (cacheCx key MAX CLEAR fuel) XPathExpressionCacheType_getCachedExpression_ast (ofState s false) [.py (.str e)]
          = (some (ofState sh.cache sh.held), .ok (.py (optPy r))) := by
  refine ⟨⟨false, (Cache.get s (key e)).1⟩, (Cache.get s (key e)).2, get_section_runs MAX CLEAR s (key e), ?_⟩
  exact getCachedExpression_code_eq_model key MAX CLEAR fuel s e hv hfuel

/-- The same for `setCachedExpression` (normal path, from `setAcquire` to its return). -/
theorem setCachedExpression_code_eq_lsteps (key : Str → Str) (MAX CLEAR fuel : Nat) (s : State Str PyV) (e : Str) (v : PyV)
    (hfuel : s.recent.length < fuel) :
    ∃ sh, Runs MAX CLEAR ⟨false, s⟩ (.setAcquire (key e) v false) sh (.done none false)
      ∧ runMeth (cacheCx key MAX CLEAR fuel) XPathExpressionCacheType_setCachedExpression_ast (ofState s false)
          [.py (.str e), .py v] = (some (ofState sh.cache sh.held), .ok (.py .none)) := by
  refine ⟨⟨false, Cache.set MAX CLEAR s (key e) v⟩, set_section_runs MAX CLEAR s (key e) v, ?_⟩
  exact setCachedExpression_code_eq_model key MAX CLEAR fuel s e v hfuel

/-! ### non-vacuity: concrete runs of the dump through the interpreter (kernel evaluation), off the trivial paths -/

-- A failing `decide +kernel` explains itself by re-evaluating the proposition with the elaborator, which is very slow on
-- runs of the interpreter (minutes, gigabytes): the small budget makes a broken example fail at once.  The kernel check of
-- a correct example does not consume it.
set_option maxHeartbeats 2000

private def st : State Str PyV :=
  ⟨[("a".toList, .opaque "A"), ("b".toList, .opaque "B")], ["a".toList, "b".toList, "a".toList]⟩

/-- the hypotheses of the theorems are met by a state with a duplicate in the recency list -/
example : (∀ p ∈ st.map, p.2 ≠ .none) ∧ st.recent.length < 4 := by decide

/-- a hit: both occurrences of the key leave the list, one is appended; the lock is free again -/
example : runMeth (cacheCx id 3 1 4) XPathExpressionCacheType_getCachedExpression_ast (ofState st false) [.py (.str "a".toList)]
    = (some (ofState ⟨st.map, ["b".toList, "a".toList]⟩ false), .ok (.py (.opaque "A"))) := by decide +kernel
/-- a miss changes nothing -/
example : runMeth (cacheCx id 3 1 4) XPathExpressionCacheType_getCachedExpression_ast (ofState st false) [.py (.str "c".toList)]
    = (some (ofState st false), .ok (.py .none)) := by decide +kernel
/-- too little fuel is an error, never a value (the loop has removed one occurrence and stopped) -/
example : (runMeth (cacheCx id 3 1 2) XPathExpressionCacheType_getCachedExpression_ast (ofState st false)
    [.py (.str "a".toList)]).2 = .error (unsupported "while: out of fuel") := by decide +kernel
/-- entered with the lock held, the method would wait for ever: an error -/
example : (runMeth (cacheCx id 3 1 4) XPathExpressionCacheType_getCachedExpression_ast (ofState st true)
    [.py (.str "a".toList)]).2 = .error (unsupported "acquire of a held lock") := by decide +kernel
/-- the hypothesis on stored values is needed: a stored `None` is read as a miss (the hand model would touch the key) -/
example : runMeth (cacheCx id 3 1 4) XPathExpressionCacheType_getCachedExpression_ast
      (ofState ⟨[("a".toList, .none)], ["a".toList, "b".toList]⟩ false) [.py (.str "a".toList)]
    = (some (ofState ⟨[("a".toList, .none)], ["a".toList, "b".toList]⟩ false), .ok (.py .none))
    ∧ (Cache.get (⟨[("a".toList, .none)], ["a".toList, "b".toList]⟩ : State Str PyV) "a".toList).1.recent
        = ["b".toList, "a".toList] := by decide +kernel
/-- storing with an overflow: bound 2, clearing 1 — the three oldest keys leave map and list -/
example : runMeth (cacheCx id 2 1 4) XPathExpressionCacheType_setCachedExpression_ast (ofState st false)
      [.py (.str "c".toList), .py (.opaque "C")]
    = (some (ofState ⟨[("c".toList, .opaque "C")], ["c".toList]⟩ false), .ok (.py .none)) := by decide +kernel
/-- the broken bound `CLEAR = MAX`: `recent[-0:]` is the whole list while every key leaves the map (as the hand model has it) -/
example : runMeth (cacheCx id 2 2 4) XPathExpressionCacheType_setCachedExpression_ast (ofState st false)
      [.py (.str "c".toList), .py (.opaque "C")]
    = (some (ofState ⟨[], ["a".toList, "b".toList, "a".toList, "c".toList]⟩ false), .ok (.py .none)) := by decide +kernel
/-- storing without overflow, an existing key keeps its place in the map -/
example : runMeth (cacheCx id 10 3 4) XPathExpressionCacheType_setCachedExpression_ast (ofState st false)
      [.py (.str "a".toList), .py (.opaque "A2")]
    = (some (ofState ⟨[("a".toList, .opaque "A2"), ("b".toList, .opaque "B")], ["b".toList, "a".toList]⟩ false),
       .ok (.py .none)) := by decide +kernel
/-- a call with a missing argument is a `TypeError` -/
example : (runMeth (cacheCx id 10 3 4) XPathExpressionCacheType_setCachedExpression_ast (ofState st false)
      [.py (.str "a".toList)]).2 = .error .typeError := by decide +kernel

end AHP.C15Code
