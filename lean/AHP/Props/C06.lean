/-
  C06 — every search returns exactly the matching elements of its scope, once, in order.

  Property theorems only.  Model: AHP/Model/Search.lean (the functions the driver executes);
  specification functions (`Node.preorder`, `Node.desc`, `fil`, `dedupN`) and helper lemmas:
  AHP/Lemmas/Search.lean.

  Reading guide.  `n.Distinct` says the uids below `n` are pairwise distinct (uuid freshness + tree
  shape: what "each element once" presupposes).  Scopes of the property text:
    parser            `root.preorder`                       (`parserScope root none`)
    parser, root=r    `r.desc` (or the whole document when `r` is the root)   (`parserScope root (some r)`)
    element           `n.desc`                              strict descendants
    collection        `dedupN [] (ms.flatMap Node.preorder)` members and descendants, discovery order
  and every result is `fil pred scope` — the scope filtered by the documented predicate, order kept.
-/
import AHP.Lemmas.Search
import AHP.Lemmas.ClassWords
namespace AHP.C06
open AHP AHP.G3

/-! #### C06a — parser and element forms: the recursive scan is the filter of the scope -/

/-- Generic parser form (`getElementsByTagName`, `ByAttr`, `CustomFilter` use the same test on the root
    and below it). -/
theorem parser_scan (p : Elem → Bool) (root : Node) (arg : Option Node)
    (h : (scanRoot root arg).Distinct) :
    (scanP p p (handleRootArg root arg).2 (handleRootArg root arg).1).items = fil p (parserScope root arg) := by
  rcases handleRootArg_cases root arg with ⟨h1, h2⟩ | ⟨r, _, h1, h2⟩
  · rw [h2]; simp only [scanRoot, h1] at h ⊢; exact scanP_root p h
  · rw [h2]; simp only [scanRoot, h1] at h ⊢
    rw [scanP_items p p false h]; simp

theorem parser_scan_dot (a q : Str) (hq : q ≠ []) (root : Node) (arg : Option Node)
    (h : (scanRoot root arg).Distinct) :
    (scanP (pDot a q) (pAttr a q) (handleRootArg root arg).2 (handleRootArg root arg).1).items
      = fil (pAttr a q) (parserScope root arg) := by
  rcases handleRootArg_cases root arg with ⟨h1, h2⟩ | ⟨r, _, h1, h2⟩
  · rw [h2]; simp only [scanRoot, h1] at h ⊢
    rw [scanP_items _ _ true h, Node.preorder_eq, fil_cons, pDot_eq_pAttr a q hq]; simp
  · rw [h2]; simp only [scanRoot, h1] at h ⊢
    rw [scanP_items _ _ false h]; simp

/-- `getElementsByTagName` — parser (with any `root=`) and element. -/
theorem byTagName_parser (q : Str) (root : Node) (arg : Option Node) (h : (scanRoot root arg).Distinct) :
    (byTagName q (.parser root arg)).items = fil (pTag q) (parserScope root arg) := parser_scan _ root arg h
theorem byTagName_element (q : Str) {n : Node} (h : n.Distinct) :
    (byTagName q (.element n)).items = fil (pTag q) n.desc := descScan_items _ n h

/-- `getElementsByName` (searched value non-empty, as the property says). -/
theorem byName_parser (q : Str) (hq : q ≠ []) (root : Node) (arg : Option Node) (h : (scanRoot root arg).Distinct) :
    (byName q (.parser root arg)).items = fil (pAttr (str "name") q) (parserScope root arg) :=
  parser_scan_dot _ q hq root arg h
theorem byName_element (q : Str) {n : Node} (h : n.Distinct) :
    (byName q (.element n)).items = fil (pAttr (str "name") q) n.desc := descScan_items _ n h

/-- `getElementsByAttr`. -/
theorem byAttr_parser (a v : Str) (root : Node) (arg : Option Node) (h : (scanRoot root arg).Distinct) :
    (byAttr a v (.parser root arg)).items = fil (pAttr a v) (parserScope root arg) := parser_scan _ root arg h
theorem byAttr_element (a v : Str) {n : Node} (h : n.Distinct) :
    (byAttr a v (.element n)).items = fil (pAttr a v) n.desc := descScan_items _ n h

/-- `getElementsCustomFilter`, for every predicate. -/
theorem customFilter_parser (f : Elem → Bool) (root : Node) (arg : Option Node) (h : (scanRoot root arg).Distinct) :
    (customFilter f (.parser root arg)).items = fil f (parserScope root arg) := parser_scan _ root arg h
theorem customFilter_element (f : Elem → Bool) {n : Node} (h : n.Distinct) :
    (customFilter f (.element n)).items = fil f n.desc := descScan_items _ n h

/-- `getElementsWithAttrValues`: the parser form delegates to the element form and adds the root. -/
theorem withAttrValues_parser (a : Str) (vs : List Str) (root : Node) (arg : Option Node)
    (h : (scanRoot root arg).Distinct) :
    (withAttrValues a vs (.parser root arg)).items = fil (pVals a vs) (parserScope root arg) := by
  rcases handleRootArg_cases root arg with ⟨h1, h2⟩ | ⟨r, _, h1, h2⟩
  · rw [h2]; simp only [scanRoot, h1] at h
    simp only [withAttrValues, h1, Bool.true_and]
    rw [Node.preorder_eq, fil_cons]
    by_cases hp : pVals a vs root.elem
    · simp only [hp, if_true]
      have h1' : (TC.ofList [root]).items = [root] := TC.ofList_items_of_nodup (by simp [uidsOf])
      simp only [TC.add, h1']
      have hfresh : ((TC.ofList [root]).ids ++ uidsOf (descScan (pVals a vs) root).items).Nodup := by
        simp only [TC.ids, h1', descScan_items _ root h]
        have hs : (root :: fil (pVals a vs) root.desc).Sublist root.preorder := by
          rw [Node.preorder_eq]; exact (fil_sublist _ _).cons_cons root
        simpa [uidsOf] using uids_nodup_of_sublist hs h
      rw [(TC.iadd_items_of_fresh (TC.ofList_spec [root]).1 hfresh).2, h1', descScan_items _ root h]
    · simp only [hp, Bool.false_eq_true, if_false, List.nil_append]
      exact descScan_items _ root h
  · rw [h2]; simp only [scanRoot, h1] at h
    simp only [withAttrValues, h1, Bool.false_and, Bool.false_eq_true, if_false]
    exact descScan_items _ r h
theorem withAttrValues_element (a : Str) (vs : List Str) {n : Node} (h : n.Distinct) :
    (withAttrValues a vs (.element n)).items = fil (pVals a vs) n.desc := descScan_items _ n h

/-- The single-result forms return the first match of the scope in document order, or nothing
    (no hypothesis on ids is needed: the first match is the first match). -/
theorem byId_parser (q : Str) (hq : q ≠ []) (root : Node) (arg : Option Node) :
    byId q (.parser root arg) = (fil (pAttr (str "id") q) (parserScope root arg)).head? := by
  rcases handleRootArg_cases root arg with ⟨h1, h2⟩ | ⟨r, _, h1, h2⟩
  · rw [h2]; simp only [byId, h1]
    rw [firstP_eq, Node.preorder_eq, fil_cons, pDot_eq_pAttr _ q hq]; simp
  · rw [h2]; simp only [byId, h1]
    rw [firstP_eq]; simp
theorem byId_element (q : Str) (n : Node) :
    byId q (.element n) = (fil (pAttr (str "id") q) n.desc).head? := descFirst_eq _ n

theorem firstCustomFilter_parser (f : Elem → Bool) (root : Node) (arg : Option Node) :
    firstCustomFilter f (.parser root arg) = some (fil f (parserScope root arg)).head? := by
  rcases handleRootArg_cases root arg with ⟨h1, h2⟩ | ⟨r, _, h1, h2⟩
  · rw [h2]; simp only [firstCustomFilter, h1]
    rw [firstP_eq, Node.preorder_eq, fil_cons]; simp
  · rw [h2]; simp only [firstCustomFilter, h1]
    rw [firstP_eq]; simp
theorem firstCustomFilter_element (f : Elem → Bool) (n : Node) :
    firstCustomFilter f (.element n) = some (fil f n.desc).head? := by
  simp [firstCustomFilter, descFirst_eq]

/-- The single-result form agrees with the list form: it is the head of `getElementsCustomFilter`. -/
theorem first_is_head_of_all (f : Elem → Bool) (root : Node) (arg : Option Node) (h : (scanRoot root arg).Distinct) :
    firstCustomFilter f (.parser root arg) = some (customFilter f (.parser root arg)).items.head? := by
  rw [firstCustomFilter_parser, customFilter_parser f root arg h]

/-- "each element once": a filtered scope of a document with distinct ids has no repeated element. -/
theorem result_nodup (p : Elem → Bool) {scope : List Node} (h : (uidsOf scope).Nodup) :
    (uidsOf (fil p scope)).Nodup := uids_nodup_of_sublist (fil_sublist p scope) h

theorem parserScope_nodup {root : Node} (h : root.Distinct) (arg : Option Node)
    (ha : ∀ r, arg = some r → r ∈ root.preorder) : (uidsOf (parserScope root arg)).Nodup := by
  cases arg with
  | none => exact h
  | some r =>
    simp only [parserScope]
    split
    · exact h
    · exact Node.Distinct.desc (distinct_of_mem h r (ha r rfl))

/-! #### C06e — class queries -/

/-- "carries all of them": only the *set* of requested names matters — order and multiplicity are
    irrelevant. -/
theorem allClasses_set (ns ms : List Str) (h : ∀ x, x ∈ ns ↔ x ∈ ms) (e : Elem) :
    pAllClasses ns e = pAllClasses ms e := by
  simp only [pAllClasses]
  rw [Bool.eq_iff_iff]
  simp only [List.all_eq_true]
  exact ⟨fun a x hx => a x ((h x).mpr hx), fun a x hx => a x ((h x).mp hx)⟩

theorem allClasses_perm {ns ms : List Str} (h : ns.Perm ms) (e : Elem) : pAllClasses ns e = pAllClasses ms e :=
  allClasses_set ns ms (fun _ => h.mem_iff) e

theorem allClasses_dup (c : Str) (ns : List Str) (e : Elem) : pAllClasses (c :: c :: ns) e = pAllClasses (c :: ns) e :=
  allClasses_set _ _ (by intro x; simp) e

/-- `getElementsByClassName` with the names `c :: rest` (what `classWords` made of the query string):
    exactly the elements of the scope carrying all of them. -/
theorem byClassName_parser (q c : Str) (rest : List Str) (hw : classWords q = c :: rest)
    (root : Node) (arg : Option Node) (h : (scanRoot root arg).Distinct) :
    ∃ r, byClassName q (.parser root arg) = some r ∧
      r.items = fil (pAllClasses (c :: rest)) (parserScope root arg) := by
  rcases handleRootArg_cases root arg with ⟨h1, h2⟩ | ⟨r, _, h1, h2⟩
  · rw [h2]; simp only [scanRoot, h1] at h
    refine ⟨_, by simp only [byClassName, h1, hw]; rfl, ?_⟩
    have hk := Node.Distinct.desc h
    simp only [Bool.true_and]
    rw [show descScanL (pClass c) root.kids = fil (pClass c) root.desc from descScanL_eq _ _ hk]
    have e1 : (if pClass c root.elem = true then [root] else []) ++ fil (pClass c) root.desc
        = fil (pClass c) root.preorder := by rw [Node.preorder_eq, fil_cons]
    rw [e1, first_then_rest]
    exact TC.ofList_items_of_nodup (uids_nodup_of_sublist (fil_sublist _ _) h)
  · rw [h2]; simp only [scanRoot, h1] at h
    refine ⟨_, by simp only [byClassName, h1, hw]; rfl, ?_⟩
    have hk := Node.Distinct.desc h
    simp only [Bool.false_and, Bool.false_eq_true, if_false, List.nil_append]
    rw [show descScanL (pClass c) r.kids = fil (pClass c) r.desc from descScanL_eq _ _ hk, first_then_rest]
    exact TC.ofList_items_of_nodup (uids_nodup_of_sublist (fil_sublist _ _) hk)

theorem byClassName_element (q c : Str) (rest : List Str) (hw : classWords q = c :: rest)
    {n : Node} (h : n.Distinct) :
    ∃ r, byClassName q (.element n) = some r ∧ r.items = fil (pAllClasses (c :: rest)) n.desc := by
  refine ⟨_, by simp only [byClassName, hw]; rfl, ?_⟩
  have hk := Node.Distinct.desc h
  rw [show descScanL (pClass c) n.kids = fil (pClass c) n.desc from descScanL_eq _ _ hk, first_then_rest]
  exact TC.ofList_items_of_nodup (uids_nodup_of_sublist (fil_sublist _ _) hk)

/-- The collection form compiles one test; with one name it reads the stripped query, which is that name. -/
theorem byClassName_coll (q : Str) (ws : List Str) (hw : classWords q = ws) (h1 : ws.length ≤ 1 → ws = [strip q])
    (ms : List Node) :
    ∃ r, byClassName q (.coll ms) = some r ∧
      r.items = dedupN [] (fil (pAllClasses ws) (ms.flatMap Node.preorder)) := by
  refine ⟨_, rfl, ?_⟩
  simp only [hw]
  rw [collScan_eq, (TC.ofList_spec _).2]
  congr 1
  apply fil_congr
  intro n _
  split
  · rename_i hl
    rw [h1 hl]; simp [pAllClasses, pClass]
  · rfl

/-- C06e on query strings: class names (non-empty, free of white space) joined by single spaces. The parser
    form returns exactly the elements of the scope that carry all of them. -/
theorem byClassName_query_parser (names : List Str) (hne : names ≠ []) (hw : ∀ n ∈ names, Word n)
    (root : Node) (arg : Option Node) (h : (scanRoot root arg).Distinct) :
    ∃ r, byClassName (joinWith [' '] names) (.parser root arg) = some r ∧
      r.items = fil (pAllClasses names) (parserScope root arg) := by
  cases names with
  | nil => exact absurd rfl hne
  | cons c rest => exact byClassName_parser _ c rest (classWords_join _ hne hw) root arg h

theorem byClassName_query_element (names : List Str) (hne : names ≠ []) (hw : ∀ n ∈ names, Word n)
    {n : Node} (h : n.Distinct) :
    ∃ r, byClassName (joinWith [' '] names) (.element n) = some r ∧ r.items = fil (pAllClasses names) n.desc := by
  cases names with
  | nil => exact absurd rfl hne
  | cons c rest => exact byClassName_element _ c rest (classWords_join _ hne hw) h

theorem byClassName_query_coll (names : List Str) (hne : names ≠ []) (hw : ∀ n ∈ names, Word n) (ms : List Node) :
    ∃ r, byClassName (joinWith [' '] names) (.coll ms) = some r ∧
      r.items = dedupN [] (fil (pAllClasses names) (ms.flatMap Node.preorder)) := by
  apply byClassName_coll _ names (classWords_join _ hne hw)
  intro hl
  cases names with
  | nil => exact absurd rfl hne
  | cons c rest =>
    have : rest = [] := by
      cases rest with
      | nil => rfl
      | cons _ _ => simp at hl
    subst this
    have hj : joinWith [' '] [c] = c := by unfold joinWith; rfl
    rw [hj, strip_word (hw c (by simp))]

/-- "whatever the order or number of names": two queries naming the same set of classes — permuted, with
    repetitions — have the same answer, on every document and from every `root=`. -/
theorem class_query_order_multiplicity_irrelevant (ns ms : List Str) (hn : ns ≠ []) (hm : ms ≠ [])
    (hwn : ∀ n ∈ ns, Word n) (hwm : ∀ n ∈ ms, Word n) (hset : ∀ x, x ∈ ns ↔ x ∈ ms)
    (root : Node) (arg : Option Node) (h : (scanRoot root arg).Distinct) :
    (byClassName (joinWith [' '] ns) (.parser root arg)).map TC.items
      = (byClassName (joinWith [' '] ms) (.parser root arg)).map TC.items := by
  obtain ⟨r1, h1, e1⟩ := byClassName_query_parser ns hn hwn root arg h
  obtain ⟨r2, h2, e2⟩ := byClassName_query_parser ms hm hwm root arg h
  rw [h1, h2, Option.map_some, Option.map_some, e1, e2]
  congr 1
  exact fil_congr (fun n _ => allClasses_set ns ms hset n.elem)

/-! #### C06b — collection forms: members and descendants, discovery order, de-duplicated -/

/-- The scope of a collection-level search. -/
def collScope (ms : List Node) : List Node := ms.flatMap Node.preorder

/-- Every `_subset`-based collection search: the matching elements of "members and their descendants",
    walking the members in sequence, each element (uid) once — first discovery wins. -/
theorem coll_scan (cmp : Elem → Bool) (ms : List Node) :
    (collScan cmp ms).items = dedupN [] (fil cmp (collScope ms)) ∧
    (collScan cmp ms).ids.Nodup ∧
    (∀ u, u ∈ (collScan cmp ms).ids ↔ u ∈ uidsOf (fil cmp (collScope ms))) := by
  rw [collScan_eq]
  have hs := TC.ofList_spec (fil cmp (ms.flatMap Node.preorder))
  refine ⟨hs.2, TC.ids_nodup hs.1, ?_⟩
  intro u
  simp only [TC.ids, hs.2]
  rw [show List.map Node.uid (dedupN [] (fil cmp (ms.flatMap Node.preorder)))
        = uidsOf (dedupN [] (fil cmp (ms.flatMap Node.preorder))) from rfl, mem_dedupN_uid]
  simp [collScope]

theorem byTagName_coll (q : Str) (ms : List Node) :
    (byTagName q (.coll ms)).items = dedupN [] (fil (pTag (lower q)) (collScope ms)) := (coll_scan _ ms).1
theorem byName_coll (q : Str) (hq : q ≠ []) (ms : List Node) :
    (byName q (.coll ms)).items = dedupN [] (fil (pAttr (str "name") q) (collScope ms)) := by
  rw [show byName q (.coll ms) = collScan (pDot (str "name") q) ms from rfl, (coll_scan _ ms).1]
  congr 1
  exact fil_congr (fun n _ => pDot_eq_pAttr _ q hq n.elem)
theorem byAttr_coll (a v : Str) (ms : List Node) :
    (byAttr a v (.coll ms)).items = dedupN [] (fil (pAttr (lower a) v) (collScope ms)) := (coll_scan _ ms).1
theorem withAttrValues_coll (a : Str) (vs : List Str) (ms : List Node) :
    (withAttrValues a vs (.coll ms)).items = dedupN [] (fil (pVals (lower a) vs) (collScope ms)) := (coll_scan _ ms).1
theorem customFilter_coll (f : Elem → Bool) (ms : List Node) :
    (customFilter f (.coll ms)).items = dedupN [] (fil f (collScope ms)) := (coll_scan _ ms).1

/-- When the members are pairwise disjoint subtrees with distinct ids nothing is dropped. -/
theorem coll_scan_disjoint (cmp : Elem → Bool) (ms : List Node) (h : (uidsOf (collScope ms)).Nodup) :
    (collScan cmp ms).items = fil cmp (collScope ms) := by
  rw [(coll_scan cmp ms).1]
  exact dedupN_of_nodup (uids_nodup_of_sublist (fil_sublist _ _) h) (by simp)

/-- `TagCollection.getElementById`: the first match walking each member and then its descendants. -/
theorem byId_coll (q : Str) (hq : q ≠ []) (ms : List Node) :
    byId q (.coll ms) = (fil (pAttr (str "id") q) (collScope ms)).head? := by
  simp only [byId, collFirst_eq, collScope]
  congr 1
  induction ms with
  | nil => rfl
  | cons m ms ih =>
    simp only [List.flatMap_cons, fil_append, ih]
    congr 1
    rw [Node.preorder_eq, fil_cons, pDot_eq_pAttr _ q hq]

/-! #### C06c — `find` -/

/-- `find(**kwargs)` with at least one keyword: the document filtered by the conjunction of the
    compiled keywords; `tagname__contains` is the only raising combination. -/
theorem find_spec (root : Node) (h : root.Distinct) (kwargs : List (Str × FVal)) (hne : kwargs ≠ [])
    (fs : List (Elem → Bool)) (hc : compileAll kwargs = some fs) :
    ∃ r, find root kwargs = some r ∧ r.items = fil (fun e => fs.all (· e)) root.preorder := by
  have : kwargs.isEmpty = false := by cases kwargs <;> simp_all
  refine ⟨_, by simp only [find, this, hc]; rfl, scanP_root _ h⟩

theorem find_empty (root : Node) : (find root []).map TC.items = some [] := rfl

/-- `compileAll` compiles keyword by keyword and fails only where `compileFind` does. -/
theorem compileAll_cons (k : Str) (v : FVal) (rest : List (Str × FVal)) (f : Elem → Bool) (fs : List (Elem → Bool))
    (h1 : compileFind k v = some f) (h2 : compileAll rest = some fs) :
    compileAll ((k, v) :: rest) = some (f :: fs) := by simp [compileAll, h1, h2]

/-- What the keywords mean (keys are lower-cased first; shown for lower-case keys without a suffix). -/
theorem compile_plain_one (key v : Str) (hl : lower key = key)
    (h1 : endsWith (str "__icontains") key = false) (h2 : endsWith (str "__contains") key = false)
    (ht : key ≠ str "tagname") (hx : key ≠ str "text") :
    ∃ f, compileFind key (.one v) = some f ∧ ∀ e, f e = (e.attrOr key [] == v) := by
  refine ⟨_, by simp only [compileFind, hl, h1, h2]; rfl, ?_⟩
  intro e; simp [ht, hx]

theorem compile_plain_many (key : Str) (vs : List Str) (hl : lower key = key)
    (h1 : endsWith (str "__icontains") key = false) (h2 : endsWith (str "__contains") key = false)
    (ht : key ≠ str "tagname") (hx : key ≠ str "text") :
    ∃ f, compileFind key (.many vs) = some f ∧ ∀ e, f e = vs.contains (e.attrOr key []) := by
  refine ⟨_, by simp only [compileFind, hl, h1, h2]; rfl, ?_⟩
  intro e; simp [ht, hx]

theorem compile_tagname (v : Str) :
    ∃ f, compileFind (str "tagname") (.one v) = some f ∧ ∀ e, f e = (e.tag == v) :=
  ⟨_, rfl, fun _ => rfl⟩
theorem compile_tagname_many (vs : List Str) :
    ∃ f, compileFind (str "tagname") (.many vs) = some f ∧ ∀ e, f e = vs.contains e.tag :=
  ⟨_, rfl, fun _ => rfl⟩
theorem compile_text (v : Str) :
    ∃ f, compileFind (str "text") (.one v) = some f ∧ ∀ e, f e = (e.text == v) :=
  ⟨_, rfl, fun _ => rfl⟩
theorem compile_text_contains (v : Str) :
    ∃ f, compileFind (str "text__contains") (.one v) = some f ∧ ∀ e, f e = isSub v e.text :=
  ⟨_, rfl, fun _ => rfl⟩
theorem compile_text_icontains_many (vs : List Str) :
    ∃ f, compileFind (str "text__icontains") (.many vs) = some f ∧
      ∀ e, f e = (vs.map lower).any (fun v => isSub v (lower e.text)) :=
  ⟨_, rfl, fun _ => rfl⟩
theorem compile_attr_contains_many (vs : List Str) :
    ∃ f, compileFind (str "title__contains") (.many vs) = some f ∧
      ∀ e, f e = vs.any (fun v => isSub v (e.attrOr (str "title") [])) := by
  refine ⟨_, rfl, fun e => ?_⟩
  show List.any (List.map id vs) (fun v => isSub v (id (e.attrOr (str "title") []))) = _
  simp
theorem compile_tagname_contains_raises (v : FVal) : compileFind (str "tagname__contains") v = none := rfl
theorem compile_key_case (v : FVal) : compileFind (str "TagName") v = compileFind (str "tagname") v := rfl

/-- `isSub` is Python's substring test. -/
theorem isSub_iff (needle hay : Str) : isSub needle hay = true ↔ ∃ a b, hay = a ++ needle ++ b := by
  induction hay with
  | nil =>
    simp only [isSub, List.isEmpty_iff]
    constructor
    · intro h; exact ⟨[], [], by simp [h]⟩
    · rintro ⟨a, b, h⟩
      have := congrArg List.length h
      simp at this
      exact List.eq_nil_of_length_eq_zero (by omega)
  | cons c cs ih =>
    simp only [isSub, Bool.or_eq_true, ih]
    constructor
    · rintro (h | ⟨a, b, h⟩)
      · obtain ⟨t, ht⟩ := List.isPrefixOf_iff_prefix.mp h
        exact ⟨[], t, by simp [ht]⟩
      · exact ⟨c :: a, b, by simp [h]⟩
    · rintro ⟨a, b, h⟩
      cases a with
      | nil =>
        left
        exact List.isPrefixOf_iff_prefix.mpr ⟨b, by simpa using h.symm⟩
      | cons a0 as =>
        right
        simp only [List.cons_append, List.cons.injEq] at h
        exact ⟨as, b, h.2⟩

/-! #### C06d — `filter` family: the documented scope filtered by the QueryableList criteria -/

/-- parser.filter / filterAnd and filterOr: the whole document. -/
theorem filter_parser_and (cs : List Crit) {root : Node} (h : root.Distinct) (hw : root.elem.tag ≠ wrapperTag) (arg : Option Node) :
    (filterQ .and_ cs (.parser root arg)).map TC.items
      = some (fil (fun e => cs.all (Crit.holds e)) root.preorder) := by
  simp only [filterQ, Option.map_some, qlAnd, (parserAllNodes_spec h hw).2]
  congr 1
  exact TC.ofList_items_of_nodup (uids_nodup_of_sublist List.filter_sublist h)
theorem filter_parser_or (cs : List Crit) {root : Node} (h : root.Distinct) (hw : root.elem.tag ≠ wrapperTag) (arg : Option Node) :
    (filterQ .or_ cs (.parser root arg)).map TC.items
      = some (fil (fun e => cs.any (Crit.holds e)) root.preorder) := by
  simp only [filterQ, Option.map_some, qlOr, (parserAllNodes_spec h hw).2]
  congr 1
  exact TC.ofList_items_of_nodup (uids_nodup_of_sublist List.filter_sublist h)

/-- … and for a document with several roots: every element but the invisible wrapper. -/
theorem filter_parser_several_roots (cs : List Crit) {root : Node} (h : root.Distinct) (hw : root.elem.tag = wrapperTag)
    (arg : Option Node) :
    (filterQ .and_ cs (.parser root arg)).map TC.items = some (fil (fun e => cs.all (Crit.holds e)) root.desc) ∧
    (filterQ .or_ cs (.parser root arg)).map TC.items = some (fil (fun e => cs.any (Crit.holds e)) root.desc) := by
  have hn := Node.Distinct.desc h
  constructor
  · simp only [filterQ, Option.map_some, qlAnd, (parserAllNodes_wrapper h hw).2]
    congr 1
    exact TC.ofList_items_of_nodup (uids_nodup_of_sublist List.filter_sublist hn)
  · simp only [filterQ, Option.map_some, qlOr, (parserAllNodes_wrapper h hw).2]
    congr 1
    exact TC.ofList_items_of_nodup (uids_nodup_of_sublist List.filter_sublist hn)

/-- element.filter / filterOr: the element itself and its descendants (as its docstring says). -/
theorem filter_element_and (cs : List Crit) {n : Node} (h : n.Distinct) :
    (filterQ .and_ cs (.element n)).map TC.items = some (fil (fun e => cs.all (Crit.holds e)) n.preorder) := by
  simp only [filterQ, Option.map_some, qlAnd, (elemAllNodes_spec h).2]
  congr 1
  exact TC.ofList_items_of_nodup (uids_nodup_of_sublist List.filter_sublist h)
theorem filter_element_or (cs : List Crit) {n : Node} (h : n.Distinct) :
    (filterQ .or_ cs (.element n)).map TC.items = some (fil (fun e => cs.any (Crit.holds e)) n.preorder) := by
  simp only [filterQ, Option.map_some, qlOr, (elemAllNodes_spec h).2]
  congr 1
  exact TC.ofList_items_of_nodup (uids_nodup_of_sublist List.filter_sublist h)

/-- collection.filterAll / filterAllAnd / filterAllOr: members and descendants in discovery order. -/
theorem filter_coll_all (cs : List Crit) {ms : List Node} (h : ∀ m ∈ ms, m.Distinct) :
    (filterQ .allAnd cs (.coll ms)).map TC.items
      = some (fil (fun e => cs.all (Crit.holds e)) (dedupN [] (collScope ms))) ∧
    (filterQ .allOr cs (.coll ms)).map TC.items
      = some (fil (fun e => cs.any (Crit.holds e)) (dedupN [] (collScope ms))) := by
  have hs := TC.ofList_spec (ms.flatMap Node.preorder)
  have hn : (uidsOf (dedupN [] (ms.flatMap Node.preorder))).Nodup := nodup_dedupN _ _
  constructor
  · simp only [filterQ, Option.map_some, qlAnd, collAllNodes_eq h, hs.2, collScope]
    congr 1
    exact TC.ofList_items_of_nodup (uids_nodup_of_sublist List.filter_sublist hn)
  · simp only [filterQ, Option.map_some, qlOr, collAllNodes_eq h, hs.2, collScope]
    congr 1
    exact TC.ofList_items_of_nodup (uids_nodup_of_sublist List.filter_sublist hn)

/-- collection.filter / filterAnd / filterOr: the members only. -/
theorem filter_coll_members (cs : List Crit) {ms : List Node} (h : (uidsOf ms).Nodup) :
    (filterQ .and_ cs (.coll ms)).map TC.items = some (fil (fun e => cs.all (Crit.holds e)) ms) ∧
    (filterQ .or_ cs (.coll ms)).map TC.items = some (fil (fun e => cs.any (Crit.holds e)) ms) := by
  constructor
  · simp only [filterQ, Option.map_some, qlAnd]
    congr 1
    exact TC.ofList_items_of_nodup (uids_nodup_of_sublist List.filter_sublist h)
  · simp only [filterQ, Option.map_some, qlOr]
    congr 1
    exact TC.ofList_items_of_nodup (uids_nodup_of_sublist List.filter_sublist h)

/-- No criterion: `filterAnd` keeps everything, `filterOr` nothing. -/
theorem filter_no_criteria (e : Elem) : ([] : List Crit).all (Crit.holds e) = true ∧ ([] : List Crit).any (Crit.holds e) = false := by
  simp

/-- The criteria on a missing attribute (`None`): only `ne` holds. -/
theorem crit_missing (e : Elem) (f v : Str) (vs : List Str) (h : fieldValue e f = none) :
    Crit.holds e (.eq f v) = false ∧ Crit.holds e (.ne f v) = true ∧ Crit.holds e (.contains f v) = false ∧
    Crit.holds e (.icontains f v) = false ∧ Crit.holds e (.isin f vs) = false := by
  simp [Crit.holds, h, optIn]

/-! #### Table obligation (tie to constants.py through the translator) -/
theorem wrapper_tag_is_xxxblank : Gen.invisibleRootTag = "xxxblank" := by decide

/-! #### Non-vacuity -/
section Examples
def eA : Elem := ⟨0, str "div", [(str "id", str "r")], [str "a", str "b", str "c"], []⟩
def eB : Elem := ⟨1, str "p", [(str "name", str "n")], [str "a", str "b"], str "hi"⟩
def eC : Elem := ⟨2, str "p", [], [str "c", str "a", str "b"], []⟩
def docX : Node := .mk eA [.mk eB [.mk eC []]]

example : docX.Distinct := by unfold Node.Distinct; decide
example : (byTagName (str "p") (.parser docX none)).ids = [1, 2] := by decide
example : ((byClassName (str "a  b c") (.parser docX none)).map TC.ids) = some [0, 2] := by decide
example : classWords (str " a  b c ") = [str "a", str "b", str "c"] := by decide
example : (byTagName (str "p") (.coll [.mk eC [], docX])).ids = [2, 1] := by decide
example : (find docX [(str "tagname", .one (str "p")), (str "name__contains", .many [str "n", str "q"])]).map TC.ids = some [1] := by
  decide
end Examples

end AHP.C06
