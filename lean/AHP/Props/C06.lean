/- C06 — property theorems (stub: the property is not claimed yet). -/
namespace AHP.C06
end AHP.C06
