/- C04 — property theorems (stub: the property is not claimed yet). -/
namespace AHP.C04
end AHP.C04
