/-
  C04 — DOM structural invariants hold after any history of mutations.

  Model: AHP/Model/Dom.lean (mutators, worlds, `step`, `run`), AHP/Model/DomView.lean (navigation).
  Invariant: `Dom.Inv` (AHP/Lemmas/Dom.lean): every root of the world is an element without parent
  whose tree satisfies `OK` (children mirror the element blocks, each child's parent is the element,
  text cache = concatenation of the text blocks, self-closing ⇒ no text and no child, one
  ownerDocument throughout), all uids of the world are pairwise distinct (no element twice, no element
  under two parents), uids are below the allocation counter.

  `step w op = none` means the call is outside the model: an unknown element, or an element argument of
  an append/insert call that is not a root of the world or contains the target — exactly the
  precondition the property states ("an element passed to an append/insert call is currently
  detached; the library does not re-parent").
-/
import AHP.Lemmas.DomMove
namespace AHP.C04
open AHP AHP.Dom

/-! ## C04a — each of the 15 calls preserves the invariant -/

/-- C04a. Whatever the call (appendText, appendChild, appendBlock(s), appendInnerHTML, insertBefore,
    insertAfter, removeText(All), remove, removeChild(ren), removeBlock(s), setAttribute) and whatever
    its arguments: if the call is inside the model, the resulting world satisfies the invariant. -/
theorem step_preserves_inv (w : World) (op : Op) (w' : World) (v : Val)
    (hw : Inv w) (h : step w op = some (w', v)) : Inv w' :=
  step_Inv' op hw h

/-! ## C04b — all histories; freshly built trees -/

/-- C04b. The invariant holds after every history of calls, of any length. -/
theorem history_preserves_inv (ops : List Op) (w w' : World) (hw : Inv w) (h : run w ops = some w') : Inv w' := by
  induction ops generalizing w with
  | nil => simp only [run, Option.some.injEq] at h; rw [← h]; exact hw
  | cons op ops ih =>
    simp only [run] at h
    split at h
    · simp at h
    · rename_i r hr
      exact ih r.1 (step_preserves_inv w op r.1 r.2 hw (by simpa using hr)) h

def FN.isEl : FN → Bool
  | .text _ => false
  | .el _ _ _ _ => true

/-- A tree built the way the constructor / the parser builds it is consistent: parent links, one
    owner throughout, children and text caches, self-closing only without content. -/
theorem built_tree_consistent (par own : Option Nat) (f : FN) (n : Nat) : OK par own (mk par own f n).1 :=
  mk_OK par own f n

/-- A freshly constructed element (`AdvancedTag(name, attrs)`, `createElement`) is a detached root. -/
theorem fresh_element_detached (name : Str) (attrs : List (Str × Option Str)) (sc : Bool) (n : Nat) :
    Detached (mk none none (.el name attrs sc []) n).1 := by
  obtain ⟨m, bs, h, _, _⟩ := mk_isEl none none name attrs sc [] n
  exact ⟨m, bs, h, mk_OK none none _ n⟩

/-- The initial world of a history — a seed tree (detached, or owned by a parser) and any number of
    spare detached trees — satisfies the invariant. -/
theorem initial_world_inv (doc : Bool) (seed : FN) (spares : List FN)
    (hseed : FN.isEl seed = true) (hsp : ∀ s ∈ spares, FN.isEl s = true) : Inv (initWorld doc seed spares) := by
  obtain ⟨k1, hi1, hn1⟩ := mk_ids none (if doc then some 0 else none) seed 0
  obtain ⟨k2, hi2, hn2⟩ := mkL_ids none none spares (mk none (if doc then some 0 else none) seed 0).2
  rw [hn1] at hi2 hn2
  have hsp' : ∀ r ∈ (mkL none none spares (mk none (if doc then some 0 else none) seed 0).2).1, r.isEl = true := by
    generalize (mk none (if doc then some 0 else none) seed 0).2 = n
    clear hi2 hn2 hn1
    induction spares generalizing n with
    | nil => simp
    | cons s ss ih =>
      intro r hr
      rw [mkL_cons] at hr
      simp only [List.mem_cons] at hr
      cases hr with
      | inl hr =>
        subst hr
        have := hsp s (by simp)
        cases s with
        | text x => simp [FN.isEl] at this
        | el a b c d => rw [mk_el]; rfl
      | inr hr => exact ih (fun x hx => hsp x (by simp [hx])) _ r hr
  refine ⟨?_, ?_, ?_⟩
  · intro r hr
    simp only [initWorld, List.mem_cons] at hr
    cases hr with
    | inl hr =>
      subst hr
      cases seed with
      | text x => simp [FN.isEl] at hseed
      | el a b c d =>
        obtain ⟨m, bs, h, ho, _⟩ := mk_isEl none (if doc then some 0 else none) a b c d 0
        refine ⟨m, bs, h, ?_⟩
        rw [ho]; exact mk_OK _ _ _ _
    | inr hr =>
      obtain ⟨m, bs, rfl, hk⟩ := mkL_roots none spares _ r hr (hsp' r hr)
      have : m.owner = none := by simp only [OK_el] at hk; exact hk.2.1
      exact ⟨m, bs, rfl, this ▸ hk⟩
  · simp only [initWorld, idsL_cons, hi1, hn1, hi2]
    rw [List.range'_append_1]
    exact range'_nodup _ _
  · intro i hi
    simp only [initWorld, idsL_cons, hi1, hn1, hi2] at hi ⊢
    rw [List.range'_append_1] at hi
    simp only [List.mem_range'_1] at hi
    rw [hn2]; omega

/-- C04 in one statement: starting from freshly built trees, the invariant holds after every
    history of calls that stays inside the model (i.e. keeps the property's precondition). -/
theorem invariant_after_any_history (doc : Bool) (seed : FN) (spares : List FN) (ops : List Op) (w' : World)
    (hseed : FN.isEl seed = true) (hsp : ∀ s ∈ spares, FN.isEl s = true)
    (h : run (initWorld doc seed spares) ops = some w') : Inv w' :=
  history_preserves_inv ops _ w' (initial_world_inv doc seed spares hseed hsp) h

/-! ## What the invariant says about one element (the clauses of the property text) -/

/-- In an invariant world, for every element: `children` is the list of element blocks in order,
    `text` is the concatenation of the text blocks, a self-closing element has neither child nor text,
    and every element block points back to the element and shares its ownerDocument. -/
theorem inv_element (w : World) (hw : Inv w) (m : Meta) (bs : List DN) (he : (m, bs) ∈ elemsL w.roots) :
    m.children = elemIds bs ∧ m.text = textOf bs ∧ (m.sc = true → elemIds bs = [] ∧ textOf bs = []) ∧
    (∀ m' k, DN.el m' k ∈ bs → m'.parent = some m.id ∧ m'.owner = m.owner) := by
  obtain ⟨p, o, hk⟩ := world_elem_OK hw he
  simp only [OK_el] at hk
  refine ⟨hk.2.2.1, hk.2.2.2.1, hk.2.2.2.2.1, ?_⟩
  intro m' k hmem
  have := OKL_mem hk.2.2.2.2.2 hmem
  simp only [OK_el] at this
  exact ⟨this.1, this.2.1.trans hk.2.1.symm⟩

/-- No element appears twice or under two parents: all uids reachable in the world are distinct. -/
theorem inv_no_element_twice (w : World) (hw : Inv w) : (idsL w.roots).Nodup := hw.nodup

/-- ownerDocument is the same for every element reachable from a root (the owning parser below a
    parser's root; None below a detached root), and a root has no parent. -/
theorem inv_owner_uniform (w : World) (hw : Inv w) (m : Meta) (bs : List DN) (hr : DN.el m bs ∈ w.roots) :
    m.parent = none ∧ ∀ e ∈ elems (.el m bs), e.1.owner = m.owner := by
  obtain ⟨m', bs', he, hk⟩ := hw.roots _ hr
  cases he
  refine ⟨by simp only [OK_el] at hk; exact hk.1, fun e h => elems_owner _ hk h⟩

/-- ownerDocument is None throughout a removed subtree: after a successful `removeChild`, the removed
    element is a root of the world, without parent, with ownerDocument None on every element below. -/
theorem removed_subtree_detached (w w' : World) (t c : Nat) (hw : Inv w)
    (h : w.removeChild t c = some (w', .el c)) :
    ∃ r ∈ w'.roots, rootId r = some c ∧ Detached r := by
  unfold World.removeChild World.apply at h
  split at h
  · simp at h
  · rename_i m bs hf
    obtain ⟨p, o, hk⟩ := findL?_roots_OK t w.roots hw.roots hf
    have hv : (locRemoveChild c m bs).2 = .el c := by
      split at h <;> (simp only [Option.some.injEq, Prod.mk.injEq] at h; exact h.2)
    obtain ⟨r, hr, he⟩ := locRemoveChild_el c m bs hv
    rw [he] at h
    simp only [Option.some.injEq, Prod.mk.injEq] at h
    obtain ⟨h1, h2, _, _, _, h6⟩ := removeFirstEl_spec c bs hr
    refine ⟨reown none (setParent none r.1), ?_, ?_, ?_⟩
    · rw [← h.1]
      simp only [World.edit, List.mem_append]
      right
      refine updL_out_mem t _ w.roots hf _ ?_
      rw [he]; simp
    · cases hr1 : r.1 with
      | text s => rw [hr1] at h1; simp [DN.isEl] at h1
      | el m' k' => rw [hr1] at h2; simpa [rootId, DN.rid] using h2
    · simp only [OK_el] at hk
      exact detach_Detached _ h1 (h6 _ _ hk.2.2.2.2.2).1

/-! ## C04c — navigation agrees with the lists -/

/-- firstElementChild, lastElementChild, childElementCount, hasChild, hasChildNodes — which the code
    computes from the cached `children` — are what the element blocks say. -/
theorem nav_children (w : World) (hw : Inv w) (m : Meta) (bs : List DN) (he : (m, bs) ∈ elemsL w.roots) :
    firstElementChild m = optEl (elemIds bs).head? ∧ lastElementChild m = optEl (elemIds bs).getLast? ∧
    childElementCount m = (elemIds bs).length ∧ (∀ c, hasChild m c = (elemIds bs).contains c) ∧
    hasChildNodes m = !(elemIds bs).isEmpty := by
  have := (inv_element w hw m bs he).1
  simp [firstElementChild, lastElementChild, childElementCount, hasChild, hasChildNodes, this]

/-- the blocks after the leading empty indent block -/
def body : List DN → List DN
  | b :: bs => if isEmptyText b then bs else b :: bs
  | [] => []

/-- firstChild / lastChild are the first / last block once the leading empty indent block is skipped
    (None when there is none). -/
theorem nav_first_last (b : DN) (bs : List DN) :
    firstChild (b :: bs) = ((body (b :: bs)).head?.map dnVal).getD Val.none ∧
    lastChild (b :: bs) = ((body (b :: bs)).getLast?.map dnVal).getD Val.none := by
  constructor
  · simp only [firstChild, firstIdx, body]
    split
    · cases bs with
      | nil => simp
      | cons c cs => simp
    · simp
  · simp only [lastChild, firstIdx, body]
    split
    · cases bs with
      | nil => simp
      | cons c cs =>
        simp only [List.length_cons, List.getLast?_cons_cons]
        rw [if_neg (by omega)]
        cases (c :: cs).getLast? <;> rfl
    · simp only [List.length_cons]
      rw [if_neg (by omega)]
      cases (b :: bs).getLast? <;> rfl

/-- getAllChildNodes lists every element below in document order; contains/containsUid hold exactly
    for the element itself and the elements below. -/
theorem nav_descendants (m : Meta) (bs : List DN) :
    descL bs = idsL bs ∧ ∀ x, containsUid m bs x = (ids (.el m bs)).contains x := by
  refine ⟨descL_eq_idsL bs, ?_⟩
  intro x
  simp only [containsUid, descL_eq_idsL, ids_el, List.contains_cons]
  rw [Bool.beq_comm]

/-- A root has no siblings and no peers. -/
theorem nav_root (w : World) (m : Meta) (hp : m.parent = none) :
    nextSibling w m = .none ∧ previousSibling w m = .none ∧ nextElementSibling w m = .none ∧
    previousElementSibling w m = .none ∧ getPeers w m = .none := by
  simp [nextSibling, previousSibling, nextElementSibling, previousElementSibling, getPeers, hp]

/-- nextSibling / previousSibling / getPeers of an element that is block `i` of an element `(pm, pbs)`
    of an invariant world — computed through the cached `parentNode` and an `index` lookup — are the
    neighbouring blocks of that list, and the other element blocks of that list. -/
theorem nav_siblings (w : World) (hw : Inv w) (pm : Meta) (pbs : List DN) (hp : (pm, pbs) ∈ elemsL w.roots)
    (i : Nat) (m : Meta) (k : List DN) (hi : pbs[i]? = some (.el m k)) :
    nextSibling w m = (match pbs[i + 1]? with | some b => dnVal b | none => Val.none) ∧
    previousSibling w m = (if i = 0 then Val.none else match pbs[i - 1]? with | some b => dnVal b | none => Val.none) ∧
    getPeers w m = .list (((elemIds pbs).filter (· ≠ m.id)).map .el) := by
  obtain ⟨p, o, hk⟩ := world_elem_OK hw hp
  simp only [OK_el] at hk
  have hmem : DN.el m k ∈ pbs := List.mem_of_getElem? hi
  have hmk := OKL_mem hk.2.2.2.2.2 hmem
  simp only [OK_el] at hmk
  have hpar : m.parent = some pm.id := hmk.1
  have hfind : w.find? pm.id = some (pm, pbs) := findL?_unique w.roots hw.nodup hp
  have hidx : indexOf (.elm m.id) pbs = some i :=
    indexOf_elm pbs (elemIds_nodup pbs (elemsL_nodup w.roots hw.nodup hp)) i hi
  have hlt : i < pbs.length := by
    rcases Nat.lt_or_ge i pbs.length with h | h
    · exact h
    · rw [List.getElem?_eq_none h] at hi; simp at hi
  refine ⟨?_, ?_, ?_⟩
  · simp only [nextSibling, hpar, hfind, hidx]
    by_cases hl : i = pbs.length - 1
    · rw [if_pos hl, List.getElem?_eq_none (by omega)]
    · rw [if_neg hl]
      have : i + 1 < pbs.length := by omega
      rw [List.getElem?_eq_getElem this]
  · simp only [previousSibling, hpar, hfind, hidx]
    by_cases h0 : i = 0
    · simp [h0]
    · rw [if_neg h0, if_neg h0]
      have : i - 1 < pbs.length := by omega
      rw [List.getElem?_eq_getElem this]
  · simp only [getPeers, hpar, hfind, hk.2.2.1]

theorem natIndex_of_getElem (l : List Nat) (hn : l.Nodup) (j : Nat) {x} (h : l[j]? = some x) : natIndex x l = some j := by
  induction l generalizing j with
  | nil => simp at h
  | cons y ys ih =>
    cases j with
    | zero => simp only [List.getElem?_cons_zero, Option.some.injEq] at h; simp [natIndex, h]
    | succ j =>
      simp only [List.getElem?_cons_succ] at h
      simp only [List.nodup_cons] at hn
      have hne : y ≠ x := fun e => hn.1 (e ▸ List.mem_of_getElem? h)
      simp [natIndex, hne, ih hn.2 j h]

/-- nextElementSibling / previousElementSibling of the `j`-th element block of an element of an
    invariant world — computed through the cached `parentNode` and `children.index` — are the
    neighbouring element blocks. -/
theorem nav_element_siblings (w : World) (hw : Inv w) (pm : Meta) (pbs : List DN) (hp : (pm, pbs) ∈ elemsL w.roots)
    (m : Meta) (k : List DN) (hmem : DN.el m k ∈ pbs) (j : Nat) (hj : (elemIds pbs)[j]? = some m.id) :
    nextElementSibling w m = optEl (elemIds pbs)[j + 1]? ∧
    previousElementSibling w m = (if j = 0 then Val.none else optEl (elemIds pbs)[j - 1]?) := by
  obtain ⟨p, o, hk⟩ := world_elem_OK hw hp
  simp only [OK_el] at hk
  have hmk := OKL_mem hk.2.2.2.2.2 hmem
  simp only [OK_el] at hmk
  have hpar : m.parent = some pm.id := hmk.1
  have hfind : w.find? pm.id = some (pm, pbs) := findL?_unique w.roots hw.nodup hp
  have hnd : (elemIds pbs).Nodup := elemIds_nodup pbs (elemsL_nodup w.roots hw.nodup hp)
  have hidx : natIndex m.id (elemIds pbs) = some j := natIndex_of_getElem _ hnd j hj
  have hlt : j < (elemIds pbs).length := by
    rcases Nat.lt_or_ge j (elemIds pbs).length with h | h
    · exact h
    · rw [List.getElem?_eq_none h] at hj; simp at hj
  constructor
  · simp only [nextElementSibling, hpar, hfind, hidx, hk.2.2.1]
    by_cases hl : j = (elemIds pbs).length - 1
    · rw [if_pos hl, List.getElem?_eq_none (by omega)]; rfl
    · rw [if_neg hl]
      have : j + 1 < (elemIds pbs).length := by omega
      rw [List.getElem?_eq_getElem this]; rfl
  · simp only [previousElementSibling, hpar, hfind, hidx, hk.2.2.1]
    by_cases h0 : j = 0
    · simp [h0]
    · rw [if_neg h0, if_neg h0]
      have : j - 1 < (elemIds pbs).length := by omega
      rw [List.getElem?_eq_getElem this]; rfl

/-! ## The model is defined on the domain of the property

  `step` answers `none` only outside the stated precondition: every single-target call is defined as
  soon as the target is an element of the world; the element-moving calls as soon as, in addition, the
  element handed in is a root of the world (currently detached) and the target lies outside it. -/

theorem apply_defined (w : World) (t : Nat) (loc : Meta → List DN → Option Edit × Val) (h : (w.find? t).isSome = true) :
    (w.apply t loc).isSome = true := by
  unfold World.apply
  cases hf : w.find? t with
  | none => rw [hf] at h; simp at h
  | some r =>
    obtain ⟨m, bs⟩ := r
    simp only
    cases (loc m bs).1 <;> simp

/-- appendText, removeText, removeTextAll, removeChild, removeBlock, insertBefore/After of a text
    block and setAttribute of a plain name are defined for every element of the world and all arguments. -/
theorem single_target_calls_defined (w : World) (t : Nat) (h : (w.find? t).isSome = true) (s k v : Str) (c : Nat) (b : Blk)
    (r : Option Blk) (hk : specialAttr k = false) :
    (step w (.appendText t s)).isSome ∧ (step w (.removeText t s)).isSome ∧ (step w (.removeTextAll t s)).isSome ∧
    (step w (.removeChild t c)).isSome ∧ (step w (.removeBlock t b)).isSome ∧
    (step w (.insertBefore t (.txt s) r)).isSome ∧ (step w (.insertAfter t (.txt s) r)).isSome ∧
    (step w (.setAttribute t k v)).isSome ∧ (step w (.appendChild t none)).isSome := by
  have ha := fun loc => apply_defined w t loc h
  refine ⟨?_, ?_, ?_, ?_, ?_, ?_, ?_, ?_, ?_⟩
  · simp only [step, World.appendText]; exact ha _
  · simp only [step, World.removeText]; exact ha _
  · simp only [step, World.removeTextAll]; exact ha _
  · simp only [step, World.removeChild]; exact ha _
  · cases b with
    | elm c => simp only [step, World.removeBlock, World.removeChild]; exact ha _
    | txt s => simp only [step, World.removeBlock, World.removeText]; exact ha _
  · cases r with
    | none => simp only [step, World.insert, World.appendBlock, World.appendText, Option.isSome_map]; exact ha _
    | some r => simp only [step, World.insert]; exact ha _
  · cases r with
    | none => simp only [step, World.insert, World.appendBlock, World.appendText, Option.isSome_map]; exact ha _
    | some r => simp only [step, World.insert]; exact ha _
  · simp only [step, World.setAttribute, hk]; exact ha _
  · simp only [step, Option.isSome_map]; exact h

/-- appendChild / appendBlock / insertBefore / insertAfter of an element are defined whenever the
    element is a root of the world (detached) and the target is an element outside it. -/
theorem moving_calls_defined (w : World) (t c : Nat) (ct : DN) (rest : List DN) (r : Option Blk)
    (hc : takeRoot c w.roots = some (ct, rest)) (ht : (findL? t rest).isSome = true) :
    (step w (.appendChild t (some c))).isSome ∧ (step w (.appendBlock t (.elm c))).isSome ∧
    (step w (.insertBefore t (.elm c) r)).isSome ∧ (step w (.insertAfter t (.elm c) r)).isSome := by
  have h1 : (w.appendChild t c).isSome = true := by
    simp only [World.appendChild, hc]
    exact apply_defined { w with roots := rest } t _ ht
  have h2 : ∀ after, (w.insert after t (.elm c) r).isSome = true := by
    intro after
    cases r with
    | none => exact h1
    | some r =>
      simp only [World.insert, hc]
      cases hf : findL? t rest with
      | none => rw [hf] at ht; simp at ht
      | some x =>
        obtain ⟨m, bs⟩ := x
        simp only
        cases indexOf r bs <;> simp
  exact ⟨h1, h1, h2 false, h2 true⟩

/-- `removeBlocks(blocks)` and `removeChildren(children)` are defined for every element of the world and
    all arguments (strings, children, non-children, elements that are not in the world at all): each
    turn of the loop is a single-target call and leaves the target an element of the world. -/
theorem removing_loops_defined (w : World) (t : Nat) (h : (w.find? t).isSome = true) (bs : List Blk) (cs : List Nat) :
    (step w (.removeBlocks t bs)).isSome ∧ (step w (.removeChildren t cs)).isSome := by
  constructor
  · simp only [step, World.removeBlocks, Option.isSome_map]
    exact removeBlocksLoop_defined t bs w h
  · simp only [step, World.removeChildren, World.removeBlocks, Option.isSome_map]
    exact removeBlocksLoop_defined t _ w h

/-- `appendBlocks(blocks)` is defined on the domain the property states (`Dom.AppendDomain w t blocks`):
    the target is an element of the world; the element arguments are pairwise distinct, each one is a
    root of the world (currently detached) and does not contain the target. Text arguments are
    unrestricted. (Every turn of the loop re-establishes the domain for the remaining arguments:
    the other roots are untouched by an edit at `t`.) -/
theorem appendBlocks_defined (w : World) (hw : Inv w) (t : Nat) (bs : List Blk) (hd : AppendDomain w t bs) :
    (step w (.appendBlocks t bs)).isSome := by
  simp only [step, World.appendBlocks, Option.isSome_map]
  exact appendBlocksLoop_defined t bs w hw hd

/-- `appendInnerHTML(html)` is defined for every element of an invariant world and every fragment: the
    elements `createBlocksFromHTML` creates are distinct detached roots with fresh uids, so the domain
    of the appending loop holds by construction. -/
theorem appendInnerHTML_defined (w : World) (hw : Inv w) (t : Nat) (h : (w.find? t).isSome = true) (p : Parsed) :
    (step w (.appendInnerHTML t p)).isSome := by
  simp only [step, World.appendInnerHTML, Option.isSome_map]
  exact appendBlocksLoop_defined t _ _ (fragment_world_Inv p hw) (fragment_domain w t p hw h)

/-! ## hasChild / contains for element arguments

  The code compares elements by uid (`AdvancedTag.__eq__`, `containsUid(other.uid)`). In an invariant
  world an element is determined by its uid, so the two tests hold exactly for the elements that
  *are* an element block of the receiver / lie in the receiver's subtree. -/

/-- `hasChild(other)` for an element `other` of the world: True exactly when `other` (this very
    element: same fields, same blocks) is one of the receiver's element blocks. -/
theorem nav_hasChild_element (w : World) (hw : Inv w) (m : Meta) (bs : List DN) (he : (m, bs) ∈ elemsL w.roots)
    (m' : Meta) (k' : List DN) (he' : (m', k') ∈ elemsL w.roots) :
    hasChild m m'.id = true ↔ DN.el m' k' ∈ bs := by
  rw [(nav_children w hw m bs he).2.2.2.1 m'.id]
  simp only [List.contains_iff_mem]
  constructor
  · intro h
    obtain ⟨m2, k2, hmem, hid⟩ := elemIds_mem_el bs h
    have h2 : (m2, k2) ∈ elemsL w.roots :=
      elemsL_trans w.roots he (by simp only [elems_el, List.mem_cons]; exact Or.inr (elemsL_of_block hmem))
    have := elem_unique w.roots hw.nodup h2 he' hid
    simp only [Prod.mk.injEq] at this
    rw [← this.1, ← this.2]; exact hmem
  · intro h
    induction bs with
    | nil => cases h
    | cons b bs ih =>
      clear ih
      have : ∀ (l : List DN), DN.el m' k' ∈ l → m'.id ∈ elemIds l := by
        intro l
        induction l with
        | nil => intro h; cases h
        | cons x xs ih =>
          intro h
          cases h with
          | head => simp
          | tail _ h => cases x <;> simp [ih h]
      exact this _ h

/-- `contains(other)` for an element `other` of the world: True exactly when `other` is the receiver
    itself or an element of its subtree. -/
theorem nav_contains_element (w : World) (hw : Inv w) (m : Meta) (bs : List DN) (he : (m, bs) ∈ elemsL w.roots)
    (m' : Meta) (k' : List DN) (he' : (m', k') ∈ elemsL w.roots) :
    containsUid m bs m'.id = true ↔ (m', k') ∈ elems (.el m bs) := by
  rw [(nav_descendants m bs).2 m'.id]
  simp only [List.contains_iff_mem]
  constructor
  · intro h
    obtain ⟨e, hmem, hid⟩ := ids_mem_elems (.el m bs) h
    have h2 : e ∈ elemsL w.roots := elemsL_trans w.roots he hmem
    have := elem_unique w.roots hw.nodup h2 he' hid
    rw [← this]; exact hmem
  · intro h
    exact elems_id_mem (.el m bs) h

/-! ## Non-vacuity: a concrete history inside the model, starting from built trees -/

def exSeed : FN := .el "div".toList [] false [.text "a".toList, .el "b".toList [] false [.text "x".toList], .el "br".toList [] false []]
def exSpares : List FN := [.el "span".toList [] false [], .el "p".toList [] true []]
def exOps : List Op :=
  [.insertBefore 0 (.elm 3) (some (.txt "a".toList)), .appendText 4 "t".toList, .removeChild 0 1, .appendChild 3 (some 1),
   .insertAfter 0 (.txt "z".toList) (some (.elm 2)), .remove 1]

example : (run (initWorld true exSeed exSpares) exOps).isSome = true := by decide
example : ∃ w', run (initWorld true exSeed exSpares) exOps = some w' ∧ Inv w' := by
  cases h : run (initWorld true exSeed exSpares) exOps with
  | none => exact absurd h (by decide)
  | some w' => exact ⟨w', rfl, invariant_after_any_history true exSeed exSpares exOps w' rfl (by decide) h⟩

/-- the loop calls on a concrete world: two distinct detached roots and a text appended in one call -/
example : AppendDomain (initWorld true exSeed exSpares) 0 [.elm 3, .txt "a".toList, .elm 4] :=
  ⟨by decide, by decide, by decide⟩
example : (step (initWorld true exSeed exSpares) (.appendBlocks 0 [.elm 3, .txt "a".toList, .elm 4])).isSome = true :=
  appendBlocks_defined _ (initial_world_inv true exSeed exSpares (by decide) (by decide)) 0 _ ⟨by decide, by decide, by decide⟩
/-- outside the domain (the same element twice) the loop does leave the model -/
example : (step (initWorld true exSeed exSpares) (.appendBlocks 0 [.elm 3, .elm 3])).isSome = false := by decide
example : (step (initWorld true exSeed exSpares) (.removeChildren 0 [1, 7, 1])).isSome = true :=
  (removing_loops_defined _ 0 (by decide) [] _).2
example : (step (initWorld true exSeed exSpares)
    (.appendInnerHTML 1 (.multi [.text "hi".toList, .el "i".toList [] false [], .el "u".toList [] false []]))).isSome = true :=
  appendInnerHTML_defined _ (initial_world_inv true exSeed exSpares (by decide) (by decide)) 1 (by decide) _
/-- element arguments of `hasChild` / `contains`: elements 0 and 1 (`<b>`) of the initial world; `hasChild`
    answers True, so 1 *is* an element block of 0, and `contains` answers True as well -/
example : ∃ e e', e ∈ elemsL (initWorld true exSeed exSpares).roots ∧ e' ∈ elemsL (initWorld true exSeed exSpares).roots ∧
    DN.el e'.1 e'.2 ∈ e.2 ∧ containsUid e.1 e.2 e'.1.id = true := by
  have hw := initial_world_inv true exSeed exSpares (by decide) (by decide)
  cases h0 : (initWorld true exSeed exSpares).find? 0 with
  | none => exact absurd h0 (by decide)
  | some e =>
    cases h1 : (initWorld true exSeed exSpares).find? 1 with
    | none => exact absurd h1 (by decide)
    | some e' =>
      have h : ((initWorld true exSeed exSpares).find? 0).bind (fun e => ((initWorld true exSeed exSpares).find? 1).map
          (fun e' => hasChild e.1 e'.1.id)) = some true := by decide
      rw [h0, h1] at h
      simp only [Option.bind_some, Option.map_some, Option.some.injEq] at h
      have he := findL?_mem_elemsL 0 _ h0
      have he' := findL?_mem_elemsL 1 _ h1
      have hb := (nav_hasChild_element _ hw e.1 e.2 he e'.1 e'.2 he').mp h
      refine ⟨e, e', he, he', hb, ?_⟩
      rw [nav_contains_element _ hw e.1 e.2 he e'.1 e'.2 he']
      simp only [elems_el, List.mem_cons]
      exact Or.inr (elemsL_of_block hb)

end AHP.C04
