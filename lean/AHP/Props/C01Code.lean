/-
  C01 — the code tie of the start-tag serialiser: `Tags.AdvancedTag.getStartTag` ITSELF (dumped node by node into
  `Gen.Code.advanced_tag` by harness/ahpcheck/translate_code.py on every run, interpreted by `AHP.PyAst`) builds, from the
  (name, value) pairs that `self._attributes.items()` yields, the text the hand-written model's `startTagI` / `startTag`
  (`Model/Tree.lean`: the serialiser of the C01 theorems) builds — for EVERY list of pairs, tag name, indent and both values of
  `isSelfClosing`.

  The object: any record of fields `fs` with `_indent`, `tagName` (texts), `isSelfClosing` (a boolean) and `_attributes`.
  `self._attributes.items()` is a PARAMETER: the pairs it yields (names are texts, values texts or `None`), modelled as the items of
  a dict held in the field `_attributes`.  What the real `SpecialAttributesDict.items()` yields — and that it synchronises the
  pending `class` / `style` entries on the way (a write) — is the hand model's business (`AttrState.view`, `Attrs.items`; C08–C10):
  here `its` is arbitrary, and `getStartTag_code_eq_startTag` instantiates it with `a.view`.  `AdvancedTag` overrides
  `__getattribute__`; the translator checks that it starts with the plain lookup (`try: return object.__getattribute__(self,
  name)`), so `self.f` is the plain attribute for a field the object has, and that the method assigns no attribute.
  `escapeQuotes` is the dumped function of utils.py (tied to the models' `escQ` by `C19Code.escapeQuotes_code_eq_model`);
  `TAG_ITEM_BINARY_ATTRIBUTES` is `Gen.binaryAttributes`, the table regenerated from constants.py (`Expr.global`).
-/
import AHP.Props.C19Code
import AHP.Lemmas.PyAstParser
import AHP.Model.Tree
import AHP.Model.Format
namespace AHP.C01Code
open AHP AHP.Gen AHP.Conv AHP.PyAst AHP.Gen.Code AHP.PyAstParser

/-- the pairs `self._attributes.items()` yields: a value is a text or `None` -/
def embA (a : List Attr) : List (PyV × PyV) :=
  a.map (fun p => (PyV.str p.1, match p.2 with | some v => PyV.str v | none => PyV.none))

/-- What `getStartTag` runs in: `escapeQuotes` is the dumped function of utils.py, `TAG_ITEM_BINARY_ATTRIBUTES` the regenerated
table. -/
def tagCx (parseInt : Str → Except PyErr Int) : Ctx :=
  { parseInt := parseInt
    funs := callIn parseInt utils.reverse
    globals := fun x =>
      if x = "TAG_ITEM_BINARY_ATTRIBUTES" then some (ofMembers binaryAttributes)
      else if x = "PREFORMATTED_TAGS" then some (ofMembers preformattedTags)
      else if x = "PRESERVE_CONTENTS_TAGS" then some (ofMembers preserveContentsTags)
      else none }

theorem tagCx_binary (parseInt : Str → Except PyErr Int) :
    (tagCx parseInt).globals "TAG_ITEM_BINARY_ATTRIBUTES" = some (ofMembers binaryAttributes) := rfl
theorem tagCx_pre (parseInt : Str → Except PyErr Int) :
    (tagCx parseInt).globals "PREFORMATTED_TAGS" = some (ofMembers preformattedTags) := rfl
theorem tagCx_preserve (parseInt : Str → Except PyErr Int) :
    (tagCx parseInt).globals "PRESERVE_CONTENTS_TAGS" = some (ofMembers preserveContentsTags) := rfl
theorem tagCx_tostr (parseInt : Str → Except PyErr Int) : (tagCx parseInt).funs "tostr" = none := rfl

/-- the call `escapeQuotes(val)` inside the method is the tree serialiser's `escQ` -/
theorem tagCx_esc (parseInt : Str → Except PyErr Int) (env : Env) (v : Str) (h : env.lookup "val" = some (.py (.str v))) :
    eval (tagCx parseInt) env (.call "escapeQuotes" [.var "val"]) = .ok (.py (.str (AHP.escQ v))) := by
  have := C19Code.escapeQuotes_code_eq_model parseInt v
  rw [← (C19Code.escapeQuotes_models_agree v).2.1] at this
  simp only [eval, evalList, h]
  exact this

theorem contains_members (ms : List String) (k : Str) :
    ms.contains (String.ofList k) = (ms.map String.toList).contains k := by
  induction ms with
  | nil => rfl
  | cons m r ih =>
    rw [List.map_cons, List.contains_cons, List.contains_cons, ih]
    congr 1
    by_cases h : k = m.toList
    · subst h; simp
    · have : ¬ (String.ofList k = m) := fun h' => h (by rw [← h']; simp)
      have e1 : (String.ofList k == m) = false := by simpa using this
      have e2 : (k == m.toList) = false := by simpa using h
      rw [e1, e2]

theorem strItems_map_str (l : List Str) : strItems (l.map PyV.str) = some l := by
  induction l with
  | nil => rfl
  | cons a r ih => simp [strItems, ih]

/-! ### the loop over the attributes -/

/-- the body of the loop, as dumped -/
def attrBody : List Stmt :=
  [.ifS (.cmp .is (.var "val") (.const .none))
     [.varCall "attributeStrings" "append" [.var "name"], .cont] [],
   .ifS (.var "val") [.assign "val" (.call "tostr" [.var "val"])] [],
   .ifS (.or (.var "val") (.cmp .notIn (.var "name") (.global "TAG_ITEM_BINARY_ATTRIBUTES")))
     [.assign "val" (.call "escapeQuotes" [.var "val"]),
      .varCall "attributeStrings" "append" [.format "%s=\"%s\"".toList [.var "name", .var "val"]]]
     [.varCall "attributeStrings" "append" [.var "name"]]]

theorem format_attr (k v : Str) :
    pyFormat ['%', 's', '=', '"', '%', 's', '"'] [.str k, .str v] = .ok (k ++ ('=' :: '"' :: v) ++ ['"']) := by
  simp [pyFormat, tostr]

/-- One attribute: the list `attributeStrings` receives `renderAttr` of the pair; the pass ends normally or with `continue`;
`self` is not touched. -/
theorem attrBody_run (parseInt : Str → Except PyErr Int) (env : Env) (k : Str) (w : Option Str) (acc : List PyV)
    (hacc : env.lookup "attributeStrings" = some (.list acc)) :
    ∃ env' res, execL (tagCx parseInt)
          (assocSet (assocSet env "name" (.py (.str k))) "val" (.py (match w with | some v => PyV.str v | none => PyV.none)))
          attrBody = (env', res)
      ∧ (res = .next ∨ res = .cont)
      ∧ env'.lookup "attributeStrings" = some (.list (acc ++ [.str (renderAttr (k, w))]))
      ∧ env'.lookup "self" = env.lookup "self" := by
  cases w with
  | none =>
    have hn : (assocSet (assocSet env "name" (.py (.str k))) "val" (.py .none)).lookup "name" = some (.py (.str k)) := by
      rw [lookup_assocSet_ne _ _ _ _ (by decide), lookup_assocSet_eq]
    have ha : (assocSet (assocSet env "name" (.py (.str k))) "val" (.py .none)).lookup "attributeStrings" = some (.list acc) := by
      rw [lookup_assocSet_ne _ _ _ _ (by decide), lookup_assocSet_ne _ _ _ _ (by decide), hacc]
    refine ⟨assocSet (assocSet (assocSet env "name" (.py (.str k))) "val" (.py .none)) "attributeStrings"
      (.list (acc ++ [.str k])), .cont, ?_, Or.inr rfl, ?_, ?_⟩
    · simp [attrBody, execL, execS, eval, evalList, lookup_assocSet_eq, Lit.toPy, pyCompare, compareB, pyIs, Val.unique,
        Val.truthy, truthy, hn, ha, Val.toField, mutCall, Field.toVal]
    · rw [lookup_assocSet_eq]; rfl
    · rw [lookup_assocSet_ne _ _ _ _ (by decide), lookup_assocSet_ne _ _ _ _ (by decide), lookup_assocSet_ne _ _ _ _ (by decide)]
  | some v =>
    -- the environment after the second `if`: `val` holds the same text (`tostr` of a text is the text)
    have hE : ∀ (s : Str), assocSet (assocSet (assocSet env "name" (.py (.str k))) "val" (.py (.str v))) "val" (.py (.str s))
        = assocSet (assocSet env "name" (.py (.str k))) "val" (.py (.str s)) := fun s => assocSet_assocSet _ _ _ _
    have hn : ∀ (s : Str), (assocSet (assocSet env "name" (.py (.str k))) "val" (.py (.str s))).lookup "name"
        = some (.py (.str k)) := by
      intro s; rw [lookup_assocSet_ne _ _ _ _ (by decide), lookup_assocSet_eq]
    have ha : ∀ (s : Str), (assocSet (assocSet env "name" (.py (.str k))) "val" (.py (.str s))).lookup "attributeStrings"
        = some (.list acc) := by
      intro s; rw [lookup_assocSet_ne _ _ _ _ (by decide), lookup_assocSet_ne _ _ _ _ (by decide), hacc]
    have hesc := fun (e : Env) (h : e.lookup "val" = some (.py (.str v))) => tagCx_esc parseInt e v h
    have hbin : pyIn (.py (.str k)) (ofMembers binaryAttributes) = .ok (binaryAttrs.contains k) := by
      rw [pyIn_ofMembers, contains_members]; rfl
    by_cases hq : (v.isEmpty && binaryAttrs.contains k) = true
    · -- an empty value of a boolean attribute: the bare name
      have hv : v = [] := by
        have : v.isEmpty = true := by simp at hq; simp [hq.1]
        simpa using this
      have hb : k ∈ binaryAttrs := by simp at hq; exact hq.2
      subst hv
      refine ⟨assocSet (assocSet (assocSet env "name" (.py (.str k))) "val" (.py (.str []))) "attributeStrings"
        (.list (acc ++ [.str k])), .next, ?_, Or.inl rfl, ?_, ?_⟩
      · simp [attrBody, execL, execS, eval, evalList, lookup_assocSet_eq, Lit.toPy, pyCompare, compareB, pyIs, Val.unique,
          Val.truthy, truthy, hn, ha, Val.toField, mutCall, Field.toVal, tagCx_binary, hbin, hb, bnot]
      · rw [lookup_assocSet_eq]; simp [renderAttr, hb]
      · rw [lookup_assocSet_ne _ _ _ _ (by decide), lookup_assocSet_ne _ _ _ _ (by decide),
          lookup_assocSet_ne _ _ _ _ (by decide)]
    · -- quoted
      have hr : renderAttr (k, some v) = k ++ ('=' :: '"' :: AHP.escQ v) ++ ['"'] := by
        simp only [renderAttr]; rw [if_neg hq]
      have hval := hesc (assocSet (assocSet env "name" (.py (.str k))) "val" (.py (.str v))) (lookup_assocSet_eq _ _ _)
      refine ⟨assocSet (assocSet (assocSet env "name" (.py (.str k))) "val" (.py (.str (AHP.escQ v)))) "attributeStrings"
        (.list (acc ++ [.str (k ++ ('=' :: '"' :: AHP.escQ v) ++ ['"'])])), .next, ?_, Or.inl rfl, ?_, ?_⟩
      · simp only [attrBody]
        generalize (Expr.call "escapeQuotes" [.var "val"]) = E at hval ⊢
        by_cases hv : v = []
        · subst hv
          have hb : k ∉ binaryAttrs := by simpa using hq
          simp [attrBody, execL, execS, eval, evalList, lookup_assocSet_eq, Lit.toPy, pyCompare, compareB, pyIs, Val.unique,
            Val.truthy, truthy, hn, ha, Val.toField, mutCall, Field.toVal, tagCx_binary, hbin, hb, bnot, hval, aliasOK,
            Val.mutable, assocSet_assocSet, pyVals, format_attr]
        · have hne : v.isEmpty = false := by cases v <;> simp_all
          simp [attrBody, execL, execS, eval, evalList, lookup_assocSet_eq, Lit.toPy, pyCompare, compareB, pyIs, Val.unique,
            Val.truthy, truthy, hn, ha, Val.toField, mutCall, Field.toVal, tagCx_tostr, builtin, tostr, hne, hval, aliasOK,
            Val.mutable, assocSet_assocSet, pyVals, format_attr]
      · rw [lookup_assocSet_eq, hr]
      · rw [lookup_assocSet_ne _ _ _ _ (by decide), lookup_assocSet_ne _ _ _ _ (by decide),
          lookup_assocSet_ne _ _ _ _ (by decide)]

/-- The loop over the pairs: `attributeStrings` receives `renderAttr` of every pair, in order; `self` is not touched. -/
theorem attrLoop_run (parseInt : Str → Except PyErr Int) (S : Val) (same : Env → Bool)
    (hsame : ∀ env, env.lookup "self" = some S → same env = true) :
    ∀ (its : List Attr) (env : Env) (acc : List PyV),
    env.lookup "attributeStrings" = some (.list acc) → env.lookup "self" = some S →
    ∃ env', forLoop (fun env v => match v with
              | .tuple [x, y] => assocSet (assocSet env "name" (.py x)) "val" (.py y) | _ => env)
          (fun env => execL (tagCx parseInt) env attrBody) same ((embA its).map (fun p => Val.tuple [p.1, p.2])) env
        = (env', .next)
      ∧ env'.lookup "attributeStrings" = some (.list (acc ++ (its.map renderAttr).map PyV.str))
      ∧ env'.lookup "self" = some S := by
  intro its
  induction its with
  | nil => intro env acc ha hs; exact ⟨env, by simp [embA, forLoop], by simpa using ha, hs⟩
  | cons p r ih =>
    intro env acc ha hs
    obtain ⟨k, w⟩ := p
    have hitems : (embA ((k, w) :: r)).map (fun p => Val.tuple [p.1, p.2])
        = .tuple [.str k, (match w with | some v => PyV.str v | none => PyV.none)]
          :: (embA r).map (fun p => Val.tuple [p.1, p.2]) := by
      simp only [embA, List.map_cons]
    obtain ⟨env1, res, h1, hres, h2, h3⟩ := attrBody_run parseInt env k w acc ha
    have hs1 : env1.lookup "self" = some S := by rw [h3, hs]
    obtain ⟨env', h4, h5, h6⟩ := ih env1 _ h2 hs1
    refine ⟨env', ?_, ?_, h6⟩
    · rw [hitems, forLoop]
      simp only [h1]
      rcases hres with rfl | rfl <;> simp only [hsame _ hs1, if_true] <;> exact h4
    · rw [h5]; simp

/-! ### the whole method -/

theorem getStartTag_body : AdvancedTag_getStartTag_ast.body =
    [.assign "attributeStrings" .newList,
     .forPair "name" "val" (.meth (.attr (.var "self") "_attributes") "items" []) attrBody,
     .ifS (.var "attributeStrings")
       [.assign "attributeString" (.binop .add (.const (.str " ")) (.meth (.const (.str " ")) "join" [.var "attributeStrings"]))]
       [.assign "attributeString" (.const (.str ""))],
     .ifS (.cmp .is (.attr (.var "self") "isSelfClosing") (.const (.bool false)))
       [.ret (.format "%s<%s%s >".toList [.attr (.var "self") "_indent", .attr (.var "self") "tagName", .var "attributeString"])]
       [.ret (.format "%s<%s%s />".toList [.attr (.var "self") "_indent", .attr (.var "self") "tagName", .var "attributeString"])]] :=
  rfl

theorem format_open (i n a : Str) :
    pyFormat ['%', 's', '<', '%', 's', '%', 's', ' ', '>'] [.str i, .str n, .str a]
      = .ok (i ++ ('<' :: n) ++ a ++ " >".toList) := by
  simp [pyFormat, tostr]
theorem format_selfclosing (i n a : Str) :
    pyFormat ['%', 's', '<', '%', 's', '%', 's', ' ', '/', '>'] [.str i, .str n, .str a]
      = .ok (i ++ ('<' :: n) ++ a ++ " />".toList) := by
  simp [pyFormat, tostr]

/-- **The code tie of C01's start tag.**  `getStartTag(self)` for every list `its` of (name, value) pairs that
`self._attributes.items()` yields, every indent, tag name and `isSelfClosing`: the text is the indent, `<`, the name, the
attributes as `renderAttrs` of the hand model writes them (a missing value, or an empty value of a boolean attribute: the bare
name; otherwise `name="value"` with `"` escaped; separated and preceded by one space), then ` >` or ` />`; the object is
unchanged. -/
theorem getStartTag_code_eq_model (parseInt : Str → Except PyErr Int) (fs : List (String × Field)) (indent n : Str) (sc : Bool)
    (its : List Attr)
    (h1 : fs.lookup "_attributes" = some (.dict (embA its))) (h2 : fs.lookup "_indent" = some (.py (.str indent)))
    (h3 : fs.lookup "tagName" = some (.py (.str n))) (h4 : fs.lookup "isSelfClosing" = some (.py (.bool sc))) :
    runMeth (tagCx parseInt) AdvancedTag_getStartTag_ast fs []
      = (some fs, .ok (.py (.str (indent ++ ('<' :: n) ++ renderAttrs its ++ (if sc then " />".toList else " >".toList))))) := by
  have hparams : AdvancedTag_getStartTag_ast.params = [("self", none)] := rfl
  have s1 : execS (tagCx parseInt) [("self", .obj fs)] (.assign "attributeStrings" .newList)
      = ([("self", .obj fs), ("attributeStrings", .list [])], .next) := by
    simp [execS, eval, aliasOK, Expr.makesNew, assocSet]
  have hit : ∀ env : Env, env.lookup "self" = some (.obj fs) →
      eval (tagCx parseInt) env (.meth (.attr (.var "self") "_attributes") "items" []) = .ok (.pairs (embA its)) := by
    intro env h
    simp [eval, evalList, h, getAttr, h1, Field.toVal, callMethod]
  obtain ⟨env2, l1, l2, l3⟩ := attrLoop_run parseInt (.obj fs)
    (fun env' => decide (eval (tagCx parseInt) env' (.meth (.attr (.var "self") "_attributes") "items" [])
      = .ok (.pairs (embA its))))
    (by intro env h; simp [hit env h]) its [("self", .obj fs), ("attributeStrings", .list [])] [] rfl rfl
  have s2 : execS (tagCx parseInt) [("self", .obj fs), ("attributeStrings", .list [])]
      (.forPair "name" "val" (.meth (.attr (.var "self") "_attributes") "items" []) attrBody) = (env2, .next) := by
    rw [execS, hit _ rfl]
    exact l1
  simp only [List.nil_append] at l2
  -- the attribute text
  have s3 : execS (tagCx parseInt) env2
      (.ifS (.var "attributeStrings")
        [.assign "attributeString" (.binop .add (.const (.str " ")) (.meth (.const (.str " ")) "join" [.var "attributeStrings"]))]
        [.assign "attributeString" (.const (.str ""))])
      = (assocSet env2 "attributeString" (.py (.str (renderAttrs its))), .next) := by
    cases its with
    | nil =>
      simp [execS, execL, eval, l2, Val.truthy, Lit.toPy, aliasOK, Val.mutable, renderAttrs]
    | cons p r =>
      have ht : (Val.list (((p :: r).map renderAttr).map PyV.str)).truthy = true := by simp [Val.truthy]
      have hj : renderAttrs (p :: r) = ' ' :: joinWith [' '] ((p :: r).map renderAttr) := by simp [renderAttrs]
      rw [hj]
      generalize (p :: r).map renderAttr = L at l2 ht
      simp [execS, execL, eval, evalList, l2, ht, Lit.toPy, callMethod, strItems_map_str, pyBinop, numOf, aliasOK, Val.mutable]
  have e1 : (assocSet env2 "attributeString" (.py (.str (renderAttrs its)))).lookup "self" = some (.obj fs) := by
    rw [lookup_assocSet_ne _ _ _ _ (by decide), l3]
  have e2 : (assocSet env2 "attributeString" (.py (.str (renderAttrs its)))).lookup "attributeString"
      = some (.py (.str (renderAttrs its))) := lookup_assocSet_eq _ _ _
  have s4 : execS (tagCx parseInt) (assocSet env2 "attributeString" (.py (.str (renderAttrs its))))
      (.ifS (.cmp .is (.attr (.var "self") "isSelfClosing") (.const (.bool false)))
        [.ret (.format "%s<%s%s >".toList [.attr (.var "self") "_indent", .attr (.var "self") "tagName", .var "attributeString"])]
        [.ret (.format "%s<%s%s />".toList [.attr (.var "self") "_indent", .attr (.var "self") "tagName", .var "attributeString"])])
      = (assocSet env2 "attributeString" (.py (.str (renderAttrs its))),
         .ret (.py (.str (indent ++ ('<' :: n) ++ renderAttrs its ++ (if sc then " />".toList else " >".toList))))) := by
    cases sc <;>
      simp [execS, execL, eval, evalList, e1, e2, getAttr, h2, h3, h4, Field.toVal, Lit.toPy, pyCompare, compareB, pyIs,
        Val.unique, Val.truthy, truthy, pyVals, format_open, format_selfclosing]
  have hb : execL (tagCx parseInt) [("self", .obj fs)] AdvancedTag_getStartTag_ast.body
      = (assocSet env2 "attributeString" (.py (.str (renderAttrs its))),
         .ret (.py (.str (indent ++ ('<' :: n) ++ renderAttrs its ++ (if sc then " />".toList else " >".toList))))) := by
    rw [getStartTag_body, execL_cons_next _ _ _ _ _ s1, execL_cons_next _ _ _ _ _ s2, execL_cons_next _ _ _ _ _ s3,
      execL_cons_ret _ _ _ _ _ _ s4]
  simp only [runMeth, hparams, bindArgs, List.lookup, Option.isSome, Bool.false_eq_true, if_false, List.isEmpty, if_true, hb,
    e1, PyAst.resultOf]

/-- with the pairs the hand model's attribute store shows (`AttrState.view`): the hand model's `startTagI`; without indent its
`startTag`, the start tag of `Node.html` (the `outerHTML` of the C01 theorems) -/
theorem getStartTag_code_eq_startTag (parseInt : Str → Except PyErr Int) (fs : List (String × Field)) (indent n : Str) (sc : Bool)
    (a : AttrState)
    (h1 : fs.lookup "_attributes" = some (.dict (embA a.view))) (h2 : fs.lookup "_indent" = some (.py (.str indent)))
    (h3 : fs.lookup "tagName" = some (.py (.str n))) (h4 : fs.lookup "isSelfClosing" = some (.py (.bool sc))) :
    runMeth (tagCx parseInt) AdvancedTag_getStartTag_ast fs [] = (some fs, .ok (.py (.str (startTagI indent n a sc))))
    ∧ (indent = [] → startTagI indent n a sc = startTag n a sc) := by
  refine ⟨getStartTag_code_eq_model parseInt fs indent n sc a.view h1 h2 h3 h4, ?_⟩
  intro h; subst h; rfl

/-! ### `getEndTag` -/

/-- the blocks of an element as the list `self.blocks`: a text block is its text, a child element an `AdvancedTag` -/
def embB (kids : List Fmt.Node) : List PyV :=
  kids.map (fun k => match k with | .text _ s => PyV.str s | .elem _ _ _ _ _ _ => PyV.ancestor 0)

theorem embB_append (a b : List Fmt.Node) : embB (a ++ b) = embB a ++ embB b := by simp [embB]

theorem format_close (n : Str) : pyFormat ['<', '/', '%', 's', '>'] [.str n] = .ok (str "</" ++ n ++ str ">") := by
  simp [pyFormat, tostr, str]
theorem format_close_indent (i n : Str) :
    pyFormat ['%', 's', '<', '/', '%', 's', '>'] [.str i, .str n] = .ok (i ++ str "</" ++ n ++ str ">") := by
  simp [pyFormat, tostr, str]

theorem pyIn_pre (n : Str) : pyIn (.py (.str n)) (ofMembers preformattedTags) = .ok (Fmt.isPre n) := by
  rw [pyIn_ofMembers, contains_members]; rfl
theorem pyIn_preserve (n : Str) : pyIn (.py (.str n)) (ofMembers preserveContentsTags) = .ok (Fmt.isPreserve n) := by
  rw [pyIn_ofMembers, contains_members]; rfl

/-- **The code tie of the end tag.**  `getEndTag(self)` for every tag name, indent, `isSelfClosing` and list of blocks: the text of
the formatter model's `Fmt.endTag` (nothing for a self-closing element; no indent before the end tag of a preformatted element,
nor of a `script` / `style` / `pre` / `code` whose last block is a text that already ends with the indent); the object is
unchanged.  Without indent this is `endTag n sc` of `Model/Tree.lean`. -/
theorem getEndTag_code_eq_model (parseInt : Str → Except PyErr Int) (fs : List (String × Field)) (indent n : Str) (sc : Bool)
    (kids : List Fmt.Node)
    (h2 : fs.lookup "_indent" = some (.py (.str indent))) (h3 : fs.lookup "tagName" = some (.py (.str n)))
    (h4 : fs.lookup "isSelfClosing" = some (.py (.bool sc))) (h5 : fs.lookup "blocks" = some (.list (embB kids))) :
    runMeth (tagCx parseInt) AdvancedTag_getEndTag_ast fs []
      = (some fs, .ok (.py (.str (Fmt.endTag n sc indent kids)))) := by
  cases sc with
  | true =>
    simp [runMeth, AdvancedTag_getEndTag_ast, bindArgs, execL, execS, eval, List.lookup, getAttr, h4, Field.toVal, Lit.toPy,
      pyCompare, compareB, pyIs, Val.unique, Val.truthy, truthy, PyAst.resultOf, Fmt.endTag]
  | false =>
    by_cases hi : indent = []
    · subst hi
      simp [runMeth, AdvancedTag_getEndTag_ast, bindArgs, execL, execS, eval, evalList, List.lookup, getAttr, getField, h2, h3, h4,
        Field.toVal, Lit.toPy, pyCompare, compareB, pyIs, Val.unique, Val.truthy, truthy, assocSet, pyVals, format_close_indent,
        PyAst.resultOf, Fmt.endTag, str]
    · have hne : indent.isEmpty = false := by cases indent <;> simp_all
      by_cases hp : Fmt.isPre n = true
      · simp [runMeth, AdvancedTag_getEndTag_ast, bindArgs, execL, execS, eval, evalList, List.lookup, getAttr, getField, h2, h3,
          h4, Field.toVal, Lit.toPy, pyCompare, compareB, pyIs, Val.unique, Val.truthy, truthy, assocSet, pyVals, format_close,
          PyAst.resultOf, Fmt.endTag, hne, tagCx_pre, pyIn_pre, hp]
      · have hp' : Fmt.isPre n = false := by simpa using hp
        by_cases hs : Fmt.isPreserve n = true
        · rcases List.eq_nil_or_concat kids with hk | ⟨L, b, hk⟩
          · subst hk
            simp [runMeth, AdvancedTag_getEndTag_ast, bindArgs, execL, execS, eval, evalList, List.lookup, getAttr, getField, h2,
              h3, h4, h5, embB, Field.toVal, Lit.toPy, pyCompare, compareB, pyIs, Val.unique, Val.truthy, truthy, assocSet, pyVals,
              format_close_indent, PyAst.resultOf, Fmt.endTag, hne, tagCx_pre, pyIn_pre, hp', tagCx_preserve, pyIn_preserve, hs,
              Fmt.lastTextEndsWith, Fmt.endsWith]
          · subst hk
            have hb : (embB (L ++ [b])).isEmpty = false := by simp [embB]
            cases b with
            | text vb t =>
              have hlast : seqItem (embB (L ++ [Fmt.Node.text vb t])) (-1) = some (.str t) := by
                rw [embB_append]; exact seqItem_last _ _
              by_cases he : indent <:+ t
              · simp [runMeth, AdvancedTag_getEndTag_ast, bindArgs, execL, execS, eval, evalList, List.lookup, getAttr, getField,
                  h2, h3, h4, h5, hb, Field.toVal, Lit.toPy, pyCompare, compareB, pyIs, Val.unique, Val.truthy, truthy, assocSet,
                  pyVals, format_close, PyAst.resultOf, Fmt.endTag, hne, tagCx_pre, pyIn_pre, hp', tagCx_preserve,
                  pyIn_preserve, hs, Fmt.lastTextEndsWith, Fmt.endsWith, pyIndex, hlast, aliasOK, Val.mutable, typeName,
                  callMethod, he]
              · simp [runMeth, AdvancedTag_getEndTag_ast, bindArgs, execL, execS, eval, evalList, List.lookup, getAttr, getField,
                  h2, h3, h4, h5, hb, Field.toVal, Lit.toPy, pyCompare, compareB, pyIs, Val.unique, Val.truthy, truthy, assocSet,
                  pyVals, format_close_indent, PyAst.resultOf, Fmt.endTag, hne, tagCx_pre, pyIn_pre, hp', tagCx_preserve,
                  pyIn_preserve, hs, Fmt.lastTextEndsWith, Fmt.endsWith, pyIndex, hlast, aliasOK, Val.mutable, typeName,
                  callMethod, he]
            | elem kd nm st sc' ind ks =>
              have hlast : seqItem (embB (L ++ [Fmt.Node.elem kd nm st sc' ind ks])) (-1) = some (.ancestor 0) := by
                rw [embB_append]; exact seqItem_last _ _
              simp [runMeth, AdvancedTag_getEndTag_ast, bindArgs, execL, execS, eval, evalList, List.lookup, getAttr, getField,
                h2, h3, h4, h5, hb, Field.toVal, Lit.toPy, pyCompare, compareB, pyIs, Val.unique, Val.truthy, truthy, assocSet,
                pyVals, format_close_indent, PyAst.resultOf, Fmt.endTag, hne, tagCx_pre, pyIn_pre, hp', tagCx_preserve,
                pyIn_preserve, hs, Fmt.lastTextEndsWith, Fmt.endsWith, pyIndex, hlast, aliasOK, Val.mutable, typeName]
        · have hs' : Fmt.isPreserve n = false := by simpa using hs
          simp [runMeth, AdvancedTag_getEndTag_ast, bindArgs, execL, execS, eval, evalList, List.lookup, getAttr, getField, h2, h3,
            h4, Field.toVal, Lit.toPy, pyCompare, compareB, pyIs, Val.unique, Val.truthy, truthy, assocSet, pyVals,
            format_close_indent, PyAst.resultOf, Fmt.endTag, hne, tagCx_pre, pyIn_pre, hp', tagCx_preserve, pyIn_preserve, hs']

/-- without indent the formatter model's end tag is the tree serialiser's `endTag` (the end tag of `Node.html`) -/
theorem endTag_no_indent (n : Str) (sc : Bool) (kids : List Fmt.Node) : Fmt.endTag n sc [] kids = endTag n sc := by
  cases sc <;> simp [Fmt.endTag, endTag, str]

/-! ### the theorems are not vacuous, and the interpreter runs the dump -/

-- A small budget, so that a broken example fails at once instead of searching; `decide +kernel` evaluates in the kernel and
-- does not consume it.
set_option maxHeartbeats 2000

private def pI : Str → Except PyErr Int := fun _ => .error .valueError
private def tagObj (indent n : String) (sc : Bool) (its : List Attr) : List (String × Field) :=
  [("tagName", .py (.str n.toList)), ("_attributes", .dict (embA its)), ("isSelfClosing", .py (.bool sc)),
   ("_indent", .py (.str indent.toList)), ("uid", .py (.int 7))]

/-- a quoted value with a quote in it, a missing value, an empty value of a boolean attribute, an empty value of another one -/
example : runMeth (tagCx pI) AdvancedTag_getStartTag_ast
      (tagObj "" "input" false [("title".toList, some "a\"b".toList), ("data-x".toList, none), ("checked".toList, some []),
        ("value".toList, some [])]) []
    = (some (tagObj "" "input" false [("title".toList, some "a\"b".toList), ("data-x".toList, none), ("checked".toList, some []),
        ("value".toList, some [])]),
       .ok (.py (.str "<input title=\"a&quot;b\" data-x checked value=\"\" >".toList))) := by decide +kernel
/-- no attributes, self-closing, with an indent -/
example : (runMeth (tagCx pI) AdvancedTag_getStartTag_ast (tagObj "  " "br" true []) []).2
    = .ok (.py (.str "  <br />".toList)) := by decide +kernel
/-- the hand model on the first list -/
example : startTagI [] "input".toList ⟨[("title".toList, some "a\"b".toList), ("data-x".toList, none), ("checked".toList, some []),
      ("value".toList, some [])], [], []⟩ false = "<input title=\"a&quot;b\" data-x checked value=\"\" >".toList := by
  decide +kernel
/-- a value that is neither a text nor `None` (a number) goes through `tostr`, as in Python -/
example : (runMeth (tagCx pI) AdvancedTag_getStartTag_ast
      [("tagName", .py (.str "a".toList)), ("_attributes", .dict [(.str "x".toList, .int 3)]),
       ("isSelfClosing", .py (.bool false)), ("_indent", .py (.str []))] []).2 = .ok (.py (.str "<a x=\"3\" >".toList)) := by
  decide +kernel
/-- fail closed: an object without `_attributes` is an `AttributeError`, never a text -/
example : (runMeth (tagCx pI) AdvancedTag_getStartTag_ast [("tagName", .py (.str "a".toList))] []).2
    = .error (.other "AttributeError") := by decide +kernel

private def endObj (indent n : String) (sc : Bool) (blocks : List PyV) : List (String × Field) :=
  [("tagName", .py (.str n.toList)), ("isSelfClosing", .py (.bool sc)), ("_indent", .py (.str indent.toList)),
   ("blocks", .list blocks)]

/-- `getEndTag`: plain; self-closing; a preformatted element keeps its end tag unindented; a `script` whose last text already
ends with the indent; the same with a child element last; an ordinary element is indented -/
example : (runMeth (tagCx pI) AdvancedTag_getEndTag_ast (endObj "" "div" false [.str "x".toList]) []).2
      = .ok (.py (.str "</div>".toList))
    ∧ (runMeth (tagCx pI) AdvancedTag_getEndTag_ast (endObj "  " "br" true []) []).2 = .ok (.py (.str []))
    ∧ (runMeth (tagCx pI) AdvancedTag_getEndTag_ast (endObj "  " "pre" false [.str "x".toList]) []).2
      = .ok (.py (.str "</pre>".toList))
    ∧ (runMeth (tagCx pI) AdvancedTag_getEndTag_ast (endObj "  " "script" false [.str "a;\n  ".toList]) []).2
      = .ok (.py (.str "</script>".toList))
    ∧ (runMeth (tagCx pI) AdvancedTag_getEndTag_ast (endObj "  " "script" false [.str "a;".toList, .ancestor 3]) []).2
      = .ok (.py (.str "  </script>".toList))
    ∧ (runMeth (tagCx pI) AdvancedTag_getEndTag_ast (endObj "  " "div" false [.str "x  ".toList]) []).2
      = .ok (.py (.str "  </div>".toList)) := by decide +kernel
/-- the formatter model on the `script` case -/
example : Fmt.endTag "script".toList false "  ".toList [.text false "a;\n  ".toList] = "</script>".toList := by decide +kernel

end AHP.C01Code
