/-
  C10 — the code tie of the style object: methods of `SpecialAttributes.StyleAttribute` THEMSELVES (`isEmpty`, `setProperty`,
  `_asStr`, and the name translation of `__getattribute__` / `__setattr__`; dumped node by node into `Gen.Code.style_attribute` by
  harness/ahpcheck/translate_code.py on every run, interpreted by `AHP.PyAst`) do to the style object what the hand-written model
  `Model/Attrs.lean` (`El.sty` with `Attrs.setProperty`, `Attrs.asStr`, `Attrs.styleDotGet`, `Attrs.styleDotSet`: the model of the
  C10 theorems) does to the ordered style map — for every map, every name, every value.

  The object: `ofStyle sv tr d` = the three fields `__init__` creates, `_styleDict` holding the map `d` (an ordered dict of
  texts); `_styleValue` and `_tagRef` are arbitrary.  `self._ensureHtmlAttribute()` — it attaches / detaches the `style` key of
  the TAG's attribute store (`Attrs.ensureStyle`, hand-modelled) and does not touch the style object — is a parameter of the
  interpreter returning `None` (the translator checks its exact body); so the theorems are about the style map (`El.sty`), which
  `Attrs.ensureStyle` leaves alone (`ensureStyle_sty`).
-/
import AHP.Props.C08Code
namespace AHP.C10Code
open AHP AHP.Gen AHP.Conv AHP.PyAst AHP.Gen.Code
open AHP.C08Code (embAL dSet_embAL)

/-- the style object -/
def ofStyle (sv tr : PyV) (d : Attrs.AL Str) : List (String × Field) :=
  [("_styleValue", .py sv), ("_styleDict", .dict (embAL d)), ("_tagRef", .py tr)]

/-- What the methods run in: the static methods of the class dumped as functions (`Gen.Code.special_attributes`), and
`_ensureHtmlAttribute` as a call without effect on the style object. -/
def styleCx (parseInt : Str → Except PyErr Int) : Ctx :=
  { parseInt := parseInt
    funs := callIn parseInt special_attributes.reverse
    selfMeth := fun m =>
      if m = "_ensureHtmlAttribute" then
        some (fun args => match args with | [] => .ok (.py .none) | _ => .error .typeError)
      else none }

/-- a value given to the style: a text or `None` -/
def optV : Option Str → PyV
  | none => .none
  | some s => .str s

theorem ensureStyle_sty (e : Attrs.El) : (Attrs.ensureStyle e).sty = e.sty := by
  unfold Attrs.ensureStyle; split <;> rfl

/-! ### the style map inside the interpreter's dict -/

theorem dGet_embAL (d : Attrs.AL Str) (k : Str) : dGet (embAL d) (.str k) = (Attrs.aget k d).map PyV.str := by
  induction d with
  | nil => rfl
  | cons p r ih =>
    obtain ⟨a, w⟩ := p
    simp only [embAL, List.map_cons, dGet, Attrs.aget, pyEqV] at ih ⊢
    by_cases h : a = k <;> simp [h, ih]

theorem dDel_embAL (d : Attrs.AL Str) (k : Str) : dDel (embAL d) (.str k) = embAL (Attrs.adel k d) := by
  induction d with
  | nil => rfl
  | cons p r ih =>
    obtain ⟨a, w⟩ := p
    simp only [embAL, dDel, Attrs.adel, List.map_cons, List.filter_cons, pyEqV] at ih ⊢
    by_cases h : a = k <;> simp [h, ih]

theorem adel_absent (d : Attrs.AL Str) (k : Str) (h : Attrs.aget k d = none) : Attrs.adel k d = d := by
  induction d with
  | nil => rfl
  | cons p r ih =>
    obtain ⟨a, w⟩ := p
    simp only [Attrs.aget] at h
    by_cases ha : a = k
    · simp [ha] at h
    · simp only [ha, if_false] at h
      have := ih h
      simp only [Attrs.adel] at this ⊢
      rw [List.filter_cons]
      simp only [ne_eq, ha, not_false_eq_true, decide_true, if_true]
      rw [this]

theorem any_embAL (d : Attrs.AL Str) (k : Str) :
    (embAL d).any (fun e => pyEqV (.str k) e.1) = (Attrs.aget k d).isSome := by
  induction d with
  | nil => rfl
  | cons p r ih =>
    obtain ⟨a, w⟩ := p
    simp only [embAL, List.map_cons, List.any_cons, Attrs.aget, pyEqV] at ih ⊢
    by_cases h : a = k
    · subst h; simp
    · have h2 : ¬ k = a := fun e => h e.symm
      simp [h, h2, ih]

theorem embAL_isEmpty (d : Attrs.AL Str) : (embAL d).isEmpty = d.isEmpty := by cases d <;> rfl
theorem embAL_length (d : Attrs.AL Str) : (embAL d).length = d.length := by simp [embAL]

/-! ### `isEmpty` -/

/-- `isEmpty(self)`: is the style map empty; the object is unchanged. -/
theorem isEmpty_code_eq_model (parseInt : Str → Except PyErr Int) (sv tr : PyV) (d : Attrs.AL Str) :
    runMeth (styleCx parseInt) StyleAttribute_isEmpty_ast (ofStyle sv tr d) []
      = (some (ofStyle sv tr d), .ok (.py (.bool d.isEmpty))) := by
  have hb : (styleCx parseInt).funs "bool" = none := rfl
  have hl : (styleCx parseInt).funs "len" = none := rfl
  cases d with
  | nil =>
    simp [runMeth, StyleAttribute_isEmpty_ast, bindArgs, execL, execS, eval, evalList, List.lookup, getAttr, ofStyle, Field.toVal,
      hb, hl, builtin, pyLen, pyCompare, compareB, pyEq, pyEqV, Lit.toPy, Val.truthy, truthy, resultOf, embAL]
  | cons p r =>
    simp [runMeth, StyleAttribute_isEmpty_ast, bindArgs, execL, execS, eval, evalList, List.lookup, getAttr, ofStyle, Field.toVal,
      hb, hl, builtin, pyLen, pyCompare, compareB, pyEq, pyEqV, Lit.toPy, Val.truthy, truthy, resultOf, embAL]
    omega

/-! ### `setProperty` -/

theorem styleCx_ensure (parseInt : Str → Except PyErr Int) :
    (styleCx parseInt).selfMeth "_ensureHtmlAttribute"
      = some (fun args => match args with | [] => .ok (.py .none) | _ => .error .typeError) := rfl

/-- `setProperty(self, name, value)` for every style map, every name (a dash name: it is not translated) and every value that
is a text or `None`: the map becomes that of the hand model's `Attrs.setProperty` (`''` / `None` delete the name — an absent
name is no error —, anything else is stored as `str(value)`); the call returns `None`. -/
theorem setProperty_code_eq_model (parseInt : Str → Except PyErr Int) (sv tr : PyV) (e : Attrs.El) (name : Str) (v : Option Str) :
    runMeth (styleCx parseInt) StyleAttribute_setProperty_ast (ofStyle sv tr e.sty) [.py (.str name), .py (optV v)]
      = (some (ofStyle sv tr (Attrs.setProperty name v e).sty), .ok (.py .none)) := by
  have hs : (styleCx parseInt).funs "str" = none := rfl
  have hsty : (Attrs.setProperty name v e).sty
      = if Attrs.emptyVal v then Attrs.adel name e.sty else Attrs.aset name (v.getD []) e.sty := by
    rw [Attrs.setProperty, ensureStyle_sty]
  rw [hsty]
  cases v with
  | none =>
    cases hg : Attrs.aget name e.sty with
    | none =>
      simp [runMeth, StyleAttribute_setProperty_ast, bindArgs, execL, execS, execH, eval, evalList, toTuple, List.lookup, getField,
        ofStyle, optV, assocSet, pyCompare, compareB, pyIn, pyEqV, Lit.toPy, Val.truthy, truthy, delItemAt, hashable, dGet_embAL,
        hg, catches, errIsA, excOf, styleCx_ensure, Val.mutable, resultOf, Attrs.emptyVal, adel_absent _ _ hg]
    | some w =>
      simp [runMeth, StyleAttribute_setProperty_ast, bindArgs, execL, execS, execH, eval, evalList, toTuple, List.lookup, getField,
        ofStyle, optV, assocSet, pyCompare, compareB, pyIn, pyEqV, Lit.toPy, Val.truthy, truthy, delItemAt, hashable, dGet_embAL,
        hg, putField, dDel_embAL, styleCx_ensure, Val.mutable, resultOf, Attrs.emptyVal]
  | some t =>
    by_cases ht : t = []
    · subst ht
      cases hg : Attrs.aget name e.sty with
      | none =>
        simp [runMeth, StyleAttribute_setProperty_ast, bindArgs, execL, execS, execH, eval, evalList, toTuple, List.lookup, getField,
          ofStyle, optV, assocSet, pyCompare, compareB, pyIn, pyEqV, Lit.toPy, Val.truthy, truthy, delItemAt, hashable, dGet_embAL,
          hg, catches, errIsA, excOf, styleCx_ensure, Val.mutable, resultOf, Attrs.emptyVal, adel_absent _ _ hg]
      | some w =>
        simp [runMeth, StyleAttribute_setProperty_ast, bindArgs, execL, execS, execH, eval, evalList, toTuple, List.lookup, getField,
          ofStyle, optV, assocSet, pyCompare, compareB, pyIn, pyEqV, Lit.toPy, Val.truthy, truthy, delItemAt, hashable, dGet_embAL,
          hg, putField, dDel_embAL, styleCx_ensure, Val.mutable, resultOf, Attrs.emptyVal]
    · have ht' : t.isEmpty = false := by cases t <;> simp_all
      simp [runMeth, StyleAttribute_setProperty_ast, bindArgs, execL, execS, execH, eval, evalList, toTuple, List.lookup, getField,
        ofStyle, optV, assocSet, pyCompare, compareB, pyIn, pyEqV, Lit.toPy, Val.truthy, truthy, setItemAt, hashable, hs, builtin,
        tostr, ht, ht', putField, dSet_embAL, styleCx_ensure, Val.mutable, resultOf, Attrs.emptyVal]

/-! ### `_asStr` -/

theorem strItems_map_str (l : List Str) : strItems (l.map PyV.str) = some l := by
  induction l with
  | nil => rfl
  | cons a r ih => simp [strItems, ih]

theorem strItems_map_comp {α : Type} (f : α → Str) (l : List α) : strItems (l.map (PyV.str ∘ f)) = some (l.map f) := by
  induction l with
  | nil => rfl
  | cons a r ih => simp [strItems, ih]

/-- the comprehension of `_asStr`, for every map: one text `name: value` per declaration, in order -/
theorem comp_declStr (cx : Ctx) (env : Env) (d : Attrs.AL Str) :
    collectPy ((embAL d).map (fun p => eval cx (assocSet (assocSet env "name" (.py p.1)) "value" (.py p.2))
        (.binop .add (.binop .add (.var "name") (.const (.str ": "))) (.var "value"))))
      = .ok ((d.map Attrs.declStr).map PyV.str) := by
  induction d with
  | nil => rfl
  | cons p r ih =>
    obtain ⟨a, w⟩ := p
    simp only [embAL, List.map_cons] at ih ⊢
    have hn : (assocSet (assocSet env "name" (.py (.str a))) "value" (.py (.str w))).lookup "name" = some (.py (.str a)) := by
      rw [lookup_assocSet_ne _ _ _ _ (by decide), lookup_assocSet_eq]
    have hhead : eval cx (assocSet (assocSet env "name" (.py (.str a))) "value" (.py (.str w)))
        (.binop .add (.binop .add (.var "name") (.const (.str ": "))) (.var "value"))
        = .ok (.py (.str (Attrs.declStr (a, w)))) := by
      simp only [eval, hn, lookup_assocSet_eq, pyBinop, numOf, Lit.toPy, Attrs.declStr]
      rfl
    rw [hhead, collectPy, ih]

/-- `_asStr(self)` (= `str(style)`) for every style map: the hand model's `Attrs.asStr` (`name: value` joined with `; `, in
the order of the map; `''` for the empty map); the object is unchanged. -/
theorem asStr_code_eq_model (parseInt : Str → Except PyErr Int) (sv tr : PyV) (d : Attrs.AL Str) :
    runMeth (styleCx parseInt) StyleAttribute_asStr_ast (ofStyle sv tr d) []
      = (some (ofStyle sv tr d), .ok (.py (.str (Attrs.asStr d)))) := by
  cases d with
  | nil =>
    simp [runMeth, StyleAttribute_asStr_ast, bindArgs, execL, execS, eval, evalList, List.lookup, getField, ofStyle, assocSet,
      Field.toVal, Val.truthy, embAL, Lit.toPy, resultOf, Attrs.asStr, joinWith]
  | cons p r =>
    have hc := fun env => comp_declStr (styleCx parseInt) env (p :: r)
    have ht : (Val.dict (embAL (p :: r))).truthy = true := by simp [Val.truthy, embAL]
    simp only [runMeth, StyleAttribute_asStr_ast, bindArgs, List.lookup, Option.isSome, List.isEmpty, Bool.false_eq_true,
      if_false, if_true]
    generalize (Expr.binop .add (Expr.binop .add (.var "name") (.const (.str ": "))) (.var "value")) = elt at hc ⊢
    have hc' := hc [("self", .obj (ofStyle sv tr (p :: r))), ("styleDict", .ref "self" "_styleDict")]
    simp only [assocSet, ofStyle, String.reduceEq, if_false] at hc'
    simp [execL, execS, eval, evalList, List.lookup, getField, ofStyle, assocSet, Field.toVal, ht, hc', callMethod,
      strItems_map_str, strItems_map_comp, strItems, Attrs.asStr, Lit.toPy, resultOf]

end AHP.C10Code
