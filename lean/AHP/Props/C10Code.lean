/-
  C10 — the code tie of the style object: methods of `SpecialAttributes.StyleAttribute` THEMSELVES (`isEmpty`, `setProperty`,
  `_asStr`, and the name translation of `__getattribute__` / `__setattr__`; dumped node by node into `Gen.Code.style_attribute` by
  harness/ahpcheck/translate_code.py on every run, interpreted by `AHP.PyAst`) do to the style object what the hand-written model
  `Model/Attrs.lean` (`El.sty` with `Attrs.setProperty`, `Attrs.asStr`, `Attrs.styleDotGet`, `Attrs.styleDotSet`: the model of the
  C10 theorems) does to the ordered style map — for every map, every name, every value.

  The object: `ofStyle sv tr d` = the three fields `__init__` creates, `_styleDict` holding the map `d` (an ordered dict of
  texts); `_styleValue` and `_tagRef` are arbitrary.  `self._ensureHtmlAttribute()` — it attaches / detaches the `style` key of
  the TAG's attribute store (`Attrs.ensureStyle`, hand-modelled) and does not touch the style object — is a parameter of the
  interpreter returning `None` (the translator checks its exact body); so the theorems are about the style map (`El.sty`), which
  `Attrs.ensureStyle` leaves alone (`ensureStyle_sty`).
-/
import AHP.Props.C08Code
namespace AHP.C10Code
open AHP AHP.Gen AHP.Conv AHP.PyAst AHP.Gen.Code
open AHP.C08Code (embAL dSet_embAL)

/-- the style object -/
def ofStyle (sv tr : PyV) (d : Attrs.AL Str) : List (String × Field) :=
  [("_styleValue", .py sv), ("_styleDict", .dict (embAL d)), ("_tagRef", .py tr)]

/-- What the methods run in: the static methods of the class dumped as functions (`Gen.Code.special_attributes`), and
`_ensureHtmlAttribute` as a call without effect on the style object. -/
def styleCx (parseInt : Str → Except PyErr Int) : Ctx :=
  { parseInt := parseInt
    funs := callIn parseInt special_attributes.reverse
    selfMeth := fun m =>
      if m = "_ensureHtmlAttribute" then
        some (fun args => match args with | [] => .ok (.py .none) | _ => .error .typeError)
      else none }

/-- a value given to the style: a text or `None` -/
def optV : Option Str → PyV
  | none => .none
  | some s => .str s

theorem ensureStyle_sty (e : Attrs.El) : (Attrs.ensureStyle e).sty = e.sty := by
  unfold Attrs.ensureStyle; split <;> rfl

/-! ### the style map inside the interpreter's dict -/

theorem dGet_embAL (d : Attrs.AL Str) (k : Str) : dGet (embAL d) (.str k) = (Attrs.aget k d).map PyV.str := by
  induction d with
  | nil => rfl
  | cons p r ih =>
    obtain ⟨a, w⟩ := p
    simp only [embAL, List.map_cons, dGet, Attrs.aget, pyEqV] at ih ⊢
    by_cases h : a = k <;> simp [h, ih]

theorem dDel_embAL (d : Attrs.AL Str) (k : Str) : dDel (embAL d) (.str k) = embAL (Attrs.adel k d) := by
  induction d with
  | nil => rfl
  | cons p r ih =>
    obtain ⟨a, w⟩ := p
    simp only [embAL, dDel, Attrs.adel, List.map_cons, List.filter_cons, pyEqV] at ih ⊢
    by_cases h : a = k <;> simp [h, ih]

theorem adel_absent (d : Attrs.AL Str) (k : Str) (h : Attrs.aget k d = none) : Attrs.adel k d = d := by
  induction d with
  | nil => rfl
  | cons p r ih =>
    obtain ⟨a, w⟩ := p
    simp only [Attrs.aget] at h
    by_cases ha : a = k
    · simp [ha] at h
    · simp only [ha, if_false] at h
      have := ih h
      simp only [Attrs.adel] at this ⊢
      rw [List.filter_cons]
      simp only [ne_eq, ha, not_false_eq_true, decide_true, if_true]
      rw [this]

theorem any_embAL (d : Attrs.AL Str) (k : Str) :
    (embAL d).any (fun e => pyEqV (.str k) e.1) = (Attrs.aget k d).isSome := by
  induction d with
  | nil => rfl
  | cons p r ih =>
    obtain ⟨a, w⟩ := p
    simp only [embAL, List.map_cons, List.any_cons, Attrs.aget, pyEqV] at ih ⊢
    by_cases h : a = k
    · subst h; simp
    · have h2 : ¬ k = a := fun e => h e.symm
      simp [h, h2, ih]

theorem embAL_isEmpty (d : Attrs.AL Str) : (embAL d).isEmpty = d.isEmpty := by cases d <;> rfl
theorem embAL_length (d : Attrs.AL Str) : (embAL d).length = d.length := by simp [embAL]

/-! ### `isEmpty` -/

/-- `isEmpty(self)`: is the style map empty; the object is unchanged. -/
theorem isEmpty_code_eq_model (parseInt : Str → Except PyErr Int) (sv tr : PyV) (d : Attrs.AL Str) :
    runMeth (styleCx parseInt) StyleAttribute_isEmpty_ast (ofStyle sv tr d) []
      = (some (ofStyle sv tr d), .ok (.py (.bool d.isEmpty))) := by
  have hb : (styleCx parseInt).funs "bool" = none := rfl
  have hl : (styleCx parseInt).funs "len" = none := rfl
  cases d with
  | nil =>
    simp [runMeth, StyleAttribute_isEmpty_ast, bindArgs, execL, execS, eval, evalList, List.lookup, getAttr, ofStyle, Field.toVal,
      hb, hl, builtin, pyLen, pyCompare, compareB, pyEq, pyEqV, Lit.toPy, Val.truthy, truthy, resultOf, embAL]
  | cons p r =>
    simp [runMeth, StyleAttribute_isEmpty_ast, bindArgs, execL, execS, eval, evalList, List.lookup, getAttr, ofStyle, Field.toVal,
      hb, hl, builtin, pyLen, pyCompare, compareB, pyEq, pyEqV, Lit.toPy, Val.truthy, truthy, resultOf, embAL]
    omega

/-! ### `setProperty` -/

theorem styleCx_ensure (parseInt : Str → Except PyErr Int) :
    (styleCx parseInt).selfMeth "_ensureHtmlAttribute"
      = some (fun args => match args with | [] => .ok (.py .none) | _ => .error .typeError) := rfl

/-- `setProperty(self, name, value)` for every style map, every name (a dash name: it is not translated) and every value that
is a text or `None`: the map becomes that of the hand model's `Attrs.setProperty` (`''` / `None` delete the name — an absent
name is no error —, anything else is stored as `str(value)`); the call returns `None`. -/
theorem setProperty_code_eq_model (parseInt : Str → Except PyErr Int) (sv tr : PyV) (e : Attrs.El) (name : Str) (v : Option Str) :
    runMeth (styleCx parseInt) StyleAttribute_setProperty_ast (ofStyle sv tr e.sty) [.py (.str name), .py (optV v)]
      = (some (ofStyle sv tr (Attrs.setProperty name v e).sty), .ok (.py .none)) := by
  have hs : (styleCx parseInt).funs "str" = none := rfl
  have hsty : (Attrs.setProperty name v e).sty
      = if Attrs.emptyVal v then Attrs.adel name e.sty else Attrs.aset name (v.getD []) e.sty := by
    rw [Attrs.setProperty, ensureStyle_sty]
  rw [hsty]
  cases v with
  | none =>
    cases hg : Attrs.aget name e.sty with
    | none =>
      simp [runMeth, StyleAttribute_setProperty_ast, bindArgs, execL, execS, execH, eval, evalList, toTuple, List.lookup, getField,
        ofStyle, optV, assocSet, pyCompare, compareB, pyIn, pyEqV, Lit.toPy, Val.truthy, truthy, delItemAt, hashable, dGet_embAL,
        hg, catches, errIsA, excOf, styleCx_ensure, Val.mutable, resultOf, Attrs.emptyVal, adel_absent _ _ hg]
    | some w =>
      simp [runMeth, StyleAttribute_setProperty_ast, bindArgs, execL, execS, execH, eval, evalList, toTuple, List.lookup, getField,
        ofStyle, optV, assocSet, pyCompare, compareB, pyIn, pyEqV, Lit.toPy, Val.truthy, truthy, delItemAt, hashable, dGet_embAL,
        hg, putField, dDel_embAL, styleCx_ensure, Val.mutable, resultOf, Attrs.emptyVal]
  | some t =>
    by_cases ht : t = []
    · subst ht
      cases hg : Attrs.aget name e.sty with
      | none =>
        simp [runMeth, StyleAttribute_setProperty_ast, bindArgs, execL, execS, execH, eval, evalList, toTuple, List.lookup, getField,
          ofStyle, optV, assocSet, pyCompare, compareB, pyIn, pyEqV, Lit.toPy, Val.truthy, truthy, delItemAt, hashable, dGet_embAL,
          hg, catches, errIsA, excOf, styleCx_ensure, Val.mutable, resultOf, Attrs.emptyVal, adel_absent _ _ hg]
      | some w =>
        simp [runMeth, StyleAttribute_setProperty_ast, bindArgs, execL, execS, execH, eval, evalList, toTuple, List.lookup, getField,
          ofStyle, optV, assocSet, pyCompare, compareB, pyIn, pyEqV, Lit.toPy, Val.truthy, truthy, delItemAt, hashable, dGet_embAL,
          hg, putField, dDel_embAL, styleCx_ensure, Val.mutable, resultOf, Attrs.emptyVal]
    · have ht' : t.isEmpty = false := by cases t <;> simp_all
      simp [runMeth, StyleAttribute_setProperty_ast, bindArgs, execL, execS, execH, eval, evalList, toTuple, List.lookup, getField,
        ofStyle, optV, assocSet, pyCompare, compareB, pyIn, pyEqV, Lit.toPy, Val.truthy, truthy, setItemAt, hashable, hs, builtin,
        tostr, ht, ht', putField, dSet_embAL, styleCx_ensure, Val.mutable, resultOf, Attrs.emptyVal]

/-! ### `_asStr` -/

theorem strItems_map_str (l : List Str) : strItems (l.map PyV.str) = some l := by
  induction l with
  | nil => rfl
  | cons a r ih => simp [strItems, ih]

theorem strItems_map_comp {α : Type} (f : α → Str) (l : List α) : strItems (l.map (PyV.str ∘ f)) = some (l.map f) := by
  induction l with
  | nil => rfl
  | cons a r ih => simp [strItems, ih]

/-- the comprehension of `_asStr`, for every map: one text `name: value` per declaration, in order -/
theorem comp_declStr (cx : Ctx) (env : Env) (d : Attrs.AL Str) :
    collectPy ((embAL d).map (fun p => eval cx (assocSet (assocSet env "name" (.py p.1)) "value" (.py p.2))
        (.binop .add (.binop .add (.var "name") (.const (.str ": "))) (.var "value"))))
      = .ok ((d.map Attrs.declStr).map PyV.str) := by
  induction d with
  | nil => rfl
  | cons p r ih =>
    obtain ⟨a, w⟩ := p
    simp only [embAL, List.map_cons] at ih ⊢
    have hn : (assocSet (assocSet env "name" (.py (.str a))) "value" (.py (.str w))).lookup "name" = some (.py (.str a)) := by
      rw [lookup_assocSet_ne _ _ _ _ (by decide), lookup_assocSet_eq]
    have hhead : eval cx (assocSet (assocSet env "name" (.py (.str a))) "value" (.py (.str w)))
        (.binop .add (.binop .add (.var "name") (.const (.str ": "))) (.var "value"))
        = .ok (.py (.str (Attrs.declStr (a, w)))) := by
      simp only [eval, hn, lookup_assocSet_eq, pyBinop, numOf, Lit.toPy, Attrs.declStr]
      rfl
    rw [hhead, collectPy, ih]

/-- `_asStr(self)` (= `str(style)`) for every style map: the hand model's `Attrs.asStr` (`name: value` joined with `; `, in
the order of the map; `''` for the empty map); the object is unchanged. -/
theorem asStr_code_eq_model (parseInt : Str → Except PyErr Int) (sv tr : PyV) (d : Attrs.AL Str) :
    runMeth (styleCx parseInt) StyleAttribute_asStr_ast (ofStyle sv tr d) []
      = (some (ofStyle sv tr d), .ok (.py (.str (Attrs.asStr d)))) := by
  cases d with
  | nil =>
    simp [runMeth, StyleAttribute_asStr_ast, bindArgs, execL, execS, eval, evalList, List.lookup, getField, ofStyle, assocSet,
      Field.toVal, Val.truthy, embAL, Lit.toPy, resultOf, Attrs.asStr, joinWith]
  | cons p r =>
    have hc := fun env => comp_declStr (styleCx parseInt) env (p :: r)
    have ht : (Val.dict (embAL (p :: r))).truthy = true := by simp [Val.truthy, embAL]
    simp only [runMeth, StyleAttribute_asStr_ast, bindArgs, List.lookup, Option.isSome, List.isEmpty, Bool.false_eq_true,
      if_false, if_true]
    generalize (Expr.binop .add (Expr.binop .add (.var "name") (.const (.str ": "))) (.var "value")) = elt at hc ⊢
    have hc' := hc [("self", .obj (ofStyle sv tr (p :: r))), ("styleDict", .ref "self" "_styleDict")]
    simp only [assocSet, ofStyle, String.reduceEq, if_false] at hc'
    simp [execL, execS, eval, evalList, List.lookup, getField, ofStyle, assocSet, Field.toVal, ht, hc', callMethod,
      strItems_map_str, strItems_map_comp, strItems, Attrs.asStr, Lit.toPy, resultOf]

/-! ### the name translation of `__getattribute__` and `__setattr__` (names that are not reserved) -/

/-- `StyleAttribute.RESERVED_ATTRIBUTES`, as the dump has it -/
def reservedNames : List Str :=
  ["_styleValue", "_styleDict", "_asStr", "_ensureHtmlAttribute", "tag", "_tagRef", "setTag", "isEmpty", "setProperty"].map
    String.toList

/-- the test `name in StyleAttribute.RESERVED_ATTRIBUTES`, as dumped -/
def reservedTest : Expr :=
  .cmp .isIn (.var "name") (.tuple [(.const (.str "_styleValue")), (.const (.str "_styleDict")), (.const (.str "_asStr")),
    (.const (.str "_ensureHtmlAttribute")), (.const (.str "tag")), (.const (.str "_tagRef")), (.const (.str "setTag")),
    (.const (.str "isEmpty")), (.const (.str "setProperty"))])

theorem reservedTest_eval (cx : Ctx) (env : Env) (name : Str) (hN : env.lookup "name" = some (.py (.str name))) :
    eval cx env reservedTest = .ok (.py (.bool (reservedNames.contains name))) := by
  simp [reservedTest, eval, evalList, hN, toTuple, pyCompare, compareB, pyIn, pyEqV, Lit.toPy, reservedNames, List.contains_cons,
    Bool.or_assoc]

/-- the static method `camelCaseToDashName` as the methods see it: `Attrs.camelToDash` (`C08Code`) -/
theorem styleCx_camel (parseInt : Str → Except PyErr Int) :
    (styleCx parseInt).funs "camelCaseToDashName"
      = some (runKw { parseInt := parseInt, funs := callIn parseInt [] } StyleAttribute_camelCaseToDashName_ast) := rfl

theorem camel_run (parseInt : Str → Except PyErr Int) (s : Str) :
    runKw { parseInt := parseInt, funs := callIn parseInt [] } StyleAttribute_camelCaseToDashName_ast [.py (.str s)] []
      = .ok (.py (.str (Attrs.camelToDash s))) :=
  C08Code.camelCaseToDashName_code_eq_model parseInt s

/-- the last expression of `__getattribute__`, `self._styleDict.get(name) or ''`: the value, `''` when the name is absent -/
theorem get_or_eval (cx : Ctx) (env : Env) (sv tr : PyV) (d : Attrs.AL Str) (n : Str)
    (hS : env.lookup "self" = some (.obj (ofStyle sv tr d))) (hN : env.lookup "name" = some (.py (.str n))) :
    eval cx env (.or (.meth (.attr (.var "self") "_styleDict") "get" [(.var "name")]) (.const (.str "")))
      = .ok (.py (.str ((Attrs.aget n d).getD []))) := by
  cases hg : Attrs.aget n d with
  | none =>
    simp [eval, evalList, hS, hN, getAttr, ofStyle, List.lookup, Field.toVal, callMethod, hashable, dGet_embAL, hg, Val.truthy,
      truthy, Lit.toPy]
  | some w =>
    cases w with
    | nil =>
      simp [eval, evalList, hS, hN, getAttr, ofStyle, List.lookup, Field.toVal, callMethod, hashable, dGet_embAL, hg, Val.truthy,
        truthy, Lit.toPy]
    | cons c r =>
      simp [eval, evalList, hS, hN, getAttr, ofStyle, List.lookup, Field.toVal, callMethod, hashable, dGet_embAL, hg, Val.truthy,
        truthy, Lit.toPy]

/-- `style.<name>` (`__getattribute__(self, name)`) for every style map and every name that is not reserved and does not start
with `__`: the hand model's `Attrs.styleDotGet` — the camel-case name is translated to its dash name when that has a dash,
the value is `''` when the name is absent; the object is unchanged. -/
theorem getattribute_code_eq_model (parseInt : Str → Except PyErr Int) (sv tr : PyV) (e : Attrs.El) (name : Str)
    (hres : reservedNames.contains name = false) (hdd : "__".toList.isPrefixOf name = false) :
    runMeth (styleCx parseInt) StyleAttribute_getattribute_ast (ofStyle sv tr e.sty) [.py (.str name)]
      = (some (ofStyle sv tr e.sty), .ok (.py (.str (Attrs.styleDotGet name e)))) := by
  have h1 := reservedTest_eval (styleCx parseInt) [("self", .obj (ofStyle sv tr e.sty)), ("name", .py (.str name))] name
    (by simp [List.lookup])
  have h3 := fun env n => get_or_eval (styleCx parseInt) env sv tr e.sty n
  have hE1 : reservedTest = Expr.cmp .isIn (.var "name") (.tuple [(.const (.str "_styleValue")),
    (.const (.str "_styleDict")), (.const (.str "_asStr")), (.const (.str "_ensureHtmlAttribute")), (.const (.str "tag")),
    (.const (.str "_tagRef")), (.const (.str "setTag")), (.const (.str "isEmpty")), (.const (.str "setProperty"))]) := rfl
  simp only [runMeth, StyleAttribute_getattribute_ast, bindArgs, List.lookup, Option.isSome, List.isEmpty, Bool.false_eq_true,
    if_false, if_true]
  rw [← hE1]
  generalize reservedTest = E1 at h1 ⊢
  have hdd' : ['_', '_'].isPrefixOf name = false := hdd
  have hres' : name ∉ reservedNames := by simpa using hres
  simp only [ofStyle] at h1 h3
  generalize (Expr.or (.meth (.attr (.var "self") "_styleDict") "get" [(.var "name")]) (.const (.str ""))) = E3 at h3 ⊢
  by_cases hdash : (Attrs.camelToDash name).contains '-' = true
  · have hdash' : '-' ∈ Attrs.camelToDash name := by simpa using hdash
    simp [execL, execS, h1, hres', eval, evalList, List.lookup, callMethod, Lit.toPy, hdd', Val.truthy, truthy,
      styleCx_camel, camel_run, aliasOK, Val.mutable, assocSet, pyCompare, compareB, pyIn, hdash', h3, ofStyle, resultOf,
      Attrs.styleDotGet, hdash]
  · have hdash' : '-' ∉ Attrs.camelToDash name := by simpa using hdash
    simp [execL, execS, h1, hres', eval, evalList, List.lookup, callMethod, Lit.toPy, hdd', Val.truthy, truthy,
      styleCx_camel, camel_run, aliasOK, Val.mutable, assocSet, pyCompare, compareB, pyIn, hdash', h3, ofStyle, resultOf,
      Attrs.styleDotGet, hdash]

/-- `style.<name> = val` (`__setattr__(self, name, val)`) for every style map, every name that is not reserved, and every value
that is a text or `None`: the map becomes that of the hand model's `Attrs.styleDotSet` (the name is translated to its dash
name; a false value deletes it — an absent name is no error —, another is stored); the call returns `val`. -/
theorem setattr_code_eq_model (parseInt : Str → Except PyErr Int) (sv tr : PyV) (e : Attrs.El) (name : Str) (v : Option Str)
    (hres : reservedNames.contains name = false) :
    runMeth (styleCx parseInt) StyleAttribute_setattr_ast (ofStyle sv tr e.sty) [.py (.str name), .py (optV v)]
      = (some (ofStyle sv tr (Attrs.styleDotSet name v e).sty), .ok (.py (optV v))) := by
  have h1 := reservedTest_eval (styleCx parseInt)
    [("self", .obj (ofStyle sv tr e.sty)), ("name", .py (.str name)), ("val", .py (optV v))] name (by simp [List.lookup])
  have hE1 : reservedTest = Expr.cmp .isIn (.var "name") (.tuple [(.const (.str "_styleValue")),
    (.const (.str "_styleDict")), (.const (.str "_asStr")), (.const (.str "_ensureHtmlAttribute")), (.const (.str "tag")),
    (.const (.str "_tagRef")), (.const (.str "setTag")), (.const (.str "isEmpty")), (.const (.str "setProperty"))]) := rfl
  have hsty : (Attrs.styleDotSet name v e).sty
      = if Attrs.emptyVal v then Attrs.adel (Attrs.camelToDash name) e.sty
        else Attrs.aset (Attrs.camelToDash name) (v.getD []) e.sty := by
    rw [Attrs.styleDotSet, ensureStyle_sty]
  rw [hsty]
  have hcam := camel_run parseInt name
  have hpe : ∀ a b : Str, pyEqV (.str a) (.str b) = decide (a = b) := fun _ _ => rfl
  simp only [runMeth, StyleAttribute_setattr_ast, bindArgs, List.lookup, Option.isSome, List.isEmpty, Bool.false_eq_true,
    if_false, if_true]
  rw [← hE1]
  generalize reservedTest = E1 at h1 ⊢
  have hres' : name ∉ reservedNames := by simpa using hres
  simp only [ofStyle] at h1
  generalize Attrs.camelToDash name = n at hcam ⊢
  by_cases hne : n = name
  · subst hne
    rcases v with _ | _ | ⟨c, r⟩ <;> simp only [optV] at h1 ⊢
    · cases hg : Attrs.aget n e.sty <;>
        simp [execL, execS, h1, hres', eval, evalList, List.lookup, Lit.toPy, Val.truthy, truthy, styleCx_camel, hcam, aliasOK,
          Val.mutable, assocSet, pyCompare, compareB, bnot, pyEq, hpe, pyIn, hashable, any_embAL, hg, getField, Field.toVal,
          delItemAt, dGet_embAL, dDel_embAL, putField, styleCx_ensure, ofStyle, optV, resultOf, Attrs.emptyVal, adel_absent]
    · cases hg : Attrs.aget n e.sty <;>
        simp [execL, execS, h1, hres', eval, evalList, List.lookup, Lit.toPy, Val.truthy, truthy, styleCx_camel, hcam, aliasOK,
          Val.mutable, assocSet, pyCompare, compareB, bnot, pyEq, hpe, pyIn, hashable, any_embAL, hg, getField, Field.toVal,
          delItemAt, dGet_embAL, dDel_embAL, putField, styleCx_ensure, ofStyle, optV, resultOf, Attrs.emptyVal, adel_absent]
    · simp [execL, execS, h1, hres', eval, evalList, List.lookup, Lit.toPy, Val.truthy, truthy, styleCx_camel, hcam, aliasOK,
        Val.mutable, assocSet, pyCompare, compareB, bnot, pyEq, hpe, getField, Field.toVal, hashable,
        setItemAt, dSet_embAL, putField, styleCx_ensure, ofStyle, optV, resultOf, Attrs.emptyVal]
  · rcases v with _ | _ | ⟨c, r⟩ <;> simp only [optV] at h1 ⊢
    · cases hg : Attrs.aget n e.sty <;>
        simp [execL, execS, h1, hres', eval, evalList, List.lookup, Lit.toPy, Val.truthy, truthy, styleCx_camel, hcam, aliasOK,
          Val.mutable, assocSet, pyCompare, compareB, bnot, pyEq, hpe, pyIn, hashable, any_embAL, hg, getField, Field.toVal,
          delItemAt, dGet_embAL, dDel_embAL, putField, styleCx_ensure, ofStyle, optV, resultOf, Attrs.emptyVal, adel_absent, hne]
    · cases hg : Attrs.aget n e.sty <;>
        simp [execL, execS, h1, hres', eval, evalList, List.lookup, Lit.toPy, Val.truthy, truthy, styleCx_camel, hcam, aliasOK,
          Val.mutable, assocSet, pyCompare, compareB, bnot, pyEq, hpe, pyIn, hashable, any_embAL, hg, getField, Field.toVal,
          delItemAt, dGet_embAL, dDel_embAL, putField, styleCx_ensure, ofStyle, optV, resultOf, Attrs.emptyVal, adel_absent, hne]
    · simp [execL, execS, h1, hres', eval, evalList, List.lookup, Lit.toPy, Val.truthy, truthy, styleCx_camel, hcam, aliasOK,
        Val.mutable, assocSet, pyCompare, compareB, bnot, pyEq, hpe, getField, Field.toVal, hashable,
        setItemAt, dSet_embAL, putField, styleCx_ensure, ofStyle, optV, resultOf, Attrs.emptyVal, hne]

/-! ### non-vacuity: concrete runs of the dump through the interpreter (kernel evaluation) -/

-- A failing `decide +kernel` explains itself by re-evaluating the proposition with the elaborator, which is very slow on
-- runs of the interpreter (minutes, gigabytes): the small budget makes a broken example fail at once.  The kernel check of
-- a correct example does not consume it.
set_option maxHeartbeats 2000

private def d2 : Attrs.AL Str := [("color".toList, "red".toList), ("padding-top".toList, "5px".toList)]
private def sobj (d : Attrs.AL Str) : List (String × Field) := ofStyle (.str "x".toList) (.opaque "weakref") d
private def s (t : String) : Val := .py (.str t.toList)

/-- the hypotheses of the two dot-access theorems are met by ordinary style names, and fail for a reserved one -/
example : reservedNames.contains "paddingTop".toList = false ∧ "__".toList.isPrefixOf "paddingTop".toList = false
    ∧ reservedNames.contains "tag".toList = true := by decide
example : runMeth (styleCx pyIntOfStr) StyleAttribute_isEmpty_ast (sobj d2) [] = (some (sobj d2), .ok (.py (.bool false)))
    ∧ runMeth (styleCx pyIntOfStr) StyleAttribute_isEmpty_ast (sobj []) [] = (some (sobj []), .ok (.py (.bool true))) := by
  decide +kernel
/-- `setProperty`: an existing name keeps its place, a new one goes last; `''` and `None` delete; deleting an absent name is
no error; the name is NOT translated (no dash name for `paddingTop`) -/
example : runMeth (styleCx pyIntOfStr) StyleAttribute_setProperty_ast (sobj d2) [s "color", s "blue"]
    = (some (sobj [("color".toList, "blue".toList), ("padding-top".toList, "5px".toList)]), .ok (.py .none)) := by
  decide +kernel
example : runMeth (styleCx pyIntOfStr) StyleAttribute_setProperty_ast (sobj d2) [s "paddingTop", s "1px"]
    = (some (sobj (d2 ++ [("paddingTop".toList, "1px".toList)])), .ok (.py .none)) := by decide +kernel
example : runMeth (styleCx pyIntOfStr) StyleAttribute_setProperty_ast (sobj d2) [s "color", .py .none]
    = (some (sobj [("padding-top".toList, "5px".toList)]), .ok (.py .none))
    ∧ runMeth (styleCx pyIntOfStr) StyleAttribute_setProperty_ast (sobj d2) [s "float", s ""]
    = (some (sobj d2), .ok (.py .none)) := by decide +kernel
/-- a value that is not a text is stored as `str(value)` (outside the hand model's `Option Str`) -/
example : runMeth (styleCx pyIntOfStr) StyleAttribute_setProperty_ast (sobj []) [s "z-index", .py (.int 3)]
    = (some (sobj [("z-index".toList, "3".toList)]), .ok (.py .none)) := by decide +kernel
/-- `_asStr` -/
example : runMeth (styleCx pyIntOfStr) StyleAttribute_asStr_ast (sobj d2) []
    = (some (sobj d2), .ok (s "color: red; padding-top: 5px"))
    ∧ runMeth (styleCx pyIntOfStr) StyleAttribute_asStr_ast (sobj []) [] = (some (sobj []), .ok (s "")) := by decide +kernel
/-- `style.paddingTop` reads `padding-top`; a name without capitals is read as it is; an absent name is `''` -/
example : runMeth (styleCx pyIntOfStr) StyleAttribute_getattribute_ast (sobj d2) [s "paddingTop"] = (some (sobj d2), .ok (s "5px"))
    ∧ runMeth (styleCx pyIntOfStr) StyleAttribute_getattribute_ast (sobj d2) [s "color"] = (some (sobj d2), .ok (s "red"))
    ∧ runMeth (styleCx pyIntOfStr) StyleAttribute_getattribute_ast (sobj d2) [s "float"] = (some (sobj d2), .ok (s "")) := by
  decide +kernel
/-- a reserved name is the plain attribute (`object.__getattribute__`): the field itself -/
example : (runMeth (styleCx pyIntOfStr) StyleAttribute_getattribute_ast (sobj d2) [s "_styleValue"]).2 = .ok (s "x") := by
  decide +kernel
/-- `style.paddingTop = v` writes `padding-top`; a false value deletes -/
example : runMeth (styleCx pyIntOfStr) StyleAttribute_setattr_ast (sobj d2) [s "paddingTop", s "9px"]
    = (some (sobj [("color".toList, "red".toList), ("padding-top".toList, "9px".toList)]), .ok (s "9px"))
    ∧ runMeth (styleCx pyIntOfStr) StyleAttribute_setattr_ast (sobj d2) [s "paddingTop", s ""]
    = (some (sobj [("color".toList, "red".toList)]), .ok (s ""))
    ∧ runMeth (styleCx pyIntOfStr) StyleAttribute_setattr_ast (sobj d2) [s "marginLeft", .py .none]
    = (some (sobj d2), .ok (.py .none)) := by decide +kernel
/-- assigning a reserved name goes to `object.__setattr__`, which is NOT modelled: an error, never a value -/
example : (runMeth (styleCx pyIntOfStr) StyleAttribute_setattr_ast (sobj d2) [s "tag", .py .none]).2
    = .error (unsupported "object.__setattr__") := by decide +kernel

end AHP.C10Code
