/- C07 — property theorems (stub: the property is not claimed yet). -/
namespace AHP.C07
end AHP.C07
