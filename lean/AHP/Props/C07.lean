/-
  C07 — indexes are transparent: indexed search equals unindexed search.

  Property theorems only.  Model: AHP/Model/Index.lean (what the driver executes); invariant and helper
  lemmas: AHP/Lemmas/Index.lean, AHP/Lemmas/IndexInv.lean; specification of the searches: C06
  (`fil pred scope`, `parserScope`).

  Reading guide.
    `Idx.Good i`      the state is well formed (reachable): `indexFunctions` mirrors the four flags; the two
                      dicts of the attribute indexes have the same keys.
    `IdxInv i doc`    every installed map lists, per key, exactly the matching elements of `doc` in document
                      order (`Idx.Holds i (creationOrder doc)`); maps of disabled indexes are not constrained
                      (they are never read).
    `Valid doc`       ids below the root are pairwise distinct (element identity).  Nothing is assumed about the
                      class lists: with a repeated name (`class="a a"`) the class map lists the element once per
                      occurrence (`classU`, as `_indexClassName` does) and the lookups' `TagCollection(...)`
                      de-duplicates (`Lemmas/IndexClass.lean`).
  C07a: parsing establishes `IdxInv` (the index is maintained while elements are created, in creation order).
  C07b: `reindex` with any arguments — hence `setRoot` — establishes it for any document however edited, from
        any reachable configuration (after `addIndexOnAttribute`, `removeIndexOnAttribute`, `disableIndexing`).
  C07c: under `IdxInv` every lookup, for every `root=` argument and both values of `useIndex`, returns what the
        unindexed search returns, which is the C06 specification.
  The `useIndex=False` leg.  `idxBy… i doc q arg false` IS the plain scan `by… q (.parser doc arg)` by definition
        (that is what the driver executes), so on that leg the `*_transparent` theorems compare the scan with itself.
        The code's leg is another function: the base-class loop re-enters the indexed override for every child
        (`idxBy…FB`, Model/Index.lean).  `*_fallback` prove that function equal to the plain scan under `IdxInv` —
        so the definitional leg is justified by a theorem, not by the definition.
-/
import AHP.Lemmas.IndexFallback
import AHP.Props.C06
namespace AHP.C07
open AHP AHP.G3 AHP.G3.Idx

def IdxInv (i : Idx) (doc : Node) : Prop := Holds i (creationOrder doc)

structure Valid (doc : Node) : Prop where
  distinct : doc.Distinct

/-! #### every reachable configuration is well formed -/

/-- The configuration operations of the class. -/
inductive Cfg where
  | addIndexOn (a : Str)
  | removeIndexOn (a : Str)
  | disable
  | reindex (doc : Node) (a b c d : Option Bool)
  | parse (doc : Node)

def applyCfg (i : Idx) : Cfg → Idx
  | .addIndexOn a => i.addIndexOn a
  | .removeIndexOn a => i.removeIndexOn a
  | .disable => i.disable
  | .reindex doc a b c d => i.reindex doc a b c d
  | .parse doc => i.parse doc

theorem reindex_good {i : Idx} (h : Good i) (doc : Node) (a b c d : Option Bool) : Good (i.reindex doc a b c d) := by
  simp only [Idx.reindex, indexRec_eq]
  exact fold_good (reset_good (i := { i with indexIDs := optSet i.indexIDs a, indexNames := optSet i.indexNames b })
    ⟨h.nodup, h.keys⟩) _

theorem parse_good {i : Idx} (h : Good i) (doc : Node) : Good (i.parse doc) :=
  fold_good (reset_good h.toKeys) _

/-- All 16 flag combinations, any number of attribute indexes, any history of configuration operations. -/
theorem reachable_good (a b c d : Bool) (ops : List Cfg) : Good (ops.foldl applyCfg (Idx.init a b c d)) := by
  have key : ∀ (ops : List Cfg) (i : Idx), Good i → Good (ops.foldl applyCfg i) := by
    intro ops
    induction ops with
    | nil => intro i h; exact h
    | cons op ops ih =>
      intro i h
      apply ih
      cases op with
      | addIndexOn x => exact addIndexOn_good h x
      | removeIndexOn x => exact removeIndexOn_good h x
      | disable => exact disable_good h
      | reindex doc p q r s => exact reindex_good h doc p q r s
      | parse doc => exact parse_good h doc
  exact key ops _ (init_good a b c d)

/-! #### C07a — parsing maintains the index -/

/-- `parseStr` on a parser in any reachable configuration (also one that held another document before:
    `reset` clears every map): the index mirrors the new document. -/
theorem parse_inv {i : Idx} (h : Good i) (doc : Node) : IdxInv (i.parse doc) doc := by
  have := fold_holds (reset_good h.toKeys) (reset_holds i) (creationOrder doc)
  simpa [IdxInv, Idx.parse] using this

/-- The multi-root fallback: a first pass has indexed some elements `es` when `MultipleRootNodeException`
    is raised; `reset` and the second pass give an index that mirrors the (wrapper-rooted) document. -/
theorem parse_after_failed_pass {i : Idx} (h : Good i) (es : List Elem) (doc : Node) :
    IdxInv ((es.foldl indexTag i.resetInternal).parse doc) doc :=
  parse_inv (fold_good (reset_good h.toKeys) es) doc

/-! #### C07b — reindex, for every document and configuration -/

theorem reindex_inv {i : Idx} (h : Good i) (doc : Node) (a b c d : Option Bool) :
    IdxInv (i.reindex doc a b c d) doc := by
  simp only [IdxInv, Idx.reindex, indexRec_eq]
  have := fold_holds (reset_good (i := { i with indexIDs := optSet i.indexIDs a, indexNames := optSet i.indexNames b })
      ⟨h.nodup, h.keys⟩) (reset_holds _) (creationOrder doc)
  simpa using this

/-- what the class map holds after parse / reindex when the class index is on: under `c`, every element of the
    document once per occurrence of `c` in its class list (`class="a a"`: twice), in document order; for class
    lists without repeats that is the list of the matching elements (`classU_eq_matchU`) -/
theorem class_map_contents {i : Idx} {doc : Node} (hi : IdxInv i doc) (hf : i.fnClassNames = true) (c : Str) :
    assocGet i.classNameMap c = (creationOrder doc).flatMap (fun e => List.replicate (e.classes.count c) e.uid) :=
  hi.classes hf c

/-- `_indexTagRecursive` (reindex) and indexing at creation time (parse) build the same index. -/
theorem reindex_eq_parse (i : Idx) (doc : Node) : i.reindex doc none none none none = i.parse doc := by
  simp only [Idx.reindex, Idx.parse, indexRec_eq, optSet]

/-- `removeIndexOnAttribute` needs no reindex: the remaining maps still mirror the document. -/
theorem removeIndexOn_inv {i : Idx} {doc : Node} (h : IdxInv i doc) (a : Str) : IdxInv (i.removeIndexOn a) doc :=
  removeIndexOn_holds h a

/-! #### C07c — every lookup equals the unindexed search and the specification -/

/-- The index path of the single-criterion lookups: restrict the document's matches to the subtree, wrap. -/
theorem index_path' {doc : Node} (hd : doc.Distinct) (p : Elem → Bool) (arg : Option Node)
    (ha : ∀ r, arg = some r → r ∈ doc.preorder) :
    (TC.ofList (restrict doc (handleRootArg doc arg).2 (handleRootArg doc arg).1
        (fil p doc.preorder))).items = fil p (parserScope doc arg) := by
  rcases handleRootArg_cases doc arg with ⟨h1, h2⟩ | ⟨r, hr, h1, h2⟩
  · rw [h1, h2]
    simp only [restrict, if_true]
    exact TC.ofList_items_of_nodup (uids_nodup_of_sublist (fil_sublist _ _) hd)
  · rw [h1, h2]
    simp only [restrict, Bool.false_eq_true, if_false]
    have hr' := ha r hr
    rw [restrict_desc hd hr' p]
    exact TC.ofList_items_of_nodup
      (uids_nodup_of_sublist (fil_sublist _ _) (Node.Distinct.desc (distinct_of_mem hd r hr')))

theorem resolve_fil {doc : Node} (hd : doc.Distinct) (p : Elem → Bool) :
    resolve doc (uidsOf (fil p doc.preorder)) = fil p doc.preorder :=
  resolve_uids hd (fun y hy => (fil_sublist p _).subset hy)

theorem index_path {doc : Node} (hd : doc.Distinct) (p : Elem → Bool) (arg : Option Node)
    (ha : ∀ r, arg = some r → r ∈ doc.preorder) :
    (TC.ofList (restrict doc (handleRootArg doc arg).2 (handleRootArg doc arg).1
        (resolve doc (uidsOf (fil p doc.preorder))))).items = fil p (parserScope doc arg) := by
  rw [resolve_fil hd]; exact index_path' hd p arg ha

theorem scanRoot_distinct {doc : Node} (hd : doc.Distinct) (arg : Option Node)
    (ha : ∀ r, arg = some r → r ∈ doc.preorder) : (scanRoot doc arg).Distinct := by
  rcases handleRootArg_cases doc arg with ⟨h1, _⟩ | ⟨r, hr, h1, _⟩
  · simp only [scanRoot, h1]; exact hd
  · simp only [scanRoot, h1]; exact distinct_of_mem hd r (ha r hr)

/-- getElementsByTagName. -/
theorem byTagName_transparent {i : Idx} (hg : Good i) {doc : Node} (hi : IdxInv i doc) (hd : doc.Distinct)
    (q : Str) (arg : Option Node) (ha : ∀ r, arg = some r → r ∈ doc.preorder) (useIndex : Bool) :
    (idxByTagName i doc q arg useIndex).items = (byTagName q (.parser doc arg)).items ∧
    (idxByTagName i doc q arg useIndex).items = fil (pTag q) (parserScope doc arg) := by
  have hplain := C06.byTagName_parser q doc arg (scanRoot_distinct hd arg ha)
  rw [hplain]
  refine ⟨?_, ?_⟩ <;>
  · simp only [idxByTagName]
    by_cases hu : (useIndex && i.indexTagNames) = true
    · have hf : i.fnTagNames = true := by rw [hg.sync.2.2.2]; simp at hu; exact hu.2
      simp only [hu, if_true]
      rw [hi.tags hf q, matchU_creationOrder]
      exact index_path hd _ arg ha
    · simp only [hu, if_false]; exact hplain

/-- getElementsByName (searched value non-empty). -/
theorem byName_transparent {i : Idx} (hg : Good i) {doc : Node} (hi : IdxInv i doc) (hd : doc.Distinct)
    (q : Str) (hq : q ≠ []) (arg : Option Node) (ha : ∀ r, arg = some r → r ∈ doc.preorder) (useIndex : Bool) :
    (idxByName i doc q arg useIndex).items = (byName q (.parser doc arg)).items ∧
    (idxByName i doc q arg useIndex).items = fil (pAttr (str "name") q) (parserScope doc arg) := by
  have hplain := C06.byName_parser q hq doc arg (scanRoot_distinct hd arg ha)
  rw [hplain]
  refine ⟨?_, ?_⟩ <;>
  · simp only [idxByName]
    by_cases hu : (useIndex && i.indexNames) = true
    · have hf : i.fnNames = true := by rw [hg.sync.2.1]; simp at hu; exact hu.2
      simp only [hu, if_true]
      rw [hi.names hf q hq, matchU_creationOrder]
      exact index_path hd _ arg ha
    · simp only [hu, if_false]; exact hplain

/-- getElementsByAttr, with or without an index on that attribute. -/
theorem byAttr_transparent {i : Idx} (hg : Good i) {doc : Node} (hi : IdxInv i doc) (hd : doc.Distinct)
    (a v : Str) (arg : Option Node) (ha : ∀ r, arg = some r → r ∈ doc.preorder) (useIndex : Bool) :
    (idxByAttr i doc a v arg useIndex).items = (byAttr a v (.parser doc arg)).items ∧
    (idxByAttr i doc a v arg useIndex).items = fil (pAttr a v) (parserScope doc arg) := by
  have hplain := C06.byAttr_parser a v doc arg (scanRoot_distinct hd arg ha)
  rw [hplain]
  refine ⟨?_, ?_⟩ <;>
  · simp only [idxByAttr]
    cases hm : (if useIndex = true then i.other.lookup a else none) with
    | none => exact hplain
    | some m =>
      have hl : i.other.lookup a = some m := by
        by_cases hu : useIndex = true
        · simpa [hu] using hm
        · simp [hu] at hm
      have hmem : a ∈ i.otherFns := (hg.keys a).mpr (by simp [hl])
      simp only
      rw [hi.others a m hmem hl v, matchU_creationOrder]
      exact index_path hd _ arg ha

/-- getElementsByClassName with the names `c :: rest`. -/
theorem byClassName_transparent {i : Idx} (hg : Good i) {doc : Node} (hi : IdxInv i doc) (hd : doc.Distinct)
    (q c : Str) (rest : List Str) (hw : classWords q = c :: rest)
    (arg : Option Node) (ha : ∀ r, arg = some r → r ∈ doc.preorder) (useIndex : Bool) :
    ∃ r, idxByClassName i doc q arg useIndex = some r ∧
      r.items = fil (pAllClasses (c :: rest)) (parserScope doc arg) ∧
      (byClassName q (.parser doc arg)).map TC.items = some r.items := by
  obtain ⟨rp, hrp, hitems⟩ := C06.byClassName_parser q c rest hw doc arg (scanRoot_distinct hd arg ha)
  simp only [idxByClassName]
  by_cases hu : (useIndex && i.indexClassNames) = true
  · have hf : i.fnClassNames = true := by rw [hg.sync.2.2.1]; simp at hu; exact hu.2
    simp only [hu, if_true, hw]
    have key : (TC.ofList (restrict doc (handleRootArg doc arg).2 (handleRootArg doc arg).1
        (if rest.isEmpty = true then resolve doc (assocGet i.classNameMap c)
         else (resolve doc (assocGet i.classNameMap c)).filter (fun n => pAllClasses rest n.elem)))).items
        = fil (pAllClasses (c :: rest)) (parserScope doc arg) := by
      rw [hi.classes hf c, resolve_classRep hd, classPath_dedup hd, first_then_rest]
      exact index_path' hd _ arg ha
    refine ⟨_, rfl, key, ?_⟩
    rw [hrp, Option.map_some, hitems, key]
  · simp only [hu, if_false]
    exact ⟨rp, hrp, hitems, by rw [hrp]; rfl⟩


theorem scope_sublist {doc : Node} (arg : Option Node) (ha : ∀ r, arg = some r → r ∈ doc.preorder) :
    (parserScope doc arg).Sublist doc.preorder := by
  rcases handleRootArg_cases doc arg with ⟨_, h2⟩ | ⟨r, hr, _, h2⟩
  · rw [h2]; exact List.Sublist.refl _
  · rw [h2]
    have := preorder_sublist_of_mem doc r (ha r hr)
    rw [Node.preorder_eq r] at this
    exact (List.sublist_cons_self _ _).trans this

/-- getElementById (ids unique, searched value non-empty — as the property says). -/
theorem byId_transparent {i : Idx} (hg : Good i) {doc : Node} (hi : IdxInv i doc) (hd : doc.Distinct)
    (q : Str) (hq : q ≠ []) (huniq : (fil (pAttr (str "id") q) doc.preorder).length ≤ 1)
    (arg : Option Node) (ha : ∀ r, arg = some r → r ∈ doc.preorder) (useIndex : Bool) :
    idxById i doc q arg useIndex = byId q (.parser doc arg) ∧
    idxById i doc q arg useIndex = (fil (pAttr (str "id") q) (parserScope doc arg)).head? := by
  have hplain := C06.byId_parser q hq doc arg
  rw [hplain]
  refine ⟨?_, ?_⟩ <;>
  · simp only [idxById]
    by_cases hu : (useIndex && i.indexIDs) = true
    · have hf : i.fnIDs = true := by rw [hg.sync.1]; simp at hu; exact hu.2
      simp only [hu, if_true]
      rw [hi.ids hf q hq, matchU_creationOrder]
      have hsub : (fil (pAttr (str "id") q) (parserScope doc arg)).Sublist (fil (pAttr (str "id") q) doc.preorder) :=
        (scope_sublist arg ha).filter _
      cases hL : fil (pAttr (str "id") q) doc.preorder with
      | nil =>
        rw [hL] at hsub
        simp [uidsOf, List.sublist_nil.mp hsub]
      | cons a rest =>
        have hrest : rest = [] := by
          rw [hL] at huniq
          simp at huniq
          exact huniq
        subst hrest
        have ha_mem : a ∈ doc.preorder := (fil_sublist _ _).subset (hL ▸ List.mem_cons_self)
        have hfind : doc.find? a.uid = some a := find?_mem a.uid doc hd a ha_mem rfl
        simp only [uidsOf, List.map_cons, List.map_nil, List.getLast?_singleton, Option.bind_some, hfind]
        rcases handleRootArg_cases doc arg with ⟨h1, h2⟩ | ⟨r, hr, h1, h2⟩
        · rw [h1, h2, hL]; simp
        · rw [h1, h2]
          have := restrict_desc hd (ha r hr) (pAttr (str "id") q)
          rw [hL] at this
          rw [← this]
          cases hh : hasTagInParentLine doc a.uid r <;> simp [hh]
    · simp only [hu, if_false]; exact hplain

/-- `value in set` on a possibly missing attribute. -/
theorem pVals_iff (a : Str) (vs : List Str) (e : Elem) : pVals a vs e = true ↔ ∃ v ∈ vs, e.attr a = some v := by
  simp only [pVals, optIn]
  cases e.attr a with
  | none => simp
  | some w => simp

theorem vals_fold {doc : Node} (hd : doc.Distinct) (m : List (Str × List Nat)) (a : Str)
    (hm : ∀ v, assocGet m v = uidsOf (fil (pAttr a v) doc.preorder)) (vs : List Str) (acc : TC) :
    vs.foldl (fun (acc : TC) v => acc.iadd (TC.ofList (resolve doc (assocGet m v))).items) acc
      = acc.iadd (vs.flatMap (fun v => fil (pAttr a v) doc.preorder)) := by
  induction vs generalizing acc with
  | nil => simp [TC.iadd]
  | cons v vs ih =>
    simp only [List.foldl_cons, List.flatMap_cons, TC.iadd_append]
    rw [ih, hm v, resolve_fil hd,
      TC.ofList_items_of_nodup (uids_nodup_of_sublist (fil_sublist _ _) hd)]

/-- getElementsWithAttrValues: answered from an attribute index the result is the same *set* of elements,
    each once (grouped by value instead of document order); otherwise it is the plain search itself. -/
theorem withAttrValues_transparent {i : Idx} (hg : Good i) {doc : Node} (hi : IdxInv i doc) (hd : doc.Distinct)
    (a : Str) (vs : List Str) (arg : Option Node) (ha : ∀ r, arg = some r → r ∈ doc.preorder) (useIndex : Bool) :
    (idxWithAttrValues i doc a vs arg useIndex).ids.Nodup ∧
    ∀ u, u ∈ (idxWithAttrValues i doc a vs arg useIndex).ids ↔
         u ∈ uidsOf (fil (pVals a vs) (parserScope doc arg)) := by
  have hplain := C06.withAttrValues_parser a vs doc arg (scanRoot_distinct hd arg ha)
  have hscope_nodup : (uidsOf (fil (pVals a vs) (parserScope doc arg))).Nodup :=
    uids_nodup_of_sublist ((fil_sublist _ _).trans (scope_sublist arg ha)) hd
  simp only [idxWithAttrValues]
  cases hm : (if useIndex = true then i.other.lookup a else none) with
  | none =>
    have hids : (withAttrValues a vs (Recv.parser doc arg)).ids = uidsOf (fil (pVals a vs) (parserScope doc arg)) := by
      simp only [TC.ids, hplain]
    rw [hids]
    exact ⟨hscope_nodup, fun _ => Iff.rfl⟩
  | some m =>
    have hl : i.other.lookup a = some m := by
      by_cases hu : useIndex = true
      · simpa [hu] using hm
      · simp [hu] at hm
    have hmem : a ∈ i.otherFns := (hg.keys a).mpr (by simp [hl])
    have hmv : ∀ v, assocGet m v = uidsOf (fil (pAttr a v) doc.preorder) := fun v => by
      rw [hi.others a m hmem hl v, matchU_creationOrder]
    simp only
    rw [vals_fold hd m a hmv vs TC.empty]
    have hE := TC.ofList_spec (vs.flatMap (fun v => fil (pAttr a v) doc.preorder))
    have hEeq : TC.empty.iadd (vs.flatMap (fun v => fil (pAttr a v) doc.preorder))
        = TC.ofList (vs.flatMap (fun v => fil (pAttr a v) doc.preorder)) := rfl
    rw [hEeq]
    -- (A) every listed element is an element of the document carrying one of the values
    have hA : ∀ n ∈ (TC.ofList (vs.flatMap (fun v => fil (pAttr a v) doc.preorder))).items,
        n ∈ doc.preorder ∧ pVals a vs n.elem = true := by
      intro n hn
      rw [hE.2] at hn
      have := (dedupN_sublist _ _).subset hn
      obtain ⟨v, hv, hnv⟩ := List.mem_flatMap.mp this
      have hnv' := List.mem_filter.mp hnv
      exact ⟨hnv'.1, (pVals_iff a vs n.elem).mpr ⟨v, hv, (pAttr_eq a v n.elem).mp hnv'.2⟩⟩
    -- (B) and every such element is listed
    have hB : ∀ n ∈ doc.preorder, pVals a vs n.elem = true →
        n ∈ (TC.ofList (vs.flatMap (fun v => fil (pAttr a v) doc.preorder))).items := by
      intro n hn hp
      obtain ⟨v, hv, hav⟩ := (pVals_iff a vs n.elem).mp hp
      have h1 : n ∈ vs.flatMap (fun v => fil (pAttr a v) doc.preorder) :=
        List.mem_flatMap.mpr ⟨v, hv, List.mem_filter.mpr ⟨hn, (pAttr_eq a v n.elem).mpr hav⟩⟩
      have h2 : n.uid ∈ uidsOf (dedupN [] (vs.flatMap (fun v => fil (pAttr a v) doc.preorder))) :=
        mem_dedupN_uid.mpr ⟨List.mem_map_of_mem h1, by simp⟩
      obtain ⟨n', hn', hu'⟩ := mem_of_uid_mem h2
      rw [← hE.2] at hn'
      have : n' = n := eq_of_uid_eq hd (hA n' hn').1 hn hu'
      exact this ▸ hn'
    have hEnodup : (uidsOf (TC.ofList (vs.flatMap (fun v => fil (pAttr a v) doc.preorder))).items).Nodup :=
      TC.ids_nodup hE.1
    rcases handleRootArg_cases doc arg with ⟨h1, h2⟩ | ⟨r, hr, h1, h2⟩
    · rw [h1, h2]
      simp only [if_true, TC.ids]
      refine ⟨hEnodup, ?_⟩
      intro u
      constructor
      · intro hu
        obtain ⟨n, hn, rfl⟩ := mem_of_uid_mem hu
        exact List.mem_map_of_mem (List.mem_filter.mpr ⟨(hA n hn).1, (hA n hn).2⟩)
      · intro hu
        obtain ⟨n, hn, rfl⟩ := mem_of_uid_mem hu
        have := List.mem_filter.mp hn
        exact List.mem_map_of_mem (hB n this.1 this.2)
    · rw [h1, h2]
      simp only [Bool.false_eq_true, if_false, TC.ids]
      have hr' := ha r hr
      have hsubn : (uidsOf ((TC.ofList (vs.flatMap (fun v => fil (pAttr a v) doc.preorder))).items.filter
          (fun x => hasTagInParentLine doc x.uid r))).Nodup :=
        uids_nodup_of_sublist List.filter_sublist hEnodup
      rw [TC.ofList_items_of_nodup hsubn]
      refine ⟨hsubn, ?_⟩
      have hdesc_sub : r.desc.Sublist doc.preorder := by
        have := preorder_sublist_of_mem doc r hr'
        rw [Node.preorder_eq r] at this
        exact (List.sublist_cons_self _ _).trans this
      intro u
      constructor
      · intro hu
        obtain ⟨n, hn, rfl⟩ := mem_of_uid_mem hu
        have hn' := List.mem_filter.mp hn
        have hnA := hA n hn'.1
        have hin := (hasTagInParentLine_iff hd hnA.1 hr').mp hn'.2
        obtain ⟨n2, hn2, hu2⟩ := mem_of_uid_mem hin
        have : n2 = n := eq_of_uid_eq hd (hdesc_sub.subset hn2) hnA.1 hu2
        subst this
        exact List.mem_map_of_mem (List.mem_filter.mpr ⟨hn2, hnA.2⟩)
      · intro hu
        obtain ⟨n, hn, rfl⟩ := mem_of_uid_mem hu
        have hn' := List.mem_filter.mp hn
        have hpre := hdesc_sub.subset hn'.1
        refine List.mem_map_of_mem (List.mem_filter.mpr ⟨hB n hpre hn'.2, ?_⟩)
        exact (hasTagInParentLine_iff hd hpre hr').mpr (List.mem_map_of_mem hn'.1)

/-- The unindexed answer for the same query is that set in document order (C06). -/
theorem withAttrValues_plain {doc : Node} (hd : doc.Distinct) (a : Str) (vs : List Str) (arg : Option Node)
    (ha : ∀ r, arg = some r → r ∈ doc.preorder) (i : Idx) :
    (idxWithAttrValues i doc a vs arg false).items = fil (pVals a vs) (parserScope doc arg) := by
  simp only [idxWithAttrValues, Bool.false_eq_true, if_false]
  exact C06.withAttrValues_parser a vs doc arg (scanRoot_distinct hd arg ha)

/-! #### the `useIndex=False` leg as the code has it: the base-class loop re-enters the indexed override -/

theorem scanRoot_mem {doc : Node} (arg : Option Node) (ha : ∀ r, arg = some r → r ∈ doc.preorder) :
    (handleRootArg doc arg).1 ∈ doc.preorder := by
  rcases handleRootArg_cases doc arg with ⟨h1, _⟩ | ⟨r, hr, h1, _⟩
  · rw [h1]; simp [Node.preorder_eq doc]
  · rw [h1]; exact ha r hr

/-- `getElementsByTagName(q, root, useIndex=False)` on the indexed parser — the base-class method whose loop calls
    `self.getElementsByTagName(q, child)`, i.e. the indexed override — returns the plain scan's collection. -/
theorem byTagName_fallback {i : Idx} (hg : Good i) {doc : Node} (hi : IdxInv i doc) (hd : doc.Distinct)
    (q : Str) (arg : Option Node) (ha : ∀ r, arg = some r → r ∈ doc.preorder) :
    idxByTagNameFB i doc q arg = byTagName q (.parser doc arg) ∧
    idxByTagNameFB i doc q arg = idxByTagName i doc q arg false := by
  have key : idxByTagNameFB i doc q arg = byTagName q (.parser doc arg) := by
    simp only [idxByTagNameFB, byTagName]
    apply scanFB_eq_scanP _ _ _ (scanRoot_mem arg ha) hd
    intro hu k hk
    have hf : i.fnTagNames = true := by rw [hg.sync.2.2.2]; exact hu
    rw [hi.tags hf q, matchU_creationOrder]
    exact indexed_child hd _ hk
  exact ⟨key, by rw [key]; simp [idxByTagName]⟩

/-- `getElementsByName(…, useIndex=False)` (searched value non-empty) -/
theorem byName_fallback {i : Idx} (hg : Good i) {doc : Node} (hi : IdxInv i doc) (hd : doc.Distinct)
    (q : Str) (hq : q ≠ []) (arg : Option Node) (ha : ∀ r, arg = some r → r ∈ doc.preorder) :
    idxByNameFB i doc q arg = byName q (.parser doc arg) ∧
    idxByNameFB i doc q arg = idxByName i doc q arg false := by
  have key : idxByNameFB i doc q arg = byName q (.parser doc arg) := by
    simp only [idxByNameFB, byName]
    apply scanFB_eq_scanP _ _ _ (scanRoot_mem arg ha) hd
    intro hu k hk
    have hf : i.fnNames = true := by rw [hg.sync.2.1]; exact hu
    rw [hi.names hf q hq, matchU_creationOrder]
    exact indexed_child hd _ hk
  exact ⟨key, by rw [key]; simp [idxByName]⟩

/-- `getElementsByAttr(…, useIndex=False)`: the re-entered call uses the attribute index iff the attribute is indexed -/
theorem byAttr_fallback {i : Idx} (hg : Good i) {doc : Node} (hi : IdxInv i doc) (hd : doc.Distinct)
    (a v : Str) (arg : Option Node) (ha : ∀ r, arg = some r → r ∈ doc.preorder) :
    idxByAttrFB i doc a v arg = byAttr a v (.parser doc arg) ∧
    idxByAttrFB i doc a v arg = idxByAttr i doc a v arg false := by
  have key : idxByAttrFB i doc a v arg = byAttr a v (.parser doc arg) := by
    simp only [idxByAttrFB, byAttr]
    apply scanFB_eq_scanP _ _ _ (scanRoot_mem arg ha) hd
    intro hu k hk
    obtain ⟨m, hl⟩ := Option.isSome_iff_exists.mp hu
    have hmem : a ∈ i.otherFns := (hg.keys a).mpr hu
    rw [hl, Option.getD_some, hi.others a m hmem hl v, matchU_creationOrder]
    exact indexed_child hd _ hk
  exact ⟨key, by rw [key]; simp [idxByAttr]⟩

/-- `getElementsByClassName(…, useIndex=False)`: the base class scans for the first name through the re-entering
    loop (the re-entered call answers from the class map — repeated names included —, restricted to the child),
    then filters by the other names -/
theorem byClassName_fallback {i : Idx} (hg : Good i) {doc : Node} (hi : IdxInv i doc) (hd : doc.Distinct)
    (q : Str) (arg : Option Node) (ha : ∀ r, arg = some r → r ∈ doc.preorder) :
    idxByClassNameFB i doc q arg = byClassName q (.parser doc arg) ∧
    idxByClassNameFB i doc q arg = idxByClassName i doc q arg false := by
  have key : idxByClassNameFB i doc q arg = byClassName q (.parser doc arg) := by
    simp only [idxByClassNameFB, byClassName]
    cases hw : classWords q with
    | nil => rfl
    | cons c rest =>
      simp only
      rw [reenterL_eq_descScanL _ (scanRoot_mem arg ha) hd]
      intro hu k hk
      have hf : i.fnClassNames = true := by rw [hg.sync.2.2.1]; exact hu
      rw [hi.classes hf c, resolve_classRep hd]
      have := classPath_dedup hd c [] false k
      simp only [List.isEmpty_nil, if_true] at this
      rw [this]
      simp only [restrict, Bool.false_eq_true, if_false]
      rw [restrict_desc hd hk]
      exact TC.ofList_items_of_nodup
        (uids_nodup_of_sublist (fil_sublist _ _) (Node.Distinct.desc (distinct_of_mem hd k hk)))
  exact ⟨key, by rw [key]; simp [idxByClassName]⟩

/-- the index branch of a re-entered `getElementById(q, child)`: with the id unique in the document, the first
    match below the child -/
theorem byId_indexed_child {i : Idx} {doc : Node} (hi : IdxInv i doc) (hd : doc.Distinct) (hf : i.fnIDs = true)
    (q : Str) (hq : q ≠ []) (huniq : (fil (pAttr (str "id") q) doc.preorder).length ≤ 1) {k : Node}
    (hk : k ∈ doc.preorder) :
    idIndexedAt i doc q k = (fil (pAttr (str "id") q) k.desc).head? := by
  unfold idIndexedAt
  rw [hi.ids hf q hq, matchU_creationOrder]
  have hdesc : k.desc.Sublist doc.preorder := by
    have := preorder_sublist_of_mem doc k hk
    rw [Node.preorder_eq k] at this
    exact (List.sublist_cons_self _ _).trans this
  have hsub : (fil (pAttr (str "id") q) k.desc).Sublist (fil (pAttr (str "id") q) doc.preorder) := hdesc.filter _
  cases hL : fil (pAttr (str "id") q) doc.preorder with
  | nil =>
    rw [hL] at hsub
    simp [uidsOf, List.sublist_nil.mp hsub]
  | cons a rest =>
    have hrest : rest = [] := by
      rw [hL] at huniq
      simp at huniq
      exact huniq
    subst hrest
    have ha_mem : a ∈ doc.preorder := (fil_sublist _ _).subset (hL ▸ List.mem_cons_self)
    have hfind : doc.find? a.uid = some a := find?_mem a.uid doc hd a ha_mem rfl
    simp only [uidsOf, List.map_cons, List.map_nil, List.getLast?_singleton, Option.bind_some, hfind]
    have := restrict_desc hd hk (pAttr (str "id") q)
    rw [hL] at this
    rw [← this]
    cases hh : hasTagInParentLine doc a.uid k <;> simp [hh]

/-- `getElementById(…, useIndex=False)` (id unique and non-empty — as the property says) -/
theorem byId_fallback {i : Idx} (hg : Good i) {doc : Node} (hi : IdxInv i doc) (hd : doc.Distinct)
    (q : Str) (hq : q ≠ []) (huniq : (fil (pAttr (str "id") q) doc.preorder).length ≤ 1)
    (arg : Option Node) (ha : ∀ r, arg = some r → r ∈ doc.preorder) :
    idxByIdFB i doc q arg = byId q (.parser doc arg) ∧
    idxByIdFB i doc q arg = idxById i doc q arg false := by
  have key : idxByIdFB i doc q arg = byId q (.parser doc arg) := by
    simp only [idxByIdFB, byId, firstP]
    have hr := scanRoot_mem arg ha
    have hH : i.indexIDs = true → ∀ k ∈ doc.preorder,
        idIndexedAt i doc q k = (fil (pAttr (str "id") q) k.desc).head? := by
      intro hu k hk
      have hf : i.fnIDs = true := by rw [hg.sync.1]; exact hu
      exact byId_indexed_child hi hd hf q hq huniq hk
    have := reenterFirstL_eq (root := doc) hH (handleRootArg doc arg).1.kids (kids_mem_of_mem hr)
    rw [this]
    cases hn : (handleRootArg doc arg).1 with
    | mk e ks => simp [descFirst, Node.kids]
  exact ⟨key, by rw [key]; simp [idxById]⟩

/-- `getElementsWithAttrValues(…, useIndex=False)` does not re-enter the override (the base class delegates to the
    element form): this leg of the model is the code's, literally. -/
theorem withAttrValues_fallback (i : Idx) (doc : Node) (a : Str) (vs : List Str) (arg : Option Node) :
    idxWithAttrValues i doc a vs arg false = withAttrValues a vs (.parser doc arg) := by
  simp [idxWithAttrValues]

/-! #### the whole class: a parser in any configuration, after parse or reindex, answers as the plain search -/

theorem addIndexes_good (a b c d : Bool) (attrs : List Str) : Good (attrs.foldl Idx.addIndexOn (Idx.init a b c d)) := by
  have key : ∀ (attrs : List Str) (j : Idx), Good j → Good (attrs.foldl Idx.addIndexOn j) := by
    intro attrs
    induction attrs with
    | nil => intro j h; exact h
    | cons x xs ih => intro j h; exact ih _ (addIndexOn_good h x)
  exact key attrs _ (init_good a b c d)

/-- Right after parsing — all 16 flag combinations, any attribute indexes added before, ANY document (repeated class
    names included) — the state is well formed and the index mirrors the document. -/
theorem after_parse_state (a b c d : Bool) (attrs : List Str) (doc : Node) :
    Good ((attrs.foldl Idx.addIndexOn (Idx.init a b c d)).parse doc) ∧
    IdxInv ((attrs.foldl Idx.addIndexOn (Idx.init a b c d)).parse doc) doc :=
  ⟨parse_good (addIndexes_good a b c d attrs) doc, parse_inv (addIndexes_good a b c d attrs) doc⟩

/-- After any edit history (the document is whatever it is now) and any reconfiguration, `reindex` — with or without
    new flags — re-establishes both. -/
theorem after_reindex_state {i : Idx} (hg : Good i) (doc : Node) (na nb nc nd : Option Bool) :
    Good (i.reindex doc na nb nc nd) ∧ IdxInv (i.reindex doc na nb nc nd) doc :=
  ⟨reindex_good hg doc na nb nc nd, reindex_inv hg doc na nb nc nd⟩

/-- Right after parsing, for all 16 flag combinations, any attribute indexes added before, any query. -/
theorem after_parse (a b c d : Bool) (attrs : List Str) {doc : Node} (hv : Valid doc)
    (q : Str) (arg : Option Node) (ha : ∀ r, arg = some r → r ∈ doc.preorder) (useIndex : Bool) :
    let i := (attrs.foldl Idx.addIndexOn (Idx.init a b c d)).parse doc
    (idxByTagName i doc q arg useIndex).items = (byTagName q (.parser doc arg)).items := by
  intro i
  have hs := after_parse_state a b c d attrs doc
  exact (byTagName_transparent hs.1 hs.2 hv.distinct q arg ha useIndex).1

theorem after_parse_byName (a b c d : Bool) (attrs : List Str) {doc : Node} (hv : Valid doc)
    (q : Str) (hq : q ≠ []) (arg : Option Node) (ha : ∀ r, arg = some r → r ∈ doc.preorder) (useIndex : Bool) :
    let i := (attrs.foldl Idx.addIndexOn (Idx.init a b c d)).parse doc
    (idxByName i doc q arg useIndex).items = (byName q (.parser doc arg)).items ∧
    (idxByName i doc q arg useIndex).items = fil (pAttr (str "name") q) (parserScope doc arg) := by
  intro i
  have hs := after_parse_state a b c d attrs doc
  exact byName_transparent hs.1 hs.2 hv.distinct q hq arg ha useIndex

theorem after_parse_byAttr (a b c d : Bool) (attrs : List Str) {doc : Node} (hv : Valid doc)
    (k v : Str) (arg : Option Node) (ha : ∀ r, arg = some r → r ∈ doc.preorder) (useIndex : Bool) :
    let i := (attrs.foldl Idx.addIndexOn (Idx.init a b c d)).parse doc
    (idxByAttr i doc k v arg useIndex).items = (byAttr k v (.parser doc arg)).items ∧
    (idxByAttr i doc k v arg useIndex).items = fil (pAttr k v) (parserScope doc arg) := by
  intro i
  have hs := after_parse_state a b c d attrs doc
  exact byAttr_transparent hs.1 hs.2 hv.distinct k v arg ha useIndex

/-- class queries: documents with repeated class names included -/
theorem after_parse_byClassName (a b c d : Bool) (attrs : List Str) {doc : Node} (hv : Valid doc)
    (q w : Str) (rest : List Str) (hw : classWords q = w :: rest)
    (arg : Option Node) (ha : ∀ r, arg = some r → r ∈ doc.preorder) (useIndex : Bool) :
    let i := (attrs.foldl Idx.addIndexOn (Idx.init a b c d)).parse doc
    ∃ r, idxByClassName i doc q arg useIndex = some r ∧
      r.items = fil (pAllClasses (w :: rest)) (parserScope doc arg) ∧
      (byClassName q (.parser doc arg)).map TC.items = some r.items := by
  intro i
  have hs := after_parse_state a b c d attrs doc
  exact byClassName_transparent hs.1 hs.2 hv.distinct q w rest hw arg ha useIndex

theorem after_parse_byId (a b c d : Bool) (attrs : List Str) {doc : Node} (hv : Valid doc)
    (q : Str) (hq : q ≠ []) (huniq : (fil (pAttr (str "id") q) doc.preorder).length ≤ 1)
    (arg : Option Node) (ha : ∀ r, arg = some r → r ∈ doc.preorder) (useIndex : Bool) :
    let i := (attrs.foldl Idx.addIndexOn (Idx.init a b c d)).parse doc
    idxById i doc q arg useIndex = byId q (.parser doc arg) ∧
    idxById i doc q arg useIndex = (fil (pAttr (str "id") q) (parserScope doc arg)).head? := by
  intro i
  have hs := after_parse_state a b c d attrs doc
  exact byId_transparent hs.1 hs.2 hv.distinct q hq huniq arg ha useIndex

theorem after_parse_withAttrValues (a b c d : Bool) (attrs : List Str) {doc : Node} (hv : Valid doc)
    (k : Str) (vs : List Str) (arg : Option Node) (ha : ∀ r, arg = some r → r ∈ doc.preorder) (useIndex : Bool) :
    let i := (attrs.foldl Idx.addIndexOn (Idx.init a b c d)).parse doc
    (idxWithAttrValues i doc k vs arg useIndex).ids.Nodup ∧
    ∀ u, u ∈ (idxWithAttrValues i doc k vs arg useIndex).ids ↔ u ∈ uidsOf (fil (pVals k vs) (parserScope doc arg)) := by
  intro i
  have hs := after_parse_state a b c d attrs doc
  exact withAttrValues_transparent hs.1 hs.2 hv.distinct k vs arg ha useIndex

/-- After any edit history (the document is whatever it is now) and any reconfiguration, `reindex` — with
    or without new flags — makes every lookup transparent again. -/
theorem after_reindex {i : Idx} (hg : Good i) {doc : Node} (hv : Valid doc) (na nb nc nd : Option Bool)
    (q : Str) (arg : Option Node) (ha : ∀ r, arg = some r → r ∈ doc.preorder) (useIndex : Bool) :
    (idxByTagName (i.reindex doc na nb nc nd) doc q arg useIndex).items = (byTagName q (.parser doc arg)).items :=
  (byTagName_transparent (reindex_good hg doc na nb nc nd) (reindex_inv hg doc na nb nc nd) hv.distinct
    q arg ha useIndex).1

theorem after_reindex_byName {i : Idx} (hg : Good i) {doc : Node} (hv : Valid doc) (na nb nc nd : Option Bool)
    (q : Str) (hq : q ≠ []) (arg : Option Node) (ha : ∀ r, arg = some r → r ∈ doc.preorder) (useIndex : Bool) :
    (idxByName (i.reindex doc na nb nc nd) doc q arg useIndex).items = (byName q (.parser doc arg)).items ∧
    (idxByName (i.reindex doc na nb nc nd) doc q arg useIndex).items
      = fil (pAttr (str "name") q) (parserScope doc arg) :=
  have hs := after_reindex_state hg doc na nb nc nd
  byName_transparent hs.1 hs.2 hv.distinct q hq arg ha useIndex

theorem after_reindex_byAttr {i : Idx} (hg : Good i) {doc : Node} (hv : Valid doc) (na nb nc nd : Option Bool)
    (k v : Str) (arg : Option Node) (ha : ∀ r, arg = some r → r ∈ doc.preorder) (useIndex : Bool) :
    (idxByAttr (i.reindex doc na nb nc nd) doc k v arg useIndex).items = (byAttr k v (.parser doc arg)).items ∧
    (idxByAttr (i.reindex doc na nb nc nd) doc k v arg useIndex).items = fil (pAttr k v) (parserScope doc arg) :=
  have hs := after_reindex_state hg doc na nb nc nd
  byAttr_transparent hs.1 hs.2 hv.distinct k v arg ha useIndex

theorem after_reindex_byClassName {i : Idx} (hg : Good i) {doc : Node} (hv : Valid doc) (na nb nc nd : Option Bool)
    (q w : Str) (rest : List Str) (hw : classWords q = w :: rest)
    (arg : Option Node) (ha : ∀ r, arg = some r → r ∈ doc.preorder) (useIndex : Bool) :
    ∃ r, idxByClassName (i.reindex doc na nb nc nd) doc q arg useIndex = some r ∧
      r.items = fil (pAllClasses (w :: rest)) (parserScope doc arg) ∧
      (byClassName q (.parser doc arg)).map TC.items = some r.items :=
  have hs := after_reindex_state hg doc na nb nc nd
  byClassName_transparent hs.1 hs.2 hv.distinct q w rest hw arg ha useIndex

theorem after_reindex_byId {i : Idx} (hg : Good i) {doc : Node} (hv : Valid doc) (na nb nc nd : Option Bool)
    (q : Str) (hq : q ≠ []) (huniq : (fil (pAttr (str "id") q) doc.preorder).length ≤ 1)
    (arg : Option Node) (ha : ∀ r, arg = some r → r ∈ doc.preorder) (useIndex : Bool) :
    idxById (i.reindex doc na nb nc nd) doc q arg useIndex = byId q (.parser doc arg) ∧
    idxById (i.reindex doc na nb nc nd) doc q arg useIndex
      = (fil (pAttr (str "id") q) (parserScope doc arg)).head? :=
  have hs := after_reindex_state hg doc na nb nc nd
  byId_transparent hs.1 hs.2 hv.distinct q hq huniq arg ha useIndex

theorem after_reindex_withAttrValues {i : Idx} (hg : Good i) {doc : Node} (hv : Valid doc) (na nb nc nd : Option Bool)
    (k : Str) (vs : List Str) (arg : Option Node) (ha : ∀ r, arg = some r → r ∈ doc.preorder) (useIndex : Bool) :
    (idxWithAttrValues (i.reindex doc na nb nc nd) doc k vs arg useIndex).ids.Nodup ∧
    ∀ u, u ∈ (idxWithAttrValues (i.reindex doc na nb nc nd) doc k vs arg useIndex).ids ↔
         u ∈ uidsOf (fil (pVals k vs) (parserScope doc arg)) :=
  have hs := after_reindex_state hg doc na nb nc nd
  withAttrValues_transparent hs.1 hs.2 hv.distinct k vs arg ha useIndex

/-- the `useIndex=False` leg after parse, as the code has it, for every class query (the other four likewise by
    `by*_fallback` with `after_parse_state`) -/
theorem after_parse_fallback (a b c d : Bool) (attrs : List Str) {doc : Node} (hv : Valid doc)
    (q : Str) (arg : Option Node) (ha : ∀ r, arg = some r → r ∈ doc.preorder) :
    let i := (attrs.foldl Idx.addIndexOn (Idx.init a b c d)).parse doc
    idxByTagNameFB i doc q arg = byTagName q (.parser doc arg) ∧
    idxByClassNameFB i doc q arg = byClassName q (.parser doc arg) ∧
    (∀ v, idxByAttrFB i doc q v arg = byAttr q v (.parser doc arg)) := by
  intro i
  have hs := after_parse_state a b c d attrs doc
  exact ⟨(byTagName_fallback hs.1 hs.2 hv.distinct q arg ha).1, (byClassName_fallback hs.1 hs.2 hv.distinct q arg ha).1,
    fun v => (byAttr_fallback hs.1 hs.2 hv.distinct q v arg ha).1⟩

/-! #### Non-vacuity -/
section Examples
open C06
def cfgX : Idx := ((Idx.init true true true true).addIndexOn (str "title")).parse docX

example : docX.Distinct ∧ ClassesNodup docX := by
  refine ⟨by unfold Node.Distinct; decide, ?_⟩
  intro e he
  simp only [creationOrder, creationOrderL, docX, List.mem_cons, List.append_nil, List.mem_nil_iff, or_false] at he
  rcases he with rfl | rfl | rfl <;> decide
example : (idxByTagName cfgX docX (str "p") none true).ids = [1, 2] := by decide
example : (idxByClassName cfgX docX (str "b  a") (some (.mk eB [.mk eC []])) true).map TC.ids = some [2] := by decide
example : (idxById cfgX docX (str "r") none true).map Node.uid = some 0 := by decide

/-- a document with repeated class names (`<div class="a a"><p class="b a b"><p class="a"></p></p></div>`): it is
    `Valid`, the class map lists an element once per occurrence, the lookups list it once -/
def eR0 : Elem := ⟨0, str "div", [(str "id", str "r")], [str "a", str "a"], []⟩
def eR1 : Elem := ⟨1, str "p", [], [str "b", str "a", str "b"], []⟩
def eR2 : Elem := ⟨2, str "p", [], [str "a"], []⟩
def docR : Node := .mk eR0 [.mk eR1 [.mk eR2 []]]
def cfgR : Idx := (Idx.init true true true true).parse docR
example : Valid docR := ⟨by unfold Node.Distinct; decide⟩
example : ¬ ClassesNodup docR := by
  intro h
  exact absurd (h eR0 (by simp [creationOrder, docR])) (by decide)
example : assocGet cfgR.classNameMap (str "a") = [0, 0, 1, 2] ∧ assocGet cfgR.classNameMap (str "b") = [1, 1] := by decide
example : (idxByClassName cfgR docR (str "a") none true).map TC.ids = some [0, 1, 2] := by decide
example : (idxByClassName cfgR docR (str "a b") none true).map TC.ids = some [1] := by decide
example : (idxByClassName cfgR docR (str "a") (some (.mk eR1 [.mk eR2 []])) true).map TC.ids = some [2] := by decide
/-- the `useIndex=False` leg as the code runs it (re-entering the index below the first level), on the same document -/
example : (idxByClassNameFB cfgR docR (str "a") none).map TC.ids = some [0, 1, 2] := by decide
example : (idxByTagNameFB cfgR docR (str "p") none).ids = [1, 2] := by decide
example : (idxByIdFB cfgR docR (str "r") none).map Node.uid = some 0 := by decide
/-- … and with a STALE index (`IdxInv` fails: the maps were built for another document) the code's leg is not the plain
    scan — the hypothesis of `*_fallback` is needed, the leg is not definitional in the code -/
example : (idxByTagNameFB ((Idx.init true true true true).parse (.mk eR0 [])) docR (str "p") none).ids = [1]
    ∧ (byTagName (str "p") (.parser docR none)).ids = [1, 2] := by decide
end Examples

end AHP.C07
