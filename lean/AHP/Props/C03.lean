/-
  C03 — Parsing is total.

  What a theorem can carry here is the library's share: its handlers, the retry inside the wrapper, the
  number of handler invocations.  The tokenizer is a parameter: the statements quantify over EVERY token
  sequence (arbitrary, hostile, no well-formedness).  The stdlib tokenizer's own totality and running time,
  and the real debugger prompt, are observed in the tie (stream C03), not proved.  Serialisers
  (`Node.html`, `docHTML`) are total Lean functions over every tree, including `None` attribute values and
  odd tag names; that the Python serialisers are total on the same trees is the tie's part.
-/
import AHP.Lemmas.BuilderTop
namespace AHP.C03
open AHP AHP.Spec

/-- **C03a.** Whatever the token, a handler of the plain parser either succeeds or raises
    MultipleRootNodeException — nothing else (no index error on an empty stack, no other exception). -/
theorem step_ok_or_multipleRoot (s : TState) (t : Token) :
    (∃ s', stepT s t = .ok s') ∨ stepT s t = .multipleRoot := by
  cases t with
  | decl d => exact Or.inl ⟨s, rfl⟩
  | unknownDecl d => exact Or.inl ⟨s, rfl⟩
  | pi d => exact Or.inl ⟨s, rfl⟩
  | end_ n => exact Or.inl ⟨_, rfl⟩
  | comment c => simp only [stepT, addTextStrict]; split <;> simp
  | entity c => simp only [stepT, addTextStrict]; split <;> simp
  | charref c => simp only [stepT, addTextStrict]; split <;> simp
  | start n a => simp only [stepT, handleStart]; split <;> (try split) <;> simp
  | startend n a => simp only [stepT, handleStart]; split <;> (try split) <;> simp
  | data d => simp only [stepT]; split <;> (try split) <;> (try split) <;> simp

theorem run_ok_or_multipleRoot (ts : List Token) : ∀ s : TState,
    (∃ s', runT s ts = .ok s') ∨ runT s ts = .multipleRoot := by
  induction ts with
  | nil => intro s; exact Or.inl ⟨s, rfl⟩
  | cons t ts ih =>
    intro s
    rcases step_ok_or_multipleRoot s t with ⟨s', h⟩ | h
    · simp only [runT, h]; exact ih s'
    · right; simp [runT, h]

/-- inside an open element no handler raises -/
theorem step_inside_ok (s : TState) (h : s.stack ≠ []) (t : Token) : ∃ s', stepT s t = .ok s' := by
  rcases step_ok_or_multipleRoot s t with h1 | h1
  · exact h1
  · exfalso
    have hst : s.stack.isEmpty = false := by
      cases hs : s.stack with
      | nil => exact absurd hs h
      | cons f fs => rfl
    cases t <;> simp [stepT, addTextStrict, handleStart, hst] at h1
    all_goals (split at h1 <;> simp_all)

/-- the rest left by `items` is a suffix of its input -/
theorem items_rest_suffix (k : Nat) : ∀ (open_ : List Str) (ts : List Token), ts.length < k →
    ∃ pre, ts = pre ++ (items k open_ ts).2 := by
  induction k with
  | zero => intro _ ts h; simp at h
  | succ k ih =>
    intro open_ ts hk
    cases ts with
    | nil => exact ⟨[], by simp [items]⟩
    | cons t ts =>
      have hk' : ts.length < k := by simp at hk; omega
      have hg : ∃ pre, t :: ts = pre ++ (items k open_ ts).2 := by
        obtain ⟨pre, hp⟩ := ih open_ ts hk'
        exact ⟨t :: pre, by rw [List.cons_append, ← hp]⟩
      cases t with
      | end_ n =>
        simp only [items]
        split
        · exact ⟨[], rfl⟩
        · exact hg
      | startend n a => simp only [items]; exact hg
      | decl d => simp only [items, textOf]; exact hg
      | unknownDecl d => simp only [items, textOf]; exact hg
      | pi d => simp only [items, textOf]; exact hg
      | comment d => simp only [items, textOf]; exact hg
      | entity d => simp only [items, textOf]; exact hg
      | charref d => simp only [items, textOf]; exact hg
      | data d => simp only [items, textOf]; split <;> exact hg
      | start n a =>
        simp only [items]
        split
        · exact hg
        · obtain ⟨pre1, hp1⟩ := ih (lower n :: open_) ts hk'
          have hl := (items_rest k (lower n :: open_) ts hk').2
          have hl2 := afterContent_len (lower n) (items k (lower n :: open_) ts).2
          obtain ⟨pre2, hp2⟩ := ih open_ (afterContent (lower n) (items k (lower n :: open_) ts).2) (by omega)
          have hac : ∃ pre3, (items k (lower n :: open_) ts).2
              = pre3 ++ afterContent (lower n) (items k (lower n :: open_) ts).2 := by
            unfold afterContent
            split
            · split
              · rename_i heq _; exact ⟨[_], by rw [heq]; rfl⟩
              · exact ⟨[], rfl⟩
            · exact ⟨[], rfl⟩
          obtain ⟨pre3, hp3⟩ := hac
          refine ⟨.start n a :: pre1 ++ pre3 ++ pre2, ?_⟩
          simp only [List.cons_append, List.append_assoc]
          rw [← hp2, ← hp3, ← hp1]

private theorem mem_of_append_singleton_eq (e x : Token) : ∀ (pre ts r3 : List Token),
    ts ++ [e] = pre ++ e :: x :: r3 → e ∈ ts := by
  intro pre
  induction pre with
  | nil =>
    intro ts r3 h
    cases ts with
    | nil => simp at h
    | cons t ts' => simp at h; rw [h.1]; exact List.mem_cons_self
  | cons p pre' ih =>
    intro ts r3 h
    cases ts with
    | nil =>
      have := congrArg List.length h
      simp at this
    | cons t ts' =>
      simp only [List.cons_append, List.cons.injEq] at h
      exact List.mem_cons_of_mem _ (ih ts' r3 h.2)

/-- no end tag of the wrapper inside the input -/
def NoWrapperEnd (ts : List Token) : Prop := ∀ t ∈ ts, t ≠ Token.end_ wrapperName

/-- **C03b.** The single retry suffices: inside the wrapper, any token sequence without the wrapper's own
    end tag — however hostile — is parsed without MultipleRootNodeException (and by C03a without any other
    exception). -/
theorem wrapped_never_fails (ts : List Token) (hw : NoWrapperEnd ts) :
    ∃ s', runT TState.init (.start wrapperName [] :: ts ++ [.end_ wrapperName]) = .ok s' := by
  let s1 : TState := ⟨[⟨wrapperName, AttrState.empty, []⟩], none⟩
  have hs : stepT TState.init (.start wrapperName []) = .ok s1 := by
    simp [stepT, handleStart, TState.init, TState.hasRoot, wrapper_lower, wrapper_not_void, intake, s1]
  let l := ts ++ [Token.end_ wrapperName]
  let K := l.length + 1
  have hK : l.length < K := Nat.lt_succ_self _
  have hitems := runT_items K s1 l hK (by simp [s1])
  have hnames : names s1 = [wrapperName] := rfl
  rw [hnames] at hitems
  have hfin : ∃ s', (runT s1 l).fin = .ok s' := by
    rw [hitems]
    rcases (items_rest K [wrapperName] l hK).1 with hnil | ⟨m, r2, hm, hmem⟩
    · rw [hnil]; exact ⟨_, rfl⟩
    · have hmw : m = wrapperName := by simpa using hmem
      subst hmw
      -- the rest is a suffix of `ts ++ [end W]` that starts with `end W`: it is the last token
      obtain ⟨pre, hpre⟩ := items_rest_suffix K [wrapperName] l hK
      rw [hm] at hpre
      have hr2 : r2 = [] := by
        cases hr : r2 with
        | nil => rfl
        | cons x r3 =>
          exfalso
          rw [hr] at hpre
          -- `end W` then occurs strictly before the end of `l`, i.e. inside `ts`
          have hmemts : Token.end_ wrapperName ∈ ts := mem_of_append_singleton_eq _ _ _ _ _ hpre
          exact hw _ hmemts rfl
      rw [hm, hr2]
      have hs1 : s1 = { (⟨[], none⟩ : TState) with stack := ⟨wrapperName, AttrState.empty, []⟩ :: (⟨[], none⟩ : TState).stack } := rfl
      have hclose := stepT_close_own ⟨[], none⟩ wrapperName AttrState.empty (items K [wrapperName] l).1
      rw [← hs1] at hclose
      simp only [runT, hclose]
      exact ⟨_, rfl⟩
  obtain ⟨s', hs'⟩ := hfin
  have : ∃ s'', runT s1 l = .ok s'' := by
    rcases run_ok_or_multipleRoot l s1 with h | h
    · exact h
    · rw [h] at hs'; simp [Outcome.fin] at hs'
  obtain ⟨s'', h''⟩ := this
  exact ⟨s'', by simp only [List.cons_append, runT, hs]; exact h''⟩

/-- **C03d.** The library's share of the time bound: a parse hands at most `2·|tokens| + 2` tokens to
    its handlers (one pass, plus at most one retry over the same tokens and the wrapper's two tags). -/
def handlerInvocations (toks : List Token) : Nat :=
  toks.length + (match run BState.init toks with
    | .multipleRoot => (wrapToks toks).length
    | _ => 0)

theorem wrapToks_length (toks : List Token) : (wrapToks toks).length = toks.length + 2 := by
  unfold wrapToks
  cases h : leadDoctype toks with
  | none => simp
  | some p =>
    obtain ⟨pre, r⟩ := p
    have htoks : toks = pre ++ r := by
      unfold leadDoctype at h
      split at h
      · simp at h; rw [← h.1, ← h.2]; rfl
      · split at h
        · simp at h; rw [← h.1, ← h.2]; rfl
        · simp at h
      · simp at h
    rw [htoks]; simp; omega

theorem invocations_linear (toks : List Token) : handlerInvocations toks ≤ 2 * toks.length + 2 := by
  unfold handlerInvocations
  split
  · rw [wrapToks_length]; omega
  · omega

/-- **C03 (first pass).** For every token sequence the first pass ends in a document or in
    MultipleRootNodeException; in the second case the retry is taken (`feedTokens` is a total function whose
    only other results would be the validating parser's exceptions, which the plain handlers never produce). -/
theorem feed_never_other_exception (toks : List Token) :
    (∃ d b, feedTokens toks = .doc d b) ∨ feedTokens toks = .raised .multipleRoot := by
  unfold feedTokens
  have h1 := run_ok_or_multipleRoot toks TState.init
  have hrun : run BState.init toks = (runT TState.init toks).map (fun tr => ⟨tr, toks.foldl stepD none⟩) :=
    run_eq toks BState.init
  rcases h1 with ⟨s', h⟩ | h
  · left
    rw [hrun, h]
    exact ⟨_, _, rfl⟩
  · rw [hrun, h]
    simp only [Outcome.map]
    have h2 := run_ok_or_multipleRoot (wrapToks toks) TState.init
    have hrun2 : run BState.init (wrapToks toks)
        = (runT TState.init (wrapToks toks)).map (fun tr => ⟨tr, (wrapToks toks).foldl stepD none⟩) :=
      run_eq (wrapToks toks) BState.init
    rw [hrun2]
    rcases h2 with ⟨s', h⟩ | h
    · left; rw [h]; exact ⟨_, _, rfl⟩
    · right; rw [h]; rfl

/-! #### Non-vacuity -/
example : NoWrapperEnd [.end_ "a".toList, .data "x".toList, .start "b<".toList [("/div".toList, none)]] := by
  intro t ht; simp at ht; rcases ht with h | h | h <;> subst h <;> decide

end AHP.C03
